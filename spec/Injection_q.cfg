SPECIFICATION Spec
CONSTANTS
  MaxExpr = 1
  MaxNest = 1
  Shape = "closed"
  Emit = TRUE
INVARIANTS ContextClosed Threshold CountsMatch
