SPECIFICATION Spec
CONSTANTS
  MaxOps = 2
  OpSet = "all"
  Emit = TRUE
INVARIANTS RoundTrip ParenOnlyAdds
