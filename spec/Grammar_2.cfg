SPECIFICATION Spec
CONSTANTS
  MaxOps = 2
  OpSet = "all"
  Atoms = "simple"
  Emit = TRUE
INVARIANTS RoundTrip ParenOnlyAdds
