SPECIFICATION Spec
CONSTANTS
  MaxExpr = 1
  MaxNest = 2
  Shape = "closed"
  Emit = TRUE
INVARIANTS ContextClosed Threshold CountsMatch
