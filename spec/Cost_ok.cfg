SPECIFICATION Spec
CONSTANTS
  N = 64
  K = 4
  PosShape = "cached"
  SerShape = "builder"
  Emit = TRUE
INVARIANTS NearLinear
