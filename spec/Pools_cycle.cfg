SPECIFICATION Spec
CONSTANTS
  Shape = "ideal"
  Emit = TRUE
  Slots = {"s1", "s2"}
  MaxSteps = 0
  UseKinds = {}
  Machine = "cycle"
INVARIANTS CleanAfterGet CleanInPoolC

