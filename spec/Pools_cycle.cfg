SPECIFICATION Spec
CONSTANTS
  Shape = "ideal"
  Emit = TRUE
  Slots = {"s1", "s2"}
  MaxSteps = 0
  Machine = "cycle"
INVARIANTS CleanAfterGet CleanInPoolC

