SPECIFICATION Spec
POSTCONDITION TraceAccepted
