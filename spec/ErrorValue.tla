----------------------------- MODULE ErrorValue -----------------------------
(***************************************************************************)
(* What a failing call returns, as a value: a root error created at the    *)
(* stage that failed, and the layers the returning frames put around it.   *)
(*   root   [structured, family, located]  - built by a builder of         *)
(*          pkg/errors (structured, with the family of the stage) or by a  *)
(*          bare fmt.Errorf (Shape = "pinned")                             *)
(*   layer  "wrap" (%w, Unwrap: the cause stays reachable) or "flat"       *)
(*          (%v / err.Error(): the cause is lost; Shape = "pinned")        *)
(* Stages: size and tokens (limits), lex, parse, depth (nesting limit),    *)
(* empty (the input holds no statement: empty, blank, semicolons or a      *)
(* comment only), cancel (the context's error is the root), nested (a      *)
(* grammar problem inside a construct whose own parser reports "error      *)
(* parsing <construct>" WITH the inner diagnostic as its cause: the root   *)
(* is then a chain of two structured errors).                              *)
(*   layer  "rebuild" (Shape = "rebuilt"): a frame copies code, message    *)
(*          and location of the first structured error into a new error    *)
(*          and returns that - what was under it is cut off                *)
(* Between the two runs of a call ANOTHER call happens - any entry point,  *)
(* failing in any stage or succeeding.  Shape = "shared-root": the error   *)
(* of the empty stage is one shared object into which position-tracking   *)
(* entry points write their location, so what a run returns depends on the *)
(* call before it.                                                         *)
(* Properties (C13):                                                       *)
(*   Reachable      errors.As finds a structured error on every failure    *)
(*                  except cancellation, where errors.Is finds the         *)
(*                  context's error                                        *)
(*   FamilyOfStage  its code belongs to the family of the failing stage    *)
(*   Reproducible   a second run on the same input returns an equal value  *)
(*   CausesKept     every structured error of the root's chain is still    *)
(*                  reachable from the value the entry point returns       *)
(* Every (entry point, stage) pair is printed with the expected family;    *)
(* the driver concretises the stage by inputs of that class and checks the *)
(* real error values.                                                      *)
(***************************************************************************)
EXTENDS Integers, Sequences, FiniteSets, TLC, Json

CONSTANTS Shape, Emit

Stages == {"size", "tokens", "lex", "parse", "depth", "empty", "cancel", "nested"}
\* what the call between the two runs does: fails in a stage (the limit stages are left to the first call) or succeeds
BetweenStages == (Stages \ {"size", "tokens"}) \cup {"accept"}
EntryPoints == {"Tokenizer.Tokenize", "gosqlx.Parse", "gosqlx.ParseBytes", "gosqlx.ParseWithContext", "gosqlx.ParseWithTimeout",
                "gosqlx.ParseMultiple", "gosqlx.Validate", "gosqlx.ValidateMultiple", "gosqlx.ParseWithRecovery",
                "parser.ParseBytes", "parser.Validate", "parser.ParseBytesWithTokens", "parser.ParseWithDialect",
                "Parser.Parse", "Parser.ParseContext", "Parser.ParseWithPositions"}
\* which stages an entry point can fail in
CanFail(ep, st) == /\ (st = "cancel" => ep \in {"gosqlx.ParseWithContext", "gosqlx.ParseWithTimeout", "Parser.ParseContext"})
                   /\ (ep = "Tokenizer.Tokenize" => st \in {"size", "tokens", "lex"})
                   /\ (ep \in {"Parser.Parse", "Parser.ParseContext", "Parser.ParseWithPositions"} => st \in {"parse", "depth", "empty", "cancel", "nested"})
Family(st) == CASE st \in {"size", "tokens"} -> "limit" [] st = "lex" -> "tokenizer" [] st \in {"parse", "depth", "empty", "nested"} -> "parser" [] OTHER -> "context"
Tracking == {"Parser.ParseWithPositions"}      \* entry points that put their own position into the errors they return

NoRoot == [structured |-> FALSE, family |-> "none", loc |-> "none", chain |-> 0]
ChainOf(st) == IF st = "nested" THEN 2 ELSE 1      \* structured errors in the chain the failing stage builds
VARIABLES ep, stage, run, root, layers, first,
          between,      \* the call made between the two runs: <<entry point, stage>>
          sentinel      \* shape "shared-root": who last wrote a location into the shared error of the empty stage
vars == <<ep, stage, run, root, layers, first, between, sentinel>>

Init == /\ ep \in EntryPoints /\ stage \in Stages /\ CanFail(ep, stage)
        /\ run = 1 /\ root = NoRoot /\ layers = <<>> /\ first = [root |-> NoRoot, layers |-> <<>>]
        /\ between = <<"none", "none">> /\ sentinel = "unset"

\* the location a root carries: its own call's, except for the shared error of the empty stage
Writes(e, st) == Shape = "shared-root" /\ st = "empty" /\ e \in Tracking
LocOf(e, st) == IF Shape = "shared-root" /\ st = "empty" THEN (IF e \in Tracking THEN e ELSE sentinel) ELSE "own"
Fail == /\ root = NoRoot
        /\ \E structured \in (IF Shape = "pinned" THEN BOOLEAN ELSE {TRUE}) :
              root' = [structured |-> (structured /\ stage # "cancel"), family |-> Family(stage), loc |-> LocOf(ep, stage),
                       chain |-> IF stage = "cancel" THEN 0 ELSE ChainOf(stage)]
        /\ sentinel' = IF Writes(ep, stage) THEN ep ELSE sentinel
        /\ UNCHANGED <<ep, stage, run, layers, first, between>>
Return == /\ root # NoRoot /\ Len(layers) < 3
          /\ \E k \in (CASE Shape = "pinned" -> {"wrap", "flat"} [] Shape = "rebuilt" -> {"wrap", "rebuild"} [] OTHER -> {"wrap"}) : layers' = Append(layers, k)
          /\ UNCHANGED <<ep, stage, run, root, first, between, sentinel>>
Value == [root |-> root, layers |-> layers]
\* the call returns; another call happens; a second run on the same input starts
Again == /\ root # NoRoot /\ run = 1
         /\ \E e2 \in EntryPoints, s2 \in BetweenStages :
               /\ (s2 # "accept" => CanFail(e2, s2))
               /\ between' = <<e2, s2>>
               /\ sentinel' = IF Writes(e2, s2) THEN e2 ELSE sentinel
               /\ (Emit => PrintT(ToJson([ep |-> ep, stage |-> stage, family |-> Family(stage), ep2 |-> e2, stage2 |-> s2])))
         /\ first' = Value /\ run' = 2 /\ root' = NoRoot /\ layers' = <<>>
         /\ UNCHANGED <<ep, stage>>
Next == Fail \/ Return \/ Again
Spec == Init /\ [][Next]_vars

Lost == \E k \in 1..Len(layers) : layers[k] = "flat"
Reachable == (root # NoRoot) => /\ ~Lost
                                /\ (stage # "cancel" => root.structured)
FamilyOfStage == (root # NoRoot) => root.family = Family(stage)
\* the number of layers is the entry point's business; the root and its reachability are the input's
Reproducible == (run = 2 /\ root # NoRoot) => (root = first.root)
\* structured errors reachable from the returned value: none through a flat layer, only the copied top one through a rebuild
Rebuilt == \E k \in 1..Len(layers) : layers[k] = "rebuild"
ReachableChain == IF Lost THEN 0 ELSE IF Rebuilt THEN (IF root.chain > 0 THEN 1 ELSE 0) ELSE root.chain
CausesKept == (root # NoRoot /\ ~Lost) => ReachableChain = root.chain
=============================================================================
