----------------------------- MODULE ErrorValue -----------------------------
(***************************************************************************)
(* What a failing call returns, as a value: a root error created at the    *)
(* stage that failed, and the layers the returning frames put around it.   *)
(*   root   [structured, family, located]  - built by a builder of         *)
(*          pkg/errors (structured, with the family of the stage) or by a  *)
(*          bare fmt.Errorf (Shape = "pinned")                             *)
(*   layer  "wrap" (%w, Unwrap: the cause stays reachable) or "flat"       *)
(*          (%v / err.Error(): the cause is lost; Shape = "pinned")        *)
(* Stages: size and tokens (limits), lex, parse, depth (nesting limit),    *)
(* cancel (the context's error is the root).                               *)
(* Properties (C13):                                                       *)
(*   Reachable      errors.As finds a structured error on every failure    *)
(*                  except cancellation, where errors.Is finds the         *)
(*                  context's error                                        *)
(*   FamilyOfStage  its code belongs to the family of the failing stage    *)
(*   Reproducible   a second run on the same input returns an equal value  *)
(* Every (entry point, stage) pair is printed with the expected family;    *)
(* the driver concretises the stage by inputs of that class and checks the *)
(* real error values.                                                      *)
(***************************************************************************)
EXTENDS Integers, Sequences, FiniteSets, TLC, Json

CONSTANTS Shape, Emit

Stages == {"size", "tokens", "lex", "parse", "depth", "cancel"}
EntryPoints == {"Tokenizer.Tokenize", "gosqlx.Parse", "gosqlx.ParseBytes", "gosqlx.ParseWithContext", "gosqlx.ParseWithTimeout",
                "gosqlx.ParseMultiple", "gosqlx.Validate", "gosqlx.ValidateMultiple", "gosqlx.ParseWithRecovery",
                "parser.ParseBytes", "parser.Validate", "parser.ParseBytesWithTokens", "parser.ParseWithDialect",
                "Parser.Parse", "Parser.ParseContext", "Parser.ParseWithPositions"}
\* which stages an entry point can fail in
CanFail(ep, st) == /\ (st = "cancel" => ep \in {"gosqlx.ParseWithContext", "gosqlx.ParseWithTimeout", "Parser.ParseContext"})
                   /\ (ep = "Tokenizer.Tokenize" => st \in {"size", "tokens", "lex"})
                   /\ (ep \in {"Parser.Parse", "Parser.ParseContext", "Parser.ParseWithPositions"} => st \in {"parse", "depth", "cancel"})
Family(st) == CASE st \in {"size", "tokens"} -> "limit" [] st = "lex" -> "tokenizer" [] st \in {"parse", "depth"} -> "parser" [] OTHER -> "context"

NoRoot == [structured |-> FALSE, family |-> "none"]
VARIABLES ep, stage, run, root, layers, first
vars == <<ep, stage, run, root, layers, first>>

Init == /\ ep \in EntryPoints /\ stage \in Stages /\ CanFail(ep, stage)
        /\ run = 1 /\ root = NoRoot /\ layers = <<>> /\ first = [root |-> NoRoot, layers |-> <<>>]

Fail == /\ root = NoRoot
        /\ \E structured \in (IF Shape = "pinned" THEN BOOLEAN ELSE {TRUE}) :
              root' = [structured |-> (structured /\ stage # "cancel"), family |-> Family(stage)]
        /\ UNCHANGED <<ep, stage, run, layers, first>>
Return == /\ root # NoRoot /\ Len(layers) < 3
          /\ \E k \in (IF Shape = "pinned" THEN {"wrap", "flat"} ELSE {"wrap"}) : layers' = Append(layers, k)
          /\ UNCHANGED <<ep, stage, run, root, first>>
Value == [root |-> root, layers |-> layers]
\* the call returns; a second run on the same input starts
Again == /\ root # NoRoot /\ run = 1
         /\ first' = Value /\ run' = 2 /\ root' = NoRoot /\ layers' = <<>>
         /\ (Emit => PrintT(ToJson([ep |-> ep, stage |-> stage, family |-> Family(stage)])))
         /\ UNCHANGED <<ep, stage>>
Next == Fail \/ Return \/ Again
Spec == Init /\ [][Next]_vars

Lost == \E k \in 1..Len(layers) : layers[k] = "flat"
Reachable == (root # NoRoot) => /\ ~Lost
                                /\ (stage # "cancel" => root.structured)
FamilyOfStage == (root # NoRoot) => root.family = Family(stage)
\* the number of layers is the entry point's business; the root and its reachability are the input's
Reproducible == (run = 2 /\ root # NoRoot) => (root = first.root)
=============================================================================
