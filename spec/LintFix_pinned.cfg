SPECIFICATION Spec
CONSTANTS
  MaxSegs = 2
  Seps = {"sp", "sp2", "tab", "nl", "nlIndent", "nlTab", "nlMixed", "blank3", "trail", "crlf", "blank3crlf", "trailcrlf"}
  Shape = "line-based"
  Emit = FALSE
INVARIANTS PreservesTokens Idempotent CleanAfterFix
