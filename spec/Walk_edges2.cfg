SPECIFICATION Spec
CONSTANTS
  Machine = "edges"
  N = 1
  Depth = 2
  Emit = TRUE
  Shape = "ideal"
INVARIANTS EdgeReached PathWellFormed
