------------------------------- MODULE Pools -------------------------------
(***************************************************************************)
(* The node pools of pkg/sql/ast: ownership of nodes, cleanliness of       *)
(* pooled nodes, and the stability of what callers hold.                   *)
(*                                                                         *)
(* PooledTypes, FieldsOf and SyncPoolVars are EXTRACTED from pool.go and   *)
(* the struct declarations of the working tree on every run                *)
(* (spec/gen/PoolSchema.tla), so a new pool or a new field enlarges the    *)
(* explored space by itself.                                               *)
(*                                                                         *)
(* Two machines share the module.                                          *)
(* Cycle machine (one behaviour per pooled type T and field f):            *)
(*     Populate(T, f) ; Put ; Get        Get must return a node whose      *)
(*     every field is zero (CleanAfterGet)                                 *)
(* History machine: slots hold parsed trees; Parse draws some nodes from   *)
(* the pools, Release returns a tree's nodes to the pools after cleaning,  *)
(* ClientGet hands a pooled node to a caller who writes into it.           *)
(*     NoAliasing    no node is in a pool while reachable from a held tree *)
(*                   or held by two owners                                 *)
(*     CleanInPool   every pooled node is clean                            *)
(*     SnapshotStable  a step changes the content of no held tree except   *)
(*                   the one it releases (action property)                 *)
(* Use(s, u): the caller hands what it holds back to the library - its    *)
(* token slice (whole, or a window of it that does not end in the end      *)
(* marker) to the token-level parse entry points, its tree to the scanner, *)
(* the serialisers, the extractors and the walker.  These read; Shape =    *)
(* "writes-through" is a library that completes a token window in place.   *)
(* Whether a returned slice shares storage with something the library      *)
(* keeps can depend on how its length relates to buffer capacities; the    *)
(* driver therefore instantiates the two-step history "tokenize x and hold *)
(* the tokens; tokenize y on the same instance" with an x of EVERY token   *)
(* count up to a bound (the size sweep), which no enumeration of statement *)
(* kinds can cover.                                                        *)
(* Shape = "pinned": Put leaves the listed fields untouched (the pinned    *)
(* commit), Shape = "ideal": Put clears every field.                       *)
(***************************************************************************)
EXTENDS Integers, Sequences, FiniteSets, TLC, Json, PoolSchema

CONSTANTS Shape, Emit, Slots, MaxSteps, Machine,   \* Machine = "cycle" | "history"
          UseKinds                                  \* the ways a held value is handed back to the library (history machine)

\* fields the pinned commit does not clear (transcribed from reading pool.go; only used to show that TLC sees it)
PinnedDirty == [ty \in PooledTypes |->
    CASE ty = "SelectStatement" -> {"Distinct", "From", "Joins", "GroupBy", "Having", "With", "DistinctOnColumns", "Windows"}
      [] ty = "BinaryExpression" -> {"Not", "CustomOp"}
      [] ty = "Identifier" -> {"Table"}
      [] ty = "FunctionCall" -> {"OrderBy", "WithinGroup"}
      [] OTHER -> {}]

VARIABLES ty, fld, size, node,  \* cycle machine: the node under test: [where, dirty (set of non-zero fields)]
          owner, dirtyOf, held, version, nextId, steps, hist,
          dup                   \* history machine: nodes with a SECOND entry in their pool (released twice)
vars == <<ty, fld, size, node, owner, dirtyOf, held, version, nextId, steps, hist, dup>>

\* how much content the populated field holds: a couple of elements, more than any small retention threshold
\* (64), more than the release work-queue bound (1000)
Sizes == {"few", "many", "huge"}

\* ---- cycle machine ---------------------------------------------------------------------------------
CInit == /\ Machine = "cycle"
         /\ ty \in PooledTypes /\ fld \in FieldsOf(ty)
         /\ size \in Sizes /\ (size # "few" => fld \in SliceFieldsOf(ty))
         /\ node = [where |-> "fresh", dirty |-> {}]
         /\ owner = <<>> /\ dirtyOf = <<>> /\ held = <<>> /\ version = <<>> /\ nextId = 0 /\ steps = 0 /\ hist = <<>> /\ dup = {}
Populate == /\ node.where = "fresh" /\ node' = [where |-> "client", dirty |-> {fld}] /\ UNCHANGED <<ty, fld, size, owner, dirtyOf, held, version, nextId, steps, hist, dup>>
CPut == /\ node.where = "client" /\ node.dirty # {}
        /\ node' = [where |-> "pool", dirty |-> IF Shape = "pinned" THEN node.dirty \cap PinnedDirty[ty] ELSE {}]
        /\ UNCHANGED <<ty, fld, size, owner, dirtyOf, held, version, nextId, steps, hist, dup>>
CGet == /\ node.where = "pool" /\ node' = [node EXCEPT !.where = "got"]
        /\ (Emit => PrintT(ToJson([type |-> ty, field |-> fld, size |-> size])))
        /\ UNCHANGED <<ty, fld, size, owner, dirtyOf, held, version, nextId, steps, hist, dup>>
CNext == Populate \/ CPut \/ CGet
CleanAfterGet == node.where = "got" => node.dirty = {}
CleanInPoolC == node.where = "pool" => node.dirty = {}

\* ---- history machine ---------------------------------------------------------------------------------
\* nodes are numbered; owner[n] is "pool", "client" or a slot; held[s] is the set of nodes of slot s's tree;
\* version[s] counts the writes that hit the nodes of slot s since it was parsed (0 = untouched)
Kinds == {"select", "insert", "tuple"}
Ids == 1..nextId
HInit == /\ Machine = "history"
         /\ ty = "none" /\ fld = "none" /\ size = "few" /\ node = [where |-> "none", dirty |-> {}]
         /\ owner = <<>> /\ dirtyOf = <<>> /\ nextId = 0 /\ steps = 0 /\ hist = <<>> /\ dup = {}
         /\ held = [s \in Slots |-> {}] /\ version = [s \in Slots |-> 0]

Log(e) == /\ hist' = Append(hist, e) /\ steps' = steps + 1
          /\ (Emit => PrintT(ToJson(Append(hist, e))))

Pooled == {n \in Ids : owner[n] = "pool"}
\* nodes a Get can hand out: those resting in a pool, and those with a second (stale) pool entry
Drawable == Pooled \cup dup
\* parse a statement into an empty slot; it uses two new nodes and may reuse a drawable one (the parser draws
\* the tree container and tuple/array nodes from the pools)
ParseInto(s, k, reuse) ==
    /\ steps < MaxSteps /\ held[s] = {} /\ reuse \subseteq Drawable /\ Cardinality(reuse) <= 1
    /\ LET a == nextId + 1  b == nextId + 2 IN
       /\ nextId' = nextId + 2
       \* a node drawn through a stale entry keeps its first owner: two owners now reach it
       /\ owner' = [n \in 1..(nextId + 2) |-> IF n \in {a, b} \/ (n \in reuse /\ n \in Pooled) THEN s ELSE owner[n]]
       /\ dirtyOf' = [n \in 1..(nextId + 2) |-> IF n \in {a, b} \/ n \in reuse THEN TRUE ELSE dirtyOf[n]]
       /\ held' = [held EXCEPT ![s] = {a, b} \cup reuse]
       \* writing the new statement into a node another slot still holds is a write into that slot's tree
       /\ version' = [t \in Slots |-> IF t = s THEN 0 ELSE IF held[t] \cap reuse # {} THEN version[t] + 1 ELSE version[t]]
       /\ dup' = dup \ (reuse \ Pooled)
    /\ UNCHANGED <<ty, fld, size, node>>
    /\ Log([op |-> "parse", slot |-> s, kind |-> k])

Release(s) ==
    /\ steps < MaxSteps /\ held[s] # {}
    /\ owner' = [n \in Ids |-> IF n \in held[s] /\ owner[n] = s THEN "pool" ELSE owner[n]]
    /\ dirtyOf' = [n \in Ids |-> IF n \in held[s] THEN (Shape = "pinned") ELSE dirtyOf[n]]
    \* releasing cleans the nodes: a node that another slot also holds is emptied under it
    /\ version' = [t \in Slots |-> IF t # s /\ held[t] \cap held[s] # {} THEN version[t] + 1 ELSE version[t]]
    /\ held' = [held EXCEPT ![s] = {}]
    /\ UNCHANGED <<ty, fld, size, node, nextId, dup>>
    /\ Log([op |-> "release", slot |-> s])

\* a client takes a node from a pool and writes into it
ClientGet(n) ==
    /\ steps < MaxSteps /\ n \in Pooled
    /\ owner' = [owner EXCEPT ![n] = "client"]
    /\ dirtyOf' = [dirtyOf EXCEPT ![n] = TRUE]
    \* writing into n is a write into every tree that still reaches n
    /\ version' = [s \in Slots |-> IF n \in held[s] THEN version[s] + 1 ELSE version[s]]
    /\ UNCHANGED <<ty, fld, size, node, held, nextId, dup>>
    /\ Log([op |-> "clientget"])

\* a failing parse releases what it built
ParseFail(k) ==
    /\ steps < MaxSteps
    /\ UNCHANGED <<ty, fld, size, node, owner, dirtyOf, held, version, nextId, dup>>
    /\ Log([op |-> "parsefail", kind |-> k])

\* a context-aware parse whose context fires while a statement is being parsed: it releases its container and
\* reports the cancellation.  Shape "doublefree": the container is released on two code paths.
ParseCancel(k) ==
    /\ steps < MaxSteps
    /\ LET c == nextId + 1 IN
       /\ nextId' = nextId + 1
       /\ owner' = [n \in 1..(nextId + 1) |-> IF n = c THEN "pool" ELSE owner[n]]
       /\ dirtyOf' = [n \in 1..(nextId + 1) |-> IF n = c THEN (Shape = "pinned") ELSE dirtyOf[n]]
       /\ dup' = IF Shape = "doublefree" THEN dup \cup {c} ELSE dup
    /\ UNCHANGED <<ty, fld, size, node, held, version>>
    /\ Log([op |-> "parsecancel", kind |-> k])

\* the caller hands a held value back to the library, which only reads it; at most one such step per history
\* (it does not change the abstract state, so longer combinations add nothing the single steps do not show)
AllUses == {"parse-tokens", "parse-window", "recover-window", "context-window", "scan", "serialise", "format", "extract", "walk"}
ASSUME UseKinds \subseteq AllUses
Use(s, u) ==
    /\ steps < MaxSteps /\ held[s] # {} /\ \A i \in DOMAIN hist : hist[i].op # "use"
    /\ version' = [version EXCEPT ![s] = IF Shape = "writes-through" /\ u \in {"parse-window", "recover-window", "context-window"} THEN @ + 1 ELSE @]
    /\ UNCHANGED <<ty, fld, size, node, owner, dirtyOf, held, nextId, dup>>
    /\ Log([op |-> "use", slot |-> s, kind |-> u])

HNext == \/ \E s \in Slots, k \in Kinds, r \in SUBSET Drawable : ParseInto(s, k, r)
         \/ \E s \in Slots, u \in UseKinds : Use(s, u)
         \/ \E s \in Slots : Release(s)
         \/ \E n \in Ids : ClientGet(n)
         \/ \E k \in Kinds : ParseFail(k)
         \/ \E k \in Kinds : ParseCancel(k)

NoAliasing == /\ \A s \in Slots : \A n \in held[s] : owner[n] = s
              /\ \A s1, s2 \in Slots : s1 # s2 => held[s1] \cap held[s2] = {}
              /\ dup = {}
CleanInPoolH == \A n \in Ids : owner[n] = "pool" => ~dirtyOf[n]
SnapshotStable == [][\A s \in Slots : (held[s] # {} /\ held'[s] = held[s]) => version'[s] = version[s]]_vars

Init == CInit \/ HInit
Next == (Machine = "cycle" /\ CNext) \/ (Machine = "history" /\ HNext)
Spec == Init /\ [][Next]_vars
=============================================================================
