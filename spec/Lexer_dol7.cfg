SPECIFICATION Spec
CONSTANTS
  Alphabet = {"$","L","D","sp","nl"}
  MaxLen = 7
  Emit = TRUE
INVARIANTS TypeOK ExactlyOneEOF NoTokensWithError SourceOrder CommentOrder NothingDropped

