SPECIFICATION Spec
CONSTANTS
  Alphabet = {"L","D","sp","nl","sq","-",">","<","=","!","~",":","|","&","@","#","?","$","/","*",".","dq"}
  MaxLen = 4
  Emit = TRUE
INVARIANTS TypeOK ExactlyOneEOF NoTokensWithError SourceOrder CommentOrder NothingDropped

