SPECIFICATION SpecRename
CONSTANTS
  Shape = "own-descent"
  Emit = FALSE
INVARIANTS Commutes OnlyThatName
