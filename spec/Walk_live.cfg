SPECIFICATION Spec
CONSTANTS
  Machine = "algo"
  N = 4
  Depth = 1
  Emit = FALSE
  Shape = "ideal"
PROPERTIES Terminates
