------------------------------ MODULE TokInst ------------------------------
(***************************************************************************)
(* One reusable tokenizer instance (pkg/sql/tokenizer.Tokenizer), the      *)
(* tokenizer pool and the configuration of the current holder.             *)
(*                                                                         *)
(* Fields at rest: inp (input still referenced), com (which input's        *)
(* comments Tokenizer.Comments holds, "none" when empty), dialect.         *)
(* A run's outcome (tokens, comments, error and its location) is a         *)
(* function of the input alone; the dialect is observable through the      *)
(* Dialect() accessor.  Shape = "pinned": PutTokenizer keeps the dialect.  *)
(***************************************************************************)
EXTENDS Integers, Sequences, FiniteSets, TLC, Json

CONSTANTS Shape, Emit, PairView

\* badml: an unterminated literal after comments on several lines; badlex: every other kind of lexical error, each after
\* some text of the failing lexeme has been read (bad escape, backslash at the end, bad number, unterminated quoted
\* identifier / block comment / dollar quote, a character no token starts with); literals: one literal of every quoting style
Inputs   == {"plain", "commented", "badml", "long", "badlex", "literals"}
CallOps  == {"Tokenize", "TokenizeCtx", "CtxDone", "CtxFire"}
Dialects == {"postgresql", "mysql"}
HasComments(in) == in \in {"commented", "badml"}
ZeroInst == [inp |-> FALSE, com |-> "none", dialect |-> "postgresql"]

VARIABLES where, inst, holder, last, hist
vars == <<where, inst, holder, last, hist>>
lastOp == IF hist = <<>> THEN "none" ELSE hist[Len(hist)].op
view == IF PairView THEN <<where, inst, holder, last, lastOp>> ELSE <<where, inst, holder, last>>

\* outcome of a run and the dialect the holder then reads back
Res(op, in, d) ==
    [out |-> IF op = "CtxDone" THEN "cancelled"
             ELSE IF op = "CtxFire" /\ in = "long" THEN "cancelled"
             ELSE IF in \in {"badml", "badlex"} THEN "lexerror" ELSE "tokens",
     com |-> IF op = "CtxDone" THEN "none" ELSE IF HasComments(in) THEN in ELSE "none",
     dialect |-> d]

ResetOf(i) == [inp |-> FALSE, com |-> "none", dialect |-> i.dialect]      \* Reset keeps the dialect (documented)
PutOf(i)   == [ResetOf(i) EXCEPT !.dialect = IF Shape = "pinned" THEN i.dialect ELSE "postgresql"]

Log(step) == /\ hist' = Append(hist, step)
             /\ Emit => PrintT(ToJson(Append(hist, step)))
St(i, w, h) == [inp |-> i.inp, com |-> i.com, dialect |-> i.dialect, where |-> w, hdialect |-> h]

Init == /\ where = "absent" /\ inst = ZeroInst /\ holder = "postgresql"
        /\ last = [res |-> Res("Tokenize", "plain", "postgresql"), fresh |-> Res("Tokenize", "plain", "postgresql")]
        /\ hist = <<>>

New(d) == /\ where \in {"absent", "held"}
          /\ where' = "held" /\ inst' = [ZeroInst EXCEPT !.dialect = d] /\ holder' = d
          /\ UNCHANGED last
          /\ Log([op |-> "New", dialect |-> d, st |-> St(inst', "held", holder')])

Get == /\ where \in {"absent", "pool"}
       /\ where' = "held" /\ inst' = (IF where = "pool" THEN inst ELSE ZeroInst) /\ holder' = "postgresql"
       /\ UNCHANGED last
       /\ Log([op |-> "Get", st |-> St(inst', "held", holder')])

Put == /\ where = "held"
       /\ where' = "pool" /\ inst' = PutOf(inst) /\ holder' = "postgresql"
       /\ UNCHANGED last
       /\ Log([op |-> "Put", st |-> St(inst', "pool", holder')])

SetDialect(d) == /\ where = "held"
                 /\ inst' = [inst EXCEPT !.dialect = d] /\ holder' = d
                 /\ UNCHANGED <<where, last>>
                 /\ Log([op |-> "SetDialect", dialect |-> d, st |-> St(inst', where, holder')])

Reset == /\ where = "held"
         /\ inst' = ResetOf(inst)
         /\ UNCHANGED <<where, holder, last>>
         /\ Log([op |-> "Reset", st |-> St(inst', where, holder)])

Call(op, in) ==
    /\ where = "held"
    /\ LET r == Res(op, in, inst.dialect)
           f == Res(op, in, holder)
       IN /\ last' = [res |-> r, fresh |-> f]
          \* a size-checked or already-cancelled call returns before Reset; otherwise the run's
          \* input and comments stay in the instance until the next Reset
          /\ inst' = IF op = "CtxDone" THEN inst
                     ELSE [inst EXCEPT !.inp = TRUE, !.com = IF HasComments(in) THEN in ELSE "none"]
          /\ UNCHANGED <<where, holder>>
          /\ Log([op |-> op, in |-> in, exp |-> f, st |-> St(inst', where, holder)])

Next == \/ \E d \in Dialects : New(d) \/ SetDialect(d)
        \/ Get \/ Put \/ Reset
        \/ \E op \in CallOps, in \in Inputs : Call(op, in)

Spec == Init /\ [][Next]_vars

HistoryIndependence == last.res = last.fresh
CleanInPool == where = "pool" => inst = ZeroInst
FreshAfterGet == (lastOp = "Get") => (inst = ZeroInst /\ holder = "postgresql")
ConfigIsHolders == where = "held" => inst.dialect = holder
TypeOK == where \in {"absent", "held", "pool"} /\ inst.dialect \in Dialects
=============================================================================
