SPECIFICATION Spec
CONSTANTS
  MaxLen = 6
  LongLens = {8, 9, 16, 17, 33, 64, 130}
  UniformLens = {101, 150, 400}
  Emit = TRUE
INVARIANTS FailsIffSomeBad FirstFailure NoTreesOnFailure TreesInOrder
