SPECIFICATION Spec
CONSTANTS
  MaxN = 12
  Stride = 4
  Shape = "shortcut"
  Emit = FALSE
INVARIANTS WorkAfterDoneBounded
