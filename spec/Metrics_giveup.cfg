\* the shape that gives up after three lost swaps, four recorders of four different sizes: which schedules end wrong
SPECIFICATION Spec
CONSTANTS
  G = {1, 2, 3, 4}
  SizeRange = {1, 2, 3, 4}
  CAS = TRUE
  Retries = 3
  Emit = "wrong"
VIEW view
INVARIANTS TypeOK
