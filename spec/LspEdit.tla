------------------------------ MODULE LspEdit ------------------------------
(***************************************************************************)
(* The language server's document mirror under incremental edits: the      *)
(* reference edit function of the Language Server Protocol.                *)
(*                                                                         *)
(* A text is a sequence of code points drawn from                          *)
(*     "a"  ASCII letter      1 UTF-16 unit, 1 byte                        *)
(*     "e"  e-acute           1 UTF-16 unit, 2 bytes                       *)
(*     "s"  emoji (astral)    2 UTF-16 units, 4 bytes                      *)
(*     "n"  newline           1 UTF-16 unit, 1 byte                        *)
(* Positions are (line, character) with character counted in UTF-16 code   *)
(* units.  A character past the end of its line clamps to the line's end,  *)
(* a line past the last line clamps to the end of the document, a          *)
(* character that falls inside a surrogate pair may resolve to either      *)
(* neighbouring boundary.  For negative or inverted ranges the resulting   *)
(* text is unconstrained (the server must merely survive).                 *)
(* One state per case; the driver replays every case on a real server.     *)
(***************************************************************************)
EXTENDS Integers, Sequences, FiniteSets, TLC, Json, SequencesExt

CONSTANTS MaxLen,     \* texts up to this many code points
          Emit

Units == {"a", "e", "s", "n"}
U16(c) == IF c = "s" THEN 2 ELSE 1

Texts == UNION {[1..k -> Units] : k \in 0..MaxLen}
News  == {<<>>, <<"a">>, <<"n">>, <<"e">>, <<"s", "a">>}
Lines == -1..3
Chars == -1..4

\* index (0-based count of code points before it) at which line k starts; lines are 0-based
NL(t) == {i \in 1..Len(t) : t[i] = "n"}
NumLines(t) == Cardinality(NL(t)) + 1
RECURSIVE LineStart(_, _)
LineStart(t, k) == IF k = 0 THEN 0
                   ELSE LET prev == LineStart(t, k - 1)
                            nl == CHOOSE i \in NL(t) : i > prev /\ \A j \in NL(t) : j > prev => i <= j
                        IN nl
\* number of code points on line k (without its newline)
LineLen(t, k) == LET s == LineStart(t, k)
                     after == {i \in NL(t) : i > s}
                 IN IF after = {} THEN Len(t) - s
                    ELSE (CHOOSE i \in after : \A j \in after : i <= j) - 1 - s

\* UTF-16 offset of the code point boundary j (0..LineLen) on the line starting at s
RECURSIVE Width(_, _, _)
Width(t, s, j) == IF j = 0 THEN 0 ELSE Width(t, s, j - 1) + U16(t[s + j])

\* the set of code-point offsets (0..Len(t)) a position may denote
Offsets(t, line, ch) ==
    IF line >= NumLines(t) THEN {Len(t)}
    ELSE LET s == LineStart(t, line)
             n == LineLen(t, line)
             exact == {j \in 0..n : Width(t, s, j) = ch}
         IN IF ch >= Width(t, s, n) THEN {s + n}
            ELSE IF exact # {} THEN {s + j : j \in exact}
            ELSE \* inside a surrogate pair: either neighbour
                 {s + j : j \in {k \in 0..n : Width(t, s, k) = ch - 1 \/ Width(t, s, k) = ch + 1}}

Splice(t, so, eo, new) == SubSeq(t, 1, so) \o new \o SubSeq(t, eo + 1, Len(t))

WellFormed(sl, sc, el, ec) == sl >= 0 /\ sc >= 0 /\ el >= 0 /\ ec >= 0 /\ (sl < el \/ (sl = el /\ sc <= ec))

\* the set of texts the mirror may hold after the edit ("any" = unconstrained)
Results(t, sl, sc, el, ec, new) ==
    IF ~WellFormed(sl, sc, el, ec) THEN {}
    ELSE IF sl = el /\ sc = ec
      THEN {Splice(t, o, o, new) : o \in Offsets(t, sl, sc)}       \* one position resolves one way
      ELSE UNION {{Splice(t, so, eo, new) : eo \in {x \in Offsets(t, el, ec) : x >= so}} : so \in Offsets(t, sl, sc)}

\* The optional (deprecated) rangeLength of a change: the UTF-16 length of the replaced span.  A client that sends it
\* sends what its range says; the range decides and the result is the same with and without it.  Defined where both
\* ends of the range resolve one way (-1 otherwise: the driver then sends the change without it).
RECURSIVE Sum16(_, _, _)
Sum16(t, a, b) == IF a >= b THEN 0 ELSE U16(t[a + 1]) + Sum16(t, a + 1, b)
Len16(t) == Sum16(t, 0, Len(t))
RangeLength(t, sl, sc, el, ec) ==
    IF ~WellFormed(sl, sc, el, ec) THEN -1
    ELSE LET S == Offsets(t, sl, sc)
             E == Offsets(t, el, ec)
         IN IF Cardinality(S) = 1 /\ Cardinality(E) = 1
              THEN LET so == CHOOSE x \in S : TRUE
                       eo == CHOOSE x \in E : TRUE
                   IN IF so <= eo THEN Sum16(t, so, eo) ELSE -1
              ELSE -1

VARIABLES c, done
vars == <<c, done>>

Cases == [t : Texts, sl : Lines, sc : Chars, el : Lines, ec : Chars, new : News]

Init == c \in Cases /\ done = FALSE
Run == /\ ~done /\ done' = TRUE /\ UNCHANGED c
       /\ Emit => PrintT(ToJson([t |-> c.t, sl |-> c.sl, sc |-> c.sc, el |-> c.el, ec |-> c.ec, new |-> c.new,
                                 any |-> ~WellFormed(c.sl, c.sc, c.el, c.ec),
                                 rl |-> RangeLength(c.t, c.sl, c.sc, c.el, c.ec),
                                 res |-> SetToSeq(Results(c.t, c.sl, c.sc, c.el, c.ec, c.new))]))
Next == Run
Spec == Init /\ [][Next]_vars

----------------------------------------------------------------------------
\* design-level laws of the reference edit function
R == Results(c.t, c.sl, c.sc, c.el, c.ec, c.new)
WF == WellFormed(c.sl, c.sc, c.el, c.ec)

\* a well-formed edit always has a defined outcome, and at most two (surrogate ambiguity on each end: <= 4)
Defined == WF => (R # {} /\ Cardinality(R) <= 4)
\* the inserted text is present and the untouched prefix/suffix survive
Conserves == \A r \in R : \E so \in 0..Len(c.t), eo \in 0..Len(c.t) :
                 so <= eo /\ r = SubSeq(c.t, 1, so) \o c.new \o SubSeq(c.t, eo + 1, Len(c.t))
\* an empty range with empty text changes nothing
NoOp == (WF /\ c.sl = c.el /\ c.sc = c.ec /\ c.new = <<>>) => R = {c.t}
\* (TLC rejected the first version of Results, in which the two ends of an empty range inside a
\* surrogate pair could resolve to different neighbours and delete the character.)
\* replacing the whole document (range far past the end) yields exactly the new text
Whole == (WF /\ c.sl = 0 /\ c.sc = 0 /\ c.el >= NumLines(c.t)) => R = {c.new}
\* the replaced span has the length the client would report: the result is that much shorter, plus the new text
RangeLengthAgrees == LET rl == RangeLength(c.t, c.sl, c.sc, c.el, c.ec) IN
                     rl >= 0 => \A r \in R : Len16(r) = Len16(c.t) - rl + Len16(c.new)
\* positions past the end clamp: they behave like the end position
ClampLine == (WF /\ c.sl >= NumLines(c.t)) => R = {c.t \o c.new}
=============================================================================
