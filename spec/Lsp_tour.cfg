SPECIFICATION Spec
CONSTANTS
  URIs = {"file:///u1.sql", "file:///u2.sql"}
  MaxLines = 1
  MaxVer = 3
  Emit = TRUE
  PairView = FALSE
VIEW view
INVARIANTS TypeOK OneResponsePerRequest DiagnosticsOfCurrentText ClearedOnClose AlwaysAlive
