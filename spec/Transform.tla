----------------------------- MODULE Transform -----------------------------
(***************************************************************************)
(* Rewrite rules of pkg/transform that rename (C14, last sentence:         *)
(* analyses built on traversal cannot miss an expression or sub-query      *)
(* because of where it sits).  A statement is a set of SITES: places where *)
(* a table name is written - as a table reference or as the qualifier of a *)
(* column - each at a path of positions (clause or operand positions; a    *)
(* path of length > 1 goes through a sub-query).  ReplaceTable(old, new)   *)
(* must be the homomorphic image of renaming in the text:                  *)
(*     Commutes      after the rule, a site carries new iff it carried old *)
(*                   and every other site carries what it carried          *)
(* Shape "tree-walk": the rule visits the tree (every site).  Shape        *)
(* "own-descent": the rule walks the clauses it knows about; a site whose  *)
(* path leaves them keeps the old name - TLC exhibits the smallest such    *)
(* statement.  The driver takes its statements from Names.tla (every       *)
(* position x every shape x every nesting) and checks                      *)
(*     Apply(ReplaceTable(t, z), Parse(s)) = Parse(s[t := z]).             *)
(* Tree ownership under rules that graft parsed text is Grafts.tla.        *)
(***************************************************************************)
EXTENDS Integers, Sequences, FiniteSets, TLC, Json

CONSTANTS Shape, Emit

Positions == {"from", "join", "select-item", "where", "join-on", "group-by", "having", "order-by",
              "call-argument", "call-filter", "call-over", "case", "in-list", "between", "cast"}
TablePositions == {"from", "join"}                     \* a table reference stands here; elsewhere the name is a qualifier
\* positions whose operand can be a sub-query (the path continues inside it)
Holes == {"where", "select-item", "from", "join", "having", "join-on", "case", "call-argument", "order-by", "in-list", "between"}
\* what the hand-written descent of the rule covers at the top of a statement, and inside an expression it has entered
KnownTop == {"from", "join", "select-item", "where", "join-on", "order-by"}
KnownInExpression == {"call-argument", "call-filter", "case", "in-list", "between", "cast"}
\* a sub-query met while walking an expression is entered for its expressions only - not for its FROM and JOIN names -
\* unless it is the whole operand of the clause
Names == {"old", "other"}

Paths == {<<p>> : p \in Positions} \cup {<<h, p>> : h \in Holes, p \in Positions}
Sites == [path : Paths, name : Names]
\* a statement: at most two sites (one is enough to miss, two show that the others stay)
Statements == {{a} : a \in Sites} \cup UNION {{{a, b} : b \in {s \in Sites : s.path # a.path /\ Len(s.path) = 1}} : a \in {s \in Sites : s.name = "old"}}

Covered(path) ==
    IF Len(path) = 1 THEN path[1] \in KnownTop \cup KnownInExpression
    ELSE /\ path[1] \in KnownTop \cup KnownInExpression
         /\ path[1] \notin TablePositions                      \* derived tables are not entered
         /\ (path[2] \in TablePositions => path[1] = "where")   \* FROM names of a sub-query only when it is the WHERE operand itself
         /\ path[2] \in KnownTop \cup KnownInExpression
Reached(s) == Shape = "tree-walk" \/ Covered(s.path)
Rename(S) == {IF s.name = "old" /\ Reached(s) THEN [s EXCEPT !.name = "new"] ELSE s : s \in S}
TextRename(S) == {IF s.name = "old" THEN [s EXCEPT !.name = "new"] ELSE s : s \in S}

VARIABLES stmt, out, pc
rvars == <<stmt, out, pc>>
RInit == stmt \in Statements /\ out = {} /\ pc = "apply"
RApply == /\ pc = "apply" /\ out' = Rename(stmt) /\ pc' = "done" /\ UNCHANGED stmt
          /\ (Emit => PrintT(ToJson([sites |-> {[path |-> s.path, name |-> s.name] : s \in stmt}])))
SpecRename == RInit /\ [][RApply]_rvars
Commutes == pc = "done" => out = TextRename(stmt)
OnlyThatName == pc = "done" => \A s \in stmt : s.name # "old" => s \in out

=============================================================================
