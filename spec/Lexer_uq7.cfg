SPECIFICATION Spec
CONSTANTS
  Alphabet = {"sq","usq","dq","udq","L"}
  MaxLen = 7
  Emit = TRUE
INVARIANTS TypeOK ExactlyOneEOF NoTokensWithError SourceOrder CommentOrder NothingDropped
