SPECIFICATION Spec
CONSTANTS
  Alphabet = {"L","D","sp","nl","sq","bs","-","/","*",">","$",".","E","dq"}
  MaxLen = 3
  Emit = FALSE
INVARIANTS TypeOK ExactlyOneEOF NoTokensWithError SourceOrder CommentOrder NothingDropped
PROPERTIES Progress Termination
