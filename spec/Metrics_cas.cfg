\* repaired shape, 3 goroutines, sizes 1..3: must satisfy everything
SPECIFICATION Spec
CONSTANTS
  G = {1, 2, 3}
  SizeRange = {1, 2, 3}
  CAS = TRUE
  Retries = 0
  Emit = "none"
VIEW view
INVARIANTS TypeOK ExactAtQuiescence
PROPERTIES MinNeverGrows MaxNeverShrinks Termination
