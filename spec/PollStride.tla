----------------------------- MODULE PollStride -----------------------------
(***************************************************************************)
(* "After a bounded amount of further work" (C11), the part Cancel.tla     *)
(* abstracts away: how much work a context-aware call does BETWEEN two     *)
(* polls of its context.                                                   *)
(*                                                                         *)
(* A call walks a list of n elements of one kind (the long dimension of    *)
(* its input: statements of a script, items of a select list, elements of  *)
(* an IN list, cells of VALUES rows, arguments, sort keys, CASE arms,      *)
(* CTEs, joins, SET assignments, arms of a set operation, array elements;  *)
(* for the tokenizer: tokens).  Before an element it may poll.  The        *)
(* context turns done at an arbitrary moment (before element `at`); the    *)
(* work done after that moment is the number of elements consumed until    *)
(* the next poll.                                                          *)
(*   Shape "every"     a poll before every Stride-th element               *)
(*   Shape "shortcut"  elements of a cheap class (bare literals) take a    *)
(*                     path that does not poll - and a list may consist    *)
(*                     of such elements only                               *)
(* WorkAfterDoneBounded: at most Stride elements are consumed after the    *)
(* context turned done, whatever n is.  TLC finds the unbounded run in the *)
(* shortcut shape.  The driver cannot see elements, only polls: it runs    *)
(* each family at two lengths under a counting context and requires the    *)
(* number of polls to grow by at least (n2 - n1) / Stride.                 *)
(***************************************************************************)
EXTENDS Integers, Sequences, TLC, Json

CONSTANTS MaxN, Stride, Shape, Emit

Families == {"statements", "select-list", "in-list-numbers", "in-list-strings", "in-list-placeholders", "values-rows", "values-cells",
             "call-arguments", "order-by-keys", "group-by-keys", "case-arms", "ctes", "joins", "set-assignments", "union-arms",
             "array-elements", "tokens", "line-comments"}
Cheap(f) == f \in {"in-list-numbers", "in-list-strings", "in-list-placeholders", "values-cells", "values-rows"}

VARIABLES fam, n, at, i, since, after, polls, polled
vars == <<fam, n, at, i, since, after, polls, polled>>
\* i: next element; since: elements consumed since the last poll; after: elements consumed after the context turned done;
\* polled: the poll before element i has been made
Init == /\ fam \in Families /\ n \in 1..MaxN /\ at \in 1..n /\ i = 1 /\ since = 0 /\ after = 0 /\ polls = 0 /\ polled = FALSE

Due == i = 1 \/ since >= Stride - 1
NeedsPoll == IF Shape = "shortcut" THEN ~Cheap(fam) /\ Due ELSE Due
Poll == /\ i <= n /\ NeedsPoll /\ ~polled
        /\ polls' = polls + 1 /\ since' = 0 /\ polled' = TRUE
        /\ i' = (IF i >= at THEN n + 1 ELSE i)            \* a poll that sees the context done ends the call
        /\ UNCHANGED <<fam, n, at, after>>
Element == /\ i <= n /\ (NeedsPoll => polled)
           /\ i' = i + 1 /\ since' = since + 1 /\ polled' = FALSE
           /\ after' = (IF i >= at THEN after + 1 ELSE after)
           /\ UNCHANGED <<fam, n, at, polls>>
Report == /\ i = n + 1 /\ i' = n + 2
          /\ (Emit /\ n = MaxN /\ at = 1 => PrintT(ToJson([family |-> fam, stride |-> Stride])))
          /\ UNCHANGED <<fam, n, at, since, after, polls, polled>>
Next == Poll \/ Element \/ Report
Spec == Init /\ [][Next]_vars

WorkAfterDoneBounded == after <= Stride
=============================================================================
