SPECIFICATION Spec
CONSTANTS
  G = {1, 2, 3}
  Keys = {"k1", "k2"}
  Shape = "double-checked"
  Emit = FALSE
INVARIANTS Exact
