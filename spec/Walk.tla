-------------------------------- MODULE Walk --------------------------------
(***************************************************************************)
(* Tree traversal (pkg/sql/ast/visitor.go: Walk, Inspect) and the shape of *)
(* the node graph it runs on.                                              *)
(*                                                                         *)
(* Machine "algo": Walk as the code runs it - an explicit call stack, one  *)
(* action per call of Visit (entering a node), per descent into the next   *)
(* child and per closing call Visit(nil) - over EVERY ordered tree of up   *)
(* to N nodes and EVERY assignment of visitor verdicts to nodes            *)
(*     go       descend                                                    *)
(*     prune    the visitor returns nil: the subtree is skipped, no        *)
(*              closing call                                               *)
(*     error    Visit returns an error: the walk stops at once             *)
(*     posterr  the closing call returns an error                          *)
(* The reference is the denotational RefLog below (a recursive definition  *)
(* that never mentions a stack).  Invariants:                              *)
(*     LogIsPrefixOfRef   at every step the events so far are a prefix of  *)
(*                        the reference log                                *)
(*     FinalLogIsRef      when the walk returns the log IS the reference   *)
(*     CompleteWhenAllGo  if every verdict is go, every node of the tree   *)
(*                        is entered exactly once and left exactly once,   *)
(*                        parents before children, siblings in order       *)
(*     NothingForeign     only nodes of the tree are ever entered          *)
(*     PrunedIsSkipped    no node below a pruned node is entered           *)
(* and the liveness property Terminates.                                   *)
(* CompleteWhenAllGo is the algorithmic half of C14: GIVEN that Children() *)
(* lists every node held by a node's fields, Walk reaches everything.      *)
(*                                                                         *)
(* Machine "edges": the other half.  The node schema (node types, their    *)
(* node-capable fields and the node types each field may hold) is          *)
(* extracted from the working tree by reflection on every run (module      *)
(* NodeSchema).  A state is a path of composable edges                     *)
(*     <<owner type, field, target type>>                                  *)
(* of length <= Depth; every path is printed and the driver builds the     *)
(* real nested nodes and requires ast.Inspect to reach the innermost one.  *)
(* Shape = "pinned" marks the (owner, field) pairs whose Children() at the *)
(* pinned commit does not return the field; EdgeReached fails there.       *)
(***************************************************************************)
EXTENDS Integers, Sequences, FiniteSets, TLC, Json, NodeSchema

CONSTANTS Machine, N, Depth, Emit, Shape

Verdicts == {"go", "prune", "error", "posterr"}

VARIABLES n,        \* number of nodes of the tree under walk (node 1 is the root)
          parent,   \* parent[i] for i in 2..n, parent[i] < i ; children are ordered by number
          verdict,  \* verdict[i]
          stack,    \* call stack: sequence of [node, next] (next = index of the next child to descend into)
          log,      \* events so far: [ev |-> "visit" | "leave", node |-> i]
          status,   \* "running" | "returned" | "failed"
          path      \* edges machine
vars == <<n, parent, verdict, stack, log, status, path>>

Kids(i) == LET S == {j \in 2..n : parent[j] = i} IN
           \* ascending order
           [k \in 1..Cardinality(S) |-> CHOOSE j \in S : Cardinality({x \in S : x < j}) = k - 1]

\* ---- denotational reference: the log of walking node i, and whether it ended in an error ------------------
RECURSIVE RefWalk(_), RefKids(_, _)
\* returns [log, err]
RefKids(ks, k) == IF k > Len(ks) THEN [log |-> <<>>, err |-> FALSE]
                  ELSE LET a == RefWalk(ks[k]) IN
                       IF a.err THEN a
                       ELSE LET b == RefKids(ks, k + 1) IN [log |-> a.log \o b.log, err |-> b.err]
RefWalk(i) ==
    LET v == <<[ev |-> "visit", node |-> i]>> IN
    CASE verdict[i] = "error" -> [log |-> v, err |-> TRUE]
      [] verdict[i] = "prune" -> [log |-> v, err |-> FALSE]
      [] OTHER -> LET k == RefKids(Kids(i), 1) IN
                  IF k.err THEN [log |-> v \o k.log, err |-> TRUE]
                  ELSE [log |-> v \o k.log \o <<[ev |-> "leave", node |-> i]>>, err |-> verdict[i] = "posterr"]

\* ---- operational machine -------------------------------------------------------------------------------------
AInit == /\ Machine = "algo"
         /\ n \in 1..N
         /\ parent \in [2..n -> 1..N] /\ \A i \in 2..n : parent[i] < i
         /\ verdict \in [1..n -> Verdicts]
         /\ stack = <<>> /\ log = <<>> /\ status = "start" /\ path = <<>>

\* Walk(v, node): v.Visit(node)
Enter(i) == /\ log' = Append(log, [ev |-> "visit", node |-> i])
            /\ CASE verdict[i] = "error" -> /\ status' = "failed" /\ stack' = <<>>
                 [] verdict[i] = "prune" -> /\ stack' = stack
                                            /\ status' = IF stack = <<>> THEN "returned" ELSE "running"
                 [] OTHER -> /\ stack' = Append(stack, [node |-> i, next |-> 1]) /\ status' = "running"

Start == /\ status = "start" /\ Enter(1) /\ UNCHANGED <<n, parent, verdict, path>>

\* for _, child := range node.Children() { Walk(visitor, child) }
Descend == /\ status = "running" /\ stack # <<>>
           /\ LET top == stack[Len(stack)]  ks == Kids(top.node) IN
              /\ top.next <= Len(ks)
              /\ LET bumped == [stack EXCEPT ![Len(stack)].next = top.next + 1]
                     c == ks[top.next] IN
                 /\ log' = Append(log, [ev |-> "visit", node |-> c])
                 /\ CASE verdict[c] = "error" -> /\ status' = "failed" /\ stack' = <<>>
                      [] verdict[c] = "prune" -> /\ stack' = bumped /\ status' = "running"
                      [] OTHER -> /\ stack' = Append(bumped, [node |-> c, next |-> 1]) /\ status' = "running"
           /\ UNCHANGED <<n, parent, verdict, path>>

\* visitor.Visit(nil) after the last child
Leave == /\ status = "running" /\ stack # <<>>
         /\ LET top == stack[Len(stack)] IN
            /\ top.next > Len(Kids(top.node))
            /\ log' = Append(log, [ev |-> "leave", node |-> top.node])
            /\ IF verdict[top.node] = "posterr" THEN status' = "failed" /\ stack' = <<>>
               ELSE /\ stack' = SubSeq(stack, 1, Len(stack) - 1)
                    /\ status' = IF Len(stack) = 1 THEN "returned" ELSE "running"
         /\ UNCHANGED <<n, parent, verdict, path>>

Finished == status \in {"returned", "failed"}
Report == /\ Finished /\ status' = "reported"
          /\ (Emit => PrintT(ToJson([n |-> n, parent |-> [i \in 1..n |-> IF i = 1 THEN 0 ELSE parent[i]], verdict |-> verdict,
                                     log |-> log, failed |-> (status = "failed")])))
          /\ UNCHANGED <<n, parent, verdict, stack, log, path>>
ANext == Start \/ Descend \/ Leave \/ Report

IsPrefix(a, b) == Len(a) <= Len(b) /\ \A k \in 1..Len(a) : a[k] = b[k]
Ref == RefWalk(1)
LogIsPrefixOfRef == Machine = "algo" => IsPrefix(log, Ref.log)
FinalLogIsRef == (Machine = "algo" /\ Finished) => (log = Ref.log /\ (status = "failed") = Ref.err)
Entered(i) == Cardinality({k \in 1..Len(log) : log[k].ev = "visit" /\ log[k].node = i})
Left(i) == Cardinality({k \in 1..Len(log) : log[k].ev = "leave" /\ log[k].node = i})
Pos(e, i) == CHOOSE k \in 1..Len(log) : log[k].ev = e /\ log[k].node = i
CompleteWhenAllGo ==
    (Machine = "algo" /\ status = "returned" /\ \A i \in 1..n : verdict[i] = "go") =>
        /\ \A i \in 1..n : Entered(i) = 1 /\ Left(i) = 1
        /\ \A i \in 2..n : Pos("visit", parent[i]) < Pos("visit", i) /\ Pos("leave", i) < Pos("leave", parent[i])
        /\ \A i, j \in 2..n : (parent[i] = parent[j] /\ i < j) => Pos("leave", i) < Pos("visit", j)
NothingForeign == Machine = "algo" => \A k \in 1..Len(log) : log[k].node \in 1..n
RECURSIVE Below(_, _)
Below(i, a) == i # 1 /\ (parent[i] = a \/ Below(parent[i], a))
PrunedIsSkipped == Machine = "algo" => \A k \in 1..Len(log) : \A a \in 1..n :
                       (verdict[a] = "prune" /\ Below(log[k].node, a)) => FALSE
Terminates == (Machine = "algo") => <>(status = "reported")

\* ---- edges machine --------------------------------------------------------------------------------------
\* NodeSchema: Edges == set of records [owner, field, target]; Unreturned == set of <<owner, field>> (pinned shape)
EInit == /\ Machine = "edges"
         /\ n = 0 /\ parent = <<>> /\ verdict = <<>> /\ stack = <<>> /\ log = <<>> /\ status = "edges"
         /\ \E e \in Edges : path = <<e>>
Extend == /\ Len(path) < Depth /\ status = "edges1"
          /\ \E e \in Edges : e.owner = path[Len(path)].target /\ path' = Append(path, e)
          /\ (Emit => PrintT(ToJson(path')))
          /\ UNCHANGED <<n, parent, verdict, stack, log, status>>
FirstEmit == /\ Len(path) = 1 /\ status = "edges" /\ status' = "edges1"
             /\ (Emit => PrintT(ToJson(path)))
             /\ UNCHANGED <<n, parent, verdict, stack, log, path>>
ENext == Extend \/ FirstEmit
\* the innermost node of a path is reached iff every edge on the path is returned by its owner's Children()
Returned(e) == Shape = "ideal" \/ <<e.owner, e.field>> \notin Unreturned
EdgeReached == Machine = "edges" => \A k \in 1..Len(path) : Returned(path[k])
\* composability: consecutive edges agree on the node type between them
PathWellFormed == Machine = "edges" => \A k \in 1..(Len(path) - 1) : path[k].target = path[k + 1].owner

Init == AInit \/ EInit
Next == (Machine = "algo" /\ ANext) \/ (Machine = "edges" /\ ENext)
Spec == Init /\ [][Next]_vars /\ WF_vars(Next)
=============================================================================
