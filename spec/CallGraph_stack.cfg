SPECIFICATION Spec
CONSTANTS
  Machine = "stack"
  Pkg = "parser"
  Emit = FALSE
  Limit = 2
INVARIANTS BoundedStack CounterCountsGuarded
