SPECIFICATION Spec
CONSTANTS
  Shape = "alias"
  Emit = FALSE
INVARIANTS Exclusive ResultIsOwn
