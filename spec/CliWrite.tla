------------------------------ MODULE CliWrite ------------------------------
(***************************************************************************)
(* In-place rewriting of one file by `gosqlx format -i` / `gosqlx lint     *)
(* --fix`, at system-call granularity, with faults between any two steps.  *)
(*                                                                         *)
(* File contents are abstract: the target holds either the complete        *)
(* original ("orig") or the first k bytes of the new content ("new", k);   *)
(* N is the length of the complete new content.                            *)
(*                                                                         *)
(*   Safe = TRUE   create a temporary file in the same directory, write,   *)
(*                 close, rename over the target (the repaired code)       *)
(*   Safe = FALSE  open the target with O_TRUNC and write into it          *)
(*                 (os.WriteFile on the original path: the pinned code)    *)
(*                                                                         *)
(* Faults: a write may fail after any number of bytes (WriteFail), the     *)
(* process may die between any two steps (Crash).                          *)
(***************************************************************************)
EXTENDS Integers, Sequences, TLC

CONSTANTS N,        \* length of the new content (>= 1)
          Safe,     \* which protocol
          Success   \* whether processing of the file succeeded (a new content exists at all)

VARIABLES target,   \* [kind |-> "orig"] or [kind |-> "new", len |-> k]
          tmp,      \* [ex |-> whether a temporary file exists, len |-> bytes in it]
          pc,       \* "start" | "writing" | "closed" | "done" | "failed" | "crashed"
          wfail     \* a write has failed in this run

vars == <<target, tmp, pc, wfail>>

Orig == [kind |-> "orig", len |-> 0]
New(k) == [kind |-> "new", len |-> k]

NoTmp == [ex |-> FALSE, len |-> 0]
Init == target = Orig /\ tmp = NoTmp /\ pc = "start" /\ wfail = FALSE

\* ---- safe protocol -------------------------------------------------------
CreateTmp == /\ Safe /\ Success /\ pc = "start"
             /\ tmp' = [ex |-> TRUE, len |-> 0] /\ pc' = "writing" /\ UNCHANGED <<target, wfail>>

WriteTmp(n) == /\ Safe /\ pc = "writing" /\ tmp.ex /\ ~wfail
               /\ n \in 1..(N - tmp.len)
               /\ tmp' = [ex |-> TRUE, len |-> tmp.len + n] /\ UNCHANGED <<target, pc, wfail>>

\* a write fails (ENOSPC, EFBIG, EIO) after k further bytes reached the file
WriteFailTmp(k) == /\ Safe /\ pc = "writing" /\ tmp.ex /\ ~wfail
                   /\ k \in 0..(N - tmp.len - 1)
                   /\ tmp' = [ex |-> TRUE, len |-> tmp.len + k] /\ wfail' = TRUE /\ UNCHANGED <<target, pc>>

CloseTmp == /\ Safe /\ pc = "writing" /\ pc' = "closed" /\ UNCHANGED <<target, tmp, wfail>>

\* the rename is the commit point; it is taken only for a complete, successfully written file
Rename == /\ Safe /\ pc = "closed" /\ tmp.ex /\ ~wfail /\ tmp.len = N
          /\ target' = New(N) /\ tmp' = NoTmp /\ pc' = "done" /\ UNCHANGED wfail

\* error path: remove the temporary file, leave the target alone
Abort == /\ Safe /\ pc \in {"writing", "closed"} /\ tmp.ex
         /\ tmp' = NoTmp /\ pc' = "failed" /\ UNCHANGED <<target, wfail>>

\* ---- truncate-and-write protocol ----------------------------------------
OpenTrunc == /\ ~Safe /\ Success /\ pc = "start"
             /\ target' = New(0) /\ pc' = "writing" /\ UNCHANGED <<tmp, wfail>>

WriteTarget(n) == /\ ~Safe /\ pc = "writing" /\ ~wfail
                  /\ n \in 1..(N - target.len)
                  /\ target' = New(target.len + n) /\ UNCHANGED <<tmp, pc, wfail>>

WriteFailTarget(k) == /\ ~Safe /\ pc = "writing" /\ ~wfail
                      /\ k \in 0..(N - target.len - 1)
                      /\ target' = New(target.len + k) /\ wfail' = TRUE /\ UNCHANGED <<tmp, pc>>

CloseTarget == /\ ~Safe /\ pc = "writing"
               /\ pc' = (IF wfail \/ target.len < N THEN "failed" ELSE "done") /\ UNCHANGED <<target, tmp, wfail>>

\* ---- both ------------------------------------------------------------------
\* processing failed (invalid SQL): nothing is written
Skip == /\ ~Success /\ pc = "start" /\ pc' = "failed" /\ UNCHANGED <<target, tmp, wfail>>

Crash == /\ pc \notin {"done", "failed", "crashed"} /\ pc' = "crashed" /\ UNCHANGED <<target, tmp, wfail>>

Next == \/ CreateTmp \/ CloseTmp \/ Rename \/ Abort \/ OpenTrunc \/ CloseTarget \/ Skip \/ Crash
        \/ \E n \in 1..N : WriteTmp(n) \/ WriteTarget(n)
        \/ \E k \in 0..N : WriteFailTmp(k) \/ WriteFailTarget(k)

Spec == Init /\ [][Next]_vars /\ WF_vars(Next)

\* ---- properties ----------------------------------------------------------
\* C19: in every state - hence after a crash or a failed write at any point - the file on disk holds
\* either the complete original or the complete new content.
Atomicity == target = Orig \/ target = New(N)

\* The file is replaced only when processing succeeded.
OnlyOnSuccess == target # Orig => Success

\* A temporary file never outlives a run that ended normally.
NoStrayTmp == pc \in {"done", "failed"} => ~tmp.ex

TypeOK == /\ pc \in {"start", "writing", "closed", "done", "failed", "crashed"}
          /\ target.len \in 0..N
          /\ tmp.ex \in BOOLEAN /\ tmp.len \in 0..N

Terminates == <>(pc \in {"done", "failed", "crashed"})
=============================================================================
