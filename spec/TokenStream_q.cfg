SPECIFICATION Spec
CONSTANTS
  Kinds = {"EOF", "typeless", "select", "from", "where", "ident", "number", "string", "comma", "lparen", "rparen", "star", "eq", "semicolon", "not", "interval", "case", "insert", "dot", "minus", "as", "join", "order", "with"}
  MaxLen = 3
  Shape = "late-eof"
  Emit = TRUE
INVARIANTS InBounds CursorBounded
PROPERTIES Terminates
