SPECIFICATION Spec
CONSTANTS
  MaxLen = 3
  LongLens = {8}
  UniformLens = {}
  Emit = FALSE
PROPERTIES Terminates
