SPECIFICATION Spec
CONSTANTS
  MaxLen = 3
  LongLens = {8}
  Emit = FALSE
PROPERTIES Terminates
