SPECIFICATION Spec
CONSTANTS
  Alphabet = {"bt","L","nl"}
  MaxLen = 8
  Emit = TRUE
INVARIANTS TypeOK ExactlyOneEOF NoTokensWithError SourceOrder CommentOrder NothingDropped
