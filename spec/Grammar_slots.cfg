SPECIFICATION SlotSpec
CONSTANTS
  MaxOps = 1
  OpSet = "core"
  Atoms = "simple"
  Emit = TRUE
