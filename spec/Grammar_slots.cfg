SPECIFICATION SlotSpec
CONSTANTS
  MaxOps = 1
  OpSet = "core"
  Emit = TRUE
