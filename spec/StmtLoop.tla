----------------------------- MODULE StmtLoop -----------------------------
(***************************************************************************)
(* The statement loop of the parser, in its strict and recovery variants   *)
(* (pkg/sql/parser: Parse / ParseWithPositions / ParseContext /            *)
(* parseWithRecovery), over an abstract token stream.                      *)
(*                                                                         *)
(* An input is a list of segments separated by semicolons.  A segment is   *)
(* a statement: it is either well-formed (strict parsing of it alone       *)
(* succeeds) or malformed; its first token is or is not one of the         *)
(* keywords the recovery loop resynchronises on - a well-formed one always *)
(* is (the loop knows every keyword a statement can start with: SELECT,    *)
(* INSERT, ... SHOW, DESCRIBE, EXPLAIN, REPLACE), a malformed one may      *)
(* start with anything; the other tokens never are (the side condition of  *)
(* property C12).  Stray semicolons may precede, follow or double the      *)
(* separators.                                                             *)
(*                                                                         *)
(* parseStatement is abstract: on a well-formed segment it consumes the    *)
(* whole segment; on a malformed one it consumes j tokens of the segment   *)
(* (0 <= j <= its length) and fails - which j is up to the grammar, so     *)
(* every j is explored.  One action per loop step of the code:             *)
(*   SkipSemi   a semicolon where a statement could start is skipped       *)
(*   StmtOK     a statement is parsed, and the semicolon after it consumed *)
(*   StmtFail   strict: the whole call fails;  recovery: the error is      *)
(*              recorded, at least one token is consumed (forced advance), *)
(*              and the cursor synchronises to just after the next         *)
(*              semicolon or to the next statement keyword                 *)
(*   End        the cursor reached the end of input                        *)
(***************************************************************************)
EXTENDS Integers, Sequences, FiniteSets, TLC, Json, SequencesExt

CONSTANTS MaxSegs,     \* segments per input
          MaxLen,      \* tokens per segment
          Emit

\* ---- inputs ---------------------------------------------------------------
\* A segment holds no statement keyword past its first token (resynchronisation would stop there).  The driver
\* concretises segments from pools that respect this; in addition every malformed segment of the pools, and every
\* statement WITH inner keywords that breaks after the last of them (a WITH clause without its main statement, a
\* truncated INSERT ... SELECT, ...), is enumerated as the first segment of <<malformed, well-formed>> with one
\* well-formed statement of every kind after it: what a failed statement leaves in the parser never reaches the next.
Seg == {s \in [good : BOOLEAN, len : 1..MaxLen, kw : BOOLEAN] : s.good => s.kw}
Inputs == [segs : UNION {[1..n -> Seg] : n \in 0..MaxSegs},
           lead : 0..1,            \* stray semicolons before the first statement
           dbl  : BOOLEAN,         \* separators are doubled (";;")
           trail : 0..2]           \* semicolons after the last statement

\* token stream: "K" statement keyword, "x" other token, ";" semicolon; seg[i] = index of the segment a token belongs to (0 for semicolons)
RECURSIVE Flatten(_, _)
Flatten(in, i) ==
    IF i > Len(in.segs) THEN <<>>
    ELSE LET s == in.segs[i]
             body == [k \in 1..s.len |-> [t |-> IF k = 1 /\ s.kw THEN "K" ELSE "x", seg |-> i]]
             sep == IF i < Len(in.segs) THEN (IF in.dbl THEN <<[t |-> ";", seg |-> 0], [t |-> ";", seg |-> 0]>> ELSE <<[t |-> ";", seg |-> 0]>>)
                    ELSE [k \in 1..in.trail |-> [t |-> ";", seg |-> 0]]
         IN body \o sep \o Flatten(in, i + 1)
Tokens(in) == [k \in 1..in.lead |-> [t |-> ";", seg |-> 0]] \o Flatten(in, 1)

VARIABLES in, mode, toks, pos, stmts, errs, status
\* mode: "strict" | "recovery";  status: "run" | "accepted" | "rejected" | "done"
vars == <<in, mode, toks, pos, stmts, errs, status>>

Init == /\ in \in Inputs /\ mode \in {"strict", "recovery"}
        /\ toks = Tokens(in) /\ pos = 1 /\ stmts = <<>> /\ errs = <<>> /\ status = "run"

AtEnd == pos > Len(toks)
Cur == toks[pos]
SegEnd(i) == CHOOSE k \in 1..Len(toks) : toks[k].seg = i /\ (k = Len(toks) \/ toks[k + 1].seg # i)
SegStart(i) == CHOOSE k \in 1..Len(toks) : toks[k].seg = i /\ (k = 1 \/ toks[k - 1].seg # i)

SkipSemi == /\ status = "run" /\ ~AtEnd /\ Cur.t = ";"
            /\ pos' = pos + 1 /\ UNCHANGED <<in, mode, toks, stmts, errs, status>>

StmtOK == /\ status = "run" /\ ~AtEnd /\ Cur.t # ";" /\ in.segs[Cur.seg].good
          /\ pos = SegStart(Cur.seg)
          /\ LET e == SegEnd(Cur.seg) IN
             pos' = IF e < Len(toks) /\ toks[e + 1].t = ";" THEN e + 2 ELSE e + 1
          /\ stmts' = Append(stmts, Cur.seg)
          /\ UNCHANGED <<in, mode, toks, errs, status>>

\* the cursor after synchronising from position p: just past the next semicolon, at the next statement keyword, or at the end
SyncFrom(p) ==
    LET stops == {k \in p..Len(toks) : toks[k].t = ";" \/ toks[k].t = "K"} IN
    IF stops = {} THEN Len(toks) + 1
    ELSE LET k == CHOOSE x \in stops : \A y \in stops : x <= y
         IN IF toks[k].t = ";" THEN k + 1 ELSE k

StmtFail(j) ==
    /\ status = "run" /\ ~AtEnd /\ Cur.t # ";" /\ ~in.segs[Cur.seg].good
    /\ j \in 0..in.segs[Cur.seg].len
    /\ IF mode = "strict"
         THEN /\ status' = "rejected" /\ errs' = <<[seg |-> Cur.seg, at |-> pos + j]>>
              /\ UNCHANGED <<pos, stmts>>
         ELSE /\ errs' = Append(errs, [seg |-> Cur.seg, at |-> pos + j])
              /\ pos' = SyncFrom(IF j = 0 THEN pos + 1 ELSE pos + j)
              /\ UNCHANGED <<stmts, status>>
    /\ UNCHANGED <<in, mode, toks>>

End == /\ status = "run" /\ AtEnd
       /\ status' = IF mode = "recovery" THEN "done"
                    ELSE IF stmts = <<>> THEN "rejected" ELSE "accepted"     \* an input without any statement is an error
       /\ UNCHANGED <<in, mode, toks, pos, stmts, errs>>
       /\ Emit => PrintT(ToJson([segs |-> in.segs, lead |-> in.lead, dbl |-> in.dbl, trail |-> in.trail, mode |-> mode,
                                 stmts |-> stmts, errsegs |-> [i \in DOMAIN errs |-> errs[i].seg],
                                 status |-> status']))

Fail == /\ status = "rejected" /\ mode = "strict" /\ UNCHANGED vars   \* terminal

Next == SkipSemi \/ StmtOK \/ (\E j \in 0..MaxLen : StmtFail(j)) \/ End

Spec == Init /\ [][Next]_vars /\ WF_vars(Next)

\* ---- properties -----------------------------------------------------------------
Finished == status \in {"accepted", "rejected", "done"}
GoodSegs == SelectSeq([i \in 1..Len(in.segs) |-> i], LAMBDA i : in.segs[i].good)
BadSegs  == SelectSeq([i \in 1..Len(in.segs) |-> i], LAMBDA i : ~in.segs[i].good)

TypeOK == pos \in 1..Len(toks) + 1

\* every loop step moves the cursor forward (the variant that makes the loop terminate)
Progress == [][status = "run" /\ status' = "run" => pos' > pos]_vars
Termination == <>Finished

\* C12 -----------------------------------------------------------------------------
\* recovery returns exactly the well-formed statements, in order ...
NoLoss == (status = "done") => stmts = GoodSegs
\* ... and one error per malformed one, in order, each naming a token of its own statement
OneErrorPerBadSegment == (status = "done") => [i \in DOMAIN errs |-> errs[i].seg] = BadSegs
ErrorInsideOwnSegment == \A i \in DOMAIN errs : toks[SegStart(errs[i].seg)].seg = errs[i].seg
                            /\ errs[i].at >= SegStart(errs[i].seg) /\ errs[i].at <= SegEnd(errs[i].seg) + 1
\* strict parsing fails exactly when recovery would report an error (inputs with at least one statement)
StrictVerdict == (Finished /\ mode = "strict" /\ Len(in.segs) > 0) =>
                    ((status = "accepted") <=> (BadSegs = <<>>))
StrictFirstError == (status = "rejected" /\ mode = "strict" /\ BadSegs # <<>>) => errs[1].seg = BadSegs[1]
=============================================================================
