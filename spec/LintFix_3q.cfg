SPECIFICATION Spec
CONSTANTS
  MaxSegs = 3
  Seps = {"sp2", "nl", "trail", "blank3", "nlMixed"}
  Shape = "token-aware"
  Emit = TRUE
INVARIANTS PreservesTokens Idempotent CleanAfterFix
