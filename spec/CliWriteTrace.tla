--------------------------- MODULE CliWriteTrace ---------------------------
(***************************************************************************)
(* Trace validation for CliWrite: the system calls that a real             *)
(* `gosqlx format -i` / `gosqlx lint --auto-fix` run issues on the target  *)
(* file and on temporary files in its directory (recorded with strace,     *)
(* one JSON object per line in trace.ndjson) must be a behaviour of the    *)
(* safe protocol.  Every state of the matched behaviour is checked against *)
(* Atomicity / OnlyOnSuccess / NoStrayTmp, i.e. a crash is considered      *)
(* after every recorded system call.                                        *)
(***************************************************************************)
EXTENDS CliWrite, Json, TLCExt

Log == ndJsonDeserialize("trace.ndjson")

VARIABLE l
tvars == <<target, tmp, pc, wfail, l>>

IsEvent(e) == l <= Len(Log) /\ Log[l].ev = e /\ l' = l + 1

TrCreate == IsEvent("create_tmp") /\ CreateTmp
TrWrite  == /\ IsEvent("write") /\ Log[l].file = "tmp"
            /\ IF Log[l].ret = Log[l].n THEN WriteTmp(Log[l].n)
               ELSE WriteFailTmp(IF Log[l].ret > 0 THEN Log[l].ret ELSE 0)
TrClose  == IsEvent("close") /\ Log[l].file = "tmp" /\ CloseTmp
TrRename == IsEvent("rename") /\ Rename
TrUnlink == IsEvent("unlink_tmp") /\ Abort
TrNoop   == (IsEvent("sync") \/ IsEvent("chmod")) /\ UNCHANGED vars
TrSkip   == IsEvent("skip") /\ Skip
TrKilled == IsEvent("killed") /\ (IF pc \in {"done", "failed"} THEN UNCHANGED vars ELSE Crash)
\* a normal exit: status 0 only when nothing failed
TrExit   == /\ IsEvent("exit")
            /\ pc \in {"done", "failed", "start"}
            /\ (Log[l].code = 0) => (pc = "done" \/ (pc = "start" /\ Log[l].unchanged))
            /\ UNCHANGED vars
\* a file that is already in its final form is not rewritten at all
TrUnchanged == IsEvent("unchanged") /\ pc = "start" /\ UNCHANGED vars

TraceInit == Init /\ l = 1
TraceNext == TrCreate \/ TrWrite \/ TrClose \/ TrRename \/ TrUnlink \/ TrNoop \/ TrSkip \/ TrKilled \/ TrExit \/ TrUnchanged
TraceSpec == TraceInit /\ [][TraceNext]_tvars

TraceAccepted ==
    LET d == TLCGet("stats").diameter IN
    IF d - 1 = Len(Log) THEN TRUE
    ELSE Print(<<"TRACE-REJECTED matched", d - 1, "of", Len(Log)>>, FALSE)
=============================================================================
