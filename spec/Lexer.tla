------------------------------- MODULE Lexer -------------------------------
(***************************************************************************)
(* The reference lexical grammar of GoSQLX (pkg/sql/tokenizer), over       *)
(* character CLASSES.  An input is a sequence of class symbols; the driver *)
(* spells every symbol with concrete characters and compares the real      *)
(* tokenizer's output with the token stream defined here.                  *)
(*                                                                         *)
(* Classes                                                                 *)
(*   L  letter or _ (never n, r, t, e)     E  the letter e/E               *)
(*   N  one of the escape letters n r t    U  non-ASCII letter             *)
(*   D  ASCII digit                                                        *)
(*   sp tab nl cr      whitespace                                          *)
(*   sq dq bt bs       ' " ` \          usq udq  typographic ' and "       *)
(*   ( ) [ ] , ; . + * %                 one-character tokens              *)
(*   - > < = ! ~ : | & @ # ? $ /         characters that start ladders     *)
(*   ^                                    a character no token starts with *)
(*                                                                         *)
(* A token is [k, lo, hi, v]: kind, first and last input index, decoded    *)
(* value as a list of items  [t |-> "c", i]  (the character at i, with     *)
(* typographic quotes normalised),  [t |-> "e", i]  (the escape denoted by *)
(* the character at i),  [t |-> "s", s]  (a literal string).               *)
(* A comment is [style, lo, hi] (hi excludes the newline that ends a line  *)
(* comment) plus whether code precedes it on its line.                     *)
(*                                                                         *)
(* The machine has one action per step of the tokenize loop: SkipBlank,    *)
(* ReadComment, ReadToken, Fail, Finish.  Positions are input indices; the *)
(* driver converts them to line/column on the concrete text.               *)
(*                                                                         *)
(* Deliberate transcriptions of the code (the property is silent there):   *)
(* three equal ASCII single quotes open a triple-quoted string; "1." and   *)
(* "1e" are errors; typographic quotes inside quoted text are normalised.  *)
(* Deliberate deviation (the property speaks): "$" not followed by a       *)
(* complete $tag$ is the one-character placeholder and nothing is dropped. *)
(***************************************************************************)
EXTENDS Integers, Sequences, FiniteSets, TLC, Json

CONSTANTS Alphabet,   \* the classes inputs are built from
          MaxLen,     \* inputs up to this length
          Emit

AllClasses == {"L", "E", "N", "U", "D", "sp", "tab", "nl", "cr", "sq", "dq", "bt", "bs", "usq", "udq",
               "(", ")", "[", "]", ",", ";", ".", "+", "*", "%",
               "-", ">", "<", "=", "!", "~", ":", "|", "&", "@", "#", "?", "$", "/", "^"}
ASSUME Alphabet \subseteq AllClasses

IdentStart == {"L", "E", "N", "U"}
IdentPart  == IdentStart \cup {"D"}
Blank      == {"sp", "tab", "nl", "cr"}
SQuote     == {"sq", "usq"}
DQuote     == {"dq", "udq"}
Single     == {"(", ")", "[", "]", ",", ";", ".", "+", "*", "%"}

C(i)  == [t |-> "c", i |-> i]
Esc(i) == [t |-> "e", i |-> i]
Lit(s) == [t |-> "s", s |-> s]

At(s, i) == IF i >= 1 /\ i <= Len(s) THEN s[i] ELSE "eof"

\* first index >= i whose class is not in S (Len+1 if none)
RECURSIVE Skip(_, _, _)
Skip(s, i, S) == IF i > Len(s) \/ s[i] \notin S THEN i ELSE Skip(s, i + 1, S)

Copies(lo, hi) == [k \in 1..(hi - lo + 1) |-> C(lo + k - 1)]

Tok(k, lo, hi, v) == [ok |-> TRUE, k |-> k, lo |-> lo, hi |-> hi, v |-> v, err |-> "", at |-> 0]
Bad(e, lo, at)    == [ok |-> FALSE, k |-> "", lo |-> lo, hi |-> lo, v |-> <<>>, err |-> e, at |-> at]

\* ---- words and numbers --------------------------------------------------------
Word(s, i) == LET e == Skip(s, i, IdentPart) IN Tok("word", i, e - 1, Copies(i, e - 1))

Number(s, i) ==
    LET a == Skip(s, i, {"D"}) IN                       \* after the integer part
    LET afterFrac ==
          IF At(s, a) = "." THEN (IF At(s, a + 1) = "D" THEN Skip(s, a + 1, {"D"}) ELSE 0) ELSE a IN
    IF afterFrac = 0 THEN Bad("badnumber", i, a + 1)
    ELSE IF At(s, afterFrac) = "E"
      THEN LET d == IF At(s, afterFrac + 1) \in {"+", "-"} THEN afterFrac + 2 ELSE afterFrac + 1 IN
           IF At(s, d) = "D" THEN LET e == Skip(s, d, {"D"}) IN Tok("number", i, e - 1, Copies(i, e - 1))
           ELSE Bad("badnumber", i, d)
      ELSE Tok("number", i, afterFrac - 1, Copies(i, afterFrac - 1))

\* ---- quoted text -----------------------------------------------------------------
\* "..." (also typographic): a quoted identifier; "" is an escaped quote; a newline inside is an error
RECURSIVE QIdent(_, _, _, _)
QIdent(s, i, j, acc) ==
    IF j > Len(s) THEN Bad("unterminated", i, i)
    ELSE IF s[j] \in DQuote
      THEN IF At(s, j + 1) \in DQuote THEN QIdent(s, i, j + 2, Append(acc, Lit("\"")))
           ELSE Tok("qident", i, j, acc)
    ELSE IF s[j] = "nl" THEN Bad("unterminated", i, i)
    ELSE QIdent(s, i, j + 1, Append(acc, C(j)))

\* `...`: `` is an escaped backtick, newlines are allowed
RECURSIVE BtIdent(_, _, _, _)
BtIdent(s, i, j, acc) ==
    IF j > Len(s) THEN Bad("unterminated", i, i)
    ELSE IF s[j] = "bt"
      THEN IF At(s, j + 1) = "bt" THEN BtIdent(s, i, j + 2, Append(acc, Lit("`")))
           ELSE Tok("btident", i, j, acc)
    ELSE BtIdent(s, i, j + 1, Append(acc, C(j)))

\* '...': '' is an escaped quote, backslash escapes \\ \' \" \` \n \r \t, newlines allowed
RECURSIVE Str(_, _, _, _)
Str(s, i, j, acc) ==
    IF j > Len(s) THEN Bad("unterminated", i, i)
    ELSE IF s[j] \in SQuote
      THEN IF At(s, j + 1) \in SQuote THEN Str(s, i, j + 2, Append(acc, Lit("'")))
           ELSE Tok("string", i, j, acc)
    ELSE IF s[j] = "bs"
      THEN IF At(s, j + 1) \in {"bs", "dq", "sq", "bt", "N"} THEN Str(s, i, j + 2, Append(acc, Esc(j + 1)))
           ELSE Bad("badescape", i, j + 1)
    ELSE Str(s, i, j + 1, Append(acc, C(j)))

\* '''...''' : raw text up to the next three ASCII quotes
RECURSIVE Triple(_, _, _, _)
Triple(s, i, j, acc) ==
    IF j > Len(s) THEN Bad("unterminated", i, i)
    ELSE IF s[j] = "sq" /\ At(s, j + 1) = "sq" /\ At(s, j + 2) = "sq" /\ j + 2 <= Len(s)
      THEN Tok("triple", i, j + 2, acc)
    ELSE Triple(s, i, j + 1, Append(acc, [t |-> "r", i |-> j]))

String(s, i) ==
    IF s[i] = "sq" /\ At(s, i + 1) = "sq" /\ At(s, i + 2) = "sq" THEN Triple(s, i, i + 3, <<>>)
    ELSE Str(s, i, i + 1, <<>>)

\* ---- dollar: $1, $tag$ ... $tag$, $$ ... $$, or the placeholder "$" ------------------------
\* index of the first occurrence at or after j of the closing tag s[a..b] (0 if none)
RECURSIVE FindTag(_, _, _, _)
FindTag(s, j, a, b) ==
    LET n == b - a + 1 IN
    IF j + n - 1 > Len(s) THEN 0
    ELSE IF \A k \in 0..(n - 1) : s[j + k] = s[a + k] THEN j
    ELSE FindTag(s, j + 1, a, b)

Dollar(s, i) ==
    IF At(s, i + 1) = "D" THEN LET e == Skip(s, i + 1, {"D"}) IN Tok("placeholder", i, e - 1, Copies(i, e - 1))
    ELSE LET t == IF At(s, i + 1) \in IdentStart THEN Skip(s, i + 1, IdentPart) ELSE i + 1 IN   \* end of the tag
         IF At(s, t) = "$"                    \* opening tag s[i..t] is complete
           THEN LET close == FindTag(s, t + 1, i, t) IN
                IF close = 0 THEN Bad("unterminated", i, i)
                ELSE Tok("dollar", i, close + (t - i), [k \in 1..(close - t - 1) |-> [t |-> "r", i |-> t + k]])
           ELSE Tok("placeholder", i, i, Copies(i, i))

\* ---- punctuation ladders (longest match) ------------------------------------------------
Op(s, i, n) == Tok("op", i, i + n - 1, Copies(i, i + n - 1))

Punct(s, i) ==
    LET c == s[i]  a == At(s, i + 1)  b == At(s, i + 2) IN
    CASE c \in Single -> Op(s, i, 1)
      [] c = "-" -> IF a = ">" THEN (IF b = ">" THEN Op(s, i, 3) ELSE Op(s, i, 2)) ELSE Op(s, i, 1)
      [] c = "/" -> Op(s, i, 1)
      [] c = "=" -> IF a = ">" THEN Op(s, i, 2) ELSE Op(s, i, 1)
      [] c = "<" -> IF a \in {"=", ">", "@"} THEN Op(s, i, 2) ELSE Op(s, i, 1)
      [] c = ">" -> IF a = "=" THEN Op(s, i, 2) ELSE Op(s, i, 1)
      [] c = "!" -> IF a = "=" THEN Op(s, i, 2)
                    ELSE IF a = "~" THEN (IF b = "*" THEN Op(s, i, 3) ELSE Op(s, i, 2)) ELSE Op(s, i, 1)
      [] c = ":" -> IF a = ":" THEN Op(s, i, 2) ELSE Op(s, i, 1)
      [] c = "|" -> IF a = "|" THEN Op(s, i, 2) ELSE Op(s, i, 1)
      [] c = "&" -> IF a = "&" THEN Op(s, i, 2) ELSE Op(s, i, 1)
      [] c = "@" -> IF a \in {">", "@"} THEN Op(s, i, 2)
                    ELSE IF a \in IdentStart THEN LET e == Skip(s, i + 1, IdentPart) IN Tok("placeholder", i, e - 1, Copies(i, e - 1))
                    ELSE Op(s, i, 1)
      [] c = "#" -> IF a = ">" THEN (IF b = ">" THEN Op(s, i, 3) ELSE Op(s, i, 2))
                    ELSE IF a = "-" THEN Op(s, i, 2) ELSE Op(s, i, 1)
      [] c = "?" -> IF a \in {"|", "&"} THEN Op(s, i, 2) ELSE Op(s, i, 1)
      [] c = "~" -> IF a = "*" THEN Op(s, i, 2) ELSE Op(s, i, 1)
      [] c = "$" -> Dollar(s, i)
      [] OTHER   -> Bad("badchar", i, i)

Lexeme(s, i) ==
    LET c == s[i] IN
    CASE c \in IdentStart -> Word(s, i)
      [] c = "D"          -> Number(s, i)
      [] c \in DQuote     -> QIdent(s, i, i + 1, <<>>)
      [] c = "bt"         -> BtIdent(s, i, i + 1, <<>>)
      [] c \in SQuote     -> String(s, i)
      [] OTHER            -> Punct(s, i)

\* ---- comments ----------------------------------------------------------------------------
IsLineComment(s, i)  == At(s, i) = "-" /\ At(s, i + 1) = "-"
IsBlockComment(s, i) == At(s, i) = "/" /\ At(s, i + 1) = "*"
LineCommentEnd(s, i) == Skip(s, i, AllClasses \ {"nl"}) - 1                   \* last character before the newline
RECURSIVE BlockEnd(_, _)
BlockEnd(s, j) == IF j + 1 > Len(s) THEN 0
                  ELSE IF s[j] = "*" /\ s[j + 1] = "/" THEN j + 1 ELSE BlockEnd(s, j + 1)
LineStart(s, i) == LET nls == {k \in 1..(i - 1) : s[k] = "nl"} IN
                   IF nls = {} THEN 1 ELSE (CHOOSE k \in nls : \A m \in nls : m <= k) + 1
CodeBefore(s, i) == \E k \in LineStart(s, i)..(i - 1) : s[k] \notin {"sp", "tab", "cr"}

\* ---- the tokenize loop -----------------------------------------------------------------------
VARIABLES inp, pos, toks, coms, err, done
vars == <<inp, pos, toks, coms, err, done>>

RECURSIVE Seqs(_)
Seqs(n) == IF n = 0 THEN {<<>>} ELSE LET S == Seqs(n - 1) IN S \cup {Append(x, a) : x \in {y \in S : Len(y) = n - 1}, a \in Alphabet}

Init == /\ inp \in Seqs(MaxLen) /\ pos = 1 /\ toks = <<>> /\ coms = <<>> /\ err = [e |-> "", at |-> 0] /\ done = FALSE

SkipBlank == /\ ~done /\ pos <= Len(inp) /\ inp[pos] \in Blank
             /\ pos' = Skip(inp, pos, Blank) /\ UNCHANGED <<inp, toks, coms, err, done>>

ReadComment ==
    /\ ~done /\ pos <= Len(inp) /\ inp[pos] \notin Blank
    /\ \/ /\ IsLineComment(inp, pos)
          /\ LET e == LineCommentEnd(inp, pos) IN
             /\ coms' = Append(coms, [style |-> "line", lo |-> pos, hi |-> e, inline |-> CodeBefore(inp, pos)])
             /\ pos' = IF e + 1 <= Len(inp) THEN e + 2 ELSE e + 1              \* past the newline
          /\ UNCHANGED <<err, done>>
       \/ /\ IsBlockComment(inp, pos)
          /\ LET e == BlockEnd(inp, pos + 2) IN
             IF e = 0 THEN /\ err' = [e |-> "unterminated", at |-> pos] /\ done' = TRUE /\ UNCHANGED <<coms, pos>>
             ELSE /\ coms' = Append(coms, [style |-> "block", lo |-> pos, hi |-> e, inline |-> CodeBefore(inp, pos)])
                  /\ pos' = e + 1 /\ UNCHANGED <<err, done>>
    /\ UNCHANGED <<inp, toks>>

ReadToken ==
    /\ ~done /\ pos <= Len(inp) /\ inp[pos] \notin Blank
    /\ ~IsLineComment(inp, pos) /\ ~IsBlockComment(inp, pos)
    /\ LET x == Lexeme(inp, pos) IN
       IF x.ok THEN /\ toks' = Append(toks, [k |-> x.k, lo |-> x.lo, hi |-> x.hi, v |-> x.v])
                    /\ pos' = x.hi + 1 /\ UNCHANGED <<err, done>>
       ELSE /\ err' = [e |-> x.err, at |-> x.at] /\ done' = TRUE /\ UNCHANGED <<toks, pos>>
    /\ UNCHANGED <<inp, coms>>

Finish == /\ ~done /\ pos > Len(inp)
          /\ toks' = Append(toks, [k |-> "eof", lo |-> Len(inp) + 1, hi |-> Len(inp), v |-> <<>>])
          /\ done' = TRUE /\ UNCHANGED <<inp, pos, coms, err>>

Out == (Emit /\ done' /\ ~done) =>
          PrintT(ToJson([inp |-> inp, toks |-> toks', coms |-> coms', err |-> err']))

Next == (SkipBlank \/ ReadComment \/ ReadToken \/ Finish) /\ Out

Spec == Init /\ [][Next]_vars /\ WF_vars(Next)

\* ---- theorems about the reference grammar (checked by TLC on every input) ------------------------
Failed == err.e # ""
TypeOK == pos \in 1..Len(inp) + 1

\* C04: exactly one end-of-input marker, at the very end, unless the input is rejected
ExactlyOneEOF == (done /\ ~Failed) =>
    /\ Len(toks) >= 1 /\ toks[Len(toks)].k = "eof"
    /\ \A i \in 1..(Len(toks) - 1) : toks[i].k # "eof"
NoTokensWithError == (done /\ Failed) => \A i \in DOMAIN toks : toks[i].k # "eof"

\* C04/C05: tokens in source order, each inside the input, end of one never after the start of the next
SourceOrder == \A i \in DOMAIN toks :
    /\ toks[i].lo >= 1 /\ (toks[i].k # "eof" => toks[i].lo <= toks[i].hi /\ toks[i].hi <= Len(inp))
    /\ (i > 1 => toks[i - 1].hi < toks[i].lo)
CommentOrder == \A i \in DOMAIN coms :
    /\ coms[i].lo >= 1 /\ coms[i].lo <= coms[i].hi /\ coms[i].hi <= Len(inp)
    /\ (i > 1 => coms[i - 1].hi < coms[i].lo)

\* C04: nothing dropped, nothing invented - once the input is accepted every non-blank character belongs to
\* exactly one token or comment
Covered(i) == Cardinality({k \in DOMAIN toks : toks[k].lo <= i /\ i <= toks[k].hi})
              + Cardinality({k \in DOMAIN coms : coms[k].lo <= i /\ i <= coms[k].hi})
NothingDropped == (done /\ ~Failed) => \A i \in 1..Len(inp) : IF inp[i] \in Blank /\ Covered(i) = 0 THEN TRUE ELSE Covered(i) = 1

\* the loop always advances and ends
Progress == [][~done' => pos' > pos]_vars
Termination == <>done
=============================================================================
