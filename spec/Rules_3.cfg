SPECIFICATION Spec
CONSTANTS
  MaxSteps = 3
  Emit = FALSE
INVARIANTS LimitsNonNegative
PROPERTIES FailureChangesNothing RenamedIsGone
