SPECIFICATION Spec
CONSTANTS
  Limit = 10
  Depths = {3, 10, 11, 12, 25}
  MaxStmts = 4
  Shape = "double-release"
  Emit = FALSE
INVARIANTS RejectedIffTooDeep
