SPECIFICATION Spec
CONSTANTS
  Alphabet = {"-","/","*","nl","L","sp","sq"}
  MaxLen = 6
  Emit = TRUE
INVARIANTS TypeOK ExactlyOneEOF NoTokensWithError SourceOrder CommentOrder NothingDropped

