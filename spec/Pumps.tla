------------------------------- MODULE Pumps -------------------------------
(***************************************************************************)
(* Self-embedding contexts of the grammar, one per OPERAND POSITION (C02). *)
(* A context is a token list with one hole; C^n[core] puts the context     *)
(* into its own hole n times.  Every level of C^n passes the parser        *)
(* functions of that operand position once, so the nesting limit must      *)
(* reject C^n for n beyond the limit whatever the position is - a guard    *)
(* that is released before the right operand of an operator is parsed      *)
(* counts the left operand only.                                           *)
(*                                                                         *)
(* Expression contexts are derived from the operator table: for every      *)
(* binary operator its left and its right operand; every operand of the    *)
(* ternary and n-ary forms (BETWEEN, IN lists, CASE in both forms, calls   *)
(* with their DISTINCT / ORDER BY / FILTER / OVER / WITHIN GROUP parts,     *)
(* CAST, array constructor and subscript, row values); the prefix and      *)
(* postfix operators.  The hole is always parenthesised, so the context is *)
(* well-formed whatever stands in it.  Statement contexts are the query    *)
(* holes of Names.tla (sub-query in each position, derived tables, CTE     *)
(* bodies, set-operation arms).                                            *)
(*                                                                         *)
(* TLC checks that every context is well-formed (WellFormed: parentheses   *)
(* and brackets balance and never close before they open, on both sides of *)
(* the hole together; the hole is enclosed by the context's own            *)
(* parentheses) and prints it; the driver builds C^n[core] for a ladder of *)
(* n and runs the real parser in child processes.                          *)
(***************************************************************************)
EXTENDS Integers, Sequences, FiniteSets, TLC, Json

CONSTANT Emit

BinaryOps == {"OR", "AND", "=", "<>", "<", ">", "<=", ">=", "LIKE", "ILIKE", "||", "+", "-", "*", "/", "%", "->", "->>"}

\* bare: the context delimits its hole by itself (a call's parentheses, CASE ... END, brackets, the keywords of a window
\* clause), so it also nests WITHOUT the parentheses around the hole - and only then does every level pass nothing but
\* the productions of that operand position (a parenthesised hole always passes the parenthesis production, which has
\* a guard of its own)
E(n, pre, post) == [name |-> n, level |-> "expression", pre |-> pre, post |-> post, bare |-> FALSE]
B(n, pre, post) == [name |-> n, level |-> "expression", pre |-> pre, post |-> post, bare |-> TRUE]
Q(n, pre, post) == [name |-> n, level |-> "statement", pre |-> pre, post |-> post, bare |-> FALSE]

BinaryContexts ==
    UNION {{E("left-of:" \o o, <<"(">>, <<")", o, "1">>), E("right-of:" \o o, <<"1", o, "(">>, <<")">>)} : o \in BinaryOps}

OtherExpressionContexts == {
    E("not", <<"NOT", "(">>, <<")">>), E("minus", <<"-", "(">>, <<")">>),
    E("is-null", <<"(">>, <<")", "IS", "NULL">>), E("is-not-null", <<"(">>, <<")", "IS", "NOT", "NULL">>),
    E("cast-colons", <<"(">>, <<")", "::", "INT">>), B("cast", <<"CAST", "(", "(">>, <<")", "AS", "INT", ")">>),
    E("between-subject", <<"(">>, <<")", "BETWEEN", "1", "AND", "2">>),
    E("between-lower", <<"a", "BETWEEN", "(">>, <<")", "AND", "2">>),
    E("between-upper", <<"a", "BETWEEN", "1", "AND", "(">>, <<")">>),
    E("in-subject", <<"(">>, <<")", "IN", "(", "1", ",", "2", ")">>),
    B("in-first-element", <<"a", "IN", "(", "(">>, <<")", ",", "2", ")">>),
    B("in-last-element", <<"a", "IN", "(", "1", ",", "(">>, <<")", ")">>),
    B("not-in-element", <<"a", "NOT", "IN", "(", "(">>, <<")", ")">>),
    B("case-operand", <<"CASE", "(">>, <<")", "WHEN", "1", "THEN", "2", "END">>),
    B("case-when-value", <<"CASE", "a", "WHEN", "(">>, <<")", "THEN", "2", "END">>),
    B("case-condition", <<"CASE", "WHEN", "(">>, <<")", "THEN", "1", "END">>),
    B("case-second-condition", <<"CASE", "WHEN", "a", "THEN", "1", "WHEN", "(">>, <<")", "THEN", "2", "END">>),
    B("case-result", <<"CASE", "WHEN", "a", "THEN", "(">>, <<")", "END">>),
    B("case-else", <<"CASE", "WHEN", "a", "THEN", "1", "ELSE", "(">>, <<")", "END">>),
    B("call-first-argument", <<"f", "(", "(">>, <<")", ",", "1", ")">>),
    B("call-last-argument", <<"f", "(", "1", ",", "(">>, <<")", ")">>),
    B("call-distinct", <<"COUNT", "(", "DISTINCT", "(">>, <<")", ")">>),
    B("call-order-by", <<"f", "(", "a", "ORDER", "BY", "(">>, <<")", ")">>),
    B("call-filter", <<"COUNT", "(", "a", ")", "FILTER", "(", "WHERE", "(">>, <<")", ")">>),
    B("call-over-partition", <<"SUM", "(", "a", ")", "OVER", "(", "PARTITION", "BY", "(">>, <<")", ")">>),
    B("call-over-order", <<"SUM", "(", "a", ")", "OVER", "(", "ORDER", "BY", "(">>, <<")", ")">>),
    B("call-within-group", <<"f", "(", "a", ")", "WITHIN", "GROUP", "(", "ORDER", "BY", "(">>, <<")", ")">>),
    B("frame-offset", <<"SUM", "(", "a", ")", "OVER", "(", "ORDER", "BY", "a", "ROWS", "(">>, <<")", "PRECEDING", ")">>),
    B("frame-between-start", <<"SUM", "(", "a", ")", "OVER", "(", "ORDER", "BY", "a", "ROWS", "BETWEEN", "(">>, <<")", "PRECEDING", "AND", "CURRENT", "ROW", ")">>),
    B("frame-between-end", <<"SUM", "(", "a", ")", "OVER", "(", "ORDER", "BY", "a", "RANGE", "BETWEEN", "1", "PRECEDING", "AND", "(">>, <<")", "FOLLOWING", ")">>),
    B("array-first-element", <<"ARRAY", "[", "(">>, <<")", ",", "1", "]">>),
    B("array-last-element", <<"ARRAY", "[", "1", ",", "(">>, <<")", "]">>),
    E("subscript-array", <<"(">>, <<")", "[", "1", "]">>), B("subscript-index", <<"a", "[", "(">>, <<")", "]">>),
    B("slice-end", <<"a", "[", "1", ":", "(">>, <<")", "]">>),
    E("row-first", <<"(", "(">>, <<")", ",", "1", ")">>), E("row-last", <<"(", "1", ",", "(">>, <<")", ")">>) }

S == <<"SELECT", "a", "FROM", "t">>
StatementContexts == {
    Q("in-subquery", S \o <<"WHERE", "a", "IN", "(">>, <<")">>),
    Q("not-in-subquery", S \o <<"WHERE", "a", "NOT", "IN", "(">>, <<")">>),
    Q("exists", S \o <<"WHERE", "EXISTS", "(">>, <<")">>),
    Q("scalar-subquery", <<"SELECT", "(">>, <<")", "FROM", "t">>),
    Q("scalar-subquery-second-item", <<"SELECT", "a", ",", "(">>, <<")", "FROM", "t">>),
    Q("derived", <<"SELECT", "*", "FROM", "(">>, <<")", "x">>),
    Q("derived-second", <<"SELECT", "*", "FROM", "t", ",", "(">>, <<")", "x">>),
    Q("join-derived", S \o <<"JOIN", "(">>, <<")", "x", "ON", "a", "=", "1">>),
    Q("second-join-derived", S \o <<"JOIN", "u", "ON", "a", "=", "1", "LEFT", "JOIN", "(">>, <<")", "x", "ON", "a", "=", "1">>),
    Q("lateral", <<"SELECT", "*", "FROM", "t", ",", "LATERAL", "(">>, <<")", "x">>),
    Q("cte", <<"WITH", "c", "AS", "(">>, <<")", "SELECT", "a", "FROM", "c">>),
    Q("second-cte", <<"WITH", "b", "AS", "(", "SELECT", "1", ")", ",", "c", "AS", "(">>, <<")", "SELECT", "a", "FROM", "c">>),
    Q("union-right-parenthesised", S \o <<"UNION", "(">>, <<")">>),
    Q("except-right-parenthesised", S \o <<"EXCEPT", "(">>, <<")">>),
    Q("having-subquery", S \o <<"GROUP", "BY", "a", "HAVING", "a", ">", "(">>, <<")">>),
    Q("join-on-subquery", S \o <<"JOIN", "u", "ON", "a", "IN", "(">>, <<")">>),
    Q("case-subquery", <<"SELECT", "CASE", "WHEN", "EXISTS", "(">>, <<")", "THEN", "1", "END", "FROM", "t">>),
    Q("call-argument-subquery", <<"SELECT", "f", "(", "(">>, <<")", ")", "FROM", "t">>),
    Q("order-by-subquery", S \o <<"ORDER", "BY", "(">>, <<")">>),
    Q("between-subquery", S \o <<"WHERE", "a", "BETWEEN", "(">>, <<")", "AND", "9">>),
    Q("right-of-or-subquery", S \o <<"WHERE", "a", "=", "1", "OR", "a", "=", "(">>, <<")">>),
    Q("any-subquery", S \o <<"WHERE", "a", "=", "ANY", "(">>, <<")">>),
    Q("group-by-subquery", S \o <<"GROUP", "BY", "(">>, <<")">>) }

\* Positions of the wider SQL surface.  Whether today's parser takes a construct here or not is not the model's business:
\* the law "beyond the limit it is rejected, and the stack is bounded" is judged for a context from the moment the
\* parser accepts it at small depths, so a position that starts being accepted is covered the day it is.
W == <<"WITH", "c", "AS", "(", "SELECT", "1", ")">>
FurtherStatementContexts == {
    Q("with-main-derived", W \o <<"SELECT", "*", "FROM", "(">>, <<")", "x">>),
    Q("with-main-join-derived", W \o S \o <<"JOIN", "(">>, <<")", "x", "ON", "a", "=", "1">>),
    Q("with-main-in-subquery", W \o S \o <<"WHERE", "a", "IN", "(">>, <<")">>),
    Q("with-main-exists", W \o S \o <<"WHERE", "EXISTS", "(">>, <<")">>),
    Q("with-main-scalar-subquery", W \o <<"SELECT", "(">>, <<")", "FROM", "t">>),
    Q("with-main-union-right", W \o S \o <<"UNION", "(">>, <<")">>),
    Q("with-cte-body", <<"WITH", "c", "AS", "(", "WITH", "d", "AS", "(">>, <<")", "SELECT", "a", "FROM", "d", ")", "SELECT", "a", "FROM", "c">>),
    Q("recursive-cte", <<"WITH", "RECURSIVE", "c", "AS", "(">>, <<")", "SELECT", "a", "FROM", "c">>),
    Q("materialized-cte", <<"WITH", "c", "AS", "MATERIALIZED", "(">>, <<")", "SELECT", "a", "FROM", "c">>),
    Q("limit-subquery", S \o <<"LIMIT", "(">>, <<")">>),
    Q("offset-subquery", S \o <<"LIMIT", "1", "OFFSET", "(">>, <<")">>),
    Q("fetch-subquery", S \o <<"FETCH", "FIRST", "(">>, <<")", "ROWS", "ONLY">>),
    Q("distinct-on-subquery", <<"SELECT", "DISTINCT", "ON", "(", "(">>, <<")", ")", "a", "FROM", "t">>),
    Q("rollup-subquery", S \o <<"GROUP", "BY", "ROLLUP", "(", "(">>, <<")", ")">>),
    Q("grouping-sets-subquery", S \o <<"GROUP", "BY", "GROUPING", "SETS", "(", "(", "(">>, <<")", ")", ")">>),
    Q("window-definition-subquery", <<"SELECT", "SUM", "(", "a", ")", "OVER", "w", "FROM", "t", "WINDOW", "w", "AS", "(", "PARTITION", "BY", "(">>, <<")", ")">>),
    Q("select-alias-subquery", <<"SELECT", "(">>, <<")", "AS", "x", "FROM", "t">>),
    Q("all-subquery", S \o <<"WHERE", "a", ">", "ALL", "(">>, <<")">>),
    Q("some-subquery", S \o <<"WHERE", "a", "=", "SOME", "(">>, <<")">>),
    Q("not-exists", S \o <<"WHERE", "NOT", "EXISTS", "(">>, <<")">>),
    Q("in-subquery-second-condition", S \o <<"WHERE", "a", "=", "1", "AND", "a", "IN", "(">>, <<")">>),
    Q("array-subquery", <<"SELECT", "ARRAY", "(">>, <<")", "FROM", "t">>),
    Q("table-function-argument", <<"SELECT", "*", "FROM", "f", "(", "(">>, <<")", ")", "x">>),
    Q("unnest-argument", <<"SELECT", "*", "FROM", "UNNEST", "(", "(">>, <<")", ")", "x">>),
    Q("values-row", <<"SELECT", "*", "FROM", "(", "VALUES", "(", "(">>, <<")", ")", ")", "x">>),
    Q("cross-join-derived", S \o <<"CROSS", "JOIN", "(">>, <<")", "x">>),
    Q("natural-join-derived", S \o <<"NATURAL", "JOIN", "(">>, <<")", "x">>),
    Q("full-join-derived", S \o <<"FULL", "OUTER", "JOIN", "(">>, <<")", "x", "ON", "a", "=", "1">>),
    Q("join-lateral", S \o <<"LEFT", "JOIN", "LATERAL", "(">>, <<")", "x", "ON", "TRUE">>),
    Q("cross-apply", S \o <<"CROSS", "APPLY", "(">>, <<")", "x">>),
    Q("parenthesised-join-derived", <<"SELECT", "*", "FROM", "(", "t", "JOIN", "(">>, <<")", "x", "ON", "a", "=", "1", ")">>),
    Q("intersect-right-parenthesised", S \o <<"INTERSECT", "(">>, <<")">>),
    Q("union-all-right-parenthesised", S \o <<"UNION", "ALL", "(">>, <<")">>),
    Q("union-left-parenthesised", <<"(">>, <<")", "UNION", "SELECT", "a", "FROM", "t">>),
    Q("parenthesised-query", <<"(">>, <<")">>),
    Q("parenthesised-query-ordered", <<"(">>, <<")", "ORDER", "BY", "1">>),
    Q("qualify-subquery", S \o <<"QUALIFY", "a", "IN", "(">>, <<")">>),
    Q("like-subquery", S \o <<"WHERE", "a", "LIKE", "(">>, <<")">>),
    Q("is-null-subquery", S \o <<"WHERE", "(">>, <<")", "IS", "NULL">>),
    Q("cast-subquery", <<"SELECT", "CAST", "(", "(">>, <<")", "AS", "INT", ")", "FROM", "t">>),
    Q("window-order-subquery", <<"SELECT", "SUM", "(", "a", ")", "OVER", "(", "ORDER", "BY", "(">>, <<")", ")", "FROM", "t">>),
    Q("filter-subquery", <<"SELECT", "COUNT", "(", "a", ")", "FILTER", "(", "WHERE", "a", "IN", "(">>, <<")", ")", "FROM", "t">>),
    Q("array-element-subquery", <<"SELECT", "ARRAY", "[", "(">>, <<")", "]", "FROM", "t">>),
    Q("case-result-subquery", <<"SELECT", "CASE", "WHEN", "a", "THEN", "(">>, <<")", "END", "FROM", "t">>),
    Q("coalesce-subquery", <<"SELECT", "COALESCE", "(", "a", ",", "(">>, <<")", ")", "FROM", "t">>),
    Q("tuple-in-subquery", S \o <<"WHERE", "(", "a", ",", "b", ")", "IN", "(">>, <<")">>) }

FurtherExpressionContexts == {
    E("plus-sign", <<"+", "(">>, <<")">>),
    E("is-true", <<"(">>, <<")", "IS", "TRUE">>), E("is-distinct-from-left", <<"(">>, <<")", "IS", "DISTINCT", "FROM", "1">>),
    E("is-distinct-from-right", <<"1", "IS", "DISTINCT", "FROM", "(">>, <<")">>),
    E("not-like-right", <<"a", "NOT", "LIKE", "(">>, <<")">>), E("not-between-lower", <<"a", "NOT", "BETWEEN", "(">>, <<")", "AND", "2">>),
    E("like-escape", <<"a", "LIKE", "b", "ESCAPE", "(">>, <<")">>),
    E("similar-to-right", <<"a", "SIMILAR", "TO", "(">>, <<")">>), E("regexp-right", <<"a", "REGEXP", "(">>, <<")">>),
    E("at-time-zone", <<"(">>, <<")", "AT", "TIME", "ZONE", "'UTC'">>),
    E("collate", <<"(">>, <<")", "COLLATE", "x">>),
    E("cast-colons-chain", <<"(">>, <<")", "::", "INT", "::", "TEXT">>),
    E("contains-right", <<"a", "@>", "(">>, <<")">>), E("contained-left", <<"(">>, <<")", "<@", "a">>),
    E("json-path-right", <<"a", "#>", "(">>, <<")">>), E("json-path-text-right", <<"a", "#>>", "(">>, <<")">>),
    E("json-exists-right", <<"a", "?", "(">>, <<")">>), E("json-delete-right", <<"a", "#-", "(">>, <<")">>),
    E("bit-and-right", <<"a", "&", "(">>, <<")">>), E("bit-or-right", <<"a", "|", "(">>, <<")">>),
    E("shift-left-right", <<"a", "<<", "(">>, <<")">>), E("power-right", <<"a", "^", "(">>, <<")">>),
    E("null-safe-equal-right", <<"a", "<=>", "(">>, <<")">>), E("regex-match-right", <<"a", "~", "(">>, <<")">>),
    E("xor-right", <<"a", "XOR", "(">>, <<")">>), E("div-right", <<"a", "DIV", "(">>, <<")">>),
    E("any-element", <<"a", "=", "ANY", "(", "(">>, <<")", ")">>),
    E("all-element", <<"a", "=", "ALL", "(", "(">>, <<")", ")">>),
    B("try-cast", <<"TRY_CAST", "(", "(">>, <<")", "AS", "INT", ")">>),
    B("convert", <<"CONVERT", "(", "(">>, <<")", ",", "INT", ")">>),
    B("extract-from", <<"EXTRACT", "(", "YEAR", "FROM", "(">>, <<")", ")">>),
    B("substring-from", <<"SUBSTRING", "(", "(">>, <<")", "FROM", "1", "FOR", "2", ")">>),
    B("substring-for", <<"SUBSTRING", "(", "a", "FROM", "1", "FOR", "(">>, <<")", ")">>),
    B("position-in", <<"POSITION", "(", "(">>, <<")", "IN", "a", ")">>),
    B("trim-from", <<"TRIM", "(", "BOTH", "'x'", "FROM", "(">>, <<")", ")">>),
    B("overlay", <<"OVERLAY", "(", "a", "PLACING", "(">>, <<")", "FROM", "1", ")">>),
    B("row-constructor", <<"ROW", "(", "(">>, <<")", ",", "1", ")">>),
    B("coalesce", <<"COALESCE", "(", "a", ",", "(">>, <<")", ")">>),
    B("nullif", <<"NULLIF", "(", "(">>, <<")", ",", "1", ")">>),
    B("greatest", <<"GREATEST", "(", "1", ",", "(">>, <<")", ")">>),
    B("qualified-call", <<"s", ".", "f", "(", "(">>, <<")", ")">>),
    B("call-star-filter", <<"COUNT", "(", "*", ")", "FILTER", "(", "WHERE", "(">>, <<")", ")">>),
    B("call-over-named-partition", <<"SUM", "(", "a", ")", "OVER", "(", "w", "PARTITION", "BY", "(">>, <<")", ")">>),
    B("call-second-order-key", <<"f", "(", "a", "ORDER", "BY", "b", ",", "(">>, <<")", ")">>),
    B("call-separator", <<"STRING_AGG", "(", "a", ",", "(">>, <<")", ")">>),
    B("call-ignore-nulls", <<"LAG", "(", "(">>, <<")", ")", "IGNORE", "NULLS", "OVER", "(", "ORDER", "BY", "a", ")">>),
    B("array-middle-element", <<"ARRAY", "[", "1", ",", "(">>, <<")", ",", "3", "]">>),
    B("nested-array", <<"ARRAY", "[", "ARRAY", "[", "(">>, <<")", "]", "]">>),
    B("slice-start", <<"a", "[", "(">>, <<")", ":", "2", "]">>),
    B("second-subscript", <<"a", "[", "1", "]", "[", "(">>, <<")", "]">>),
    E("interval-of", <<"INTERVAL", "(">>, <<")", "DAY">>),
    B("case-third-condition", <<"CASE", "WHEN", "a", "THEN", "1", "WHEN", "b", "THEN", "2", "WHEN", "(">>, <<")", "THEN", "3", "END">>),
    B("case-second-result", <<"CASE", "WHEN", "a", "THEN", "1", "WHEN", "b", "THEN", "(">>, <<")", "END">>),
    B("case-operand-else", <<"CASE", "a", "WHEN", "1", "THEN", "2", "ELSE", "(">>, <<")", "END">>),
    E("row-middle", <<"(", "1", ",", "(">>, <<")", ",", "3", ")">>),
    E("tuple-in-subject", <<"(", "a", ",", "(">>, <<")", ")", "IN", "(", "(", "1", ",", "2", ")", ")">>),
    E("tuple-in-element", <<"(", "a", ",", "b", ")", "IN", "(", "(", "1", ",", "(">>, <<")", ")", ")">>) }

\* Chains: a context repeated WITHOUT delimiters around its hole (1 = 1 = 1 ..., a IS NULL IS NULL ..., a [1] [1] ...,
\* s UNION s UNION s ...).  A chain is a sequence, not nesting: a parser may read it by iteration, and then any length
\* within the token limit is fine.  But a chain that is accepted and read by RECURSION has no delimiter to count: its
\* stack use grows with its length.  For these the law is: accepted at two lengths => the stack the parser used does not
\* grow with the length.
Ch(n, pre, post) == [name |-> n, level |-> "chain", pre |-> pre, post |-> post, bare |-> FALSE]
ChainContexts ==
    {Ch("chain-right-of:" \o o, <<"1", o>>, <<>>) : o \in BinaryOps \cup {"<=", ">=", "<", ">", "<>", "IS DISTINCT FROM", "NOT LIKE", "IN", "^", "&", "|"}}
    \cup {Ch("chain-left-of:" \o o, <<>>, <<o, "1">>) : o \in {"OR", "AND", "=", "+", "||", "*", "->", "LIKE"}}
    \cup {Ch("chain-is-null", <<>>, <<"IS", "NULL">>), Ch("chain-is-not-null", <<>>, <<"IS", "NOT", "NULL">>),
          Ch("chain-cast-colons", <<>>, <<"::", "INT">>), Ch("chain-subscript", <<>>, <<"[", "1", "]">>),
          Ch("chain-between", <<"1", "BETWEEN", "0", "AND">>, <<>>), Ch("chain-not", <<"NOT">>, <<>>), Ch("chain-minus", <<"-">>, <<>>),
          Ch("chain-collate", <<>>, <<"COLLATE", "x">>), Ch("chain-at-time-zone", <<>>, <<"AT", "TIME", "ZONE", "'UTC'">>)}

Contexts == BinaryContexts \cup OtherExpressionContexts \cup StatementContexts \cup FurtherStatementContexts \cup FurtherExpressionContexts \cup ChainContexts

VARIABLES ctx, done
vars == <<ctx, done>>
Init == ctx \in Contexts /\ done = FALSE
Run == /\ ~done /\ done' = TRUE /\ UNCHANGED ctx
       /\ (Emit => PrintT(ToJson(ctx)))
Spec == Init /\ [][Run]_vars

\* ---- well-formedness ---------------------------------------------------------------------------------------
Open == {"(", "["}
Close == {")", "]"}
RECURSIVE Depths(_, _, _)
\* the nesting depth after each token of s, starting from d
Depths(s, i, d) == IF i > Len(s) THEN <<>>
                   ELSE LET n == IF s[i] \in Open THEN d + 1 ELSE IF s[i] \in Close THEN d - 1 ELSE d IN <<n>> \o Depths(s, i + 1, n)
Final(s, d) == IF s = <<>> THEN d ELSE Depths(s, 1, d)[Len(s)]
WellFormed ==
    ctx.level = "chain" \/
    LET a == Depths(ctx.pre, 1, 0)
        mid == Final(ctx.pre, 0)
        b == Depths(ctx.post, 1, mid) IN
    /\ \A i \in DOMAIN a : a[i] >= 0
    /\ \A i \in DOMAIN b : b[i] >= 0
    /\ Final(ctx.post, mid) = 0
    \* the hole is enclosed by the context's own parentheses (an unparenthesised arm of a set operation would make
    \* a chain, which is a sequence and not nesting)
    /\ ctx.pre[Len(ctx.pre)] = "(" /\ ctx.post[1] = ")"
\* the bare variant (hole parentheses removed) is balanced as well, and starts with a name or keyword and ends with a
\* closing delimiter or END, so that it is a primary expression wherever it stands
BareWellFormed ==
    ctx.bare =>
        LET pre == SubSeq(ctx.pre, 1, Len(ctx.pre) - 1)
            post == SubSeq(ctx.post, 2, Len(ctx.post))
            a == Depths(pre, 1, 0)
            b == Depths(post, 1, Final(pre, 0)) IN
        /\ pre # <<>> /\ post # <<>>
        /\ pre[1] \notin Open \cup Close
        /\ post[Len(post)] \in {")", "]", "END"}
        /\ \A i \in DOMAIN a : a[i] >= 0
        /\ \A i \in DOMAIN b : b[i] >= 0
        /\ Final(post, Final(pre, 0)) = 0
UniqueNames == \A c \in Contexts : c.name = ctx.name => c = ctx
=============================================================================
