----------------------------- MODULE CliVerdict -----------------------------
(***************************************************************************)
(* Verdicts of the gosqlx command line: exit status, files touched and     *)
(* machine-readable reports, as a function of the command, its flags and   *)
(* the classes of its inputs.                                              *)
(*                                                                         *)
(* Input classes (what the library says about a text):                     *)
(*   "fmt"    accepted, already in the formatter's output form, lint-clean *)
(*   "unfmt"  accepted, not in output form                                 *)
(*   "warn"   accepted, not in output form, has warning-level lint findings*)
(*   "bad"    rejected by the parser                                       *)
(* One state per case: Init chooses the case, Run computes the verdict.    *)
(* The driver executes the real binary for every case TLC prints.          *)
(***************************************************************************)
EXTENDS Integers, Sequences, FiniteSets, TLC, Json, SequencesExt

CONSTANT Emit

Classes == {"fmt", "unfmt", "warn", "bad"}
Accepted(c) == c # "bad"
Formatted(c) == c = "fmt"
HasWarning(c) == c = "warn"

FileSets == {<<a>> : a \in Classes} \cup {<<a, b>> : a \in Classes, b \in Classes}

Cmds == {"validate", "validate-quiet", "validate-json", "validate-sarif",
         "format", "format-check", "format-inplace", "format-output",
         \* --check given together with a flag that writes: checking wins, nothing is written
         "format-check-inplace", "format-check-output",
         "lint", "lint-failwarn", "lint-fix", "parse"}

Sources == {"files", "stdin", "inline"}
\* the inputs given indirectly: a directory read recursively (-r) whose files lie flat, partly in a sub-directory,
\* next to a dot-file, next to a file of another extension (neither is an input); or a glob pattern
TreeSources == {"dir-flat", "dir-nested", "dir-dotfile", "dir-other-ext", "glob"}
TreeCmds == {"validate", "validate-quiet", "validate-json", "validate-sarif", "lint", "lint-failwarn"}

\* `parse` takes exactly one input; `format --check` on inline SQL is not a check-only mode the
\* property speaks about (the command prints the formatted text), so it is not constrained here.
\* how `parse` presents its result: the global output format and its own display flags.  Presentation is not part of
\* the verdict: whatever is printed, and in whatever format a failure is reported, the exit status is the library's
\* (--tokens is not a presentation: it makes the command tokenize only, and the tokenizer accepts what the parser rejects)
Presentations == {"json", "yaml", "table", "tree", "ast", "treeview", "verbose"}
Plain == {[cmd |-> c, src |-> "files", ins |-> f] : c \in Cmds \ {"parse"}, f \in FileSets}
         \cup {[cmd |-> "parse", src |-> "files", ins |-> <<a>>] : a \in Classes}
         \cup {[cmd |-> c, src |-> s, ins |-> <<a>>] :
                  c \in {"validate", "format", "lint", "lint-failwarn", "parse"},
                  s \in {"stdin", "inline"}, a \in Classes}
         \cup {[cmd |-> "format-check", src |-> "stdin", ins |-> <<a>>] : a \in Classes}
         \* (only validate expands glob patterns itself; lint leaves that to the shell)
         \cup {[cmd |-> c, src |-> s, ins |-> f] : c \in TreeCmds, s \in TreeSources \ {"glob"}, f \in FileSets}
         \cup {[cmd |-> c, src |-> "glob", ins |-> f] :
                  c \in {"validate", "validate-quiet", "validate-json", "validate-sarif"}, f \in FileSets}
\* where the process keeps temporary files (TMPDIR): on another file system than the inputs, or nowhere (the directory
\* does not exist).  The commands that rewrite files must not depend on it: the temporary file of a rewrite lives next
\* to its target
Environments == {"tmpdir-elsewhere", "tmpdir-missing"}
Cases == {[cmd |-> c.cmd, src |-> c.src, ins |-> c.ins, pres |-> "", env |-> ""] : c \in Plain}
         \cup {[cmd |-> "parse", src |-> s, ins |-> <<a>>, pres |-> p, env |-> ""] : s \in Sources, a \in Classes, p \in Presentations}
         \cup {[cmd |-> c, src |-> "files", ins |-> f, pres |-> "", env |-> e] : c \in {"format-inplace", "lint-fix", "format-output"}, f \in FileSets, e \in Environments}

\* "already formatted" relates a text to what format prints for it: equality up to the final newlines, nothing else.
\* The driver decorates the printed text of accepted inputs with each of these and requires of the real binary what the
\* three operators say: --check fails and -i rewrites exactly when the decoration is more than final newlines, and
\* what -i leaves on disk is always what format prints.
Decorations == {"none", "final-newlines", "leading-blank-lines", "leading-indent", "trailing-blanks", "trailing-blank-line", "crlf", "both-ends"}
SameAsOutput(d) == d \in {"none", "final-newlines"}
CheckExit(d) == IF SameAsOutput(d) THEN 0 ELSE 1
InplaceRewrites(d) == ~SameAsOutput(d)
ASSUME \A d \in Decorations : (CheckExit(d) = 0) <=> ~InplaceRewrites(d)

VARIABLES case, verdict, done
vars == <<case, verdict, done>>

AllAccepted(ins) == \A i \in DOMAIN ins : Accepted(ins[i])
AnyWarning(ins) == \E i \in DOMAIN ins : HasWarning(ins[i])
Idx(ins, P(_)) == {i \in DOMAIN ins : P(ins[i])}

NeedsRewrite(c) == Accepted(c) /\ ~Formatted(c)
Rejected(c) == ~Accepted(c)

\* exit status (0 = success) ------------------------------------------------
ExitOf(c) ==
    CASE c.cmd \in {"validate", "validate-quiet", "validate-json", "validate-sarif", "parse",
                    "format", "format-inplace", "format-output"}
            -> IF AllAccepted(c.ins) THEN 0 ELSE 1
      [] c.cmd \in {"format-check", "format-check-inplace", "format-check-output"}
            -> IF AllAccepted(c.ins) /\ \A i \in DOMAIN c.ins : Formatted(c.ins[i]) THEN 0 ELSE 1
      \* the text-level lint rules run on any text; only findings of failing severity fail the command
      [] c.cmd \in {"lint", "lint-fix"} -> 0
      [] c.cmd = "lint-failwarn" -> IF AnyWarning(c.ins) THEN 1 ELSE 0

\* which input files may be modified, and which must be -----------------------
MustTouch(c) == IF c.cmd = "format-inplace" /\ c.src = "files" THEN Idx(c.ins, NeedsRewrite) ELSE {}
MayTouch(c)  == IF c.cmd = "format-inplace" /\ c.src = "files" THEN Idx(c.ins, NeedsRewrite)
                ELSE IF c.cmd = "lint-fix" /\ c.src = "files" THEN Idx(c.ins, HasWarning)
                ELSE {}

\* inputs a machine-readable report must name as failing --------------------------
Reported(c) == IF c.cmd \in {"validate-json", "validate-sarif"} THEN Idx(c.ins, Rejected) ELSE {}

Verdict(c) == [exit |-> ExitOf(c), must |-> MustTouch(c), may |-> MayTouch(c), reported |-> Reported(c)]

Init == case \in Cases /\ verdict = Verdict(case) /\ done = FALSE
Run == /\ ~done /\ done' = TRUE
       /\ Emit => PrintT(ToJson([case |-> case, verdict |-> [exit |-> verdict.exit,
                                  must |-> SetToSeq(verdict.must), may |-> SetToSeq(verdict.may),
                                  reported |-> SetToSeq(verdict.reported)]]))
       /\ UNCHANGED <<case, verdict>>
Next == Run
Spec == Init /\ [][Next]_vars

\* design-level consistency of the verdict table --------------------------------
IsCheckOnly(c) == c.cmd \in {"validate", "validate-quiet", "validate-json", "validate-sarif", "format",
                             "format-check", "format-check-inplace", "format-check-output", "lint", "lint-failwarn", "parse"}
\* a flag that writes does not change what --check says
CheckWins == case.cmd \in {"format-check-inplace", "format-check-output"} =>
                 verdict = Verdict([cmd |-> "format-check", src |-> case.src, ins |-> case.ins, pres |-> case.pres, env |-> case.env])
CheckNeverWrites == IsCheckOnly(case) => verdict.may = {}
ExitIffAccepted == (case.cmd \in {"validate", "validate-quiet", "validate-json", "validate-sarif", "parse"})
                      => (verdict.exit = 0 <=> AllAccepted(case.ins))
OnlyOnSuccess == \A i \in verdict.may : Accepted(case.ins[i])
\* --check passes exactly on the files that -i would leave alone
PrintWriteCheckConsistent ==
    \A f \in FileSets :
        LET chk == Verdict([cmd |-> "format-check", src |-> "files", ins |-> f, pres |-> "", env |-> ""])
            inp == Verdict([cmd |-> "format-inplace", src |-> "files", ins |-> f, pres |-> "", env |-> ""])
        IN (chk.exit = 0) <=> (inp.exit = 0 /\ inp.must = {})
\* how the inputs reach the command does not matter: a directory tree or a glob gives the verdict of the same files
\* named one by one
SourceIndependent ==
    (case.src \in TreeSources) =>
        LET asFiles == Verdict([cmd |-> case.cmd, src |-> "files", ins |-> case.ins, pres |-> "", env |-> ""])
        IN verdict.exit = asFiles.exit /\ verdict.reported = asFiles.reported
PresentationIndependent ==
    verdict.exit = Verdict([cmd |-> case.cmd, src |-> case.src, ins |-> case.ins, pres |-> "", env |-> ""]).exit
EnvironmentIndependent ==
    LET plain == Verdict([cmd |-> case.cmd, src |-> case.src, ins |-> case.ins, pres |-> case.pres, env |-> ""])
    IN verdict.exit = plain.exit /\ verdict.must = plain.must /\ verdict.may = plain.may
ReportNamesExactlyFailures == verdict.reported \subseteq Idx(case.ins, Rejected)
=============================================================================
