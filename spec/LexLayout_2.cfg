SPECIFICATION LSpec
CONSTANTS
  Alphabet = {"L"}
  MaxLen = 1
  Emit = TRUE
  MaxLexemes = 2
INVARIANTS WellFormedLexemes LayoutIndependence SeparableIsEnough
