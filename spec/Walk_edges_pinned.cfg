SPECIFICATION Spec
CONSTANTS
  Machine = "edges"
  N = 1
  Depth = 1
  Emit = FALSE
  Shape = "pinned"
INVARIANTS EdgeReached PathWellFormed
