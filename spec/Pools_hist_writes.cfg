SPECIFICATION Spec
CONSTANTS
  Shape = "writes-through"
  Emit = FALSE
  Slots = {"s1", "s2"}
  MaxSteps = 3
  UseKinds = {"parse-window", "scan"}
  Machine = "history"
PROPERTIES SnapshotStable
