SPECIFICATION Spec
CONSTANTS
  Shape = "pinned"
  Emit = FALSE
  PairView = FALSE
VIEW view
INVARIANTS HistoryIndependence
