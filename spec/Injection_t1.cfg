SPECIFICATION Spec
CONSTANTS
  MaxExpr = 2
  MaxNest = 1
  Shape = "closed"
  Emit = TRUE
INVARIANTS ContextClosed Threshold CountsMatch
