SPECIFICATION Spec
CONSTANTS
  Shape = "shared-root"
  Emit = FALSE
INVARIANTS Reproducible
