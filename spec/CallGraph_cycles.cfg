SPECIFICATION Spec
CONSTANTS
  Machine = "cycles"
  Pkg = "parser"
  Emit = TRUE
  Limit = 2
VIEW CycleView
