SPECIFICATION Spec
CONSTANTS
  MaxSegs = 4
  Emit = TRUE
INVARIANTS EntryAgreement FamilyOfCode
PROPERTIES Totality
