SPECIFICATION TSpec
CONSTANTS
  MaxOps = 1
  OpSet = "all"
  Emit = FALSE
