SPECIFICATION TSpec
CONSTANTS
  MaxOps = 1
  OpSet = "all"
  Atoms = "simple"
  Emit = FALSE
