SPECIFICATION Spec
CONSTANTS
  Alphabet = {"dq","L","sp"}
  MaxLen = 8
  Emit = TRUE
INVARIANTS TypeOK ExactlyOneEOF NoTokensWithError SourceOrder CommentOrder NothingDropped
