SPECIFICATION Spec
CONSTANTS
  N = 4
  Safe = TRUE
  Success = TRUE
INVARIANTS TypeOK Atomicity OnlyOnSuccess NoStrayTmp
PROPERTIES Terminates
