SPECIFICATION Spec
CONSTANTS
  URIs = {"file:///u1.sql"}
  MaxLines = 2
  MaxVer = 3
  Emit = TRUE
  PairView = FALSE
VIEW view
INVARIANTS TypeOK OneResponsePerRequest DiagnosticsOfCurrentText ClearedOnClose AlwaysAlive
