-------------------------------- MODULE Rules --------------------------------
(***************************************************************************)
(* The rewrite rules of pkg/transform as a sequential machine over one     *)
(* SELECT statement (beyond the listed properties: the package had no      *)
(* specification).  The statement is its clause lists; a rule is one       *)
(* action that edits one of them - exactly as the code does, including     *)
(* what it does on purpose that one might not expect:                      *)
(*   RemoveColumn removes EVERY column whose name or alias matches and     *)
(*     fails (statement unchanged) when none does                          *)
(*   ReplaceColumn replaces a matching column by the bare new name (its    *)
(*     alias is gone) and is silent when nothing matches                   *)
(*   RemoveJoin matches a join by table name or alias and is silent when   *)
(*     nothing matches                                                     *)
(*   AddWhere conjoins on the right; SetLimit / SetOffset reject negative  *)
(*     values and leave the statement as it was                            *)
(*   ReplaceTable renames the table in FROM, in the joins and in every     *)
(*     qualifier                                                           *)
(*   QualifyColumns qualifies every unqualified column reference (select   *)
(*     list, WHERE, ORDER BY); a join's condition is written qualified     *)
(* Properties: LimitsNonNegative, FailureChangesNothing (a failing rule     *)
(* leaves the statement unchanged), RenamedIsGone.                         *)
(* TLC's simulator prints random rule sequences with the statement after   *)
(* every step; the driver applies the real rules to a real tree and        *)
(* compares what the tree stands for after every step.                     *)
(***************************************************************************)
EXTENDS Integers, Sequences, FiniteSets, TLC, Json

CONSTANTS MaxSteps, Emit

ColNames == {"a", "b", "c"}
Aliases == {"", "x", "b"}            \* "b": an alias that is also a column name
Tables == {"t", "u", "v"}
Conds == {"p", "q"}                   \* atomic conditions  (spelled p = 1, q = 2 by the driver)
JoinTypes == {"INNER", "LEFT"}
Col(n, al) == [name |-> n, alias |-> al, table |-> ""]

VARIABLES cols, from, fromAlias, joins, where, order, limit, offset, hist, failed,
          trail      \* the statement after every step (printed once, when the behaviour is complete)
vars == <<cols, from, fromAlias, joins, where, order, limit, offset, hist, failed, trail>>
Stmt == [cols |-> cols, from |-> from, fromAlias |-> fromAlias, joins |-> joins, where |-> where, order |-> order, limit |-> limit, offset |-> offset]

Init == /\ cols \in {<<Col("a", "")>>, <<Col("a", "x"), Col("b", "")>>, <<Col("a", ""), Col("c", "b"), Col("a", "x")>>}
        /\ from = "t" /\ fromAlias = ""
        /\ joins \in {<<>>, <<[type |-> "INNER", table |-> "u", alias |-> ""]>>}
        /\ where \in {<<>>, <<[c |-> "p", table |-> ""]>>}
        /\ order = <<>> /\ limit = -1 /\ offset = -1 /\ hist = <<>> /\ failed = FALSE /\ trail = <<>>

Matches(c, n) == c.name = n \/ c.alias = n
Step(rule, ok) == /\ hist' = Append(hist, [rule |-> rule, ok |-> ok, before |-> Stmt]) /\ failed' = ~ok
Keep(vs) == UNCHANGED vs

AddColumn(n) == /\ cols' = Append(cols, Col(n, "")) /\ Step([r |-> "AddColumn", a |-> n, b |-> ""], TRUE)
                /\ Keep(<<from, fromAlias, joins, where, order, limit, offset>>)
RemoveColumn(n) ==
    LET found == \E i \in DOMAIN cols : Matches(cols[i], n) IN
    /\ (found => SelectSeq(cols, LAMBDA c : ~Matches(c, n)) # <<>>)    \* an empty select list cannot be written as text: not explored
    /\ cols' = (IF found THEN SelectSeq(cols, LAMBDA c : ~Matches(c, n)) ELSE cols)
    /\ Step([r |-> "RemoveColumn", a |-> n, b |-> ""], found)
    /\ Keep(<<from, fromAlias, joins, where, order, limit, offset>>)
ReplaceColumn(o, n) ==
    /\ cols' = [i \in DOMAIN cols |-> IF Matches(cols[i], o) THEN Col(n, "") ELSE cols[i]]
    /\ Step([r |-> "ReplaceColumn", a |-> o, b |-> n], TRUE)
    /\ Keep(<<from, fromAlias, joins, where, order, limit, offset>>)
AddWhere(c) == /\ where' = Append(where, [c |-> c, table |-> ""]) /\ Step([r |-> "AddWhereFromSQL", a |-> c, b |-> ""], TRUE)
               /\ Keep(<<cols, from, fromAlias, joins, order, limit, offset>>)
RemoveWhere == /\ where' = <<>> /\ Step([r |-> "RemoveWhere", a |-> "", b |-> ""], TRUE)
               /\ Keep(<<cols, from, fromAlias, joins, order, limit, offset>>)
AddJoin(ty, t) == /\ joins' = Append(joins, [type |-> ty, table |-> t, alias |-> ""])
                  /\ Step([r |-> "AddJoin", a |-> ty, b |-> t], TRUE)
                  /\ Keep(<<cols, from, fromAlias, where, order, limit, offset>>)
RemoveJoin(t) == /\ joins' = SelectSeq(joins, LAMBDA j : j.table # t /\ j.alias # t)
                 /\ Step([r |-> "RemoveJoin", a |-> t, b |-> ""], TRUE)
                 /\ Keep(<<cols, from, fromAlias, where, order, limit, offset>>)
SetLimit(n) == /\ limit' = (IF n >= 0 THEN n ELSE limit) /\ Step([r |-> "SetLimit", a |-> ToString(n), b |-> ""], n >= 0)
               /\ Keep(<<cols, from, fromAlias, joins, where, order, offset>>)
SetOffset(n) == /\ offset' = (IF n >= 0 THEN n ELSE offset) /\ Step([r |-> "SetOffset", a |-> ToString(n), b |-> ""], n >= 0)
                /\ Keep(<<cols, from, fromAlias, joins, where, order, limit>>)
RemoveLimit == /\ limit' = -1 /\ Step([r |-> "RemoveLimit", a |-> "", b |-> ""], TRUE)
               /\ Keep(<<cols, from, fromAlias, joins, where, order, offset>>)
RemoveOffset == /\ offset' = -1 /\ Step([r |-> "RemoveOffset", a |-> "", b |-> ""], TRUE)
                /\ Keep(<<cols, from, fromAlias, joins, where, order, limit>>)
AddOrderBy(n, d) == /\ order' = Append(order, [col |-> n, desc |-> d, table |-> ""])
                    /\ Step([r |-> "AddOrderBy", a |-> n, b |-> IF d THEN "desc" ELSE "asc"], TRUE)
                    /\ Keep(<<cols, from, fromAlias, joins, where, limit, offset>>)
RemoveOrderBy == /\ order' = <<>> /\ Step([r |-> "RemoveOrderBy", a |-> "", b |-> ""], TRUE)
                 /\ Keep(<<cols, from, fromAlias, joins, where, limit, offset>>)
AddTableAlias(t, al) == /\ fromAlias' = (IF from = t THEN al ELSE fromAlias)
                        /\ Step([r |-> "AddTableAlias", a |-> t, b |-> al], TRUE)
                        /\ Keep(<<cols, from, joins, where, order, limit, offset>>)
Ren(x, o, n) == IF x.table = o THEN [x EXCEPT !.table = n] ELSE x
ReplaceTable(o, n) ==
    /\ from' = (IF from = o THEN n ELSE from)
    /\ joins' = [i \in DOMAIN joins |-> Ren(joins[i], o, n)]      \* a join's condition is qualified by its own table: renamed with it
    /\ cols' = [i \in DOMAIN cols |-> Ren(cols[i], o, n)]
    /\ where' = [i \in DOMAIN where |-> Ren(where[i], o, n)]
    /\ order' = [i \in DOMAIN order |-> Ren(order[i], o, n)]
    /\ Step([r |-> "ReplaceTable", a |-> o, b |-> n], TRUE)
    /\ Keep(<<fromAlias, limit, offset>>)
Qual(x, t) == IF x.table = "" THEN [x EXCEPT !.table = t] ELSE x
QualifyColumns(t) ==
    /\ cols' = [i \in DOMAIN cols |-> Qual(cols[i], t)]
    /\ where' = [i \in DOMAIN where |-> Qual(where[i], t)]
    /\ order' = [i \in DOMAIN order |-> Qual(order[i], t)]
    /\ Step([r |-> "QualifyColumns", a |-> t, b |-> ""], TRUE)
    /\ Keep(<<from, fromAlias, joins, limit, offset>>)

Rule == \/ \E n \in ColNames : AddColumn(n) \/ RemoveColumn(n) \/ (\E m \in ColNames : ReplaceColumn(n, m))
                                \/ (\E d \in BOOLEAN : AddOrderBy(n, d))
        \/ \E al \in {"x"} : RemoveColumn(al)
        \/ \E c \in Conds : AddWhere(c)
        \/ RemoveWhere \/ RemoveLimit \/ RemoveOffset \/ RemoveOrderBy
        \/ \E ty \in JoinTypes, t \in {"u", "v"} : AddJoin(ty, t)
        \/ \E t \in {"u", "v"} : RemoveJoin(t)
        \/ \E n \in {-1, 0, 2} : SetLimit(n) \/ SetOffset(n)
        \/ \E t \in {"t", "u"} : AddTableAlias(t, "y")
        \/ \E o \in {"t", "u"} : ReplaceTable(o, "w")
        \/ QualifyColumns("t")
StmtNext == [cols |-> cols', from |-> from', fromAlias |-> fromAlias', joins |-> joins', where |-> where', order |-> order', limit |-> limit', offset |-> offset']
\* a statement keeps at most a handful of items of a kind
Bounded == Len(cols) <= 5 /\ Len(joins) <= 3 /\ Len(where) <= 3 /\ Len(order) <= 3
Apply == /\ Len(hist) < MaxSteps /\ Bounded /\ Rule
         /\ trail' = Append(trail, [rule |-> hist'[Len(hist')].rule, ok |-> hist'[Len(hist')].ok, stmt |-> StmtNext])
Report == /\ Len(hist) = MaxSteps \/ ~Bounded
          /\ trail # <<>> /\ trail[Len(trail)].rule.r # "report"
          /\ (Emit => PrintT(ToJson([init |-> [cols |-> hist[1].before.cols, joins |-> hist[1].before.joins, where |-> hist[1].before.where], trail |-> trail])))
          /\ trail' = Append(trail, [rule |-> [r |-> "report", a |-> "", b |-> ""], ok |-> TRUE, stmt |-> Stmt])
          /\ UNCHANGED <<cols, from, fromAlias, joins, where, order, limit, offset, hist, failed>>
Next == Apply \/ Report
Spec == Init /\ [][Next]_vars

LimitsNonNegative == limit >= -1 /\ offset >= -1
\* a failing rule leaves the statement as it was
FailureChangesNothing == [][failed' => Stmt' = Stmt]_vars
\* renamed tables are gone: after ReplaceTable(o, w) nothing in FROM or the joins is called o
RenamedIsGone == [][(hist' # hist /\ hist'[Len(hist')].rule.r = "ReplaceTable") =>
                      LET o == hist'[Len(hist')].rule.a IN from' # o /\ \A i \in DOMAIN joins' : joins'[i].table # o]_vars
=============================================================================
