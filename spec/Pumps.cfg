SPECIFICATION Spec
CONSTANTS
  Emit = TRUE
INVARIANTS WellFormed BareWellFormed UniqueNames
