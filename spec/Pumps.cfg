SPECIFICATION Spec
CONSTANTS
  Emit = TRUE
INVARIANTS WellFormed UniqueNames
