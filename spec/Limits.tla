------------------------------- MODULE Limits -------------------------------
(***************************************************************************)
(* The size and token limits of the tokenizer as a machine with symbolic   *)
(* limits: the input length is checked once before lexing, the token count *)
(* after every token.  MaxIn and MaxTok are small here; the verdict only   *)
(* depends on the ORDER relation between the input's length / token count  *)
(* and the limits, so the driver replays every case with the real limits   *)
(* (length and count placed below, exactly at, and above them).            *)
(*     AtLimitAccepted   an input exactly at a limit is not rejected for   *)
(*                       that reason                                       *)
(*     OverLimitRejected beyond a limit the dedicated error is returned    *)
(*     SizeBeforeTokens  the size error wins when both limits are exceeded *)
(*                       (nothing is lexed)                                *)
(***************************************************************************)
EXTENDS Integers, TLC, Json

CONSTANTS MaxIn, MaxTok, Emit

VARIABLES len, ntok, pc, emitted, verdict
vars == <<len, ntok, pc, emitted, verdict>>

Init == /\ len \in 0..(MaxIn + 1) /\ ntok \in 0..(MaxTok + 1) /\ ntok <= len
        /\ pc = "size" /\ emitted = 0 /\ verdict = "none"
SizeCheck == /\ pc = "size"
             /\ IF len > MaxIn THEN verdict' = "too-large" /\ pc' = "done" ELSE verdict' = verdict /\ pc' = "lex"
             /\ UNCHANGED <<len, ntok, emitted>>
Lex == /\ pc = "lex" /\ emitted < ntok
       /\ emitted' = emitted + 1
       /\ IF emitted + 1 > MaxTok THEN verdict' = "too-many-tokens" /\ pc' = "done" ELSE verdict' = verdict /\ pc' = pc
       /\ UNCHANGED <<len, ntok>>
End == /\ pc = "lex" /\ emitted = ntok /\ verdict' = "accepted" /\ pc' = "done" /\ UNCHANGED <<len, ntok, emitted>>
Cls(x, m) == IF x < m THEN "below" ELSE IF x = m THEN "at" ELSE "above"
Report == /\ pc = "done" /\ pc' = "reported"
          /\ (Emit => PrintT(ToJson([len |-> Cls(len, MaxIn), tokens |-> Cls(ntok, MaxTok), verdict |-> verdict])))
          /\ UNCHANGED <<len, ntok, emitted, verdict>>
Next == SizeCheck \/ Lex \/ End \/ Report
Spec == Init /\ [][Next]_vars /\ WF_vars(Next)

Done == pc \in {"done", "reported"}
AtLimitAccepted == (Done /\ len <= MaxIn /\ ntok <= MaxTok) => verdict = "accepted"
OverLimitRejected == Done => /\ (len > MaxIn => verdict = "too-large")
                             /\ (len <= MaxIn /\ ntok > MaxTok => verdict = "too-many-tokens")
SizeBeforeTokens == (verdict = "too-large") => emitted = 0
Terminates == <>(pc = "reported")
=============================================================================
