SPECIFICATION Spec
CONSTANTS
  Emit = TRUE
INVARIANTS CheckNeverWrites ExitIffAccepted OnlyOnSuccess PrintWriteCheckConsistent ReportNamesExactlyFailures SourceIndependent PresentationIndependent EnvironmentIndependent CheckWins
