SPECIFICATION Spec
CONSTANTS
  Shape = "ideal"
  Emit = TRUE
  Slots = {"s1", "s2"}
  MaxSteps = 4
  UseKinds = {"parse-window", "serialise", "scan"}
  Machine = "history"
INVARIANTS NoAliasing CleanInPoolH
PROPERTIES SnapshotStable
