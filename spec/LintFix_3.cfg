SPECIFICATION Spec
CONSTANTS
  MaxSegs = 3
  Seps = {"sp", "sp2", "tab", "nl", "nlIndent", "nlTab", "nlMixed", "blank3", "trail", "crlf", "blank3crlf", "trailcrlf"}
  Shape = "token-aware"
  Emit = TRUE
INVARIANTS PreservesTokens Idempotent CleanAfterFix
