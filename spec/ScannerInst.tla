---------------------------- MODULE ScannerInst ----------------------------
(***************************************************************************)
(* One security scanner kept by its holder across scans (C16: raising the  *)
(* minimum severity removes exactly the findings below it; scanning does   *)
(* not depend on previous scans).                                          *)
(* The holder sets the minimum severity (an exported field) between scans; *)
(* a scan of an input reports the findings of that input at or above the   *)
(* CURRENT minimum severity - whatever was scanned, reported or configured *)
(* before.  Inputs are classes by the severities of the findings they      *)
(* carry.                                                                  *)
(*   Shape "ideal"   the threshold is read at every comparison             *)
(*   Shape "cached"  the threshold is resolved when the first finding is   *)
(*                   compared and kept from then on                        *)
(* Reported: what a scan lists is exactly the input's findings at or above *)
(* the holder's minimum severity.  Every history is printed; the driver    *)
(* replays it on one real scanner (Scan on trees and ScanSQL on text) and  *)
(* compares every scan with a fresh scanner built for that severity.       *)
(***************************************************************************)
EXTENDS Integers, Sequences, FiniteSets, TLC, Json

CONSTANTS Shape, Emit, MaxSteps

Sev == {"LOW", "MEDIUM", "HIGH", "CRITICAL"}
Rank == [LOW |-> 1, MEDIUM |-> 2, HIGH |-> 3, CRITICAL |-> 4]
\* input classes: the severities of the findings an input carries
Inputs == [clean |-> {}, high |-> {"HIGH"}, critical |-> {"CRITICAL"}, both |-> {"HIGH", "CRITICAL"}, medium |-> {"MEDIUM", "HIGH"}]
Classes == DOMAIN Inputs

VARIABLES min, cached, last, hist
vars == <<min, cached, last, hist>>
\* min: the holder's minimum severity; cached: the threshold a caching scanner resolved ("none" before); last: the last scan
Init == /\ min \in Sev /\ cached = "none" /\ last = [input |-> "clean", listed |-> {}, min |-> min] /\ hist = <<[op |-> "new", arg |-> min]>>

SetMin(s) == /\ Len(hist) < MaxSteps /\ s # min
             /\ min' = s /\ hist' = Append(hist, [op |-> "set", arg |-> s]) /\ UNCHANGED <<cached, last>>
Scan(c) == /\ Len(hist) < MaxSteps
           /\ LET eff == IF Shape = "cached" /\ cached # "none" THEN cached ELSE min
                  listed == {f \in Inputs[c] : Rank[f] >= Rank[eff]} IN
              /\ last' = [input |-> c, listed |-> listed, min |-> min]
              /\ cached' = IF Shape = "cached" /\ cached = "none" /\ Inputs[c] # {} THEN min ELSE cached
           /\ hist' = Append(hist, [op |-> "scan", arg |-> c]) /\ UNCHANGED min
Report == /\ Len(hist) = MaxSteps /\ hist[Len(hist)].op # "report"
          /\ (Emit => PrintT(ToJson([hist |-> hist])))
          /\ hist' = Append(hist, [op |-> "report", arg |-> ""]) /\ UNCHANGED <<min, cached, last>>
Next == (\E s \in Sev : SetMin(s)) \/ (\E c \in Classes : Scan(c)) \/ Report
Spec == Init /\ [][Next]_vars

Reported == last.listed = {f \in Inputs[last.input] : Rank[f] >= Rank[last.min]}
=============================================================================
