SPECIFICATION Spec
CONSTANTS
  Shape = "doublefree"
  Emit = FALSE
  Slots = {"s1", "s2"}
  MaxSteps = 4
  Machine = "history"
PROPERTIES SnapshotStable
