SPECIFICATION Spec
CONSTANTS
  Depth = 3
  Emit = TRUE
INVARIANTS Written Clean Disjoint Consistent NestedIncluded
