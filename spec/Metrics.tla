------------------------------ MODULE Metrics ------------------------------
(***************************************************************************)
(* pkg/metrics: process-wide counters updated by RecordTokenization from   *)
(* any number of goroutines, read by GetStats.                             *)
(*                                                                         *)
(* Grain.  One action per *segment* of RecordTokenization between two      *)
(* points at which another goroutine's effect can change the outcome.      *)
(* The segments are delimited by the loads of minQuerySize/maxQuerySize    *)
(* (verif gates gMinLoaded / gMaxLoaded sit right after those loads):      *)
(*                                                                         *)
(*   Begin(g)    ops++ ; bytes += size ; tmp := load(min)                  *)
(*   MinStep(g)  decide on tmp ; store/CAS(min) ; (retry: reload)          *)
(*               ... ; tmp := load(max)                                    *)
(*   MaxStep(g)  decide on tmp ; store/CAS(max) ; (retry: reload)          *)
(*               ... ; if err: errs++ ; errMap[kind]++ (under mutex)       *)
(*                                                                         *)
(* The atomic adds inside a segment commute with every other step, which   *)
(* is why they need no action of their own.  CAS = FALSE is the            *)
(* load-compare-store shape of the pinned commit (TLC finds the lost       *)
(* update), CAS = TRUE the compare-and-swap loop of the repaired code.     *)
(* Retries > 0 is the shape of a loop that gives up: after that many lost  *)
(* swaps on one bound the recorder moves on without having stored its      *)
(* value (Retries = 0: the loop goes on until it wins).  With four         *)
(* recorders of sizes 1..4 the one holding the true extreme can lose three *)
(* swaps in a row; TLC prints the schedules that end with a wrong total,   *)
(* and the driver forces them on the real code, which must end exact.      *)
(***************************************************************************)
EXTENDS Integers, Sequences, FiniteSets, TLC, Json

CONSTANTS G,        \* set of goroutine ids (integers)
          SizeRange,\* sizes a call may record
          CAS,      \* BOOLEAN: repaired (CAS loop) or pinned (load/store) shape
          Retries,  \* 0: a CAS loop retries until it wins; n > 0: it gives up after n lost swaps
          Emit      \* "all": print every complete schedule as JSON at quiescence; "wrong": only those that end with
                    \* a wrong total; "none"

VARIABLES Size,     \* [G -> SizeRange] query size recorded by g   (chosen at Init, then fixed)
          Err,      \* [G -> BOOLEAN]  whether g records an error  (chosen at Init, then fixed)
          ops, bytes, min, max, errs, pc, tmp, sched,
          lost      \* [G -> Nat] swaps lost in the current loop

vars == <<Size, Err, ops, bytes, min, max, errs, pc, tmp, sched, lost>>
view == <<Size, Err, ops, bytes, min, max, errs, pc, tmp, lost>>

\* (the give-up shape is explored for one assignment: recorder g records size g, nobody records an error)
Init == /\ Size \in [G -> SizeRange] /\ Err \in [G -> BOOLEAN]
        /\ (Retries > 0 => Size = [g \in G |-> g] /\ Err = [g \in G |-> FALSE])
        /\ ops = 0 /\ bytes = 0 /\ min = -1 /\ max = 0 /\ errs = 0
        /\ pc = [g \in G |-> "begin"]
        /\ tmp = [g \in G |-> 0]
        /\ sched = <<>> /\ lost = [g \in G |-> 0]

GivesUp(g) == Retries > 0 /\ lost[g] + 1 >= Retries
Step(g, what) == sched' = Append(sched, [g |-> g, at |-> what, saw |-> tmp'[g]])

Begin(g) ==
    /\ pc[g] = "begin"
    /\ ops' = ops + 1
    /\ bytes' = bytes + Size[g]
    /\ tmp' = [tmp EXCEPT ![g] = min]          \* load(min); gate gMinLoaded
    /\ pc' = [pc EXCEPT ![g] = "min"]
    /\ UNCHANGED <<Size, Err, min, max, errs, lost>>
    /\ Step(g, "minLoaded")

Finish(g) == IF Err[g] THEN errs' = errs + 1 ELSE errs' = errs

MinStep(g) ==
    /\ pc[g] = "min"
    /\ LET want == tmp[g] = -1 \/ Size[g] < tmp[g] IN
       IF ~want
         THEN /\ min' = min /\ tmp' = [tmp EXCEPT ![g] = max]          \* load(max)
              /\ pc' = [pc EXCEPT ![g] = "max"] /\ lost' = [lost EXCEPT ![g] = 0] /\ Step(g, "maxLoaded")
         ELSE IF (~CAS) \/ min = tmp[g]
           THEN /\ min' = Size[g] /\ tmp' = [tmp EXCEPT ![g] = max]
                /\ pc' = [pc EXCEPT ![g] = "max"] /\ lost' = [lost EXCEPT ![g] = 0] /\ Step(g, "maxLoaded")
           ELSE IF GivesUp(g)
             THEN /\ min' = min /\ tmp' = [tmp EXCEPT ![g] = max]        \* lost once too often: moves on
                  /\ pc' = [pc EXCEPT ![g] = "max"] /\ lost' = [lost EXCEPT ![g] = 0] /\ Step(g, "maxLoaded")
             ELSE /\ min' = min /\ tmp' = [tmp EXCEPT ![g] = min]        \* CAS failed: reload
                  /\ pc' = pc /\ lost' = [lost EXCEPT ![g] = @ + 1] /\ Step(g, "minLoaded")
    /\ UNCHANGED <<Size, Err, ops, bytes, max, errs>>

MaxStep(g) ==
    /\ pc[g] = "max"
    /\ LET want == Size[g] > tmp[g] IN
       IF ~want
         THEN /\ max' = max /\ tmp' = tmp /\ Finish(g) /\ lost' = lost
              /\ pc' = [pc EXCEPT ![g] = "done"] /\ Step(g, "done")
         ELSE IF (~CAS) \/ max = tmp[g]
           THEN /\ max' = Size[g] /\ tmp' = tmp /\ Finish(g) /\ lost' = lost
                /\ pc' = [pc EXCEPT ![g] = "done"] /\ Step(g, "done")
           ELSE IF GivesUp(g)
             THEN /\ max' = max /\ tmp' = tmp /\ Finish(g) /\ lost' = lost
                  /\ pc' = [pc EXCEPT ![g] = "done"] /\ Step(g, "done")
             ELSE /\ max' = max /\ tmp' = [tmp EXCEPT ![g] = max] /\ errs' = errs
                  /\ pc' = pc /\ lost' = [lost EXCEPT ![g] = @ + 1] /\ Step(g, "maxLoaded")
    /\ UNCHANGED <<Size, Err, ops, bytes, min>>

AllDone == \A g \in G : pc[g] = "done"
MinOf == CHOOSE x \in {Size[g] : g \in G} : \A g \in G : x <= Size[g]
MaxOf == CHOOSE x \in {Size[g] : g \in G} : \A g \in G : x >= Size[g]
Exact == min = MinOf /\ max = MaxOf

Quiesce == /\ AllDone
           /\ (Emit = "all" \/ (Emit = "wrong" /\ ~Exact)) => PrintT(ToJson([size |-> Size, err |-> Err, sched |-> sched, min |-> min, max |-> max, ops |-> ops,
                                      bytes |-> bytes, errs |-> errs]))
           /\ UNCHANGED vars

Next == (\E g \in G : Begin(g) \/ MinStep(g) \/ MaxStep(g)) \/ Quiesce

Spec == Init /\ [][Next]_vars /\ \A g \in G : WF_vars(Begin(g) \/ MinStep(g) \/ MaxStep(g))

----------------------------------------------------------------------------
RECURSIVE SumOver(_, _)
SumOver(S, f) == IF S = {} THEN 0 ELSE LET x == CHOOSE x \in S : TRUE IN f[x] + SumOver(S \ {x}, f)

TrueMin == CHOOSE s \in {Size[g] : g \in G} : \A g \in G : s <= Size[g]
TrueMax == CHOOSE s \in {Size[g] : g \in G} : \A g \in G : s >= Size[g]

TypeOK == /\ ops \in 0..Cardinality(G) /\ errs \in 0..Cardinality(G)
          /\ pc \in [G -> {"begin", "min", "max", "done"}]

\* The property: when everybody has finished, the totals are the true values.
ExactAtQuiescence ==
    AllDone => /\ ops = Cardinality(G)
               /\ bytes = SumOver(G, Size)
               /\ errs = Cardinality({g \in G : Err[g]})
               /\ min = TrueMin
               /\ max = TrueMax

\* Monotonicity of the extremes (action properties; free to check).
MinNeverGrows == [][min = -1 \/ min' <= min]_vars
MaxNeverShrinks == [][max' >= max]_vars

\* Every recording terminates (the CAS loops cannot spin forever: a failed CAS
\* means somebody else made progress).
Termination == <>AllDone
=============================================================================
