SPECIFICATION Spec
CONSTANTS
  MaxSegs = 6
  MaxLen = 1
  Emit = TRUE
INVARIANTS TypeOK NoLoss OneErrorPerBadSegment ErrorInsideOwnSegment StrictVerdict StrictFirstError
PROPERTIES Progress Termination
