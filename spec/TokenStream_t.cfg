SPECIFICATION Spec
CONSTANTS
  Kinds = {"EOF", "typeless", "select", "from", "ident", "number", "comma", "lparen", "rparen", "star", "eq", "semicolon", "not", "interval", "case", "with"}
  MaxLen = 4
  Shape = "late-eof"
  Emit = TRUE
INVARIANTS InBounds CursorBounded
PROPERTIES Terminates
