SPECIFICATION Spec
CONSTANTS
  Alphabet = {"$","L","D","sp"}
  MaxLen = 6
  Emit = TRUE
INVARIANTS TypeOK ExactlyOneEOF NoTokensWithError SourceOrder CommentOrder NothingDropped

