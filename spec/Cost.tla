-------------------------------- MODULE Cost --------------------------------
(***************************************************************************)
(* Work accounting for the stages whose cost per element is not constant   *)
(* by construction (C20).  An input FAMILY is a sequence of n elements     *)
(* (tokens on one line, tokens on n lines, operands of a left-deep         *)
(* operator chain, items of a list); a stage processes the elements one    *)
(* by one and pays, for element i,                                         *)
(*   tokenize   1 + the cost of converting the element's offset to a       *)
(*              line/column position                                       *)
(*                 "rescan"  scans the line table and the line prefix:     *)
(*                           lines before it + bytes before it on its line *)
(*                 "cached"  continues from the previous conversion: 1     *)
(*   serialise  the cost of adding the element to the text built so far    *)
(*                 "concat"  copies the text built so far: i               *)
(*                 "builder" appends: 1                                    *)
(* The machine adds up the work; NearLinear bounds the total by            *)
(* K * n * (1 + log2 n).  The pinned shapes (rescan, concat) exceed the    *)
(* bound from a small n on; the repaired shapes stay linear.  Families and *)
(* sizes are printed; the driver measures the real cost of every family    *)
(* through every operation at sizes n, 2n, 4n and compares the growth      *)
(* with the bound's.                                                       *)
(***************************************************************************)
EXTENDS Integers, TLC, Json

CONSTANTS N, K, PosShape, SerShape, Emit

Families == {"one-line", "many-lines", "left-chain", "wide-list"}
Stages == {"tokenize", "serialise"}

VARIABLES fam, stage, n, i, work
vars == <<fam, stage, n, i, work>>

Log2(x) == CHOOSE k \in 0..20 : 2^k <= x /\ x < 2^(k + 1)
Bound(m) == K * m * (1 + Log2(m))

\* elements before i on its line / lines before it
PrefixOnLine(f, k) == IF f = "many-lines" THEN 0 ELSE k - 1
LinesBefore(f, k) == IF f = "many-lines" THEN k - 1 ELSE 0
PosCost(f, k) == IF PosShape = "rescan" THEN 1 + LinesBefore(f, k) + PrefixOnLine(f, k) ELSE 1
SerCost(f, k) == IF SerShape = "concat" /\ f = "left-chain" THEN k ELSE 1
StepCost(s, f, k) == IF s = "tokenize" THEN 1 + PosCost(f, k) ELSE SerCost(f, k)

Init == /\ fam \in Families /\ stage \in Stages /\ n \in 1..N /\ i = 0 /\ work = 0
Step == /\ i < n /\ i' = i + 1 /\ work' = work + StepCost(stage, fam, i + 1) /\ UNCHANGED <<fam, stage, n>>
Done == /\ i = n /\ i' = n + 1
        /\ (Emit /\ n = N => PrintT(ToJson([family |-> fam, stage |-> stage, work |-> work, bound |-> Bound(n)])))
        /\ UNCHANGED <<fam, stage, n, work>>
Next == Step \/ Done
Spec == Init /\ [][Next]_vars

NearLinear == i >= n => work <= Bound(n)
\* doubling the input at most doubles the bound's allowance plus the logarithmic term
=============================================================================
