SPECIFICATION Spec
CONSTANTS
  MaxOps = 2
  OpSet = "all"
  Atoms = "shifted"
  Emit = TRUE
INVARIANTS RoundTrip ParenOnlyAdds
