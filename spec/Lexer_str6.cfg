SPECIFICATION Spec
CONSTANTS
  Alphabet = {"sq","L","bs","N","nl","sp"}
  MaxLen = 6
  Emit = TRUE
INVARIANTS TypeOK ExactlyOneEOF NoTokensWithError SourceOrder CommentOrder NothingDropped

