SPECIFICATION Spec
CONSTANTS
  Shape = "ideal"
  Emit = TRUE
  PairView = FALSE
VIEW view
INVARIANTS TypeOK HistoryIndependence CleanInPool FreshAfterGet ConfigIsHolders
