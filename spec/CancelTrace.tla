---------------------------- MODULE CancelTrace ----------------------------
(***************************************************************************)
(* Trace validation for Cancel: every real context-aware call, run under a *)
(* counting context that turns done at the k-th poll, is logged as         *)
(*   {"ev":"start","total":n,"fire":k}, {"ev":"poll","done":b}...,          *)
(*   {"ev":"return","res":"tree"|"cancelled"|"other-error"}                 *)
(* (many calls concatenated in trace.ndjson) and must be a behaviour of    *)
(* Cancel; CancelReported / NeverFiredEqualsPlain / BoundedAfterFire are   *)
(* evaluated in every state of the matched behaviour.  The unwinding of    *)
(* the error through the call stack is not logged: TLC infers from the     *)
(* logged result whether some frame must have flattened the chain.         *)
(***************************************************************************)
EXTENDS Cancel, Json, TLCExt

Log == ndJsonDeserialize("trace.ndjson")
VARIABLE l
tvars == <<total, fire, polls, post, pc, stack, inParser, chain, res, l>>

IsEvent(e) == l <= Len(Log) /\ Log[l].ev = e /\ l' = l + 1

TrStart == /\ IsEvent("start") /\ (l = 1 \/ pc = "returned")
           /\ total' = Log[l].total /\ fire' = Log[l].fire
           /\ polls' = 0 /\ post' = 0 /\ pc' = "run" /\ stack' = <<>> /\ inParser' = FALSE /\ chain' = TRUE /\ res' = "none"
\* a logged poll is a quiet poll, a firing poll (under an unknown stack: one frame stands for "some frame
\* flattened the chain"), or the guard poll of the parser's entry point
TrPoll  == /\ IsEvent("poll")
           /\ \/ (~Log[l].done /\ PollQuiet)
              \/ (Log[l].done /\ pc = "run" /\ \E st \in {<<>>, <<"v">>} : PollDone(st, Log[l].parser))
              \/ (Log[l].done /\ pc = "unwind" /\ Guard /\ inParser
                    /\ pc' = "guarded" /\ post' = post + 1 /\ stack' = <<>>
                    /\ chain' = (chain /\ \A i \in DOMAIN stack : stack[i] # "v")
                    /\ UNCHANGED <<total, fire, polls, inParser, res>>)
TrReturn == /\ IsEvent("return")
            /\ \/ ReturnError
               \/ (pc = "unwind" /\ stack # <<>> /\ ~(Guard /\ inParser)
                     /\ res' = "other-error" /\ pc' = "returned" /\ stack' = <<>> /\ chain' = FALSE
                     /\ UNCHANGED <<total, fire, polls, post, inParser>>)
               \/ ReturnValue
            /\ res' = Log[l].res

TraceInit == /\ total = 0 /\ fire = 0 /\ polls = 0 /\ post = 0 /\ pc = "returned" /\ stack = <<>> /\ inParser = FALSE
             /\ chain = TRUE /\ res = "tree" /\ l = 1
TraceNext == TrStart \/ TrPoll \/ TrReturn
TraceSpec == TraceInit /\ [][TraceNext]_tvars

\* with the chain-inferring branch there can be two states per trace line; the longest matched prefix counts
TraceAccepted ==
    LET d == TLCGet("stats").diameter IN
    IF d - 1 = Len(Log) THEN TRUE ELSE Print(<<"TRACE-REJECTED matched", d - 1, "of", Len(Log)>>, FALSE)
=============================================================================
