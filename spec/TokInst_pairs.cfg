SPECIFICATION Spec
CONSTANTS
  Shape = "ideal"
  Emit = TRUE
  PairView = TRUE
VIEW view
INVARIANTS TypeOK HistoryIndependence CleanInPool FreshAfterGet ConfigIsHolders
