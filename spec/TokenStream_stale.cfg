SPECIFICATION Spec
CONSTANTS
  Kinds = {"EOF", "ident", "rparen"}
  MaxLen = 2
  Shape = "stale"
  Emit = FALSE
INVARIANTS InBounds CursorBounded
