SPECIFICATION Spec
CONSTANTS
  Alphabet = {"$","L","E"}
  MaxLen = 10
  Emit = TRUE
INVARIANTS TypeOK ExactlyOneEOF NoTokensWithError SourceOrder CommentOrder NothingDropped
