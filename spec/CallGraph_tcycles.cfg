SPECIFICATION Spec
CONSTANTS
  Machine = "cycles"
  Pkg = "tokenizer"
  Emit = TRUE
  Limit = 2
VIEW CycleView
