SPECIFICATION Spec
CONSTANTS
  MaxExpr = 1
  MaxNest = 1
  Shape = "early-return"
  Emit = FALSE
INVARIANTS ContextClosed Threshold CountsMatch
