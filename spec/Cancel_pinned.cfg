SPECIFICATION Spec
CONSTANTS
  MaxPolls = 5
  MaxDepth = 3
  Guard = FALSE
  Bound = 1
INVARIANTS TypeOK CancelReported NeverFiredEqualsPlain BoundedAfterFire
PROPERTIES Terminates
