SPECIFICATION Spec
CONSTANTS
  Shape = "ideal"
  Emit = TRUE
  Slots = {"s1", "s2"}
  MaxSteps = 5
  Machine = "history"
INVARIANTS NoAliasing CleanInPoolH
PROPERTIES SnapshotStable
