SPECIFICATION Spec
CONSTANTS
  Shape = "ideal"
  Emit = TRUE
  Slots = {"s1", "s2"}
  MaxSteps = 5
  UseKinds = {"parse-tokens", "parse-window", "recover-window", "context-window", "scan", "serialise", "format", "extract", "walk"}
  Machine = "history"
INVARIANTS NoAliasing CleanInPoolH
PROPERTIES SnapshotStable
