SPECIFICATION Spec
CONSTANTS
  Shape = "pinned"
  Emit = FALSE
  Slots = {"s1", "s2"}
  MaxSteps = 0
  Machine = "cycle"
INVARIANTS CleanAfterGet

