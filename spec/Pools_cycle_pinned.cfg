SPECIFICATION Spec
CONSTANTS
  Shape = "pinned"
  Emit = FALSE
  Slots = {"s1", "s2"}
  MaxSteps = 0
  UseKinds = {}
  Machine = "cycle"
INVARIANTS CleanAfterGet

