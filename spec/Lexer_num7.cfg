SPECIFICATION Spec
CONSTANTS
  Alphabet = {"D",".","E","+","-","L","sp"}
  MaxLen = 7
  Emit = TRUE
INVARIANTS TypeOK ExactlyOneEOF NoTokensWithError SourceOrder CommentOrder NothingDropped

