SPECIFICATION Spec
CONSTANTS
  MaxLen = 3
  Emit = TRUE
INVARIANTS Defined Conserves NoOp Whole ClampLine RangeLengthAgrees
