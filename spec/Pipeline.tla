----------------------------- MODULE Pipeline -----------------------------
(***************************************************************************)
(* Every public parsing / validating entry point as a path through the     *)
(* same stages:                                                            *)
(*     CheckSize -> Lex -> Convert -> Loop(strict | recovery) -> Return    *)
(* An input is described by what each stage will say about it:             *)
(*   size   "ok" | "tooLarge"        (byte limit)                          *)
(*   lex    "ok" | "lexError" | "tooManyTokens"                            *)
(*   segs   the statement segments (well-formed or not) that reach the     *)
(*          statement loop (see StmtLoop.tla)                              *)
(* The entry points differ only in wrapping (string/bytes, context,        *)
(* timeout, batch, positions, validate-only, recovery).  The outcome is    *)
(* a verdict, the stage that failed and the family of the error code.      *)
(***************************************************************************)
EXTENDS Integers, Sequences, FiniteSets, TLC, Json

CONSTANTS MaxSegs, Emit

EntryPoints == {"gosqlx.Parse", "gosqlx.ParseBytes", "gosqlx.ParseWithContext", "gosqlx.ParseWithTimeout",
                "gosqlx.ParseMultiple", "gosqlx.Validate", "gosqlx.ValidateMultiple", "gosqlx.ParseWithRecovery",
                "parser.ParseBytes", "parser.Validate", "parser.ParseBytesWithTokens", "parser.ParseWithDialect",
                "Parser.Parse", "Parser.ParseContext", "Parser.ParseWithPositions"}
ReturnsTree(ep) == ep \notin {"gosqlx.Validate", "gosqlx.ValidateMultiple", "parser.Validate"}

\* pad: what stands before the first and / or after the last segment.  Padding is text like any other and goes
\* through the same stages: blanks and comments are skipped by Lex, a character the lexical grammar has no token for
\* (control characters, a byte order mark, a no-break space) makes Lex fail - in EVERY entry point, none of which
\* may trim the text on its own
Pads == {"none", "blank", "comment", "control"}
Inputs == [size : {"ok", "tooLarge"}, lex : {"ok", "lexError", "tooManyTokens"},
           segs : UNION {[1..n -> BOOLEAN] : n \in 1..MaxSegs},     \* TRUE = well-formed segment
           pad : Pads, padAt : {"lead", "trail", "both"},
           \* sep "none": well-formed statements follow each other WITHOUT a semicolon - a statement ends where the
           \* keyword of the next one begins, in the strict loop and in the recovery loop alike
           sep : {"semicolon", "none"}]
WellShaped(i) == /\ (i.size = "tooLarge" => i.lex = "ok" /\ Len(i.segs) = 1) /\ (i.lex # "ok" => Len(i.segs) = 1)
                 /\ (i.pad # "none" => i.size = "ok" /\ i.lex = "ok" /\ Len(i.segs) <= 2)
                 /\ (i.pad = "none" => i.padAt = "lead")
                 /\ (i.sep = "none" => i.size = "ok" /\ i.lex = "ok" /\ i.pad = "none" /\ Len(i.segs) >= 2 /\ \A k \in DOMAIN i.segs : i.segs[k])
LexOf(i) == IF i.pad = "control" THEN "lexError" ELSE i.lex

VARIABLES in, ep, stage, res
vars == <<in, ep, stage, res>>

None == [verdict |-> "none", stage |-> "none", family |-> "none", firstBad |-> 0]

Init == /\ in \in {i \in Inputs : WellShaped(i)} /\ ep \in EntryPoints /\ stage = "start" /\ res = None

Reject(st, fam, k) == [verdict |-> "reject", stage |-> st, family |-> fam, firstBad |-> k]
FirstBad(s) == IF \E k \in DOMAIN s : ~s[k] THEN CHOOSE k \in DOMAIN s : ~s[k] /\ \A j \in 1..k - 1 : s[j] ELSE 0

CheckSize == /\ stage = "start"
             /\ IF in.size = "tooLarge" THEN res' = Reject("size", "limit", 0) /\ stage' = "returned"
                ELSE res' = res /\ stage' = "lex"
             /\ UNCHANGED <<in, ep>>
Lex == /\ stage = "lex"
       /\ CASE LexOf(in) = "lexError"      -> res' = Reject("lex", "tokenizer", 0) /\ stage' = "returned"
            [] LexOf(in) = "tooManyTokens" -> res' = Reject("lex", "limit", 0) /\ stage' = "returned"
            [] OTHER                    -> res' = res /\ stage' = "convert"
       /\ UNCHANGED <<in, ep>>
Convert == /\ stage = "convert" /\ stage' = "loop" /\ UNCHANGED <<in, ep, res>>
Loop == /\ stage = "loop"
        /\ res' = IF FirstBad(in.segs) = 0 THEN [verdict |-> "accept", stage |-> "none", family |-> "none", firstBad |-> 0]
                  ELSE Reject("parse", "parser", FirstBad(in.segs))
        /\ stage' = "returned" /\ UNCHANGED <<in, ep>>
\* one printed case per input (the driver crosses it with every entry point)
Out == (Emit /\ stage' = "returned" /\ ep = "gosqlx.Parse") =>
          PrintT(ToJson([size |-> in.size, lex |-> in.lex, segs |-> in.segs, pad |-> in.pad, padAt |-> in.padAt, sep |-> in.sep, res |-> res']))

Next == (CheckSize \/ Lex \/ Convert \/ Loop) /\ Out
Spec == Init /\ [][Next]_vars /\ WF_vars(Next)

\* C01: every entry point returns
Totality == <>(stage = "returned")
\* C07: the outcome is a function of the input alone - no entry point appears in it
Expected(i) == IF i.size = "tooLarge" THEN Reject("size", "limit", 0)
               ELSE IF LexOf(i) = "lexError" THEN Reject("lex", "tokenizer", 0)
               ELSE IF LexOf(i) = "tooManyTokens" THEN Reject("lex", "limit", 0)
               ELSE IF FirstBad(i.segs) = 0 THEN [verdict |-> "accept", stage |-> "none", family |-> "none", firstBad |-> 0]
               ELSE Reject("parse", "parser", FirstBad(i.segs))
EntryAgreement == stage = "returned" => res = Expected(in)
\* C13: the failing stage determines the family of the error code
FamilyOfCode == stage = "returned" /\ res.verdict = "reject" =>
                   res.family = CASE res.stage = "size" -> "limit" [] res.stage = "parse" -> "parser"
                                  [] res.stage = "lex" -> (IF in.lex = "tooManyTokens" THEN "limit" ELSE "tokenizer")
=============================================================================
