SPECIFICATION Spec
CONSTANTS
  Alphabet = {"sq","usq","L","bs","N","nl","sp"}
  MaxLen = 7
  Emit = TRUE
INVARIANTS TypeOK ExactlyOneEOF NoTokensWithError SourceOrder CommentOrder NothingDropped

