SPECIFICATION Spec
CONSTANTS
  Alphabet = {"sq","bs","L"}
  MaxLen = 8
  Emit = TRUE
INVARIANTS TypeOK ExactlyOneEOF NoTokensWithError SourceOrder CommentOrder NothingDropped
