SPECIFICATION Spec
CONSTANTS
  N = 4
  Safe = TRUE
  Success = FALSE
INVARIANTS TypeOK Atomicity OnlyOnSuccess NoStrayTmp
PROPERTIES Terminates
