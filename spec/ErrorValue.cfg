SPECIFICATION Spec
CONSTANTS
  Shape = "ideal"
  Emit = TRUE
INVARIANTS Reachable FamilyOfStage Reproducible CausesKept
