SPECIFICATION Spec
CONSTANTS
  Depth = 2
  Emit = TRUE
INVARIANTS Written Clean Disjoint Consistent NestedIncluded
