SPECIFICATION Spec
CONSTANTS
  G = {1, 2, 3}
  Keys = {"k1", "k2"}
  Shape = "check-then-act"
  Emit = FALSE
INVARIANTS Exact
