---------------------------- MODULE GrammarTrace ----------------------------
(***************************************************************************)
(* Code -> model binding for the serialisers: each line of outputs.ndjson  *)
(* is the token sequence of a real serialiser's output for a model         *)
(* expression tree.  The specification's reference parser must read every  *)
(* output as the tree it was produced from.                                *)
(***************************************************************************)
EXTENDS Grammar, TLCExt

Outs == ndJsonDeserialize("outputs.ndjson")

VARIABLE checked
TInit == checked = 0 /\ tree = Id("e") /\ done = TRUE
\* JSON turns sequences into sequences and records into records; integers stay integers
Misread(i) == RefParse(Outs[i].toks) # Outs[i].tree
TNext == /\ checked < Len(Outs) /\ checked' = checked + 1
         /\ (Misread(checked + 1) => PrintT(<<"MISREAD", checked + 1>>))
         /\ UNCHANGED <<tree, done>>
TSpec == TInit /\ [][TNext]_<<checked, tree, done>>
AllRead == \A i \in 1..checked : ~Misread(i)
=============================================================================
