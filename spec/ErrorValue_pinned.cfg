SPECIFICATION Spec
CONSTANTS
  Shape = "pinned"
  Emit = FALSE
INVARIANTS Reachable FamilyOfStage Reproducible
