\* every complete schedule of 2 goroutines (both shapes are replayed on the real code)
SPECIFICATION Spec
CONSTANTS
  G = {1, 2}
  SizeRange = {1, 2}
  CAS = TRUE
  Retries = 0
  Emit = "all"
INVARIANTS TypeOK ExactAtQuiescence
