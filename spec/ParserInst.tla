----------------------------- MODULE ParserInst -----------------------------
(***************************************************************************)
(* One reusable parser instance (pkg/sql/parser.Parser), its pool and the  *)
(* configuration its current holder has given it.                          *)
(*                                                                         *)
(* The instance's fields are modelled as the code keeps them *at rest*     *)
(* (between public calls):                                                 *)
(*   toks      whether p.tokens still references the last input            *)
(*   pos       which input's position mapping p.positions holds ("nil" or  *)
(*             the name of an input class)                                 *)
(*   strict, dialect   holder configuration stored in the instance         *)
(*   (depth = 0 and ctx = nil at rest are invariants of the code; the      *)
(*   replay driver compares them after every step)                         *)
(*                                                                         *)
(* One action per public operation.  Shape = "ideal" is the machine the    *)
(* property describes; Shape = "pinned" reproduces the three omissions of  *)
(* the pinned commit (Parse/ParseContext/recovery do not clear positions,  *)
(* Reset keeps the dialect) so that TLC demonstrates the carry-over.       *)
(***************************************************************************)
EXTENDS Integers, Sequences, FiniteSets, TLC, Json

CONSTANTS Shape,      \* "ideal" | "pinned"
          Emit,       \* print one history per transition (transition tour)
          PairView    \* TRUE: the view also contains the last operation => every PAIR of transitions is toured

Inputs   == {"valid", "badA", "badB", "semis", "mylimit", "deep"}
CallOps  == {"Parse", "ParseCtx", "ParsePos", "Recovery", "CtxDone", "CtxFire"}
Dialects == {"", "mysql"}
ZeroCfg  == [strict |-> FALSE, dialect |-> ""]
ZeroInst == [toks |-> FALSE, pos |-> "nil", strict |-> FALSE, dialect |-> ""]

VARIABLES where,    \* "absent" | "held" | "pool"
          inst,     \* the instance's fields
          holder,   \* configuration the current holder has asked for
          last,     \* result of the last call and what a fresh instance would have returned
          hist      \* operations so far (output only)

vars == <<where, inst, holder, last, hist>>
lastOp == IF hist = <<>> THEN "none" ELSE hist[Len(hist)].op
view == IF PairView THEN <<where, inst, holder, last, lastOp>> ELSE <<where, inst, holder, last>>

----------------------------------------------------------------------------
\* What a call returns, as a function of the input and of the fields the code consults.
Fail(p) == [ok |-> FALSE, loc |-> p]
Ok      == [ok |-> TRUE, loc |-> "nil"]

Res(op, in, strict, dialect, p) ==
    IF op \in {"CtxDone", "CtxFire"} THEN [ok |-> FALSE, loc |-> "cancelled"]
    ELSE CASE in \in {"valid", "deep"}  -> Ok
           [] in \in {"badA", "badB"}   -> Fail(p)
           \* strict mode is consulted by Parse, ParseWithPositions and ParseContext (the recovery loop does not
           \* look at it).  Until e3dba82 the context loop did not either, and this line said so as a transcription
           \* of the code; C11's pair on a strict parser showed it to be a defect (a context that never fires must
           \* yield the result of the context-free call) and the code was repaired.
           [] in = "semis"              -> IF strict /\ op \in {"Parse", "ParsePos", "ParseCtx"} THEN Fail(p) ELSE Ok
           [] in = "mylimit"            -> IF dialect = "mysql" THEN Ok ELSE Fail(p)

\* The position mapping in effect during a call.
\* (recovery parsing of tokenizer output builds its own mapping for the duration of the call)
PosDuring(op, in) ==
    IF op \in {"ParsePos", "Recovery"} THEN in
    ELSE IF Shape = "pinned" THEN inst.pos ELSE "nil"
\* ... and which mapping is still in the instance afterwards
PosAfter(op, in) == IF op = "Recovery" THEN "nil" ELSE PosDuring(op, in)

ResetOf(i)   == [toks |-> FALSE, pos |-> "nil", strict |-> FALSE,
                 dialect |-> IF Shape = "pinned" THEN i.dialect ELSE ""]
ReleaseOf(i) == [i EXCEPT !.toks = FALSE]      \* configuration and mapping survive Release

Log(step) == /\ hist' = Append(hist, step)
             /\ Emit => PrintT(ToJson(Append(hist, step)))

St(i, w, h) == [toks |-> i.toks, pos |-> i.pos, strict |-> i.strict, dialect |-> i.dialect, where |-> w,
                hstrict |-> h.strict, hdialect |-> h.dialect]

----------------------------------------------------------------------------
Init == /\ where = "absent" /\ inst = ZeroInst /\ holder = ZeroCfg
        /\ last = [res |-> Ok, fresh |-> Ok] /\ hist = <<>>

New(s, d) ==
    /\ where \in {"absent", "held"}
    /\ where' = "held"
    /\ inst' = [ZeroInst EXCEPT !.strict = s, !.dialect = d]
    /\ holder' = [strict |-> s, dialect |-> d]
    /\ UNCHANGED last
    /\ Log([op |-> "New", strict |-> s, dialect |-> d, st |-> St(inst', "held", holder')])

Get ==
    /\ where \in {"absent", "pool"}
    /\ where' = "held"
    /\ inst' = IF where = "pool" THEN inst ELSE ZeroInst
    /\ holder' = ZeroCfg
    /\ UNCHANGED last
    /\ Log([op |-> "Get", st |-> St(inst', "held", holder')])

Put ==
    /\ where = "held"
    /\ where' = "pool"
    /\ inst' = ResetOf(inst)
    /\ holder' = ZeroCfg
    /\ UNCHANGED last
    /\ Log([op |-> "Put", st |-> St(inst', "pool", holder')])

Apply(o) ==
    /\ where = "held"
    /\ inst' = CASE o = "strict" -> [inst EXCEPT !.strict = TRUE]
                 [] o = "mysql"  -> [inst EXCEPT !.dialect = "mysql"]
    /\ holder' = CASE o = "strict" -> [holder EXCEPT !.strict = TRUE]
                   [] o = "mysql"  -> [holder EXCEPT !.dialect = "mysql"]
    /\ UNCHANGED <<where, last>>
    /\ Log([op |-> "Apply", opt |-> o, st |-> St(inst', where, holder')])

Reset ==
    /\ where = "held"
    /\ inst' = ResetOf(inst)
    /\ holder' = ZeroCfg
    /\ UNCHANGED <<where, last>>
    /\ Log([op |-> "Reset", st |-> St(inst', where, holder')])

Release ==
    /\ where = "held"
    /\ inst' = ReleaseOf(inst)
    /\ UNCHANGED <<where, holder, last>>
    /\ Log([op |-> "Release", st |-> St(inst', where, holder)])

Call(op, in) ==
    /\ where = "held"
    /\ LET p == PosDuring(op, in)
           r == Res(op, in, inst.strict, inst.dialect, p)
           f == Res(op, in, holder.strict, holder.dialect, IF op \in {"ParsePos", "Recovery"} THEN in ELSE "nil")
       IN /\ last' = [res |-> r, fresh |-> f]
          \* CtxDone returns before touching the instance; every other call leaves its tokens behind
          /\ inst' = IF op = "CtxDone" THEN inst ELSE [inst EXCEPT !.toks = TRUE, !.pos = PosAfter(op, in)]
          /\ UNCHANGED <<where, holder>>
          /\ Log([op |-> op, in |-> in, exp |-> f, st |-> St(inst', where, holder)])

Next == \/ \E s \in BOOLEAN, d \in Dialects : New(s, d)
        \/ Get \/ Put \/ Reset \/ Release
        \/ \E o \in {"strict", "mysql"} : Apply(o)
        \/ \E op \in CallOps, in \in Inputs : Call(op, in)

Spec == Init /\ [][Next]_vars

----------------------------------------------------------------------------
\* C08: the outcome of every call is the outcome on a fresh instance with the holder's configuration.
HistoryIndependence == last.res = last.fresh

\* An instance in the pool, and one just obtained from it, is indistinguishable from a new one.
CleanInPool == where = "pool" => inst = ZeroInst
FreshAfterGet == (lastOp = "Get") => (inst = ZeroInst /\ holder = ZeroCfg)
FreshAfterReset == (lastOp = "Reset") => (inst = ZeroInst /\ holder = ZeroCfg)

\* The instance never holds configuration its holder did not give it.
ConfigIsHolders == where = "held" => (inst.strict = holder.strict /\ inst.dialect = holder.dialect)

TypeOK == /\ where \in {"absent", "held", "pool"}
          /\ inst.pos \in Inputs \cup {"nil"}
          /\ inst.dialect \in Dialects
=============================================================================
