----------------------------- MODULE LexLayout -----------------------------
(***************************************************************************)
(* Layout independence of the lexical grammar (second half of C04):        *)
(* changing only the whitespace or comments between lexical elements       *)
(* never changes the sequence of kinds and values.                         *)
(*                                                                         *)
(* A case is a list of 2-3 LEXEMES (each a sequence of character classes   *)
(* that lexes to exactly one token by itself) joined by SEPARATORS (none,  *)
(* blanks, newlines, CR-LF, a line comment, a block comment).  TLC checks  *)
(* on the reference lexer of Lexer.tla that                                *)
(*   - every lexeme alone is one token (WellFormedLexemes),                *)
(*   - with non-empty separators the token stream is exactly the lexemes   *)
(*     (LayoutIndependence), whatever the separators are,                  *)
(*   - and derives which adjacent pairs survive without a separator        *)
(*     (Separable; printed for the serialiser checks).                     *)
(* Every case is printed and replayed on the real tokenizer, where all     *)
(* separator choices of one lexeme list must give identical (kind, value)  *)
(* sequences, and that sequence must be the lexemes' own tokens (each      *)
(* tokenized alone) in order: Expected is built from KindOf(lx[i]) and     *)
(* lx[i] only, so a token never depends on the elements before it.         *)
(***************************************************************************)
EXTENDS Lexer

CONSTANT MaxLexemes

Lexemes == {
    <<"L">>, <<"L", "D">>, <<"U">>, <<"D">>, <<"D", ".", "D">>, <<"D", "E", "D">>, <<"D", ".", "D", "E", "-", "D">>,
    <<"sq", "sq">>, <<"sq", "L", "sq">>, <<"sq", "L", "sq", "sq", "L", "sq">>, <<"sq", "bs", "N", "sq">>, <<"sq", "-", "-", "sq">>,
    <<"dq", "L", "dq">>, <<"bt", "L", "bt">>, <<"$", "D">>, <<"@", "L">>, <<"$", "$", "L", "$", "$">>,
    \* the remaining quoting styles: triple-quoted, typographic quotes, doubled quote inside a quoted identifier,
    \* non-ASCII content, tagged dollar quote
    <<"sq", "sq", "sq", "L", "sq", "sq", "sq">>, <<"usq", "L", "usq">>, <<"dq", "L", "dq", "dq", "L", "dq">>, <<"dq", "U", "dq">>,
    <<"sq", "U", "sp", "L", "sq">>, <<"$", "L", "$", "D", "$", "L", "$">>,
    <<"(">>, <<")">>, <<"[">>, <<"]">>, <<",">>, <<";">>, <<".">>, <<"+">>, <<"*">>, <<"%">>,
    <<"-">>, <<"-", ">">>, <<"-", ">", ">">>, <<"/">>, <<"=">>, <<"=", ">">>, <<"<">>, <<"<", "=">>, <<"<", ">">>, <<"<", "@">>,
    <<">">>, <<">", "=">>, <<"!", "=">>, <<"!", "~">>, <<"!", "~", "*">>, <<":">>, <<":", ":">>, <<"|">>, <<"|", "|">>,
    <<"&">>, <<"&", "&">>, <<"@">>, <<"@", ">">>, <<"@", "@">>, <<"#">>, <<"#", ">">>, <<"#", ">", ">">>, <<"#", "-">>,
    <<"?">>, <<"?", "|">>, <<"?", "&">>, <<"~">>, <<"~", "*">>, <<"$">> }

\* (the driver also concretises the word lexeme "L" to every keyword spelling next to an element of every other kind,
\* with these separators and with comments whose own text ends in a full stop, a quote or a parenthesis: what is inside
\* a comment, and that there is a comment at all, is invisible to the element after it)
Seps == { <<>>, <<"sp">>, <<"tab">>, <<"nl">>, <<"cr", "nl">>, <<"sp", "nl", "sp">>,
          <<"sp", "-", "-", "L", "nl">>, <<"/", "*", "L", "*", "/">>, <<"/", "*", "sq", "nl", "*", "/">> }

\* the whole token stream of an input, as (kind, classes) pairs; <<"ERR">> if the input is rejected
RECURSIVE LexAll(_, _, _)
LexAll(s, p, acc) ==
    IF p > Len(s) THEN acc
    ELSE IF s[p] \in Blank THEN LexAll(s, Skip(s, p, Blank), acc)
    ELSE IF IsLineComment(s, p) THEN LexAll(s, LineCommentEnd(s, p) + 2, acc)
    ELSE IF IsBlockComment(s, p)
      THEN LET e == BlockEnd(s, p + 2) IN IF e = 0 THEN <<"ERR">> ELSE LexAll(s, e + 1, acc)
    ELSE LET x == Lexeme(s, p) IN
         IF x.ok THEN LexAll(s, x.hi + 1, Append(acc, <<x.k, SubSeq(s, x.lo, x.hi)>>)) ELSE <<"ERR">>

Stream(s) == LexAll(s, 1, <<>>)
KindOf(l) == Stream(l)[1][1]

VARIABLES lx, sp, emitted
lvars == <<lx, sp, emitted>>

Lists == UNION {[1..n -> Lexemes] : n \in 2..MaxLexemes}

RECURSIVE Join(_, _, _)
Join(ls, ss, i) == IF i > Len(ls) THEN <<>>
                   ELSE ls[i] \o (IF i < Len(ls) THEN ss[i] ELSE <<>>) \o Join(ls, ss, i + 1)

LInit == /\ lx \in Lists /\ sp \in [1..(Len(lx) - 1) -> Seps] /\ emitted = FALSE
         \* the variables of Lexer are not used by this specification
         /\ inp = <<>> /\ pos = 1 /\ toks = <<>> /\ coms = <<>> /\ err = [e |-> "", at |-> 0] /\ done = TRUE

Expected == [i \in 1..Len(lx) |-> <<KindOf(lx[i]), lx[i]>>]
NoEmptySep == \A i \in DOMAIN sp : sp[i] # <<>>
AllSeparable == \A i \in DOMAIN sp : sp[i] # <<>> \/ Stream(lx[i] \o lx[i + 1]) = <<<<KindOf(lx[i]), lx[i]>>, <<KindOf(lx[i + 1]), lx[i + 1]>>>>

LEmit == /\ ~emitted /\ emitted' = TRUE
         /\ Emit => PrintT(ToJson([lx |-> lx, sp |-> sp, same |-> (Stream(Join(lx, sp, 1)) = Expected)]))
         /\ UNCHANGED <<lx, sp, inp, pos, toks, coms, err, done>>
LSpec == LInit /\ [][LEmit]_<<lvars, vars>>

WellFormedLexemes == \A l \in Lexemes : Len(Stream(l)) = 1 /\ Stream(l)[1][2] = l
\* C04: with a separator between every two elements the stream is exactly the elements, whatever the separators
LayoutIndependence == NoEmptySep => Stream(Join(lx, sp, 1)) = Expected
\* ... and an empty separator is harmless exactly where the pair is separable
SeparableIsEnough == AllSeparable => (Len(lx) = 2 => Stream(Join(lx, sp, 1)) = Expected)
=============================================================================
