------------------------------- MODULE Sharing -------------------------------
(***************************************************************************)
(* Pooled objects shared between goroutines (C10, pooled-state clause).    *)
(* An operation borrows an object from a pool (tokenizer, parser, tree     *)
(* container), fills it, derives its result from it and gives it back.     *)
(* The result is correct for a concurrent caller exactly when nothing the  *)
(* caller still reads lives in memory that the pool can hand to somebody   *)
(* else.                                                                   *)
(*                                                                         *)
(* Two goroutines; goroutine 1 runs the operation under test as the        *)
(* sequence  Get ; Fill ; [Copy] ; Put ; Use , goroutine 2 a complete      *)
(* operation  Get ; Fill ; Put  on the same pool.  The object's buffer     *)
(* carries the tag of whoever filled it last.                              *)
(*   Shape "copy"   the operation copies what it needs out of the object   *)
(*                  before Put; Use reads the copy                         *)
(*   Shape "alias"  Use reads the object's buffer after Put (a result      *)
(*                  slice that still points into the pooled object)        *)
(* Invariants: Exclusive (an object is never used by two goroutines at     *)
(* once), ResultIsOwn (Use reads goroutine 1's own data).  The alias shape *)
(* violates ResultIsOwn with the schedule  ... Put(1) Get(2) Fill(2) ...   *)
(* Use(1).  Every schedule is printed as the position at which goroutine 1 *)
(* is preempted; the driver forces it on the real code through the pool    *)
(* gates: goroutine 1 is stopped at its k-th pool event, goroutine 2 runs  *)
(* a whole operation, goroutine 1 resumes, and its result must equal the   *)
(* result of the operation run alone.                                      *)
(***************************************************************************)
EXTENDS Integers, Sequences, TLC, Json

CONSTANTS Shape, Emit

VARIABLES pc1, pc2, owner, buf, copy, read, sched
vars == <<pc1, pc2, owner, buf, copy, read, sched>>

Init == /\ pc1 = "get" /\ pc2 = "get" /\ owner = 0 /\ buf = 0 /\ copy = 0 /\ read = 0 /\ sched = <<>>

Log(g, a) == sched' = Append(sched, <<g, a>>)
Get1 == /\ pc1 = "get" /\ owner = 0 /\ owner' = 1 /\ pc1' = "fill" /\ Log(1, "get") /\ UNCHANGED <<pc2, buf, copy, read>>
Fill1 == /\ pc1 = "fill" /\ buf' = 1 /\ pc1' = (IF Shape = "copy" THEN "copy" ELSE "put") /\ Log(1, "fill") /\ UNCHANGED <<pc2, owner, copy, read>>
Copy1 == /\ pc1 = "copy" /\ copy' = buf /\ pc1' = "put" /\ Log(1, "copy") /\ UNCHANGED <<pc2, owner, buf, read>>
Put1 == /\ pc1 = "put" /\ owner' = 0 /\ pc1' = "use" /\ Log(1, "put") /\ UNCHANGED <<pc2, buf, copy, read>>
Use1 == /\ pc1 = "use" /\ read' = (IF Shape = "copy" THEN copy ELSE buf) /\ pc1' = "done" /\ Log(1, "use") /\ UNCHANGED <<pc2, owner, buf, copy>>
Get2 == /\ pc2 = "get" /\ owner = 0 /\ owner' = 2 /\ pc2' = "fill" /\ Log(2, "get") /\ UNCHANGED <<pc1, buf, copy, read>>
Fill2 == /\ pc2 = "fill" /\ buf' = 2 /\ pc2' = "put" /\ Log(2, "fill") /\ UNCHANGED <<pc1, owner, copy, read>>
Put2 == /\ pc2 = "put" /\ owner' = 0 /\ pc2' = "done" /\ Log(2, "put") /\ UNCHANGED <<pc1, buf, copy, read>>
Report == /\ pc1 = "done" /\ pc2 = "done" /\ pc1' = "reported"
          /\ (Emit => PrintT(ToJson([sched |-> sched])))
          /\ UNCHANGED <<pc2, owner, buf, copy, read, sched>>
Next == Get1 \/ Fill1 \/ Copy1 \/ Put1 \/ Use1 \/ Get2 \/ Fill2 \/ Put2 \/ Report
Spec == Init /\ [][Next]_vars

\* the buffer is only written by its owner (by construction of the guards) and only one goroutine owns it
Exclusive == ~(pc1 \in {"fill", "copy", "put"} /\ pc2 \in {"fill", "put"})
ResultIsOwn == pc1 \in {"done", "reported"} => read = 1
=============================================================================
