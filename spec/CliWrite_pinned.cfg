SPECIFICATION Spec
CONSTANTS
  N = 4
  Safe = FALSE
  Success = TRUE
INVARIANTS Atomicity
