SPECIFICATION Spec
CONSTANTS
  MaxN = 12
  Stride = 4
  Shape = "every"
  Emit = TRUE
INVARIANTS WorkAfterDoneBounded
