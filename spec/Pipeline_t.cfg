SPECIFICATION Spec
CONSTANTS
  MaxSegs = 6
  Emit = TRUE
INVARIANTS EntryAgreement FamilyOfCode
PROPERTIES Totality
