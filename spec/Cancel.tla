------------------------------ MODULE Cancel ------------------------------
(***************************************************************************)
(* A context-aware call (TokenizeContext, ParseContext and the gosqlx      *)
(* wrappers) seen as a sequence of polls of the context.                   *)
(*                                                                         *)
(*   Poll        the library asks ctx.Err(); the Fire-th poll (0-based)    *)
(*               and all later ones observe "done"                         *)
(*   Unwind(f)   the error found by a poll travels outwards through the    *)
(*               frame f of the call stack; a frame either preserves the   *)
(*               error chain ("w", fmt.Errorf("...%w")) or flattens it     *)
(*               into a message ("v", "...%v")                             *)
(*   Return      the public call returns a tree or an error                *)
(*                                                                         *)
(* Guard = TRUE is the repaired shape: the entry point re-checks the       *)
(* context before it returns, so what the inner frames did to the chain    *)
(* cannot matter.  Guard = FALSE is the pinned shape.                      *)
(***************************************************************************)
EXTENDS Integers, Sequences, TLC

CONSTANTS MaxPolls,     \* the uncancelled run makes at most this many polls
          MaxDepth,     \* frames between a poll site and the entry point
          Guard,        \* entry point re-checks ctx.Err() before returning
          Bound         \* polls allowed after the firing one

Frames == {"w", "v"}
Stacks == UNION {[1..d -> Frames] : d \in 0..MaxDepth}

VARIABLES total,     \* number of polls the uncancelled run makes (fixed per call)
          fire,      \* index of the first poll that observes done; fire = total: never
          polls,     \* polls made so far
          post,      \* polls made after the firing one
          pc,        \* "run" | "unwind" | "guarded" | "returned"
          stack,     \* frames still to unwind
          inParser,  \* the error in flight started below the parser's entry point (which has the guard)
          chain,     \* the error being unwound still matches the context's error
          res        \* "none" | "tree" | "cancelled" | "other-error"

vars == <<total, fire, polls, post, pc, stack, inParser, chain, res>>

Fired == polls > fire

\* total >= 1: a context-aware call polls on entry whatever its input is (an input without a statement gives its
\* loops nothing to iterate over; a context that is already done must be reported all the same - the driver runs
\* every entry point on statement-less inputs and flags a call that makes no poll at all)
Init == /\ total \in 1..MaxPolls /\ fire \in 0..total /\ polls = 0 /\ post = 0 /\ pc = "run"
        /\ stack = <<>> /\ inParser = FALSE /\ chain = TRUE /\ res = "none"

\* a poll that does not observe done: the call goes on
PollQuiet == /\ pc = "run" /\ polls < total /\ polls < fire
             /\ polls' = polls + 1 /\ UNCHANGED <<total, fire, post, pc, stack, inParser, chain, res>>

\* a poll that observes done: an error starts to travel up some stack of frames.  Polls made by the
\* gosqlx wrapper and the tokenizer sit under chain-preserving frames only; polls made inside the
\* parser may sit under any frames.
PollDone(st, parser) ==
    /\ pc = "run" /\ polls < total /\ polls >= fire
    /\ (~parser => \A i \in DOMAIN st : st[i] = "w")
    /\ post' = IF polls > fire THEN post + 1 ELSE post
    /\ polls' = polls + 1
    /\ pc' = "unwind" /\ stack' = st /\ inParser' = parser /\ chain' = TRUE
    /\ UNCHANGED <<total, fire, res>>

Unwind == /\ pc = "unwind" /\ stack # <<>>
          /\ stack' = Tail(stack) /\ chain' = (chain /\ Head(stack) # "v")
          /\ UNCHANGED <<total, fire, polls, post, pc, inParser, res>>

\* the repaired parser entry point asks the context once more before it returns an error
GuardPoll == /\ Guard /\ pc = "unwind" /\ stack = <<>> /\ inParser
             /\ pc' = "guarded" /\ post' = post + 1
             /\ UNCHANGED <<total, fire, polls, stack, inParser, chain, res>>

\* the error reaches the caller
ReturnError == /\ \/ pc = "guarded"
                  \/ (pc = "unwind" /\ stack = <<>> /\ ~(Guard /\ inParser))
               /\ res' = IF pc = "guarded" \/ chain THEN "cancelled" ELSE "other-error"
               /\ pc' = "returned" /\ UNCHANGED <<total, fire, polls, post, stack, inParser, chain>>

\* the run completes: every poll of the uncancelled run has been made and none observed done
ReturnValue == /\ pc = "run" /\ polls = total /\ polls <= fire
               /\ res' = "tree"
               /\ pc' = "returned" /\ UNCHANGED <<total, fire, polls, post, stack, inParser, chain>>

Next == PollQuiet \/ (\E st \in Stacks, b \in BOOLEAN : PollDone(st, b)) \/ Unwind \/ GuardPoll \/ ReturnError \/ ReturnValue

Spec == Init /\ [][Next]_vars /\ WF_vars(Next)

----------------------------------------------------------------------------
TypeOK == polls \in 0..total /\ post \in 0..MaxPolls + 1 /\ pc \in {"run", "unwind", "guarded", "returned"}

\* C11: a context that became done is reported as such, and no tree is returned
CancelReported == (pc = "returned" /\ Fired) => res = "cancelled"
\* a context that never fired does not change the outcome
NeverFiredEqualsPlain == (pc = "returned" /\ ~Fired) => res = "tree"
\* bounded further work
BoundedAfterFire == post <= Bound
Terminates == <>(pc = "returned")
=============================================================================
