--------------------------- MODULE CallGraphTrace ---------------------------
(***************************************************************************)
(* Trace validation for CallGraph: every call stack recorded from the real *)
(* parser (outermost frame first, frames of the parser package only) must  *)
(* be a path of the call graph extracted from the source.  A rejected      *)
(* stack means the extraction misses an edge (or the normalisation of      *)
(* frame names is wrong): the model would then not speak about the code.   *)
(***************************************************************************)
EXTENDS Integers, Sequences, TLC, Json, ParserCalls

Trace == ndJsonDeserialize("stacks.ndjson")
VARIABLE l
Callees(f) == IF f \in DOMAIN PCalls THEN PCalls[f] ELSE {}
IsPath(fs) == /\ \A k \in 1..Len(fs) : fs[k] \in PFuncs
              /\ \A k \in 1..(Len(fs) - 1) : fs[k + 1] \in Callees(fs[k])
Init == l = 1
Next == /\ l <= Len(Trace) /\ IsPath(Trace[l].frames) /\ l' = l + 1
Spec == Init /\ [][Next]_l
TraceAccepted == TLCGet("stats").diameter - 1 = Len(Trace)
=============================================================================
