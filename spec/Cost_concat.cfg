SPECIFICATION Spec
CONSTANTS
  N = 64
  K = 4
  PosShape = "cached"
  SerShape = "concat"
  Emit = FALSE
INVARIANTS NearLinear
