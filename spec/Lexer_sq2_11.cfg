SPECIFICATION Spec
CONSTANTS
  Alphabet = {"sq","L"}
  MaxLen = 11
  Emit = TRUE
INVARIANTS TypeOK ExactlyOneEOF NoTokensWithError SourceOrder CommentOrder NothingDropped
