SPECIFICATION Spec
CONSTANTS
  MaxOps = 1
  OpSet = "all"
  Atoms = "rich"
  Emit = TRUE
INVARIANTS RoundTrip ParenOnlyAdds
