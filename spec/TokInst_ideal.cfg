SPECIFICATION Spec
CONSTANTS
  Shape = "ideal"
  Emit = FALSE
  PairView = FALSE
VIEW view
INVARIANTS TypeOK HistoryIndependence CleanInPool FreshAfterGet ConfigIsHolders
