SPECIFICATION Spec
CONSTANTS
  MaxOps = 1
  OpSet = "all"
  Emit = TRUE
INVARIANTS RoundTrip ParenOnlyAdds
