SPECIFICATION Spec
CONSTANTS
  MaxExpr = 1
  MaxNest = 1
  Shape = "pinned"
  Emit = FALSE
INVARIANTS ContextClosed Threshold CountsMatch
