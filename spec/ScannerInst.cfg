SPECIFICATION Spec
CONSTANTS
  Shape = "ideal"
  Emit = TRUE
  MaxSteps = 5
INVARIANTS Reported
