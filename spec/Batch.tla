------------------------------- MODULE Batch -------------------------------
(***************************************************************************)
(* The batch helpers (gosqlx.ParseMultiple, gosqlx.ValidateMultiple): a    *)
(* list of queries is processed front to back with one shared tokenizer    *)
(* and parser; the first failing query ends the batch.                     *)
(* A batch is a sequence of query classes                                  *)
(*     ok      accepted                                                    *)
(*     heavy   accepted, and far more expensive than its neighbours        *)
(*     syntax  rejected by the parser                                      *)
(*     lex     rejected by the tokenizer                                   *)
(* The machine processes one query per step.  Properties (C07, batch       *)
(* clause): the batch fails iff some query fails on its own, at the FIRST  *)
(* failing index and with that query's error; a failing batch returns no   *)
(* trees; a passing batch returns one tree per query in order.             *)
(* All batches of length <= MaxLen over {ok, syntax, lex} are explored,    *)
(* and long batches (lengths LongLens) with at most two failing queries at *)
(* probe positions and an optional heavy query in front, and uniform       *)
(* batches (lengths UniformLens, beyond the nesting limit): ONE accepted   *)
(* query repeated - a resource of the shared parser that a query leaves    *)
(* one unit short (a depth counter, a buffer) runs out only there.         *)
(***************************************************************************)
EXTENDS Integers, Sequences, FiniteSets, TLC, Json

CONSTANTS MaxLen, LongLens, UniformLens, Emit

Bad == {"syntax", "lex"}
Short == UNION {[1..n -> {"ok", "syntax", "lex"}] : n \in 0..MaxLen}
Probe(len) == {1, 2, len \div 2, len \div 2 + 1, len - 1, len}
Long == UNION {
          { [k \in 1..len |-> IF k = i THEN ci ELSE IF k = j THEN cj ELSE IF k = 1 /\ heavy THEN "heavy" ELSE "ok"] :
              i \in Probe(len), j \in Probe(len), ci \in Bad, cj \in Bad \cup {"ok"}, heavy \in BOOLEAN }
          : len \in LongLens }

Uniform == {[k \in 1..len |-> "same"] : len \in UniformLens}

VARIABLES batch, cursor, trees, result
vars == <<batch, cursor, trees, result>>

Init == /\ batch \in Short \cup Long \cup Uniform
        /\ cursor = 1 /\ trees = <<>> /\ result = [st |-> "running", index |-> -1, family |-> ""]

ParseOne == /\ result.st = "running" /\ cursor <= Len(batch)
            /\ IF batch[cursor] \in Bad
               THEN /\ result' = [st |-> "fail", index |-> cursor - 1, family |-> batch[cursor]]
                    /\ trees' = <<>> /\ cursor' = cursor
               ELSE /\ trees' = Append(trees, cursor) /\ cursor' = cursor + 1 /\ result' = result
            /\ UNCHANGED batch
Finish == /\ result.st = "running" /\ cursor > Len(batch)
          /\ result' = [result EXCEPT !.st = "ok"] /\ UNCHANGED <<batch, cursor, trees>>
Report == /\ result.st # "running" /\ cursor # -1 /\ cursor' = -1
          /\ (Emit => PrintT(ToJson([batch |-> batch, ok |-> (result.st = "ok"), index |-> result.index, family |-> result.family])))
          /\ UNCHANGED <<batch, trees, result>>
Next == ParseOne \/ Finish \/ Report
Spec == Init /\ [][Next]_vars /\ WF_vars(Next)

Done == result.st # "running"
BadAt == {k \in 1..Len(batch) : batch[k] \in Bad}
FailsIffSomeBad == Done => ((result.st = "ok") <=> (BadAt = {}))
FirstFailure == (result.st = "fail") =>
                   /\ result.index + 1 \in BadAt /\ \A k \in BadAt : result.index + 1 <= k
                   /\ result.family = batch[result.index + 1]
NoTreesOnFailure == (result.st = "fail") => trees = <<>>
TreesInOrder == (result.st = "ok") => trees = [k \in 1..Len(batch) |-> k]
Terminates == <>(cursor = -1)
=============================================================================
