SPECIFICATION Spec
CONSTANTS
  Shape = "cached"
  Emit = FALSE
  MaxSteps = 5
INVARIANTS Reported
