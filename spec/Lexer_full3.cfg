SPECIFICATION Spec
CONSTANTS
  Alphabet = {"L","E","N","U","D","sp","tab","nl","cr","sq","dq","bt","bs","usq","udq","(",")","[","]",",",";",".","+","*","%","-",">","<","=","!","~",":","|","&","@","#","?","$","/","^"}
  MaxLen = 3
  Emit = TRUE
INVARIANTS TypeOK ExactlyOneEOF NoTokensWithError SourceOrder CommentOrder NothingDropped

