SPECIFICATION Spec
CONSTANTS
  Shape = "copy"
  Emit = TRUE
INVARIANTS Exclusive ResultIsOwn
