SPECIFICATION SpecShare
CONSTANTS
  Shape = "fresh-graft"
  Emit = TRUE
  MaxSteps = 6
INVARIANTS Disjoint Intact
