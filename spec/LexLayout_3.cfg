SPECIFICATION LSpec
CONSTANTS
  Alphabet = {"L"}
  MaxLen = 1
  Emit = TRUE
  MaxLexemes = 3
INVARIANTS WellFormedLexemes LayoutIndependence SeparableIsEnough
