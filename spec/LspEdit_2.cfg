SPECIFICATION Spec
CONSTANTS
  MaxLen = 2
  Emit = TRUE
INVARIANTS Defined Conserves NoOp Whole ClampLine RangeLengthAgrees
