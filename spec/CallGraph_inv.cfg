SPECIFICATION Spec
CONSTANTS
  Machine = "cycles"
  Pkg = "parser"
  Emit = FALSE
  Limit = 2
VIEW CycleView
INVARIANTS NoUnguardedCycle
