SPECIFICATION Spec
CONSTANTS
  G = {1, 2, 3}
  SizeRange = {1, 2, 3}
  CAS = TRUE
  Retries = 0
  Emit = "all"
INVARIANTS TypeOK ExactAtQuiescence
