SPECIFICATION Spec
CONSTANTS
  G = {1, 2, 3}
  SizeRange = {1, 2, 3}
  CAS = TRUE
  Emit = TRUE
INVARIANTS TypeOK ExactAtQuiescence
