----------------------------- MODULE DepthGuard -----------------------------
(***************************************************************************)
(* The nesting limit as the parser keeps it: one counter on the parser,    *)
(* raised when a nesting production is entered and lowered when it is      *)
(* left; a production that would raise it beyond Limit rejects.  The       *)
(* counter lives as long as the parser does - across the statements of a   *)
(* script in recovery mode and across calls on a kept instance - so the    *)
(* limit holds for every statement only if the counter is back at zero     *)
(* whenever a statement ends, accepted or rejected (C02: nesting beyond    *)
(* the documented limit is rejected, whatever the parser did before).      *)
(*   Shape "balanced"        the level that rejects is released once       *)
(*   Shape "double-release"  the rejecting production lowers the counter   *)
(*                           itself AND its deferred release runs          *)
(* A history is a sequence of statements given by their nesting depth.     *)
(*   RejectedIffTooDeep   a statement is rejected exactly when its nesting *)
(*                        exceeds Limit                                    *)
(*   ZeroAtRest           between statements the counter is zero           *)
(* Every history is printed; the driver concretises a depth by every pump  *)
(* of Pumps.tla and replays the history on one parser instance and as one  *)
(* script through the recovery parser.                                     *)
(***************************************************************************)
EXTENDS Integers, Sequences, TLC, Json

CONSTANTS Limit, Depths, MaxStmts, Shape, Emit

VARIABLES hist, counter, verdicts
vars == <<hist, counter, verdicts>>
Init == hist = <<>> /\ counter = 0 /\ verdicts = <<>>

\* parsing a statement of nesting n with the counter at c: levels are entered one by one; the first that would exceed
\* the limit rejects, and everything entered is left again
Rejects(c, n) == c + n > Limit
After(c, n) == IF Rejects(c, n) /\ Shape = "double-release" THEN c - 1 ELSE c
Stmt(n) == /\ Len(hist) < MaxStmts
           /\ hist' = Append(hist, n)
           /\ verdicts' = Append(verdicts, IF Rejects(counter, n) THEN "rejected" ELSE "accepted")
           /\ counter' = After(counter, n)
Report == /\ Len(hist) = MaxStmts /\ hist[Len(hist)] # 0
          /\ (Emit => PrintT(ToJson([depths |-> hist])))
          /\ hist' = Append(hist, 0) /\ UNCHANGED <<counter, verdicts>>
Next == (\E n \in Depths : Stmt(n)) \/ Report
Spec == Init /\ [][Next]_vars

RejectedIffTooDeep == \A i \in DOMAIN verdicts : (verdicts[i] = "rejected") <=> (hist[i] > Limit)
ZeroAtRest == counter = 0
=============================================================================
