SPECIFICATION Spec
CONSTANTS
  MaxOps = 3
  OpSet = "core"
  Atoms = "simple"
  Emit = TRUE
INVARIANTS RoundTrip ParenOnlyAdds
