SPECIFICATION Spec
CONSTANTS
  MaxOps = 3
  OpSet = "core"
  Emit = TRUE
INVARIANTS RoundTrip ParenOnlyAdds
