SPECIFICATION Spec
CONSTANTS
  Alphabet = {"-","/","*","nl","cr","L","sp","sq"}
  MaxLen = 7
  Emit = TRUE
INVARIANTS TypeOK ExactlyOneEOF NoTokensWithError SourceOrder CommentOrder NothingDropped

