SPECIFICATION Spec
CONSTANTS
  MaxLen = 4
  LongLens = {8, 17, 64}
  UniformLens = {150}
  Emit = TRUE
INVARIANTS FailsIffSomeBad FirstFailure NoTreesOnFailure TreesInOrder
