SPECIFICATION Spec
INVARIANTS OptionsCannotChangeTokens
