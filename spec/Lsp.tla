-------------------------------- MODULE Lsp --------------------------------
(***************************************************************************)
(* The language server as a conversation: one JSON-RPC frame at a time.    *)
(*                                                                         *)
(* Documents are sequences of statements, one per line, each "G" (parses)  *)
(* or "B" (one syntax error); character-level editing is the business of   *)
(* LspEdit.tla, here edits act on whole lines through ordinary LSP ranges. *)
(* The state is what a client can hold the server to:                      *)
(*   docs[u]   mirrored document (open?, lines, version; known = FALSE      *)
(*             after an edit whose range is negative or inverted: the      *)
(*             property leaves the text unconstrained there)               *)
(*   diag[u]   the diagnostics a correct server has last published for u   *)
(*   phase     "running" until the exit notification                       *)
(* Each Recv action also states, in `out`, what the server must send in    *)
(* reply: the ids that must be answered exactly once, the ids that may be  *)
(* answered at most once, and the publishDiagnostics it owes.              *)
(***************************************************************************)
EXTENDS Integers, Sequences, FiniteSets, TLC, Json, SequencesExt

CONSTANTS URIs, MaxLines, MaxVer, Emit, PairView

Stmt == {"G", "B"}
LineSeqs == UNION {[1..k -> Stmt] : k \in 1..MaxLines}
Closed == [open |-> FALSE, known |-> TRUE, lines |-> <<>>, ver |-> 0]
NoDiag == [have |-> FALSE, ver |-> 0, lines |-> <<>>]

ReqMethods == {"initialize", "shutdown", "textDocument/hover", "textDocument/completion",
               "textDocument/formatting", "textDocument/documentSymbol", "textDocument/signatureHelp",
               "textDocument/codeAction", "workspace/unknownMethod"}
PosKinds == {"inrange", "pastEnd", "negative"}
ParamKinds == {"ok", "wrongShape", "missing"}

VARIABLES docs, diag, phase, nextId, out, hist
vars == <<docs, diag, phase, nextId, out, hist>>
lastKind == IF hist = <<>> THEN "none" ELSE hist[Len(hist)].m
view == IF PairView THEN <<docs, diag, phase, lastKind>> ELSE <<docs, diag, phase>>

BadLines(ls) == SelectSeq([i \in 1..Len(ls) |-> IF ls[i] = "B" THEN i - 1 ELSE -1], LAMBDA x : x >= 0)
DiagOf(d) == [have |-> TRUE, ver |-> d.ver, lines |-> BadLines(d.lines)]

NoOut == [must |-> <<>>, may |-> <<>>, diag |-> <<>>]

Log(step) == /\ hist' = Append(hist, step)
             /\ Emit => PrintT(ToJson(Append(hist, step)))

Init == /\ docs = [u \in URIs |-> Closed] /\ diag = [u \in URIs |-> NoDiag]
        /\ phase = "running" /\ nextId = 1 /\ out = NoOut /\ hist = <<>>

Running == phase = "running"

\* ---- requests ------------------------------------------------------------
\* every request - known method or not, params well-formed or not, position anywhere - gets exactly
\* one response carrying its id; documents and diagnostics are untouched
Request(m, u, pk, prm) ==
    /\ Running
    /\ out' = [NoOut EXCEPT !.must = <<nextId>>]
    /\ nextId' = nextId + 1
    /\ UNCHANGED <<docs, diag, phase>>
    /\ Log([m |-> m, kind |-> "request", id |-> nextId, uri |-> u, pos |-> pk, params |-> prm,
            out |-> out', docs |-> docs, diag |-> diag])

\* ---- notifications ---------------------------------------------------------
Open(u, ls, v) ==
    /\ Running
    /\ docs' = [docs EXCEPT ![u] = [open |-> TRUE, known |-> TRUE, lines |-> ls, ver |-> v]]
    /\ diag' = [diag EXCEPT ![u] = DiagOf(docs'[u])]
    /\ out' = [NoOut EXCEPT !.diag = <<[uri |-> u, ver |-> v, lines |-> BadLines(ls), strictver |-> TRUE]>>]
    /\ UNCHANGED <<phase, nextId>>
    /\ Log([m |-> "didOpen", kind |-> "notification", uri |-> u, lines |-> ls, ver |-> v,
            out |-> out', docs |-> docs', diag |-> diag'])

\* a change replaces the text (full sync) or edits whole lines (incremental sync)
EditKinds == {"full", "replaceLine", "insertLine", "deleteLine", "appendPastEnd", "negativeRange", "invertedRange"}

Edited(ls, ek, k, s) ==
    CASE ek = "replaceLine"   -> [ls EXCEPT ![k] = s]
      [] ek = "insertLine"    -> SubSeq(ls, 1, k - 1) \o <<s>> \o SubSeq(ls, k, Len(ls))
      [] ek = "deleteLine"    -> SubSeq(ls, 1, k - 1) \o SubSeq(ls, k + 1, Len(ls))
      [] ek = "appendPastEnd" -> Append(ls, s)        \* range far beyond the last line clamps to the end
      [] OTHER -> ls

Change(u, ek, k, s, full) ==
    /\ Running
    /\ LET d == docs[u]
           v == IF d.ver < MaxVer THEN d.ver + 1 ELSE d.ver
       IN IF ~d.open
            THEN \* a change for a document that is not open is ignored
                 /\ UNCHANGED <<docs, diag, phase, nextId>> /\ out' = NoOut
            ELSE /\ docs' = [docs EXCEPT ![u] =
                       CASE ek = "full" -> [d EXCEPT !.lines = full, !.known = TRUE, !.ver = v]
                         [] ek \in {"negativeRange", "invertedRange"} -> [d EXCEPT !.known = FALSE, !.ver = v]
                         [] OTHER -> IF d.known THEN [d EXCEPT !.lines = Edited(d.lines, ek, k, s), !.ver = v]
                                     ELSE [d EXCEPT !.ver = v]]
                 /\ diag' = [diag EXCEPT ![u] = IF docs'[u].known THEN DiagOf(docs'[u]) ELSE NoDiag]
                 /\ out' = IF docs'[u].known
                           THEN [NoOut EXCEPT !.diag = <<[uri |-> u, ver |-> v, lines |-> BadLines(docs'[u].lines), strictver |-> TRUE]>>]
                           ELSE NoOut
                 /\ UNCHANGED <<phase, nextId>>
    /\ Log([m |-> "didChange", kind |-> "notification", uri |-> u, edit |-> ek, k |-> k, s |-> s, full |-> full,
            ver |-> (IF docs[u].ver < MaxVer THEN docs[u].ver + 1 ELSE docs[u].ver),
            out |-> out', docs |-> docs', diag |-> diag'])

ValidEdit(d, ek, k) ==
    CASE ek \in {"replaceLine", "deleteLine"} -> d.known /\ k \in 1..Len(d.lines) /\ (ek = "deleteLine" => Len(d.lines) > 1)
      [] ek = "insertLine"    -> d.known /\ k \in 1..Len(d.lines) /\ Len(d.lines) < MaxLines
      [] ek = "appendPastEnd" -> d.known /\ k = 1 /\ Len(d.lines) < MaxLines
      [] OTHER -> k = 1

Close(u) ==
    /\ Running
    /\ docs' = [docs EXCEPT ![u] = Closed]
    /\ diag' = [diag EXCEPT ![u] = [have |-> TRUE, ver |-> 0, lines |-> <<>>]]
    \* closing clears the diagnostics (also for a document that was not open: harmless)
    /\ out' = [NoOut EXCEPT !.diag = <<[uri |-> u, ver |-> 0, lines |-> <<>>, strictver |-> FALSE]>>]
    /\ UNCHANGED <<phase, nextId>>
    /\ Log([m |-> "didClose", kind |-> "notification", uri |-> u, out |-> out', docs |-> docs', diag |-> diag'])

\* save re-validates the current text (the notification may or may not carry it)
Save(u, withText) ==
    /\ Running
    /\ UNCHANGED <<docs, phase, nextId>>
    /\ LET d == docs[u] IN
       IF d.open /\ d.known
         THEN /\ diag' = [diag EXCEPT ![u] = DiagOf(d)]
              /\ out' = [NoOut EXCEPT !.diag = <<[uri |-> u, ver |-> d.ver, lines |-> BadLines(d.lines), strictver |-> FALSE]>>]
         ELSE /\ UNCHANGED diag /\ out' = NoOut
    /\ Log([m |-> "didSave", kind |-> "notification", uri |-> u, withText |-> withText,
            out |-> out', docs |-> docs, diag |-> diag'])

\* notifications that change nothing and must not be answered
Inert(m, prm) ==
    /\ Running /\ m \in {"initialized", "$/unknownNotification", "textDocument/didOpen", "textDocument/didChange",
                         "textDocument/didClose", "textDocument/didSave"}
    /\ (m \in {"initialized", "$/unknownNotification"} => prm = "ok")
    /\ (m \notin {"initialized", "$/unknownNotification"} => prm # "ok")     \* malformed params: ignored
    /\ out' = NoOut /\ UNCHANGED <<docs, diag, phase, nextId>>
    /\ Log([m |-> m, kind |-> "inert", params |-> prm, out |-> out', docs |-> docs, diag |-> diag])

\* frames that are not requests: the server must survive; an id that can be extracted may be answered once
Malformed(f) ==
    /\ Running
    /\ f \in {"invalidJsonWithId", "invalidJson", "jsonArray", "jsonString", "idNoMethod", "idNullWithMethod",
              "headerZeroLength", "headerNonNumeric", "headerOversize", "headerExtraField", "emptyObject"}
    /\ out' = IF f \in {"invalidJsonWithId", "idNoMethod"} THEN [NoOut EXCEPT !.may = <<nextId>>]
              ELSE IF f = "headerExtraField" THEN [NoOut EXCEPT !.must = <<nextId>>]   \* a valid request with one more header
              ELSE NoOut
    /\ nextId' = nextId + 1
    /\ UNCHANGED <<docs, diag, phase>>
    /\ Log([m |-> f, kind |-> "malformed", id |-> nextId, out |-> out', docs |-> docs, diag |-> diag])

Exit == /\ Running /\ phase' = "exited" /\ out' = NoOut /\ UNCHANGED <<docs, diag, nextId>>
        /\ Log([m |-> "exit", kind |-> "notification", out |-> out', docs |-> docs, diag |-> diag])

Next == \/ \E m \in ReqMethods, u \in URIs, pk \in PosKinds, prm \in ParamKinds :
              /\ (m \in {"initialize", "shutdown", "workspace/unknownMethod"} => pk = "inrange" /\ u = CHOOSE x \in URIs : TRUE)
              /\ (prm # "ok" => pk = "inrange")
              /\ Request(m, u, pk, prm)
        \/ \E u \in URIs, ls \in LineSeqs, v \in 1..2 : Open(u, ls, v)
        \/ \E u \in URIs, ek \in EditKinds, k \in 1..MaxLines, s \in Stmt, full \in LineSeqs :
              /\ ValidEdit(docs[u], ek, k)
              /\ (ek # "full" => full = <<"G">>) /\ (ek = "full" => s = "G")
              /\ (ek \in {"deleteLine", "full", "negativeRange", "invertedRange"} => s = "G")
              /\ Change(u, ek, k, s, full)
        \/ \E u \in URIs : Close(u) \/ Save(u, TRUE) \/ Save(u, FALSE)
        \/ \E m \in {"initialized", "$/unknownNotification", "textDocument/didOpen", "textDocument/didChange",
                     "textDocument/didClose", "textDocument/didSave"}, prm \in ParamKinds : Inert(m, prm)
        \/ \E f \in {"invalidJsonWithId", "invalidJson", "jsonArray", "jsonString", "idNoMethod", "idNullWithMethod",
                     "headerZeroLength", "headerNonNumeric", "headerOversize", "headerExtraField", "emptyObject"} : Malformed(f)
        \/ Exit

Spec == Init /\ [][Next]_vars

----------------------------------------------------------------------------
\* the conversation-level properties of C18, as invariants of the ideal server
TypeOK == /\ phase \in {"running", "exited"}
          /\ \A u \in URIs : Len(docs[u].lines) <= MaxLines

\* exactly one response per request, none for anything else
OneResponsePerRequest ==
    hist # <<>> => LET h == hist[Len(hist)] IN
        /\ (h.kind = "request" => out.must = <<h.id>> /\ out.may = <<>>)
        /\ (h.kind \in {"notification", "inert"} => out.must = <<>> /\ out.may = <<>>)

\* the last diagnostics published for an open, known document are those of its current text and version
DiagnosticsOfCurrentText ==
    \A u \in URIs : (docs[u].open /\ docs[u].known) =>
        (diag[u].have /\ diag[u].lines = BadLines(docs[u].lines) /\ diag[u].ver = docs[u].ver)

\* a closed document has no diagnostics left
ClearedOnClose == \A u \in URIs : (~docs[u].open /\ diag[u].have) => diag[u].lines = <<>>

\* nothing but the exit notification stops the server
AlwaysAlive == (phase = "exited") => (hist # <<>> /\ hist[Len(hist)].m = "exit")
=============================================================================
