-------------------------------- MODULE Lsp --------------------------------
(***************************************************************************)
(* The language server as a conversation: one JSON-RPC frame at a time.    *)
(*                                                                         *)
(* Documents are sequences of statements, one per line, each "G" (parses)  *)
(* or "B" (one syntax error); character-level editing is the business of   *)
(* LspEdit.tla, here edits act on whole lines through ordinary LSP ranges. *)
(* The state is what a client can hold the server to:                      *)
(*   docs[u]   mirrored document (open?, lines, version; known = FALSE      *)
(*             after an edit whose range is negative or inverted: the      *)
(*             property leaves the text unconstrained there)               *)
(*   diag[u]   the diagnostics a correct server has last published for u   *)
(*   phase     "running" until the exit notification                       *)
(* Each Recv action also states, in `out`, what the server must send in    *)
(* reply: the ids that must be answered exactly once, the ids that may be  *)
(* answered at most once, and the publishDiagnostics it owes.              *)
(***************************************************************************)
EXTENDS Integers, Sequences, FiniteSets, TLC, Json, SequencesExt

CONSTANTS URIs, MaxLines, MaxVer, Emit, PairView

Stmt == {"G", "B"}
LineSeqs == UNION {[1..k -> Stmt] : k \in 1..MaxLines}
Closed == [open |-> FALSE, known |-> TRUE, lines |-> <<>>, ver |-> 0]
NoDiag == [have |-> FALSE, ver |-> 0, lines |-> <<>>]

ReqMethods == {"initialize", "shutdown", "textDocument/hover", "textDocument/completion",
               "textDocument/formatting", "textDocument/documentSymbol", "textDocument/signatureHelp",
               "textDocument/codeAction", "workspace/unknownMethod",
               "$/unknownRequest"}      \* a request (it has an id) in the protocol-reserved namespace: answered like any other
PosKinds == {"inrange", "pastEnd", "negative"}
\* wrongTypeLong: params of the right shape whose values have the wrong JSON type (a fractional line, a string where a number
\* belongs), several hundred bytes long (a long document URI) - what an error reply quotes or truncates must still be a message
ParamKinds == {"ok", "wrongShape", "missing", "wrongTypeLong"}

VARIABLES docs, diag, phase, nextId, out, hist,
          pub       \* per document: the last validation result published (survives close; it is not part of what a
                    \* client may rely on, but it is state an implementation may keep, so the tour distinguishes it)
vars == <<docs, diag, phase, nextId, out, hist, pub>>
lastKind == IF hist = <<>> THEN "none" ELSE hist[Len(hist)].m
view == IF PairView THEN <<docs, diag, phase, pub, lastKind>> ELSE <<docs, diag, phase, pub>>

BadLines(ls) == SelectSeq([i \in 1..Len(ls) |-> IF ls[i] = "B" THEN i - 1 ELSE -1], LAMBDA x : x >= 0)
DiagOf(d) == [have |-> TRUE, ver |-> d.ver, lines |-> BadLines(d.lines)]

NoOut == [must |-> <<>>, may |-> <<>>, diag |-> <<>>]

Log(step) == /\ hist' = Append(hist, step)
             /\ Emit => PrintT(ToJson(Append(hist, step)))

Init == /\ docs = [u \in URIs |-> Closed] /\ diag = [u \in URIs |-> NoDiag]
        /\ phase = "running" /\ nextId = 1 /\ out = NoOut /\ hist = <<>>
        /\ pub = [u \in URIs |-> [ver |-> -1, lines |-> <<>>]]

Running == phase = "running"

\* ---- requests ------------------------------------------------------------
\* every request - known method or not, params well-formed or not, position anywhere - gets exactly
\* one response carrying its id; documents and diagnostics are untouched
Request(m, u, pk, prm) ==
    /\ Running
    /\ out' = [NoOut EXCEPT !.must = <<nextId>>]
    /\ nextId' = nextId + 1
    /\ UNCHANGED <<docs, diag, phase, pub>>
    /\ Log([m |-> m, kind |-> "request", id |-> nextId, uri |-> u, pos |-> pk, params |-> prm,
            out |-> out', docs |-> docs, diag |-> diag])

\* ---- notifications ---------------------------------------------------------
Open(u, ls, v) ==
    /\ Running
    /\ docs' = [docs EXCEPT ![u] = [open |-> TRUE, known |-> TRUE, lines |-> ls, ver |-> v]]
    /\ diag' = [diag EXCEPT ![u] = DiagOf(docs'[u])]
    /\ out' = [NoOut EXCEPT !.diag = <<[uri |-> u, ver |-> v, lines |-> BadLines(ls), strictver |-> TRUE]>>]
    /\ pub' = [pub EXCEPT ![u] = [ver |-> v, lines |-> BadLines(ls)]]
    /\ UNCHANGED <<phase, nextId>>
    /\ Log([m |-> "didOpen", kind |-> "notification", uri |-> u, lines |-> ls, ver |-> v,
            out |-> out', docs |-> docs', diag |-> diag'])

\* a change notification carries a list of changes applied left to right; each replaces the text (full
\* sync) or edits whole lines through an ordinary range (incremental sync)
EditKinds == {"full", "replaceLine", "insertLine", "deleteLine", "appendPastEnd", "negativeRange", "invertedRange"}
LineEdits == {"replaceLine", "insertLine", "deleteLine"}

Edited(ls, e) ==
    CASE e.ek = "full"          -> e.full
      [] e.ek = "replaceLine"   -> [ls EXCEPT ![e.k] = e.s]
      [] e.ek = "insertLine"    -> SubSeq(ls, 1, e.k - 1) \o <<e.s>> \o SubSeq(ls, e.k, Len(ls))
      [] e.ek = "deleteLine"    -> SubSeq(ls, 1, e.k - 1) \o SubSeq(ls, e.k + 1, Len(ls))
      [] e.ek = "appendPastEnd" -> Append(ls, e.s)        \* range far beyond the last line clamps to the end
      [] OTHER -> ls

ValidEdit(ls, e) ==
    CASE e.ek \in {"replaceLine", "deleteLine"} -> e.k \in 1..Len(ls) /\ (e.ek = "deleteLine" => Len(ls) > 1)
      [] e.ek = "insertLine"    -> e.k \in 1..Len(ls) /\ Len(ls) < MaxLines
      [] e.ek = "appendPastEnd" -> e.k = 1 /\ Len(ls) < MaxLines
      [] OTHER -> e.k = 1

Weird(e) == e.ek \in {"negativeRange", "invertedRange"}

\* es: a sequence of one or two edits
\* vk: the version the client sends is the next one, the same one again, or an EARLIER one (the protocol asks clients
\* to count upwards; the mirror follows what is sent, in the order it is sent, whatever the numbers say)
VersionKinds == {"next", "same", "back"}
VerOf(d, vk) == CASE vk = "next" -> (IF d.ver < MaxVer THEN d.ver + 1 ELSE d.ver)
                  [] vk = "same" -> d.ver
                  [] OTHER -> (IF d.ver > 1 THEN d.ver - 1 ELSE d.ver)
Change(u, es, vk) ==
    /\ Running
    /\ LET d == docs[u]
           v == VerOf(d, vk)
           anyWeird == \E i \in DOMAIN es : Weird(es[i])
           l1 == Edited(d.lines, es[1])
           final == IF Len(es) = 1 THEN l1 ELSE Edited(l1, es[2])
       IN IF ~d.open
            THEN \* a change for a document that is not open is ignored
                 /\ UNCHANGED <<docs, diag, phase, nextId, pub>> /\ out' = NoOut
            ELSE /\ docs' = [docs EXCEPT ![u] =
                       IF anyWeird THEN [d EXCEPT !.known = FALSE, !.ver = v]
                       ELSE IF d.known \/ es[Len(es)].ek = "full" \/ es[1].ek = "full"
                            THEN [d EXCEPT !.lines = final, !.known = TRUE, !.ver = v]
                            ELSE [d EXCEPT !.ver = v]]
                 /\ diag' = [diag EXCEPT ![u] = IF docs'[u].known THEN DiagOf(docs'[u]) ELSE NoDiag]
                 /\ out' = IF docs'[u].known
                           THEN [NoOut EXCEPT !.diag = <<[uri |-> u, ver |-> v, lines |-> BadLines(docs'[u].lines), strictver |-> TRUE]>>]
                           ELSE NoOut
                 /\ pub' = IF docs'[u].known THEN [pub EXCEPT ![u] = [ver |-> v, lines |-> BadLines(docs'[u].lines)]] ELSE pub
                 /\ UNCHANGED <<phase, nextId>>
    /\ Log([m |-> "didChange", kind |-> "notification", uri |-> u, edits |-> es,
            ver |-> VerOf(docs[u], vk),
            out |-> out', docs |-> docs', diag |-> diag'])

Edits == [ek : EditKinds, k : 1..MaxLines, s : Stmt, full : LineSeqs]
Canon(e) == /\ (e.ek # "full" => e.full = <<"G">>) /\ (e.ek = "full" => e.s = "G" /\ e.k = 1)
            /\ (e.ek \in {"deleteLine", "negativeRange", "invertedRange"} => e.s = "G")

\* which edit lists are offered to a document: one edit of any kind, or two line edits / full+line edit where the
\* second is valid on the result of the first
EditLists(d) ==
    {<<e>> : e \in {x \in Edits : Canon(x) /\ (Weird(x) \/ x.ek = "full" \/ (d.known /\ ValidEdit(d.lines, x)))}}
    \cup {<<e1, e2>> : e1 \in {x \in Edits : Canon(x) /\ (x.ek \in LineEdits \/ x.ek = "full") /\ (x.ek = "full" \/ (d.known /\ ValidEdit(d.lines, x)))},
                       e2 \in {x \in Edits : Canon(x) /\ x.ek \in LineEdits}}

ValidList(d, es) == IF Len(es) = 1 THEN TRUE ELSE ValidEdit(Edited(d.lines, es[1]), es[2])

Close(u) ==
    /\ Running
    /\ docs' = [docs EXCEPT ![u] = Closed]
    /\ diag' = [diag EXCEPT ![u] = [have |-> TRUE, ver |-> 0, lines |-> <<>>]]
    \* closing clears the diagnostics (also for a document that was not open: harmless)
    /\ out' = [NoOut EXCEPT !.diag = <<[uri |-> u, ver |-> 0, lines |-> <<>>, strictver |-> FALSE]>>]
    /\ UNCHANGED <<phase, nextId, pub>>
    /\ Log([m |-> "didClose", kind |-> "notification", uri |-> u, out |-> out', docs |-> docs', diag |-> diag'])

\* save re-validates the current text (the notification may or may not carry it)
Save(u, withText) ==
    /\ Running
    /\ UNCHANGED <<docs, phase, nextId>>
    /\ pub' = IF docs[u].open /\ docs[u].known THEN [pub EXCEPT ![u] = [ver |-> 0, lines |-> BadLines(docs[u].lines)]] ELSE pub
    /\ LET d == docs[u] IN
       IF d.open /\ d.known
         THEN /\ diag' = [diag EXCEPT ![u] = DiagOf(d)]
              /\ out' = [NoOut EXCEPT !.diag = <<[uri |-> u, ver |-> d.ver, lines |-> BadLines(d.lines), strictver |-> FALSE]>>]
         ELSE /\ UNCHANGED diag /\ out' = NoOut
    /\ Log([m |-> "didSave", kind |-> "notification", uri |-> u, withText |-> withText,
            out |-> out', docs |-> docs, diag |-> diag'])

\* notifications that change nothing and must not be answered
Inert(m, prm) ==
    /\ Running /\ m \in {"initialized", "$/unknownNotification", "textDocument/didOpen", "textDocument/didChange",
                         "textDocument/didClose", "textDocument/didSave"}
    /\ (m \in {"initialized", "$/unknownNotification"} => prm = "ok")
    /\ (m \notin {"initialized", "$/unknownNotification"} => prm # "ok")     \* malformed params: ignored
    /\ out' = NoOut /\ UNCHANGED <<docs, diag, phase, nextId, pub>>
    /\ Log([m |-> m, kind |-> "inert", params |-> prm, out |-> out', docs |-> docs, diag |-> diag])

\* frames that are not requests: the server must survive; an id that can be extracted may be answered once
Malformed(f) ==
    /\ Running
    /\ f \in {"invalidJsonWithId", "invalidJson", "jsonArray", "jsonString", "idNoMethod", "idNullWithMethod",
              "headerZeroLength", "headerNonNumeric", "headerOversize", "headerNegative", "headerNoLength",
              "headerExtraField", "emptyObject"}
    /\ out' = IF f \in {"invalidJsonWithId", "idNoMethod"} THEN [NoOut EXCEPT !.may = <<nextId>>]
              ELSE IF f = "headerExtraField" THEN [NoOut EXCEPT !.must = <<nextId>>]   \* a valid request with one more header
              ELSE NoOut
    /\ nextId' = nextId + 1
    /\ UNCHANGED <<docs, diag, phase, pub>>
    /\ Log([m |-> f, kind |-> "malformed", id |-> nextId, out |-> out', docs |-> docs, diag |-> diag])

Exit == /\ Running /\ phase' = "exited" /\ out' = NoOut /\ UNCHANGED <<docs, diag, nextId, pub>>
        /\ Log([m |-> "exit", kind |-> "notification", out |-> out', docs |-> docs, diag |-> diag])

Next == \/ \E m \in ReqMethods, u \in URIs, pk \in PosKinds, prm \in ParamKinds :
              /\ (m \in {"initialize", "shutdown", "workspace/unknownMethod", "$/unknownRequest"} => pk = "inrange" /\ u = CHOOSE x \in URIs : TRUE)
              /\ (prm # "ok" => pk = "inrange")
              /\ Request(m, u, pk, prm)
        \/ \E u \in URIs, ls \in LineSeqs, v \in 1..2 : Open(u, ls, v)
        \/ \E u \in URIs : \E es \in EditLists(docs[u]) : ValidList(docs[u], es) /\ \E vk \in VersionKinds : Change(u, es, vk)
        \/ \E u \in URIs : Close(u) \/ Save(u, TRUE) \/ Save(u, FALSE)
        \/ \E m \in {"initialized", "$/unknownNotification", "textDocument/didOpen", "textDocument/didChange",
                     "textDocument/didClose", "textDocument/didSave"}, prm \in ParamKinds : Inert(m, prm)
        \/ \E f \in {"invalidJsonWithId", "invalidJson", "jsonArray", "jsonString", "idNoMethod", "idNullWithMethod",
                     "headerZeroLength", "headerNonNumeric", "headerOversize", "headerNegative", "headerNoLength",
              "headerExtraField", "emptyObject"} : Malformed(f)
        \/ Exit

Spec == Init /\ [][Next]_vars

----------------------------------------------------------------------------
\* the conversation-level properties of C18, as invariants of the ideal server
TypeOK == /\ phase \in {"running", "exited"}
          /\ \A u \in URIs : Len(docs[u].lines) <= MaxLines

\* exactly one response per request, none for anything else
OneResponsePerRequest ==
    hist # <<>> => LET h == hist[Len(hist)] IN
        /\ (h.kind = "request" => out.must = <<h.id>> /\ out.may = <<>>)
        /\ (h.kind \in {"notification", "inert"} => out.must = <<>> /\ out.may = <<>>)

\* the last diagnostics published for an open, known document are those of its current text and version
DiagnosticsOfCurrentText ==
    \A u \in URIs : (docs[u].open /\ docs[u].known) =>
        (diag[u].have /\ diag[u].lines = BadLines(docs[u].lines) /\ diag[u].ver = docs[u].ver)

\* a closed document has no diagnostics left
ClearedOnClose == \A u \in URIs : (~docs[u].open /\ diag[u].have) => diag[u].lines = <<>>

\* nothing but the exit notification stops the server
\* (the driver also sends RUNS of malformed frames - every kind 2 to 64 times in a row, and all kinds in rotation -
\* followed by a change that must be applied and a request that must be answered: being alive does not wear out)
AlwaysAlive == (phase = "exited") => (hist # <<>> /\ hist[Len(hist)].m = "exit")
=============================================================================
