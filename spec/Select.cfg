SPECIFICATION Spec
CONSTANTS
  Emit = TRUE
INVARIANTS ClauseIffField OrderItemLaw TailLaw WindowLaw SetChainLaw
