------------------------------ MODULE ErrorMap ------------------------------
(***************************************************************************)
(* The per-message error breakdown of pkg/metrics (Stats.ErrorsByType):    *)
(* RecordTokenization and RecordParse count every failure under its        *)
(* message, from any number of goroutines (C10: "with exact metrics").      *)
(*                                                                         *)
(* The table maps a message to a COUNTER OBJECT; what a reader sees for a   *)
(* message is the value of the object the table points at.  Shape selects   *)
(* how a recorder updates it:                                              *)
(*   "mutex"           (the code as it is) look-up, insert-if-missing and   *)
(*                     increment are one step under the write lock         *)
(*   "double-checked"  look-up under the read lock; increment the object   *)
(*                     atomically if found; otherwise take the write lock, *)
(*                     LOOK UP AGAIN, insert only if still missing         *)
(*   "check-then-act"  the same without the second look-up: a second        *)
(*                     recorder's insert replaces the first one's object,  *)
(*                     and the count made through it is lost               *)
(* Exact: when every recorder has finished, every message's count is the   *)
(* number of recorders that failed with it, and the counts sum to the      *)
(* total error counter.  TLC: holds for the first two shapes over all      *)
(* interleavings, fails for the third.                                     *)
(* The driver binds it by bursts: for every assignment of messages to      *)
(* recorders that TLC prints, the recorders are released together on a     *)
(* freshly reset table, many rounds, and the real counts are compared.     *)
(***************************************************************************)
EXTENDS Integers, Sequences, FiniteSets, TLC, Json

CONSTANTS G, Keys, Shape, Emit

VARIABLES key,      \* [G -> Keys] the message each recorder fails with (fixed at Init)
          table,    \* [Keys -> object id or 0] the object the table points at
          val,      \* [object id -> count]
          errs,     \* the scalar error counter (atomic)
          pc, found, nextObj
vars == <<key, table, val, errs, pc, found, nextObj>>

MaxObj == Cardinality(G)
Init == /\ key \in [G -> Keys]
        /\ table = [k \in Keys |-> 0] /\ val = [o \in 1..MaxObj |-> 0] /\ errs = 0
        /\ pc = [g \in G |-> "start"] /\ found = [g \in G |-> 0] /\ nextObj = 1

\* the whole update under the write lock
Locked(g) == /\ Shape = "mutex" /\ pc[g] = "start"
             /\ errs' = errs + 1
             /\ IF table[key[g]] = 0
                  THEN /\ table' = [table EXCEPT ![key[g]] = nextObj] /\ val' = [val EXCEPT ![nextObj] = 1] /\ nextObj' = nextObj + 1
                  ELSE /\ val' = [val EXCEPT ![table[key[g]]] = @ + 1] /\ UNCHANGED <<table, nextObj>>
             /\ pc' = [pc EXCEPT ![g] = "done"] /\ UNCHANGED <<key, found>>

\* look-up under the read lock
Lookup(g) == /\ Shape # "mutex" /\ pc[g] = "start"
             /\ errs' = errs + 1
             /\ found' = [found EXCEPT ![g] = table[key[g]]]
             /\ pc' = [pc EXCEPT ![g] = IF table[key[g]] = 0 THEN "insert" ELSE "add"]
             /\ UNCHANGED <<key, table, val, nextObj>>
\* atomic increment of the object found
Add(g) == /\ pc[g] = "add"
          /\ val' = [val EXCEPT ![found[g]] = @ + 1]
          /\ pc' = [pc EXCEPT ![g] = "done"] /\ UNCHANGED <<key, table, errs, found, nextObj>>
\* under the write lock
Insert(g) == /\ pc[g] = "insert"
             /\ IF Shape = "double-checked" /\ table[key[g]] # 0
                  THEN /\ val' = [val EXCEPT ![table[key[g]]] = @ + 1] /\ UNCHANGED <<table, nextObj>>
                  ELSE /\ table' = [table EXCEPT ![key[g]] = nextObj] /\ val' = [val EXCEPT ![nextObj] = 1] /\ nextObj' = nextObj + 1
             /\ pc' = [pc EXCEPT ![g] = "done"] /\ UNCHANGED <<key, errs, found>>

AllDone == \A g \in G : pc[g] = "done"
Quiesce == /\ AllDone /\ UNCHANGED vars
           /\ (Emit => PrintT(ToJson([keys |-> key])))
Next == (\E g \in G : Locked(g) \/ Lookup(g) \/ Add(g) \/ Insert(g)) \/ Quiesce
Spec == Init /\ [][Next]_vars

Seen(k) == IF table[k] = 0 THEN 0 ELSE val[table[k]]
RECURSIVE Sum(_)
Sum(S) == IF S = {} THEN 0 ELSE LET k == CHOOSE k \in S : TRUE IN Seen(k) + Sum(S \ {k})
Exact == AllDone => /\ \A k \in Keys : Seen(k) = Cardinality({g \in G : key[g] = k})
                    /\ Sum(Keys) = errs /\ errs = Cardinality(G)
=============================================================================
