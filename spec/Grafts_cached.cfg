SPECIFICATION SpecShare
CONSTANTS
  Shape = "cached-graft"
  Emit = FALSE
  MaxSteps = 6
INVARIANTS Disjoint
