------------------------------- MODULE Select -------------------------------
(***************************************************************************)
(* Statement forms of the documented surface as model trees with their     *)
(* token rendering: SELECT with every combination of its optional clauses  *)
(* (DISTINCT, column alias, table alias, JOIN kinds, WHERE, GROUP BY,      *)
(* HAVING, ORDER BY with direction and NULLS placement, LIMIT, OFFSET),    *)
(* set operations, CTEs, sub-queries in each position, and                 *)
(* INSERT / UPDATE / DELETE with their clauses.  Trees carry the Go type   *)
(* and field names of pkg/sql/ast with zero fields omitted (including the  *)
(* documented synthetic fields TableName and JoinClause.Left).             *)
(* One state per form; TLC prints tokens and tree, and checks the          *)
(* consistency laws below (every written name appears exactly once in the  *)
(* tree; a clause that is not chosen leaves no field).                     *)
(***************************************************************************)
EXTENDS Integers, Sequences, FiniteSets, TLC, Json, Forms2

CONSTANT Emit

Id(n)        == [T |-> "Identifier", Name |-> n]
QId(t, n)    == [T |-> "Identifier", Table |-> t, Name |-> n]
IntLit(v)    == [T |-> "LiteralValue", Value |-> v, Type |-> "int"]
StrLit(v)    == [T |-> "LiteralValue", Value |-> v, Type |-> "string"]
Bin(l, o, r) == [T |-> "BinaryExpression", Left |-> l, Operator |-> o, Right |-> r]
TRef(n)      == [T |-> "TableReference", Name |-> n]
TRefA(n, a)  == [T |-> "TableReference", Name |-> n, Alias |-> a]
Cat(ss)      == IF ss = <<>> THEN <<>> ELSE ss[1] \o (IF Len(ss) > 1 THEN ss[2] ELSE <<>>) \o (IF Len(ss) > 2 THEN ss[3] ELSE <<>>)
                   \o (IF Len(ss) > 3 THEN ss[4] ELSE <<>>) \o (IF Len(ss) > 4 THEN ss[5] ELSE <<>>) \o (IF Len(ss) > 5 THEN ss[6] ELSE <<>>)
                   \o (IF Len(ss) > 6 THEN ss[7] ELSE <<>>) \o (IF Len(ss) > 7 THEN ss[8] ELSE <<>>) \o (IF Len(ss) > 8 THEN ss[9] ELSE <<>>)
                   \o (IF Len(ss) > 9 THEN ss[10] ELSE <<>>) \o (IF Len(ss) > 10 THEN ss[11] ELSE <<>>)

\* ---- SELECT with optional clauses --------------------------------------------------------------------
JoinKinds == {"none", "JOIN", "INNER JOIN", "LEFT JOIN", "RIGHT JOIN", "FULL JOIN", "CROSS JOIN", "LEFT OUTER JOIN"}
JoinType(k) == CASE k \in {"JOIN", "INNER JOIN"} -> "INNER" [] k \in {"LEFT JOIN", "LEFT OUTER JOIN"} -> "LEFT"
                 [] k = "RIGHT JOIN" -> "RIGHT" [] k = "FULL JOIN" -> "FULL" [] k = "CROSS JOIN" -> "CROSS"
OrderKinds == {"none", "plain", "ASC", "DESC", "DESC NULLS FIRST", "ASC NULLS LAST", "two"}

SelectCfg == [distinct : BOOLEAN, colAlias : BOOLEAN, tblAlias : {"none", "as", "bare"}, join : JoinKinds,
              where : BOOLEAN, group : BOOLEAN, having : BOOLEAN, order : OrderKinds, limit : BOOLEAN, offset : BOOLEAN]
ValidSelect(c) == (c.having => c.group)

SelToks(c) ==
    Cat(<< <<"SELECT">> \o (IF c.distinct THEN <<"DISTINCT">> ELSE <<>>) \o <<"a", ",">> \o (IF c.colAlias THEN <<"b", "AS", "y">> ELSE <<"b">>),
           <<"FROM", "t">> \o (CASE c.tblAlias = "as" -> <<"AS", "u">> [] c.tblAlias = "bare" -> <<"u">> [] OTHER -> <<>>),
           IF c.join = "none" THEN <<>>
           ELSE <<c.join, "v">> \o (IF c.join = "CROSS JOIN" THEN <<>> ELSE <<"ON", "a", "=", "v", ".", "k">>),
           IF c.where THEN <<"WHERE", "a", ">", "1">> ELSE <<>>,
           IF c.group THEN <<"GROUP", "BY", "a", ",", "b">> ELSE <<>>,
           IF c.having THEN <<"HAVING", "a", "<", "9">> ELSE <<>>,
           CASE c.order = "none" -> <<>> [] c.order = "plain" -> <<"ORDER", "BY", "a">>
             [] c.order = "two" -> <<"ORDER", "BY", "a", "DESC", ",", "b">>
             [] OTHER -> <<"ORDER", "BY", "a">> \o
                         (CASE c.order = "ASC" -> <<"ASC">> [] c.order = "DESC" -> <<"DESC">>
                            [] c.order = "DESC NULLS FIRST" -> <<"DESC", "NULLS", "FIRST">> [] c.order = "ASC NULLS LAST" -> <<"ASC", "NULLS", "LAST">>),
           IF c.limit THEN <<"LIMIT", "5">> ELSE <<>>,
           IF c.offset THEN <<"OFFSET", "2">> ELSE <<>> >>)

OrderItem(e, asc, nulls) ==
    LET base == [T |-> "OrderByExpression", Expression |-> e] IN
    LET a == IF asc THEN base @@ [Ascending |-> TRUE] ELSE base IN
    CASE nulls = "first" -> a @@ [NullsFirst |-> TRUE] [] nulls = "last" -> a @@ [NullsFirst |-> FALSE] [] OTHER -> a

SelTree(c) ==
    LET from == IF c.tblAlias = "none" THEN TRef("t") ELSE TRefA("t", "u")
        base == [T |-> "SelectStatement", TableName |-> "t", From |-> <<from>>,
                 Columns |-> <<Id("a"), IF c.colAlias THEN [T |-> "AliasedExpression", Expr |-> Id("b"), Alias |-> "y"] ELSE Id("b")>>]
        f1 == IF c.distinct THEN base @@ [Distinct |-> TRUE] ELSE base
        f2 == IF c.join = "none" THEN f1
              ELSE f1 @@ [Joins |-> <<[T |-> "JoinClause", Type |-> JoinType(c.join), Left |-> from, Right |-> TRef("v")]
                                      @@ (IF c.join = "CROSS JOIN" THEN <<>> ELSE [Condition |-> Bin(Id("a"), "=", QId("v", "k"))])>>]
        f3 == IF c.where THEN f2 @@ [Where |-> Bin(Id("a"), ">", IntLit("1"))] ELSE f2
        f4 == IF c.group THEN f3 @@ [GroupBy |-> <<Id("a"), Id("b")>>] ELSE f3
        f5 == IF c.having THEN f4 @@ [Having |-> Bin(Id("a"), "<", IntLit("9"))] ELSE f4
        f6 == CASE c.order = "none" -> f5
                [] c.order \in {"plain", "ASC"} -> f5 @@ [OrderBy |-> <<OrderItem(Id("a"), TRUE, "none")>>]
                [] c.order = "DESC" -> f5 @@ [OrderBy |-> <<OrderItem(Id("a"), FALSE, "none")>>]
                [] c.order = "DESC NULLS FIRST" -> f5 @@ [OrderBy |-> <<OrderItem(Id("a"), FALSE, "first")>>]
                [] c.order = "ASC NULLS LAST" -> f5 @@ [OrderBy |-> <<OrderItem(Id("a"), TRUE, "last")>>]
                [] c.order = "two" -> f5 @@ [OrderBy |-> <<OrderItem(Id("a"), FALSE, "none"), OrderItem(Id("b"), TRUE, "none")>>]
        f7 == IF c.limit THEN f6 @@ [Limit |-> 5] ELSE f6
    IN IF c.offset THEN f7 @@ [Offset |-> 2] ELSE f7

\* ---- other statement forms (fixed list; each a pair of tokens and tree) -----------------------------------------
S1 == [T |-> "SelectStatement", TableName |-> "t", From |-> <<TRef("t")>>, Columns |-> <<Id("a")>>]
S2 == [T |-> "SelectStatement", TableName |-> "u", From |-> <<TRef("u")>>, Columns |-> <<Id("b")>>]
S1t == <<"SELECT", "a", "FROM", "t">>
S2t == <<"SELECT", "b", "FROM", "u">>
SetOp(l, o, all, r) == LET b == [T |-> "SetOperation", Left |-> l, Operator |-> o, Right |-> r] IN IF all THEN b @@ [All |-> TRUE] ELSE b
S3 == [T |-> "SelectStatement", TableName |-> "w", From |-> <<TRef("w")>>, Columns |-> <<Id("c")>>]
S3t == <<"SELECT", "c", "FROM", "w">>

Forms == {
  [name |-> "union", toks |-> S1t \o <<"UNION">> \o S2t, tree |-> SetOp(S1, "UNION", FALSE, S2)],
  [name |-> "union-all", toks |-> S1t \o <<"UNION", "ALL">> \o S2t, tree |-> SetOp(S1, "UNION", TRUE, S2)],
  [name |-> "intersect", toks |-> S1t \o <<"INTERSECT">> \o S2t, tree |-> SetOp(S1, "INTERSECT", FALSE, S2)],
  [name |-> "except", toks |-> S1t \o <<"EXCEPT">> \o S2t, tree |-> SetOp(S1, "EXCEPT", FALSE, S2)],
  [name |-> "union-chain", toks |-> S1t \o <<"UNION">> \o S2t \o <<"UNION", "ALL">> \o S3t,
     tree |-> SetOp(SetOp(S1, "UNION", FALSE, S2), "UNION", TRUE, S3)],
  [name |-> "cte", toks |-> <<"WITH", "c", "AS", "(">> \o S1t \o <<")", "SELECT", "a", "FROM", "c">>,
     tree |-> [T |-> "SelectStatement", TableName |-> "c", From |-> <<TRef("c")>>, Columns |-> <<Id("a")>>,
               With |-> [T |-> "WithClause", CTEs |-> <<[T |-> "CommonTableExpr", Name |-> "c", Statement |-> S1]>>]]],
  [name |-> "cte-two", toks |-> <<"WITH", "c", "AS", "(">> \o S1t \o <<")", ",", "d", "AS", "(">> \o S2t \o <<")", "SELECT", "a", "FROM", "c">>,
     tree |-> [T |-> "SelectStatement", TableName |-> "c", From |-> <<TRef("c")>>, Columns |-> <<Id("a")>>,
               With |-> [T |-> "WithClause", CTEs |-> <<[T |-> "CommonTableExpr", Name |-> "c", Statement |-> S1],
                                                        [T |-> "CommonTableExpr", Name |-> "d", Statement |-> S2]>>]]],
  [name |-> "cte-recursive", toks |-> <<"WITH", "RECURSIVE", "c", "AS", "(">> \o S1t \o <<")", "SELECT", "a", "FROM", "c">>,
     tree |-> [T |-> "SelectStatement", TableName |-> "c", From |-> <<TRef("c")>>, Columns |-> <<Id("a")>>,
               With |-> [T |-> "WithClause", Recursive |-> TRUE, CTEs |-> <<[T |-> "CommonTableExpr", Name |-> "c", Statement |-> S1]>>]]],
  [name |-> "derived-table", toks |-> <<"SELECT", "a", "FROM", "(">> \o S2t \o <<")", "x">>,
     tree |-> [T |-> "SelectStatement", Columns |-> <<Id("a")>>, From |-> <<[T |-> "TableReference", Alias |-> "x", Subquery |-> S2]>>]],
  [name |-> "exists", toks |-> S1t \o <<"WHERE", "EXISTS", "(">> \o S2t \o <<")">>,
     tree |-> S1 @@ [Where |-> [T |-> "ExistsExpression", Subquery |-> S2]]],
  [name |-> "in-subquery", toks |-> S1t \o <<"WHERE", "a", "IN", "(">> \o S2t \o <<")">>,
     tree |-> S1 @@ [Where |-> [T |-> "InExpression", Expr |-> Id("a"), Subquery |-> S2]]],
  [name |-> "not-in-subquery", toks |-> S1t \o <<"WHERE", "a", "NOT", "IN", "(">> \o S2t \o <<")">>,
     tree |-> S1 @@ [Where |-> [T |-> "InExpression", Expr |-> Id("a"), Subquery |-> S2, Not |-> TRUE]]],
  [name |-> "scalar-subquery", toks |-> <<"SELECT", "(">> \o S2t \o <<")", "FROM", "t">>,
     tree |-> [T |-> "SelectStatement", TableName |-> "t", From |-> <<TRef("t")>>, Columns |-> <<[T |-> "SubqueryExpression", Subquery |-> S2]>>]],
  [name |-> "star", toks |-> <<"SELECT", "*", "FROM", "t">>, tree |-> [S1 EXCEPT !.Columns = <<Id("*")>>]],
  [name |-> "qualified-star", toks |-> <<"SELECT", "t", ".", "*", "FROM", "t">>, tree |-> [S1 EXCEPT !.Columns = <<QId("t", "*")>>]],
  [name |-> "count-star", toks |-> <<"SELECT", "COUNT", "(", "*", ")", "FROM", "t">>,
     tree |-> [S1 EXCEPT !.Columns = <<[T |-> "FunctionCall", Name |-> "COUNT", Arguments |-> <<Id("*")>>]>>]],
  [name |-> "count-distinct", toks |-> <<"SELECT", "COUNT", "(", "DISTINCT", "a", ")", "FROM", "t">>,
     tree |-> [S1 EXCEPT !.Columns = <<[T |-> "FunctionCall", Name |-> "COUNT", Arguments |-> <<Id("a")>>, Distinct |-> TRUE]>>]],
  [name |-> "schema-table", toks |-> <<"SELECT", "a", "FROM", "s", ".", "t">>,
     tree |-> [S1 EXCEPT !.TableName = "s.t", !.From = <<TRef("s.t")>>]],
  [name |-> "two-tables", toks |-> <<"SELECT", "a", "FROM", "t", ",", "u", "w">>,
     tree |-> [S1 EXCEPT !.From = <<TRef("t"), TRefA("u", "w")>>]],
  [name |-> "two-joins", toks |-> S1t \o <<"JOIN", "u", "ON", "a", "=", "b", "LEFT", "JOIN", "v", "ON", "c", "=", "d">>,
     tree |-> S1 @@ [Joins |-> <<[T |-> "JoinClause", Type |-> "INNER", Left |-> TRef("t"), Right |-> TRef("u"), Condition |-> Bin(Id("a"), "=", Id("b"))],
                                [T |-> "JoinClause", Type |-> "LEFT", Left |-> TRef("(t_with_1_joins)"), Right |-> TRef("v"), Condition |-> Bin(Id("c"), "=", Id("d"))]>>]],
  [name |-> "for-update", toks |-> S1t \o <<"FOR", "UPDATE">>, tree |-> S1 @@ [For |-> [T |-> "ForClause", LockType |-> "UPDATE"]]],
  [name |-> "window", toks |-> <<"SELECT", "ROW_NUMBER", "(", ")", "OVER", "(", "PARTITION", "BY", "b", "ORDER", "BY", "c", "DESC", ")", "FROM", "t">>,
     tree |-> [S1 EXCEPT !.Columns = <<[T |-> "FunctionCall", Name |-> "ROW_NUMBER",
                  Over |-> [T |-> "WindowSpec", PartitionBy |-> <<Id("b")>>, OrderBy |-> <<[T |-> "OrderByExpression", Expression |-> Id("c")]>>]]>>]],
  [name |-> "insert", toks |-> <<"INSERT", "INTO", "t", "(", "a", ",", "b", ")", "VALUES", "(", "1", ",", "'x'", ")">>,
     tree |-> [T |-> "InsertStatement", TableName |-> "t", Columns |-> <<Id("a"), Id("b")>>, Values |-> <<<<IntLit("1"), StrLit("x")>>>>]],
  [name |-> "insert-multirow", toks |-> <<"INSERT", "INTO", "t", "(", "a", ")", "VALUES", "(", "1", ")", ",", "(", "2", ")">>,
     tree |-> [T |-> "InsertStatement", TableName |-> "t", Columns |-> <<Id("a")>>, Values |-> <<<<IntLit("1")>>, <<IntLit("2")>>>>]],
  [name |-> "insert-returning", toks |-> <<"INSERT", "INTO", "t", "(", "a", ")", "VALUES", "(", "1", ")", "RETURNING", "a">>,
     tree |-> [T |-> "InsertStatement", TableName |-> "t", Columns |-> <<Id("a")>>, Values |-> <<<<IntLit("1")>>>>, Returning |-> <<Id("a")>>]],
  [name |-> "insert-select", toks |-> <<"INSERT", "INTO", "t", "(", "a", ")">> \o S2t,
     tree |-> [T |-> "InsertStatement", TableName |-> "t", Columns |-> <<Id("a")>>, Query |-> S2]],
  [name |-> "update", toks |-> <<"UPDATE", "t", "SET", "a", "=", "1", ",", "b", "=", "2", "WHERE", "c", "=", "3">>,
     tree |-> [T |-> "UpdateStatement", TableName |-> "t", Where |-> Bin(Id("c"), "=", IntLit("3")),
               Assignments |-> <<[T |-> "UpdateExpression", Column |-> Id("a"), Value |-> IntLit("1")],
                                 [T |-> "UpdateExpression", Column |-> Id("b"), Value |-> IntLit("2")]>>]],
  [name |-> "update-returning", toks |-> <<"UPDATE", "t", "SET", "a", "=", "1", "RETURNING", "a">>,
     tree |-> [T |-> "UpdateStatement", TableName |-> "t", Returning |-> <<Id("a")>>,
               Assignments |-> <<[T |-> "UpdateExpression", Column |-> Id("a"), Value |-> IntLit("1")]>>]],
  [name |-> "delete", toks |-> <<"DELETE", "FROM", "t", "WHERE", "a", "=", "1">>,
     tree |-> [T |-> "DeleteStatement", TableName |-> "t", Where |-> Bin(Id("a"), "=", IntLit("1"))]],
  [name |-> "delete-all", toks |-> <<"DELETE", "FROM", "t">>, tree |-> [T |-> "DeleteStatement", TableName |-> "t"]],
  \* ---- JOIN ... USING: one column is stored as the identifier, several as a list ----
  [name |-> "using-one", toks |-> S1t \o <<"JOIN", "u", "USING", "(", "k", ")">>,
     tree |-> S1 @@ [Joins |-> <<[T |-> "JoinClause", Type |-> "INNER", Left |-> TRef("t"), Right |-> TRef("u"), Condition |-> Id("k")]>>]],
  [name |-> "using-two-columns", toks |-> S1t \o <<"LEFT", "JOIN", "u", "USING", "(", "k", ",", "j", ")">>,
     tree |-> S1 @@ [Joins |-> <<[T |-> "JoinClause", Type |-> "LEFT", Left |-> TRef("t"), Right |-> TRef("u"),
                                   Condition |-> [T |-> "ListExpression", Values |-> <<Id("k"), Id("j")>>]]>>]],
  [name |-> "using-two-joins", toks |-> S1t \o <<"JOIN", "u", "USING", "(", "x", ",", "y", ")", "JOIN", "v", "USING", "(", "z", ",", "w", ")">>,
     tree |-> S1 @@ [Joins |-> <<[T |-> "JoinClause", Type |-> "INNER", Left |-> TRef("t"), Right |-> TRef("u"),
                                   Condition |-> [T |-> "ListExpression", Values |-> <<Id("x"), Id("y")>>]],
                                  [T |-> "JoinClause", Type |-> "INNER", Left |-> TRef("(t_with_1_joins)"), Right |-> TRef("v"),
                                   Condition |-> [T |-> "ListExpression", Values |-> <<Id("z"), Id("w")>>]]>>]],
  [name |-> "using-list-then-one", toks |-> S1t \o <<"JOIN", "u", "USING", "(", "x", ",", "y", ")", "JOIN", "v", "USING", "(", "z", ")">>,
     tree |-> S1 @@ [Joins |-> <<[T |-> "JoinClause", Type |-> "INNER", Left |-> TRef("t"), Right |-> TRef("u"),
                                   Condition |-> [T |-> "ListExpression", Values |-> <<Id("x"), Id("y")>>]],
                                  [T |-> "JoinClause", Type |-> "INNER", Left |-> TRef("(t_with_1_joins)"), Right |-> TRef("v"), Condition |-> Id("z")]>>]],
  \* ---- MERGE and data definition ----
  [name |-> "merge", toks |-> <<"MERGE", "INTO", "t", "USING", "u", "ON", "t", ".", "a", "=", "u", ".", "a",
                                 "WHEN", "MATCHED", "THEN", "UPDATE", "SET", "b", "=", "u", ".", "b",
                                 "WHEN", "NOT", "MATCHED", "THEN", "INSERT", "(", "a", ")", "VALUES", "(", "u", ".", "a", ")">>,
     tree |-> [T |-> "MergeStatement", TargetTable |-> TRef("t"), SourceTable |-> TRef("u"),
               OnCondition |-> Bin(QId("t", "a"), "=", QId("u", "a")),
               WhenClauses |-> <<[T |-> "MergeWhenClause", Type |-> "MATCHED",
                                   Action |-> [T |-> "MergeAction", ActionType |-> "UPDATE",
                                               SetClauses |-> <<[T |-> "SetClause", Column |-> "b", Value |-> QId("u", "b")]>>]],
                                 [T |-> "MergeWhenClause", Type |-> "NOT_MATCHED",
                                   Action |-> [T |-> "MergeAction", ActionType |-> "INSERT", Columns |-> <<"a">>, Values |-> <<QId("u", "a")>>]]>>]],
  [name |-> "merge-delete", toks |-> <<"MERGE", "INTO", "t", "USING", "u", "ON", "t", ".", "a", "=", "u", ".", "a", "WHEN", "MATCHED", "THEN", "DELETE">>,
     tree |-> [T |-> "MergeStatement", TargetTable |-> TRef("t"), SourceTable |-> TRef("u"),
               OnCondition |-> Bin(QId("t", "a"), "=", QId("u", "a")),
               WhenClauses |-> <<[T |-> "MergeWhenClause", Type |-> "MATCHED", Action |-> [T |-> "MergeAction", ActionType |-> "DELETE"]]>>]],
  [name |-> "create-view", toks |-> <<"CREATE", "VIEW", "v", "AS">> \o S1t, tree |-> [T |-> "CreateViewStatement", Name |-> "v", Query |-> S1]],
  [name |-> "create-view-union", toks |-> <<"CREATE", "VIEW", "v", "AS">> \o S1t \o <<"UNION">> \o S2t,
     tree |-> [T |-> "CreateViewStatement", Name |-> "v", Query |-> SetOp(S1, "UNION", FALSE, S2)]],
  [name |-> "drop-table", toks |-> <<"DROP", "TABLE", "t">>, tree |-> [T |-> "DropStatement", ObjectType |-> "TABLE", Names |-> <<"t">>]],
  [name |-> "truncate", toks |-> <<"TRUNCATE", "TABLE", "t">>, tree |-> [T |-> "TruncateStatement", Tables |-> <<"t">>]],
  [name |-> "create-index", toks |-> <<"CREATE", "INDEX", "i", "ON", "t", "(", "a", ",", "b", ")">>,
     tree |-> [T |-> "CreateIndexStatement", Name |-> "i", Table |-> "t",
               Columns |-> <<[T |-> "IndexColumn", Column |-> "a"], [T |-> "IndexColumn", Column |-> "b"]>>]],
  [name |-> "create-table", toks |-> <<"CREATE", "TABLE", "t", "(", "a", "INT", "PRIMARY", "KEY", ",", "b", "VARCHAR", "(", "20", ")", "NOT", "NULL", ")">>,
     tree |-> [T |-> "CreateTableStatement", Name |-> "t",
               Columns |-> <<[T |-> "ColumnDef", Name |-> "a", Type |-> "INT", Constraints |-> <<[T |-> "ColumnConstraint", Type |-> "PRIMARY KEY"]>>],
                             [T |-> "ColumnDef", Name |-> "b", Type |-> "VARCHAR(20)", Constraints |-> <<[T |-> "ColumnConstraint", Type |-> "NOT NULL"]>>]>>]]
}

\* ---- ORDER BY lists: every list of 1..3 items x direction x NULLS placement, in the four places a list may stand ----
Dirs == {"", "ASC", "DESC"}
NullsKinds == {"none", "first", "last"}
ItemKinds == [dir : Dirs, nulls : NullsKinds]
OrderLists == UNION {[1..n -> ItemKinds] : n \in 1..3}
OrderCtx == {"select", "window", "aggregate", "within-group"}
ItemName(i) == <<"a", "b", "c">>[i]
ItemToks(i, k) == <<ItemName(i)>> \o (IF k.dir = "" THEN <<>> ELSE <<k.dir>>)
                     \o (CASE k.nulls = "first" -> <<"NULLS", "FIRST">> [] k.nulls = "last" -> <<"NULLS", "LAST">> [] OTHER -> <<>>)
ListToks(l) == ItemToks(1, l[1]) \o (IF Len(l) > 1 THEN <<",">> \o ItemToks(2, l[2]) ELSE <<>>)
                                 \o (IF Len(l) > 2 THEN <<",">> \o ItemToks(3, l[3]) ELSE <<>>)
ListTree(l) == [i \in 1..Len(l) |-> OrderItem(Id(ItemName(i)), l[i].dir # "DESC", l[i].nulls)]
OrderToks(cx, l) ==
    CASE cx = "select" -> S1t \o <<"ORDER", "BY">> \o ListToks(l)
      [] cx = "window" -> <<"SELECT", "SUM", "(", "a", ")", "OVER", "(", "ORDER", "BY">> \o ListToks(l) \o <<")", "FROM", "t">>
      [] cx = "aggregate" -> <<"SELECT", "STRING_AGG", "(", "a", ",", "','", "ORDER", "BY">> \o ListToks(l) \o <<")", "FROM", "t">>
      [] cx = "within-group" -> <<"SELECT", "PERCENTILE_CONT", "(", "0.5", ")", "WITHIN", "GROUP", "(", "ORDER", "BY">> \o ListToks(l) \o <<")", "FROM", "t">>
OrderTree(cx, l) ==
    CASE cx = "select" -> S1 @@ [OrderBy |-> ListTree(l)]
      [] cx = "window" -> [S1 EXCEPT !.Columns = <<[T |-> "FunctionCall", Name |-> "SUM", Arguments |-> <<Id("a")>>,
                                                    Over |-> [T |-> "WindowSpec", OrderBy |-> ListTree(l)]]>>]
      [] cx = "aggregate" -> [S1 EXCEPT !.Columns = <<[T |-> "FunctionCall", Name |-> "STRING_AGG", Arguments |-> <<Id("a"), StrLit(",")>>,
                                                       OrderBy |-> ListTree(l)]>>]
      [] cx = "within-group" -> [S1 EXCEPT !.Columns = <<[T |-> "FunctionCall", Name |-> "PERCENTILE_CONT",
                                                          Arguments |-> <<[T |-> "LiteralValue", Value |-> "0.5", Type |-> "float"]>>,
                                                          WithinGroup |-> ListTree(l)]>>]

\* ---- row limiting and locking tails: OFFSET n ROWS, FETCH FIRST|NEXT n [PERCENT] ROWS ONLY|WITH TIES,
\*      FOR UPDATE|SHARE|NO KEY UPDATE|KEY SHARE [OF tables] [NOWAIT|SKIP LOCKED] ------------------------------
FetchKinds == {"none", "first", "next", "ties", "percent"}
LockKinds == {"UPDATE", "SHARE", "NO KEY UPDATE", "KEY SHARE"}
TailCfg == [offset : BOOLEAN, fetch : FetchKinds, lock : LockKinds \cup {"none"}, of : 0..2, wait : {"none", "NOWAIT", "SKIP LOCKED"}]
ValidTail(c) == (c.lock = "none" => (c.of = 0 /\ c.wait = "none")) /\ (c.offset \/ c.fetch # "none" \/ c.lock # "none")
TailToks(c) ==
    S1t \o (IF c.offset THEN <<"OFFSET", "2", "ROWS">> ELSE <<>>)
        \o (CASE c.fetch = "first" -> <<"FETCH", "FIRST", "5", "ROWS", "ONLY">>
               [] c.fetch = "next" -> <<"FETCH", "NEXT", "5", "ROWS", "ONLY">>
               [] c.fetch = "ties" -> <<"FETCH", "FIRST", "5", "ROWS", "WITH", "TIES">>
               [] c.fetch = "percent" -> <<"FETCH", "FIRST", "5", "PERCENT", "ROWS", "ONLY">>
               [] OTHER -> <<>>)
        \o (IF c.lock = "none" THEN <<>> ELSE <<"FOR", c.lock>>)
        \o (CASE c.of = 1 -> <<"OF", "t">> [] c.of = 2 -> <<"OF", "t", ",", "u">> [] OTHER -> <<>>)
        \o (IF c.wait = "none" THEN <<>> ELSE <<c.wait>>)
TailTree(c) ==
    LET fbase == [T |-> "FetchClause", FetchValue |-> 5, FetchType |-> (IF c.fetch = "next" THEN "NEXT" ELSE "FIRST")]
        f == CASE c.fetch = "ties" -> fbase @@ [WithTies |-> TRUE] [] c.fetch = "percent" -> fbase @@ [IsPercent |-> TRUE] [] OTHER -> fbase
        l0 == [T |-> "ForClause", LockType |-> c.lock]
        l1 == CASE c.of = 1 -> l0 @@ [Tables |-> <<"t">>] [] c.of = 2 -> l0 @@ [Tables |-> <<"t", "u">>] [] OTHER -> l0
        l == CASE c.wait = "NOWAIT" -> l1 @@ [NoWait |-> TRUE] [] c.wait = "SKIP LOCKED" -> l1 @@ [SkipLocked |-> TRUE] [] OTHER -> l1
        t1 == IF c.offset THEN S1 @@ [Offset |-> 2] ELSE S1
        t2 == IF c.fetch = "none" THEN t1 ELSE t1 @@ [Fetch |-> f]
    IN IF c.lock = "none" THEN t2 ELSE t2 @@ [For |-> l]

\* ---- window specifications: PARTITION BY / ORDER BY / frame (unit, start bound, optional end bound) ----------------
FrameUnits == {"none", "ROWS", "RANGE"}
Bounds == {"UP", "nP", "CR", "nF", "UF"}     \* UNBOUNDED PRECEDING, 2 PRECEDING, CURRENT ROW, 3 FOLLOWING, UNBOUNDED FOLLOWING
BoundRank(b) == CASE b = "UP" -> 1 [] b = "nP" -> 2 [] b = "CR" -> 3 [] b = "nF" -> 4 [] b = "UF" -> 5
WindowCfg == [partition : 0..2, order : BOOLEAN, unit : FrameUnits, start : Bounds, end : Bounds \cup {"none"}]
ValidWindow(c) == /\ (c.unit = "none" => c.start = "UP" /\ c.end = "none")
                  /\ c.start # "UF"
                  /\ (c.end # "none" => c.end # "UP" /\ BoundRank(c.start) <= BoundRank(c.end))
                  /\ (c.end = "none" => c.start \in {"UP", "nP", "CR"})
                  /\ (c.partition > 0 \/ c.order \/ c.unit # "none")
BoundToks(b) == CASE b = "UP" -> <<"UNBOUNDED", "PRECEDING">> [] b = "nP" -> <<"2", "PRECEDING">> [] b = "CR" -> <<"CURRENT", "ROW">>
                  [] b = "nF" -> <<"3", "FOLLOWING">> [] b = "UF" -> <<"UNBOUNDED", "FOLLOWING">>
BoundTree(b) == CASE b = "UP" -> [T |-> "WindowFrameBound", Type |-> "UNBOUNDED PRECEDING"]
                  [] b = "nP" -> [T |-> "WindowFrameBound", Type |-> "PRECEDING", Value |-> IntLit("2")]
                  [] b = "CR" -> [T |-> "WindowFrameBound", Type |-> "CURRENT ROW"]
                  [] b = "nF" -> [T |-> "WindowFrameBound", Type |-> "FOLLOWING", Value |-> IntLit("3")]
                  [] b = "UF" -> [T |-> "WindowFrameBound", Type |-> "UNBOUNDED FOLLOWING"]
WindowToks(c) ==
    <<"SELECT", "SUM", "(", "a", ")", "OVER", "(">>
      \o (CASE c.partition = 1 -> <<"PARTITION", "BY", "b">> [] c.partition = 2 -> <<"PARTITION", "BY", "b", ",", "c">> [] OTHER -> <<>>)
      \o (IF c.order THEN <<"ORDER", "BY", "d", "DESC">> ELSE <<>>)
      \o (IF c.unit = "none" THEN <<>>
          ELSE IF c.end = "none" THEN <<c.unit>> \o BoundToks(c.start)
          ELSE <<c.unit, "BETWEEN">> \o BoundToks(c.start) \o <<"AND">> \o BoundToks(c.end))
      \o <<")", "FROM", "t">>
WindowTree(c) ==
    LET w0 == [T |-> "WindowSpec"]
        w1 == CASE c.partition = 1 -> w0 @@ [PartitionBy |-> <<Id("b")>>] [] c.partition = 2 -> w0 @@ [PartitionBy |-> <<Id("b"), Id("c")>>] [] OTHER -> w0
        w2 == IF c.order THEN w1 @@ [OrderBy |-> <<OrderItem(Id("d"), FALSE, "none")>>] ELSE w1
        f0 == [T |-> "WindowFrame", Type |-> c.unit, Start |-> BoundTree(c.start)]
        f == IF c.end = "none" THEN f0 ELSE f0 @@ [End |-> BoundTree(c.end)]
        w == IF c.unit = "none" THEN w2 ELSE w2 @@ [FrameClause |-> f]
    IN [S1 EXCEPT !.Columns = <<[T |-> "FunctionCall", Name |-> "SUM", Arguments |-> <<Id("a")>>, Over |-> w]>>]

\* ---- grouping extensions ----------------------------------------------------------------------------------------------
GroupExt == {"ROLLUP", "CUBE"}
GroupExtToks(g, n) == S1t \o <<"GROUP", "BY", g, "(", "a">> \o (IF n = 2 THEN <<",", "b">> ELSE <<>>) \o <<")">>
GroupExtTree(g, n) == S1 @@ [GroupBy |-> <<[T |-> (IF g = "ROLLUP" THEN "RollupExpression" ELSE "CubeExpression"),
                                          Expressions |-> (IF n = 2 THEN <<Id("a"), Id("b")>> ELSE <<Id("a")>>)]>>]

\* ---- chains of set operations: three operands, every pair of operators, each with and without ALL ------------------
\* INTERSECT binds more tightly than UNION and EXCEPT (SQL-92 7.10); operators of one level associate to the left;
\* ALL belongs to the operation it is written on and to no other
SetOperators == {"UNION", "EXCEPT", "INTERSECT"}
SetOps == [op : SetOperators, all : BOOLEAN]
SetChainToks(x, y) == S1t \o <<x.op>> \o (IF x.all THEN <<"ALL">> ELSE <<>>) \o S2t \o <<y.op>> \o (IF y.all THEN <<"ALL">> ELSE <<>>) \o S3t
SetChainTree(x, y) == IF y.op = "INTERSECT" /\ x.op # "INTERSECT"
                        THEN SetOp(S1, x.op, x.all, SetOp(S2, y.op, y.all, S3))
                        ELSE SetOp(SetOp(S1, x.op, x.all, S2), y.op, y.all, S3)

\* the statements every form is paired with in a two-statement script: forms with name lists, item lists and clauses
\* of every kind, so that a later (or earlier) statement of the script has something to overwrite or inherit
ScriptPartnerNames == {"twice-cte-column-lists", "using-two-columns", "twice-merge-insert-lists", "twice-constraint-column-lists",
                       "upsert-update-two", "twice-call-order-by", "create-view-columns", "two-joins", "for-update-of-nowait",
                       "cte-materialized", "insert-multirow"}
ScriptPartners == {f \in Forms \cup Forms2 : f.name \in ScriptPartnerNames}

VARIABLES case, done
vars == <<case, done>>
Init == /\ done = FALSE
        /\ \/ \E c \in SelectCfg : ValidSelect(c) /\ case = [name |-> "select", cfg |-> c, toks |-> SelToks(c), tree |-> SelTree(c)]
           \/ \E f \in Forms \cup Forms2 : case = [name |-> f.name, cfg |-> <<>>, toks |-> f.toks, tree |-> f.tree]
           \/ \E c \in TailCfg : ValidTail(c) /\ case = [name |-> "tail", cfg |-> c, toks |-> TailToks(c), tree |-> TailTree(c)]
           \/ \E c \in WindowCfg : ValidWindow(c) /\ case = [name |-> "window-spec", cfg |-> c, toks |-> WindowToks(c), tree |-> WindowTree(c)]
           \/ \E x \in SetOps, y \in SetOps :
                 case = [name |-> "set-chain:" \o x.op \o ":" \o y.op, cfg |-> <<x, y>>, toks |-> SetChainToks(x, y), tree |-> SetChainTree(x, y)]
           \* a script is the sequence of its statements' trees: nothing of one statement reaches into another
           \/ \E a \in Forms \cup Forms2, b \in ScriptPartners :
                 \/ case = [name |-> "script", cfg |-> <<a.name, b.name>>, toks |-> a.toks \o <<";">> \o b.toks,
                             tree |-> [T |-> "Script", Statements |-> <<a.tree, b.tree>>]]
                 \/ case = [name |-> "script", cfg |-> <<b.name, a.name>>, toks |-> b.toks \o <<";">> \o a.toks,
                             tree |-> [T |-> "Script", Statements |-> <<b.tree, a.tree>>]]
           \/ \E g \in GroupExt, n \in 1..2 : case = [name |-> "group-" \o g, cfg |-> <<>>, toks |-> GroupExtToks(g, n), tree |-> GroupExtTree(g, n)]
           \/ \E cx \in OrderCtx, l \in OrderLists :
                 case = [name |-> "order-" \o cx, cfg |-> l, toks |-> OrderToks(cx, l), tree |-> OrderTree(cx, l)]
Run == /\ ~done /\ done' = TRUE /\ UNCHANGED case
       /\ Emit => PrintT(ToJson([name |-> case.name, toks |-> case.toks, tree |-> case.tree]))
Spec == Init /\ [][Run]_vars

\* ---- consistency laws of the model (written <=> present) -------------------------------------------------------------
Has(f) == f \in DOMAIN case.tree
Tok(w) == \E i \in DOMAIN case.toks : case.toks[i] = w
ClauseIffField == (case.name = "select") =>
    /\ (Tok("WHERE") <=> Has("Where")) /\ (Tok("GROUP") <=> Has("GroupBy")) /\ (Tok("HAVING") <=> Has("Having"))
    /\ (Tok("ORDER") <=> Has("OrderBy")) /\ (Tok("LIMIT") <=> Has("Limit")) /\ (Tok("OFFSET") <=> Has("Offset"))
    /\ (Tok("DISTINCT") <=> Has("Distinct")) /\ (Tok("ON") => Has("Joins"))
\* an order item carries a NULLS placement exactly when one was written for that item, and a direction flag
\* exactly when DESC was not written
OrderItemLaw == (case.name = "order-select") =>
    \A i \in 1..Len(case.cfg) :
        /\ (("NullsFirst" \in DOMAIN case.tree.OrderBy[i]) <=> (case.cfg[i].nulls # "none"))
        /\ (("Ascending" \in DOMAIN case.tree.OrderBy[i]) <=> (case.cfg[i].dir # "DESC"))
\* a frame is present exactly when a unit was written; an end bound exactly when BETWEEN was
WindowLaw == (case.name = "window-spec") =>
    LET w == case.tree.Columns[1].Over IN
    /\ (("FrameClause" \in DOMAIN w) <=> (Tok("ROWS") \/ Tok("RANGE")))
    /\ (("FrameClause" \in DOMAIN w) => (("End" \in DOMAIN w.FrameClause) <=> Tok("BETWEEN")))
    /\ (("PartitionBy" \in DOMAIN w) <=> Tok("PARTITION")) /\ (("OrderBy" \in DOMAIN w) <=> Tok("ORDER"))
\* ALL stands in the tree exactly on the operation it was written on (the outer operation of the tree is the second
\* written one unless INTERSECT pulled the right operands together)
SetChainNames == {"set-chain:" \o a \o ":" \o b : a \in SetOperators, b \in SetOperators}
SetChainLaw == (case.name \in SetChainNames) =>
    LET x == case.cfg[1]  y == case.cfg[2]
        nested == y.op = "INTERSECT" /\ x.op # "INTERSECT"
        outer == case.tree
        inner == IF nested THEN case.tree.Right ELSE case.tree.Left IN
    /\ (("All" \in DOMAIN outer) <=> (IF nested THEN x.all ELSE y.all))
    /\ (("All" \in DOMAIN inner) <=> (IF nested THEN y.all ELSE x.all))
TailLaw == (case.name = "tail") =>
    /\ (Tok("FETCH") <=> Has("Fetch")) /\ (Tok("FOR") <=> Has("For")) /\ (Tok("OFFSET") <=> Has("Offset"))
    /\ (Tok("OF") <=> (Has("For") /\ "Tables" \in DOMAIN case.tree.For))
=============================================================================
