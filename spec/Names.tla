-------------------------------- MODULE Names --------------------------------
(***************************************************************************)
(* Where names can stand in a statement, and what metadata extraction must *)
(* report for them (C15).  A statement is composed from FRAMES: each frame *)
(* is a statement shape with named positions - table positions (FROM,      *)
(* joins, INSERT/UPDATE/DELETE/MERGE targets and sources), column          *)
(* references, function calls - and, for some frames, a hole that takes a  *)
(* nested statement (sub-query in IN / EXISTS / scalar position, derived   *)
(* table, joined derived table, CTE body, INSERT ... SELECT, set           *)
(* operation).  Every frame at nesting level L uses its own names          *)
(* (t<L>a, c<L>a, F<L>...), plus one table and one column name shared by   *)
(* all levels, so the generator knows exactly which names stand where.     *)
(* Aliases, string contents that look like names, and keywords are placed  *)
(* next to them and must not be reported.                                  *)
(*                                                                         *)
(* For every composition of depth <= Depth the module defines the token    *)
(* rendering and the expected sets                                         *)
(*     T   table names as written (dotted when qualified)                  *)
(*     TQ  <<schema, name>> pairs                                          *)
(*     C   column names, CQ <<qualifier, name>> pairs                      *)
(*     F   function names                                                  *)
(* as the union over the frames of the composition.  Laws checked by TLC   *)
(* on every composition: every expected name occurs among the tokens       *)
(* (Written), no alias / string content / keyword is expected (Clean),     *)
(* name spaces are disjoint (Disjoint), nesting only adds names            *)
(* (NestedIncluded).                                                       *)
(***************************************************************************)
EXTENDS Integers, Sequences, FiniteSets, TLC, Json

CONSTANTS Depth, Emit

S(L) == ToString(L)
Tab(L, k) == "t" \o S(L) \o k
Col(L, k) == "c" \o S(L) \o k
Fn(L) == "FN" \o S(L)
Ali(L, k) == "x" \o S(L) \o k
SharedTab == "tshared"
SharedCol == "cshared"

Empty == [toks |-> <<>>, T |-> {}, TQ |-> {}, C |-> {}, CQ |-> {}, F |-> {}, A |-> {}]
Plain(n) == <<"", n>>                 \* unqualified <<schema-or-qualifier, name>>
\* merge the name sets of a frame with those of the statement nested in it
With(f, n) == [toks |-> f.toks, T |-> f.T \cup n.T, TQ |-> f.TQ \cup n.TQ, C |-> f.C \cup n.C, CQ |-> f.CQ \cup n.CQ,
               F |-> f.F \cup n.F, A |-> f.A \cup n.A]

LeafKinds == {"from", "alias", "as-alias", "schema", "two-tables", "join-two", "join-two-schema", "join-inner", "join-left", "join-right", "join-full", "join-cross",
              "where-fn", "group-having-order", "insert-values", "update", "delete", "merge", "case", "between-in-cast", "window",
              "string-keyword", "count-star", "shared", "slot-q", "slot-d",
              "same-name-two-schemas", "bare-and-qualified", "same-name-nested-schemas"}
NestKinds == {"in-subquery", "exists", "scalar-subquery", "derived", "join-derived", "cte", "insert-select", "update-subquery",
              "delete-subquery", "union", "not-in-subquery", "values-subquery", "returning-subquery", "upsert-subquery",
              "update-set-subquery", "having-subquery", "join-on-subquery", "case-subquery", "function-arg-subquery",
              "order-by-subquery", "between-subquery",
              \* a derived table as the LEFT operand of a join, and as the first / last item of a FROM list that a join follows
              "derived-then-join", "derived-first-of-list-then-join", "derived-last-of-list-then-join"}


\* ---- expression slots: every expression position x every expression shape ----------------------------------------
\* A slot frame has one expression position; the expression standing there is one of Shapes.  Shapes use their own
\* column names (c<L>e/f/g) and function names (FA<L>, FB<L>, FC<L>), so a name missing from a result names the
\* position and the shape.  bool = the expression is a condition (a scalar one is compared with 0 where a
\* condition is required).
Fa(L) == "FA" \o S(L)
Fb(L) == "FB" \o S(L)
Fc(L) == "FC" \o S(L)
Shapes == {"col", "qual-col", "fn", "fn-two-args", "fn-nested", "fn-nested-deep", "fn-repeat-then-nested", "fn-nested-then-repeat",
           "fn-same-nested", "fn-filter", "fn-over", "fn-distinct", "fn-order-by", "fn-within-group", "case", "case-operand", "cast",
           "in-list", "between", "is-null", "like", "concat", "neg", "not", "paren", "arith"}
Shape(s, L) ==
  LET ce == Col(L, "e")  cf == Col(L, "f")  cg == Col(L, "g")  fa == Fa(L)  fb == Fb(L)  fc == Fc(L)  ta == Tab(L, "a")
      E(toks, cols, fns, b) == [toks |-> toks, C |-> cols, CQ |-> {Plain(c) : c \in cols}, F |-> fns, bool |-> b] IN
  CASE s = "col" -> E(<<ce>>, {ce}, {}, FALSE)
    [] s = "qual-col" -> [toks |-> <<ta, ".", ce>>, C |-> {ce}, CQ |-> {<<ta, ce>>}, F |-> {}, bool |-> FALSE]
    [] s = "fn" -> E(<<fa, "(", ce, ")">>, {ce}, {fa}, FALSE)
    [] s = "fn-two-args" -> E(<<fa, "(", ce, ",", cf, ")">>, {ce, cf}, {fa}, FALSE)
    [] s = "fn-nested" -> E(<<fa, "(", fb, "(", ce, ")", ")">>, {ce}, {fa, fb}, FALSE)
    [] s = "fn-nested-deep" -> E(<<fa, "(", fb, "(", fc, "(", ce, ")", ")", ")">>, {ce}, {fa, fb, fc}, FALSE)
    \* the same function name twice, the other function only inside one of the two calls
    [] s = "fn-repeat-then-nested" -> E(<<fa, "(", ce, ")", "+", fa, "(", fb, "(", cf, ")", ")">>, {ce, cf}, {fa, fb}, FALSE)
    [] s = "fn-nested-then-repeat" -> E(<<fa, "(", fb, "(", ce, ")", ")", "+", fa, "(", cf, ")">>, {ce, cf}, {fa, fb}, FALSE)
    [] s = "fn-same-nested" -> E(<<fa, "(", fa, "(", fb, "(", ce, ")", ")", ")">>, {ce}, {fa, fb}, FALSE)
    [] s = "fn-filter" -> E(<<"COUNT", "(", ce, ")", "FILTER", "(", "WHERE", fb, "(", cf, ")", "=", "1", ")">>, {ce, cf}, {"COUNT", fb}, FALSE)
    [] s = "fn-over" -> E(<<fa, "(", ce, ")", "OVER", "(", "PARTITION", "BY", fb, "(", cf, ")", "ORDER", "BY", fc, "(", cg, ")", ")">>,
                          {ce, cf, cg}, {fa, fb, fc}, FALSE)
    [] s = "fn-distinct" -> E(<<"COUNT", "(", "DISTINCT", fa, "(", ce, ")", ")">>, {ce}, {"COUNT", fa}, FALSE)
    [] s = "fn-order-by" -> E(<<fa, "(", ce, "ORDER", "BY", fb, "(", cf, ")", ")">>, {ce, cf}, {fa, fb}, FALSE)
    [] s = "fn-within-group" -> E(<<fa, "(", ce, ")", "WITHIN", "GROUP", "(", "ORDER", "BY", fb, "(", cf, ")", ")">>, {ce, cf}, {fa, fb}, FALSE)
    [] s = "case" -> E(<<"CASE", "WHEN", fa, "(", ce, ")", "=", "1", "THEN", fb, "(", cf, ")", "ELSE", fc, "(", cg, ")", "END">>,
                       {ce, cf, cg}, {fa, fb, fc}, FALSE)
    [] s = "case-operand" -> E(<<"CASE", fa, "(", ce, ")", "WHEN", "1", "THEN", cf, "END">>, {ce, cf}, {fa}, FALSE)
    [] s = "cast" -> E(<<"CAST", "(", fa, "(", ce, ")", "AS", "INT", ")">>, {ce}, {fa}, FALSE)
    [] s = "in-list" -> E(<<ce, "IN", "(", fa, "(", cf, ")", ",", fb, "(", cg, ")", ")">>, {ce, cf, cg}, {fa, fb}, TRUE)
    [] s = "between" -> E(<<ce, "BETWEEN", fa, "(", cf, ")", "AND", fb, "(", cg, ")">>, {ce, cf, cg}, {fa, fb}, TRUE)
    [] s = "is-null" -> E(<<fa, "(", ce, ")", "IS", "NULL">>, {ce}, {fa}, TRUE)
    [] s = "like" -> E(<<ce, "LIKE", fa, "(", cf, ")">>, {ce, cf}, {fa}, TRUE)
    [] s = "concat" -> E(<<fa, "(", ce, ")", "||", fb, "(", cf, ")">>, {ce, cf}, {fa, fb}, FALSE)
    [] s = "neg" -> E(<<"-", fa, "(", ce, ")">>, {ce}, {fa}, FALSE)
    [] s = "not" -> E(<<"NOT", fa, "(", ce, ")">>, {ce}, {fa}, TRUE)
    [] s = "paren" -> E(<<"(", fa, "(", ce, ")", "+", cf, ")">>, {ce, cf}, {fa}, FALSE)
    [] s = "arith" -> E(<<ce, "*", fa, "(", cf, ")">>, {ce, cf}, {fa}, FALSE)

\* (for every list the expression stands in - select items, sort keys, grouping keys, joins, assignments, rows, cells -
\* there is a position where it is NOT the last element: what a traversal hands out for "every element" must not be
\* the last one every time)
QueryPos == {"select-item", "select-first", "select-last", "select-aliased", "distinct-on", "aggregate-arg", "where", "where-and-right",
             "join-on", "join-on-second", "group-by", "group-by-second", "having", "order-by", "order-by-second",
             "join-on-first", "group-by-first", "order-by-first"}
DmlPos == {"insert-value", "insert-second-row", "insert-returning", "upsert-set", "upsert-where", "update-set", "update-second-set",
           "update-where", "update-returning", "delete-where", "delete-returning", "merge-on", "merge-when-condition",
           "merge-update-set", "merge-insert-value",
           "insert-first-row", "insert-first-cell", "upsert-first-set", "duplicate-key-set", "duplicate-key-first-set", "update-first-set",
           "merge-update-first-set"}
SlotFrame(pos, L, e) ==
  LET ta == Tab(L, "a")  tb == Tab(L, "b")  tc == Tab(L, "c")  ca == Col(L, "a")  cb == Col(L, "b")  cc == Col(L, "c")  xa == Ali(L, "a")
      x == e.toks
      b == IF e.bool THEN e.toks ELSE e.toks \o <<">", "0">>
      \* the frame's own names, then the expression's
      Fr(toks, tabs, cols, fns, als) == [toks |-> toks, T |-> tabs, TQ |-> {Plain(t) : t \in tabs}, C |-> cols \cup e.C,
                                         CQ |-> {Plain(c) : c \in cols} \cup e.CQ, F |-> fns \cup e.F, A |-> als]
      mergeHead == <<"MERGE", "INTO", ta, "USING", tb, "ON">>
      mergeOn == <<ca, "=", "1">> IN
  CASE pos = "select-item" -> Fr(<<"SELECT">> \o x \o <<"FROM", ta>>, {ta}, {}, {}, {})
    [] pos = "select-first" -> Fr(<<"SELECT">> \o x \o <<",", ca, "FROM", ta>>, {ta}, {ca}, {}, {})
    [] pos = "select-last" -> Fr(<<"SELECT", ca, ",">> \o x \o <<"FROM", ta>>, {ta}, {ca}, {}, {})
    [] pos = "select-aliased" -> Fr(<<"SELECT">> \o x \o <<"AS", xa, "FROM", ta>>, {ta}, {}, {}, {xa})
    [] pos = "distinct-on" -> Fr(<<"SELECT", "DISTINCT", "ON", "(">> \o x \o <<")", ca, "FROM", ta>>, {ta}, {ca}, {}, {})
    [] pos = "aggregate-arg" -> Fr(<<"SELECT", "SUM", "(">> \o x \o <<")", "FROM", ta>>, {ta}, {}, {"SUM"}, {})
    [] pos = "where" -> Fr(<<"SELECT", ca, "FROM", ta, "WHERE">> \o b, {ta}, {ca}, {}, {})
    [] pos = "where-and-right" -> Fr(<<"SELECT", ca, "FROM", ta, "WHERE", cb, "=", "1", "AND">> \o b, {ta}, {ca, cb}, {}, {})
    [] pos = "join-on" -> Fr(<<"SELECT", ca, "FROM", ta, "JOIN", tb, "ON">> \o b, {ta, tb}, {ca}, {}, {})
    [] pos = "join-on-second" -> Fr(<<"SELECT", ca, "FROM", ta, "JOIN", tb, "ON", cb, "=", "1", "JOIN", tc, "ON">> \o b, {ta, tb, tc}, {ca, cb}, {}, {})
    [] pos = "group-by" -> Fr(<<"SELECT", "COUNT", "(", "*", ")", "FROM", ta, "GROUP", "BY">> \o x, {ta}, {}, {"COUNT"}, {})
    [] pos = "group-by-second" -> Fr(<<"SELECT", ca, "FROM", ta, "GROUP", "BY", ca, ",">> \o x, {ta}, {ca}, {}, {})
    [] pos = "having" -> Fr(<<"SELECT", ca, "FROM", ta, "GROUP", "BY", ca, "HAVING">> \o b, {ta}, {ca}, {}, {})
    [] pos = "order-by" -> Fr(<<"SELECT", ca, "FROM", ta, "ORDER", "BY">> \o x, {ta}, {ca}, {}, {})
    [] pos = "order-by-second" -> Fr(<<"SELECT", ca, "FROM", ta, "ORDER", "BY", ca, ",">> \o x \o <<"DESC">>, {ta}, {ca}, {}, {})
    [] pos = "insert-value" -> Fr(<<"INSERT", "INTO", ta, "(", ca, ")", "VALUES", "(">> \o x \o <<")">>, {ta}, {ca}, {}, {})
    [] pos = "insert-second-row" -> Fr(<<"INSERT", "INTO", ta, "(", ca, ")", "VALUES", "(", "1", ")", ",", "(">> \o x \o <<")">>, {ta}, {ca}, {}, {})
    [] pos = "insert-returning" -> Fr(<<"INSERT", "INTO", ta, "(", ca, ")", "VALUES", "(", "1", ")", "RETURNING">> \o x, {ta}, {ca}, {}, {})
    [] pos = "upsert-set" -> Fr(<<"INSERT", "INTO", ta, "(", ca, ")", "VALUES", "(", "1", ")", "ON", "CONFLICT", "(", ca, ")", "DO", "UPDATE", "SET", cb, "=">> \o x,
                                {ta}, {ca, cb}, {}, {})
    [] pos = "upsert-where" -> Fr(<<"INSERT", "INTO", ta, "(", ca, ")", "VALUES", "(", "1", ")", "ON", "CONFLICT", "(", ca, ")", "DO", "UPDATE", "SET", cb, "=", "1", "WHERE">> \o b,
                                  {ta}, {ca, cb}, {}, {})
    [] pos = "update-set" -> Fr(<<"UPDATE", ta, "SET", ca, "=">> \o x, {ta}, {ca}, {}, {})
    [] pos = "update-second-set" -> Fr(<<"UPDATE", ta, "SET", ca, "=", "1", ",", cb, "=">> \o x, {ta}, {ca, cb}, {}, {})
    [] pos = "update-where" -> Fr(<<"UPDATE", ta, "SET", ca, "=", "1", "WHERE">> \o b, {ta}, {ca}, {}, {})
    [] pos = "update-returning" -> Fr(<<"UPDATE", ta, "SET", ca, "=", "1", "RETURNING">> \o x, {ta}, {ca}, {}, {})
    [] pos = "delete-where" -> Fr(<<"DELETE", "FROM", ta, "WHERE">> \o b, {ta}, {}, {}, {})
    [] pos = "delete-returning" -> Fr(<<"DELETE", "FROM", ta, "WHERE", ca, "=", "1", "RETURNING">> \o x, {ta}, {ca}, {}, {})
    [] pos = "join-on-first" -> Fr(<<"SELECT", ca, "FROM", ta, "JOIN", tb, "ON">> \o b \o <<"JOIN", tc, "ON", cb, "=", "1">>, {ta, tb, tc}, {ca, cb}, {}, {})
    [] pos = "group-by-first" -> Fr(<<"SELECT", ca, "FROM", ta, "GROUP", "BY">> \o x \o <<",", ca>>, {ta}, {ca}, {}, {})
    [] pos = "order-by-first" -> Fr(<<"SELECT", ca, "FROM", ta, "ORDER", "BY">> \o x \o <<"DESC", ",", ca>>, {ta}, {ca}, {}, {})
    [] pos = "insert-first-row" -> Fr(<<"INSERT", "INTO", ta, "(", ca, ")", "VALUES", "(">> \o x \o <<")", ",", "(", "1", ")">>, {ta}, {ca}, {}, {})
    [] pos = "insert-first-cell" -> Fr(<<"INSERT", "INTO", ta, "(", ca, ",", cb, ")", "VALUES", "(">> \o x \o <<",", "1", ")">>, {ta}, {ca, cb}, {}, {})
    [] pos = "upsert-first-set" -> Fr(<<"INSERT", "INTO", ta, "(", ca, ")", "VALUES", "(", "1", ")", "ON", "CONFLICT", "(", ca, ")", "DO", "UPDATE", "SET", cb, "=">> \o x \o <<",", cc, "=", "1">>,
                                      {ta}, {ca, cb, cc}, {}, {})
    [] pos = "duplicate-key-set" -> Fr(<<"INSERT", "INTO", ta, "(", ca, ")", "VALUES", "(", "1", ")", "ON", "DUPLICATE", "KEY", "UPDATE", cb, "=">> \o x, {ta}, {ca, cb}, {}, {})
    [] pos = "duplicate-key-first-set" -> Fr(<<"INSERT", "INTO", ta, "(", ca, ")", "VALUES", "(", "1", ")", "ON", "DUPLICATE", "KEY", "UPDATE", cb, "=">> \o x \o <<",", cc, "=", "1">>,
                                             {ta}, {ca, cb, cc}, {}, {})
    [] pos = "update-first-set" -> Fr(<<"UPDATE", ta, "SET", ca, "=">> \o x \o <<",", cb, "=", "1">>, {ta}, {ca, cb}, {}, {})
    [] pos = "merge-update-first-set" -> Fr(mergeHead \o mergeOn \o <<"WHEN", "MATCHED", "THEN", "UPDATE", "SET", cc, "=">> \o x \o <<",", cb, "=", "1">>, {ta, tb}, {ca, cb, cc}, {}, {})
    [] pos = "merge-on" -> Fr(mergeHead \o b \o <<"WHEN", "MATCHED", "THEN", "DELETE">>, {ta, tb}, {}, {}, {})
    [] pos = "merge-when-condition" -> Fr(mergeHead \o mergeOn \o <<"WHEN", "MATCHED", "AND">> \o b \o <<"THEN", "DELETE">>, {ta, tb}, {ca}, {}, {})
    [] pos = "merge-update-set" -> Fr(mergeHead \o mergeOn \o <<"WHEN", "MATCHED", "THEN", "UPDATE", "SET", cc, "=">> \o x, {ta, tb}, {ca, cc}, {}, {})
    [] pos = "merge-insert-value" -> Fr(mergeHead \o mergeOn \o <<"WHEN", "NOT", "MATCHED", "THEN", "INSERT", "(", cc, ")", "VALUES", "(">> \o x \o <<")">>,
                                        {ta, tb}, {ca, cc}, {}, {})

\* ---- leaf frames --------------------------------------------------------------------------------------------
Leaf(k, L, sl) ==
  LET ta == Tab(L, "a")  tb == Tab(L, "b")  ca == Col(L, "a")  cb == Col(L, "b")  cc == Col(L, "c")  cd == Col(L, "d")
      xa == Ali(L, "a")  xb == Ali(L, "b")  f == Fn(L) IN
  CASE k \in {"slot-q", "slot-d"} -> SlotFrame(sl[1], L, Shape(sl[2], L))
    [] k = "from" ->
         [toks |-> <<"SELECT", ca, "FROM", ta>>, T |-> {ta}, TQ |-> {Plain(ta)}, C |-> {ca}, CQ |-> {Plain(ca)}, F |-> {}, A |-> {}]
    [] k = "alias" ->
         [toks |-> <<"SELECT", xa, ".", ca, "FROM", ta, xa>>, T |-> {ta}, TQ |-> {Plain(ta)}, C |-> {ca}, CQ |-> {<<xa, ca>>}, F |-> {}, A |-> {xa}]
    [] k = "as-alias" ->
         [toks |-> <<"SELECT", xa, ".", ca, "AS", xb, "FROM", ta, "AS", xa>>, T |-> {ta}, TQ |-> {Plain(ta)}, C |-> {ca}, CQ |-> {<<xa, ca>>}, F |-> {}, A |-> {xa, xb}]
    [] k = "schema" ->
         [toks |-> <<"SELECT", ca, "FROM", "sch", ".", ta>>, T |-> {"sch." \o ta}, TQ |-> {<<"sch", ta>>}, C |-> {ca}, CQ |-> {Plain(ca)}, F |-> {}, A |-> {}]
    [] k = "two-tables" ->
         [toks |-> <<"SELECT", ca, "FROM", ta, ",", tb, xb>>, T |-> {ta, tb}, TQ |-> {Plain(ta), Plain(tb)}, C |-> {ca}, CQ |-> {Plain(ca)}, F |-> {}, A |-> {xb}]
    [] k \in {"join-inner", "join-left", "join-right", "join-full"} ->
         LET kw == CASE k = "join-inner" -> <<"JOIN">> [] k = "join-left" -> <<"LEFT", "JOIN">> [] k = "join-right" -> <<"RIGHT", "OUTER", "JOIN">> [] OTHER -> <<"FULL", "JOIN">> IN
         [toks |-> <<"SELECT", xa, ".", ca, "FROM", ta, xa>> \o kw \o <<tb, xb, "ON", xa, ".", cb, "=", xb, ".", cc>>,
          T |-> {ta, tb}, TQ |-> {Plain(ta), Plain(tb)}, C |-> {ca, cb, cc}, CQ |-> {<<xa, ca>>, <<xa, cb>>, <<xb, cc>>}, F |-> {}, A |-> {xa, xb}]
    [] k \in {"join-two", "join-two-schema"} ->
         \* two joins: the parser plants a synthetic left-side name built from the FIRST table's name as written
         LET first == IF k = "join-two" THEN <<ta>> ELSE <<"sch", ".", ta>>
             tc == Tab(L, "c") IN
         [toks |-> <<"SELECT", xa, ".", ca, "FROM">> \o first \o <<xa, "JOIN", tb, xb, "ON", xa, ".", cb, "=", xb, ".", cc,
                     "LEFT", "JOIN", tc, "ON", xb, ".", cc, "=", tc, ".", cd>>,
          T |-> {IF k = "join-two" THEN ta ELSE "sch." \o ta, tb, tc},
          TQ |-> {IF k = "join-two" THEN Plain(ta) ELSE <<"sch", ta>>, Plain(tb), Plain(tc)},
          C |-> {ca, cb, cc, cd}, CQ |-> {<<xa, ca>>, <<xa, cb>>, <<xb, cc>>, <<tc, cd>>}, F |-> {}, A |-> {xa, xb}]
    \* the same table name under two qualifications: both are referenced, both must be reported
    [] k = "same-name-two-schemas" ->
         [toks |-> <<"SELECT", xa, ".", ca, "FROM", "sch", ".", ta, xa, "JOIN", "other", ".", ta, xb, "ON", xa, ".", cb, "=", xb, ".", cb>>,
          T |-> {"sch." \o ta, "other." \o ta}, TQ |-> {<<"sch", ta>>, <<"other", ta>>}, C |-> {ca, cb}, CQ |-> {<<xa, ca>>, <<xa, cb>>, <<xb, cb>>}, F |-> {}, A |-> {xa, xb}]
    [] k = "bare-and-qualified" ->
         [toks |-> <<"SELECT", ca, "FROM", ta, ",", "sch", ".", ta, xb>>,
          T |-> {ta, "sch." \o ta}, TQ |-> {Plain(ta), <<"sch", ta>>}, C |-> {ca}, CQ |-> {Plain(ca)}, F |-> {}, A |-> {xb}]
    [] k = "same-name-nested-schemas" ->
         [toks |-> <<"SELECT", ca, "FROM", "sch", ".", ta, "WHERE", cb, "IN", "(", "SELECT", cc, "FROM", "other", ".", ta, ")">>,
          T |-> {"sch." \o ta, "other." \o ta}, TQ |-> {<<"sch", ta>>, <<"other", ta>>}, C |-> {ca, cb, cc}, CQ |-> {Plain(ca), Plain(cb), Plain(cc)}, F |-> {}, A |-> {}]
    [] k = "join-cross" ->
         [toks |-> <<"SELECT", ca, "FROM", ta, "CROSS", "JOIN", tb>>, T |-> {ta, tb}, TQ |-> {Plain(ta), Plain(tb)}, C |-> {ca}, CQ |-> {Plain(ca)}, F |-> {}, A |-> {}]
    [] k = "where-fn" ->
         [toks |-> <<"SELECT", ca, "FROM", ta, "WHERE", f, "(", cb, ",", "1", ")", ">", cc>>,
          T |-> {ta}, TQ |-> {Plain(ta)}, C |-> {ca, cb, cc}, CQ |-> {Plain(ca), Plain(cb), Plain(cc)}, F |-> {f}, A |-> {}]
    [] k = "group-having-order" ->
         [toks |-> <<"SELECT", ca, ",", "COUNT", "(", cb, ")", "FROM", ta, "GROUP", "BY", ca, "HAVING", "SUM", "(", cc, ")", ">", "1", "ORDER", "BY", cd, "DESC">>,
          T |-> {ta}, TQ |-> {Plain(ta)}, C |-> {ca, cb, cc, cd}, CQ |-> {Plain(ca), Plain(cb), Plain(cc), Plain(cd)}, F |-> {"COUNT", "SUM"}, A |-> {}]
    [] k = "insert-values" ->
         [toks |-> <<"INSERT", "INTO", ta, "(", ca, ",", cb, ")", "VALUES", "(", "1", ",", "'" \o tb \o "'", ")">>,
          T |-> {ta}, TQ |-> {Plain(ta)}, C |-> {ca, cb}, CQ |-> {Plain(ca), Plain(cb)}, F |-> {}, A |-> {}]
    [] k = "update" ->
         [toks |-> <<"UPDATE", ta, "SET", ca, "=", cb, "+", "1", "WHERE", cc, "=", f, "(", cd, ")">>,
          T |-> {ta}, TQ |-> {Plain(ta)}, C |-> {ca, cb, cc, cd}, CQ |-> {Plain(ca), Plain(cb), Plain(cc), Plain(cd)}, F |-> {f}, A |-> {}]
    [] k = "delete" ->
         [toks |-> <<"DELETE", "FROM", ta, "WHERE", ca, "=", "1">>, T |-> {ta}, TQ |-> {Plain(ta)}, C |-> {ca}, CQ |-> {Plain(ca)}, F |-> {}, A |-> {}]
    [] k = "merge" ->
         [toks |-> <<"MERGE", "INTO", ta, "USING", tb, "ON", ta, ".", ca, "=", tb, ".", cb,
                     "WHEN", "MATCHED", "THEN", "UPDATE", "SET", cc, "=", tb, ".", cd>>,
          T |-> {ta, tb}, TQ |-> {Plain(ta), Plain(tb)}, C |-> {ca, cb, cc, cd}, CQ |-> {<<ta, ca>>, <<tb, cb>>, Plain(cc), <<tb, cd>>}, F |-> {}, A |-> {}]
    [] k = "case" ->
         [toks |-> <<"SELECT", "CASE", "WHEN", ca, "=", "1", "THEN", cb, "ELSE", f, "(", cc, ")", "END", "FROM", ta>>,
          T |-> {ta}, TQ |-> {Plain(ta)}, C |-> {ca, cb, cc}, CQ |-> {Plain(ca), Plain(cb), Plain(cc)}, F |-> {f}, A |-> {}]
    [] k = "between-in-cast" ->
         [toks |-> <<"SELECT", "CAST", "(", ca, "AS", "INT", ")", "FROM", ta, "WHERE", cb, "BETWEEN", cc, "AND", "9", "AND", cd, "IN", "(", "1", ",", ca, ")">>,
          T |-> {ta}, TQ |-> {Plain(ta)}, C |-> {ca, cb, cc, cd}, CQ |-> {Plain(ca), Plain(cb), Plain(cc), Plain(cd)}, F |-> {}, A |-> {}]
    [] k = "window" ->
         [toks |-> <<"SELECT", f, "(", ca, ")", "OVER", "(", "PARTITION", "BY", cb, "ORDER", "BY", cc, ")", "FROM", ta>>,
          T |-> {ta}, TQ |-> {Plain(ta)}, C |-> {ca, cb, cc}, CQ |-> {Plain(ca), Plain(cb), Plain(cc)}, F |-> {f}, A |-> {}]
    [] k = "string-keyword" ->
         \* a string literal that spells a table name, a column name and keywords: contents are never names
         [toks |-> <<"SELECT", ca, "FROM", ta, "WHERE", cb, "=", "'" \o tb \o " select " \o cc \o " from'">>,
          T |-> {ta}, TQ |-> {Plain(ta)}, C |-> {ca, cb}, CQ |-> {Plain(ca), Plain(cb)}, F |-> {}, A |-> {}]
    [] k = "count-star" ->
         [toks |-> <<"SELECT", "COUNT", "(", "*", ")", ",", "UPPER", "(", ca, ")", "FROM", ta>>,
          T |-> {ta}, TQ |-> {Plain(ta)}, C |-> {ca}, CQ |-> {Plain(ca)}, F |-> {"COUNT", "UPPER"}, A |-> {}]
    [] k = "shared" ->
         \* the names every level shares: results must be duplicate-free
         [toks |-> <<"SELECT", SharedCol, ",", ca, "FROM", SharedTab, "WHERE", SharedCol, ">", "0">>,
          T |-> {SharedTab}, TQ |-> {Plain(SharedTab)}, C |-> {SharedCol, ca}, CQ |-> {Plain(SharedCol), Plain(ca)}, F |-> {}, A |-> {}]

\* ---- frames with a hole -----------------------------------------------------------------------------------------
Nest(k, L, n) ==
  LET ta == Tab(L, "a")  ca == Col(L, "a")  cb == Col(L, "b")  xa == Ali(L, "a") IN
  CASE k = "in-subquery" ->
         With([toks |-> <<"SELECT", ca, "FROM", ta, "WHERE", cb, "IN", "(">> \o n.toks \o <<")">>,
               T |-> {ta}, TQ |-> {Plain(ta)}, C |-> {ca, cb}, CQ |-> {Plain(ca), Plain(cb)}, F |-> {}, A |-> {}], n)
    [] k = "not-in-subquery" ->
         With([toks |-> <<"SELECT", ca, "FROM", ta, "WHERE", cb, "NOT", "IN", "(">> \o n.toks \o <<")">>,
               T |-> {ta}, TQ |-> {Plain(ta)}, C |-> {ca, cb}, CQ |-> {Plain(ca), Plain(cb)}, F |-> {}, A |-> {}], n)
    [] k = "exists" ->
         With([toks |-> <<"SELECT", ca, "FROM", ta, "WHERE", "EXISTS", "(">> \o n.toks \o <<")">>,
               T |-> {ta}, TQ |-> {Plain(ta)}, C |-> {ca}, CQ |-> {Plain(ca)}, F |-> {}, A |-> {}], n)
    [] k = "scalar-subquery" ->
         With([toks |-> <<"SELECT", ca, ",", "(">> \o n.toks \o <<")", "FROM", ta>>,
               T |-> {ta}, TQ |-> {Plain(ta)}, C |-> {ca}, CQ |-> {Plain(ca)}, F |-> {}, A |-> {}], n)
    [] k = "derived" ->
         With([toks |-> <<"SELECT", "*", "FROM", "(">> \o n.toks \o <<")", xa>>,
               T |-> {}, TQ |-> {}, C |-> {}, CQ |-> {}, F |-> {}, A |-> {xa}], n)
    [] k = "join-derived" ->
         With([toks |-> <<"SELECT", ca, "FROM", ta, "JOIN", "(">> \o n.toks \o <<")", xa, "ON", ca, "=", "1">>,
               T |-> {ta}, TQ |-> {Plain(ta)}, C |-> {ca}, CQ |-> {Plain(ca)}, F |-> {}, A |-> {xa}], n)
    [] k = "derived-then-join" ->
         With([toks |-> <<"SELECT", ca, "FROM", "(">> \o n.toks \o <<")", xa, "JOIN", ta, "ON", ca, "=", "1">>,
               T |-> {ta}, TQ |-> {Plain(ta)}, C |-> {ca}, CQ |-> {Plain(ca)}, F |-> {}, A |-> {xa}], n)
    [] k = "derived-first-of-list-then-join" ->
         With([toks |-> <<"SELECT", ca, "FROM", "(">> \o n.toks \o <<")", xa, ",", ta, "JOIN", Tab(L, "b"), "ON", ca, "=", "1">>,
               T |-> {ta, Tab(L, "b")}, TQ |-> {Plain(ta), Plain(Tab(L, "b"))}, C |-> {ca}, CQ |-> {Plain(ca)}, F |-> {}, A |-> {xa}], n)
    [] k = "derived-last-of-list-then-join" ->
         With([toks |-> <<"SELECT", ca, "FROM", ta, ",", "(">> \o n.toks \o <<")", xa, "JOIN", Tab(L, "b"), "ON", ca, "=", "1">>,
               T |-> {ta, Tab(L, "b")}, TQ |-> {Plain(ta), Plain(Tab(L, "b"))}, C |-> {ca}, CQ |-> {Plain(ca)}, F |-> {}, A |-> {xa}], n)
    [] k = "cte" ->
         \* the CTE is referenced in a table position of the main query: its name is reported as written there
         LET w == "w" \o S(L) IN
         With([toks |-> <<"WITH", w, "AS", "(">> \o n.toks \o <<")", "SELECT", ca, "FROM", w>>,
               T |-> {w}, TQ |-> {Plain(w)}, C |-> {ca}, CQ |-> {Plain(ca)}, F |-> {}, A |-> {}], n)
    [] k = "insert-select" ->
         With([toks |-> <<"INSERT", "INTO", ta, "(", ca, ")">> \o n.toks,
               T |-> {ta}, TQ |-> {Plain(ta)}, C |-> {ca}, CQ |-> {Plain(ca)}, F |-> {}, A |-> {}], n)
    [] k = "update-subquery" ->
         With([toks |-> <<"UPDATE", ta, "SET", ca, "=", "1", "WHERE", cb, "IN", "(">> \o n.toks \o <<")">>,
               T |-> {ta}, TQ |-> {Plain(ta)}, C |-> {ca, cb}, CQ |-> {Plain(ca), Plain(cb)}, F |-> {}, A |-> {}], n)
    [] k = "delete-subquery" ->
         With([toks |-> <<"DELETE", "FROM", ta, "WHERE", ca, "IN", "(">> \o n.toks \o <<")">>,
               T |-> {ta}, TQ |-> {Plain(ta)}, C |-> {ca}, CQ |-> {Plain(ca)}, F |-> {}, A |-> {}], n)
    [] k = "values-subquery" ->
         With([toks |-> <<"INSERT", "INTO", ta, "(", ca, ")", "VALUES", "(", "(">> \o n.toks \o <<")", ")">>,
               T |-> {ta}, TQ |-> {Plain(ta)}, C |-> {ca}, CQ |-> {Plain(ca)}, F |-> {}, A |-> {}], n)
    [] k = "returning-subquery" ->
         With([toks |-> <<"INSERT", "INTO", ta, "(", ca, ")", "VALUES", "(", "1", ")", "RETURNING", "(">> \o n.toks \o <<")">>,
               T |-> {ta}, TQ |-> {Plain(ta)}, C |-> {ca}, CQ |-> {Plain(ca)}, F |-> {}, A |-> {}], n)
    [] k = "upsert-subquery" ->
         With([toks |-> <<"INSERT", "INTO", ta, "(", ca, ")", "VALUES", "(", "1", ")", "ON", "CONFLICT", "(", ca, ")", "DO", "UPDATE", "SET", cb, "=", "(">> \o n.toks \o <<")">>,
               T |-> {ta}, TQ |-> {Plain(ta)}, C |-> {ca, cb}, CQ |-> {Plain(ca), Plain(cb)}, F |-> {}, A |-> {}], n)
    [] k = "update-set-subquery" ->
         With([toks |-> <<"UPDATE", ta, "SET", ca, "=", "(">> \o n.toks \o <<")", "WHERE", cb, "=", "1">>,
               T |-> {ta}, TQ |-> {Plain(ta)}, C |-> {ca, cb}, CQ |-> {Plain(ca), Plain(cb)}, F |-> {}, A |-> {}], n)
    [] k = "having-subquery" ->
         With([toks |-> <<"SELECT", ca, "FROM", ta, "GROUP", "BY", ca, "HAVING", cb, ">", "(">> \o n.toks \o <<")">>,
               T |-> {ta}, TQ |-> {Plain(ta)}, C |-> {ca, cb}, CQ |-> {Plain(ca), Plain(cb)}, F |-> {}, A |-> {}], n)
    [] k = "join-on-subquery" ->
         With([toks |-> <<"SELECT", ca, "FROM", ta, "JOIN", Tab(L, "b"), "ON", cb, "IN", "(">> \o n.toks \o <<")">>,
               T |-> {ta, Tab(L, "b")}, TQ |-> {Plain(ta), Plain(Tab(L, "b"))}, C |-> {ca, cb}, CQ |-> {Plain(ca), Plain(cb)}, F |-> {}, A |-> {}], n)
    [] k = "case-subquery" ->
         With([toks |-> <<"SELECT", "CASE", "WHEN", "EXISTS", "(">> \o n.toks \o <<")", "THEN", ca, "ELSE", "0", "END", "FROM", ta>>,
               T |-> {ta}, TQ |-> {Plain(ta)}, C |-> {ca}, CQ |-> {Plain(ca)}, F |-> {}, A |-> {}], n)
    [] k = "function-arg-subquery" ->
         With([toks |-> <<"SELECT", Fn(L), "(", "(">> \o n.toks \o <<")", ",", ca, ")", "FROM", ta>>,
               T |-> {ta}, TQ |-> {Plain(ta)}, C |-> {ca}, CQ |-> {Plain(ca)}, F |-> {Fn(L)}, A |-> {}], n)
    [] k = "order-by-subquery" ->
         With([toks |-> <<"SELECT", ca, "FROM", ta, "ORDER", "BY", "(">> \o n.toks \o <<")">>,
               T |-> {ta}, TQ |-> {Plain(ta)}, C |-> {ca}, CQ |-> {Plain(ca)}, F |-> {}, A |-> {}], n)
    [] k = "between-subquery" ->
         With([toks |-> <<"SELECT", ca, "FROM", ta, "WHERE", cb, "BETWEEN", "(">> \o n.toks \o <<")", "AND", "9">>,
               T |-> {ta}, TQ |-> {Plain(ta)}, C |-> {ca, cb}, CQ |-> {Plain(ca), Plain(cb)}, F |-> {}, A |-> {}], n)
    [] k = "union" ->
         With([toks |-> <<"SELECT", ca, "FROM", ta, "UNION", "ALL">> \o n.toks,
               T |-> {ta}, TQ |-> {Plain(ta)}, C |-> {ca}, CQ |-> {Plain(ca)}, F |-> {}, A |-> {}], n)

\* statements that may stand in a hole are queries
QueryLeaf == LeafKinds \ {"insert-values", "update", "delete", "merge", "slot-d"}
QueryNest == {"in-subquery", "not-in-subquery", "exists", "scalar-subquery", "derived", "join-derived", "union", "having-subquery",
              "join-on-subquery", "case-subquery", "function-arg-subquery", "order-by-subquery", "between-subquery",
              "derived-then-join", "derived-first-of-list-then-join", "derived-last-of-list-then-join"}

\* a composition is a path of kinds, outermost first; all but the last are nest kinds
Paths == UNION {{p \in [1..d -> LeafKinds \cup NestKinds] :
                    /\ p[d] \in LeafKinds /\ (d > 1 => p[d] \in QueryLeaf)
                    /\ \A i \in 1..(d - 1) : p[i] \in NestKinds /\ (i > 1 => p[i] \in QueryNest)} : d \in 1..Depth}
NoSlot == <<"-", "-">>
SlotsOf(p) == CASE p[Len(p)] = "slot-q" -> QueryPos \X Shapes [] p[Len(p)] = "slot-d" -> DmlPos \X Shapes [] OTHER -> {NoSlot}
RECURSIVE Build(_, _, _)
Build(p, i, sl) == IF i = Len(p) THEN Leaf(p[i], i, sl) ELSE Nest(p[i], i, Build(p, i + 1, sl))

VARIABLES path, slot, done,
          stmt        \* the composition, built once (every law reads it)
vars == <<path, slot, done, stmt>>
Stmt == stmt
Init == path \in Paths /\ slot \in SlotsOf(path) /\ done = FALSE /\ stmt = Build(path, 1, slot)
Run == /\ ~done /\ done' = TRUE /\ UNCHANGED <<path, slot, stmt>>
       /\ (Emit => PrintT(ToJson([path |-> path, slot |-> slot, toks |-> Stmt.toks, T |-> Stmt.T, TQ |-> Stmt.TQ, C |-> Stmt.C, CQ |-> Stmt.CQ, F |-> Stmt.F, A |-> Stmt.A])))
Spec == Init /\ [][Run]_vars

\* ---- laws -----------------------------------------------------------------------------------------------------
Toks == {Stmt.toks[i] : i \in DOMAIN Stmt.toks}
\* the string-literal tokens the frames use
Lits == UNION {{"'" \o Tab(L, "b") \o "'", "'" \o Tab(L, "b") \o " select " \o Col(L, "c") \o " from'"} : L \in 1..Depth}
Keywords == {"SELECT", "FROM", "WHERE", "JOIN", "ON", "AS", "INSERT", "INTO", "VALUES", "UPDATE", "SET", "DELETE", "MERGE", "USING",
             "GROUP", "BY", "HAVING", "ORDER", "WITH", "UNION", "ALL", "IN", "EXISTS", "NOT", "CASE", "WHEN", "THEN", "ELSE", "END", "CAST",
             "RETURNING", "CONFLICT", "DO", "BETWEEN", "AND", "FILTER", "OVER", "PARTITION", "DISTINCT", "WITHIN", "LIKE", "IS", "NULL",
             "MATCHED", "INT"}
\* every expected column and function name, and the last component of every table name, is a token of the statement
\* (the laws are evaluated in the first state of each behaviour; the Run step changes nothing they read)
WrittenLaw == /\ Stmt.C \subseteq Toks /\ Stmt.F \subseteq Toks
              /\ \A q \in Stmt.TQ : q[2] \in Toks /\ (q[1] # "" => q[1] \in Toks)
              /\ \A q \in Stmt.CQ : q[2] \in Stmt.C
Written == done \/ WrittenLaw
\* aliases, keywords and string contents are never expected
CleanLaw == /\ Stmt.A \cap (Stmt.T \cup Stmt.C \cup Stmt.F) = {}
            /\ Keywords \cap (Stmt.T \cup Stmt.C) = {}
            /\ Lits \cap (Stmt.T \cup Stmt.C \cup Stmt.F) = {}
            \* and what a literal spells is not expected because of the literal: the names inside literals are
            \* names of no table or column position of that level
            /\ \A L \in 1..Depth : Tab(L, "b") \in Stmt.T => \E i \in DOMAIN Stmt.toks : Stmt.toks[i] = Tab(L, "b")
Clean == done \/ CleanLaw
Disjoint == done \/ (Stmt.T \cap Stmt.C = {} /\ Stmt.T \cap Stmt.F = {} /\ Stmt.C \cap Stmt.F = {})
\* the simple and the qualified variants describe the same names
ConsistentLaw == /\ {q[2] : q \in Stmt.CQ} = Stmt.C
                 /\ {IF q[1] = "" THEN q[2] ELSE q[1] \o "." \o q[2] : q \in Stmt.TQ} = Stmt.T
Consistent == done \/ ConsistentLaw
\* Far contexts: a query placed where the tree is deep although the text is flat or the nesting is within the parser's
\* limit - an operator chain is as deep as it is long and its FIRST operand is the deepest node; every level of a
\* derived table is several levels of tree.  The names of the composition are the query's plus the context's own
\* (NestedIncluded with a context of arbitrary size); the driver wraps every SELECT composition in each of them.
FarContexts == {"first-conjunct-before-long-chain", "first-join-condition-conjunct-before-long-chain", "innermost-of-deep-derived-tables"}
FarLength == [c \in FarContexts |-> IF c = "innermost-of-deep-derived-tables" THEN 40 ELSE 130]
NestedIncluded == (~done /\ Len(path) > 1) =>
                     LET inner == Build(path, 2, slot) IN inner.T \subseteq Stmt.T /\ inner.C \subseteq Stmt.C /\ inner.F \subseteq Stmt.F
=============================================================================
