SPECIFICATION Spec
CONSTANTS
  Alphabet = {"sq","usq","dq","udq","L"}
  MaxLen = 5
  Emit = TRUE
INVARIANTS TypeOK ExactlyOneEOF NoTokensWithError SourceOrder CommentOrder NothingDropped
