SPECIFICATION Spec
CONSTANTS
  Alphabet = {"-","nl","L"}
  MaxLen = 9
  Emit = TRUE
INVARIANTS TypeOK ExactlyOneEOF NoTokensWithError SourceOrder CommentOrder NothingDropped
