SPECIFICATION Spec
CONSTANTS
  Shape = "ideal"
  Emit = TRUE
  Slots = {"s1", "s2", "s3"}
  MaxSteps = 14
  UseKinds = {"parse-tokens", "parse-window", "recover-window", "context-window", "scan", "serialise", "format", "extract", "walk"}
  Machine = "history"
INVARIANTS NoAliasing CleanInPoolH
