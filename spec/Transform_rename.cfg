SPECIFICATION SpecRename
CONSTANTS
  Shape = "tree-walk"
  Emit = FALSE
INVARIANTS Commutes OnlyThatName
