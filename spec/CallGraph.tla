----------------------------- MODULE CallGraph -----------------------------
(***************************************************************************)
(* Recursion in the parser and the tokenizer, over the static call graph   *)
(* extracted from the working tree on every run (module ParserCalls:       *)
(* functions, references between them, and the functions that carry the    *)
(* depth guard, i.e. increment the depth counter and compare it with the   *)
(* limit).                                                                 *)
(*                                                                         *)
(* Machine "cycles": a state is a pair (start, cur): cur is reachable from *)
(* start through calls that never enter a guarded function.  Whenever a    *)
(* call leads back to start, start lies on an UNGUARDED CYCLE: nesting the *)
(* construct that drives that cycle grows the stack without the counter    *)
(* ever moving.  NoUnguardedCycle states that this never happens; the      *)
(* enumeration configuration prints every such cycle (shortest path per    *)
(* function) for the driver, which pumps the corresponding constructs on   *)
(* the real parser.                                                        *)
(*                                                                         *)
(* Machine "stack": the run-time view.  A call stack grows by calls along  *)
(* the graph; entering a guarded function increments the counter and is    *)
(* refused beyond Limit.  With no unguarded cycle the stack height is      *)
(* bounded by (Limit + 1) * (number of functions) whatever the input:      *)
(* BoundedStack.  The configuration uses a small graph with the same       *)
(* structure (a guarded and an unguarded cycle) to show both outcomes.     *)
(*                                                                         *)
(* Machine "trace": call stacks recorded from the real parser (the frames  *)
(* of the goroutine at a context poll deep inside a nested input) must be  *)
(* paths of the extracted graph: StackIsPath.  This binds the extraction   *)
(* to the code, and tells which functions a pumped construct cycles        *)
(* through.                                                                *)
(***************************************************************************)
EXTENDS Integers, Sequences, FiniteSets, TLC, Json, ParserCalls

CONSTANTS Machine, Pkg, Emit, Limit

Funcs == IF Pkg = "parser" THEN PFuncs ELSE TFuncs
Guarded == IF Pkg = "parser" THEN PGuarded ELSE TGuarded
CallMap == IF Pkg = "parser" THEN PCalls ELSE TCalls
Callees(f) == IF f \in DOMAIN CallMap THEN CallMap[f] ELSE {}

VARIABLES start, cur, path,      \* cycles machine
          stack, counter, refused, \* stack machine
          l                        \* trace machine: index of the recorded stack under validation
vars == <<start, cur, path, stack, counter, refused, l>>

\* ---- cycles ------------------------------------------------------------------------------------------------
CInit == /\ Machine = "cycles"
         /\ start \in Funcs \ Guarded /\ cur = start /\ path = <<start>>
         /\ stack = <<>> /\ counter = 0 /\ refused = FALSE /\ l = 0
Call(g) == /\ g \in Callees(cur) /\ g \notin Guarded
           /\ cur' = g /\ path' = Append(path, g)
           /\ (Emit /\ g = start => PrintT(ToJson([cycle |-> path])))
           /\ UNCHANGED <<start, stack, counter, refused, l>>
CNext == \E g \in Funcs : Len(path) <= Cardinality(Funcs) /\ Call(g)
NoUnguardedCycle == Machine = "cycles" => ~(Len(path) > 1 /\ cur = start)
CycleView == <<start, cur, Len(path) > 1>>

\* ---- stack -------------------------------------------------------------------------------------------------
SInit == /\ Machine = "stack"
         /\ \E f \in Funcs : stack = <<f>>
         /\ counter = 0 /\ refused = FALSE
         /\ start = "none" /\ cur = "none" /\ path = <<>> /\ l = 0
Push(g) == /\ ~refused /\ g \in Callees(stack[Len(stack)])
           /\ IF g \in Guarded
              THEN IF counter + 1 > Limit
                   THEN refused' = TRUE /\ UNCHANGED <<stack, counter>>
                   ELSE counter' = counter + 1 /\ stack' = Append(stack, g) /\ UNCHANGED refused
              ELSE stack' = Append(stack, g) /\ UNCHANGED <<counter, refused>>
           /\ UNCHANGED <<start, cur, path, l>>
Pop == /\ Len(stack) > 1
       /\ stack' = SubSeq(stack, 1, Len(stack) - 1)
       /\ counter' = IF stack[Len(stack)] \in Guarded THEN counter - 1 ELSE counter
       /\ refused' = FALSE
       /\ UNCHANGED <<start, cur, path, l>>
SNext == Pop \/ \E g \in Funcs : Push(g)
BoundedStack == Machine = "stack" => Len(stack) <= (Limit + 1) * Cardinality(Funcs)
CounterCountsGuarded == Machine = "stack" => counter = Cardinality({k \in 2..Len(stack) : stack[k] \in Guarded})

Init == CInit \/ SInit
Next == (Machine = "cycles" /\ CNext) \/ (Machine = "stack" /\ SNext)
Spec == Init /\ [][Next]_vars
=============================================================================
