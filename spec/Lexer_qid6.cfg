SPECIFICATION Spec
CONSTANTS
  Alphabet = {"dq","udq","bt","L","nl","sp","sq"}
  MaxLen = 6
  Emit = TRUE
INVARIANTS TypeOK ExactlyOneEOF NoTokensWithError SourceOrder CommentOrder NothingDropped

