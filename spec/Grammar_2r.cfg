SPECIFICATION Spec
CONSTANTS
  MaxOps = 2
  OpSet = "all"
  Atoms = "rich"
  Emit = TRUE
INVARIANTS RoundTrip ParenOnlyAdds
