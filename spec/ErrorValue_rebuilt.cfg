SPECIFICATION Spec
CONSTANTS
  Shape = "rebuilt"
  Emit = FALSE
INVARIANTS CausesKept
