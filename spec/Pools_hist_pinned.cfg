SPECIFICATION Spec
CONSTANTS
  Shape = "pinned"
  Emit = FALSE
  Slots = {"s1", "s2"}
  MaxSteps = 4
  Machine = "history"
INVARIANTS CleanInPoolH

