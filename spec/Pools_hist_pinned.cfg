SPECIFICATION Spec
CONSTANTS
  Shape = "pinned"
  Emit = FALSE
  Slots = {"s1", "s2"}
  MaxSteps = 4
  UseKinds = {"parse-window"}
  Machine = "history"
INVARIANTS CleanInPoolH

