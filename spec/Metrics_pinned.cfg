\* load-compare-store shape of the pinned commit: TLC must find the lost update
SPECIFICATION Spec
CONSTANTS
  G = {1, 2}
  SizeRange = {1, 2}
  CAS = FALSE
  Retries = 0
  Emit = "none"
VIEW view
INVARIANTS TypeOK ExactAtQuiescence
