SPECIFICATION Spec
CONSTANTS
  Machine = "algo"
  N = 4
  Depth = 1
  Emit = TRUE
  Shape = "ideal"
INVARIANTS LogIsPrefixOfRef FinalLogIsRef CompleteWhenAllGo NothingForeign PrunedIsSkipped
