------------------------------- MODULE Grafts -------------------------------
(***************************************************************************)
(* Rewrite rules and tree ownership (C09: releasing one tree never changes *)
(* another live tree; returned trees belong to the caller).                *)
(* Trees own NODES.  Parse(t) builds tree t from fresh nodes.  A rule      *)
(* built from SQL text (AddWhereFromSQL, AddJoinFromSQL) parses its text   *)
(* and grafts the resulting nodes into the tree it is applied to:          *)
(*   Shape "fresh-graft"   every application parses anew (fresh nodes)     *)
(*   Shape "cached-graft"  the rule parses once and grafts the same nodes  *)
(*                         into every tree it is applied to                *)
(* Release(t) hands every node of t to the pools, which blank them.        *)
(*     Disjoint     two live trees share no node                           *)
(*     Intact       a live tree reaches no blanked node                    *)
(* Every history (parse / apply / release over two trees and two rules)    *)
(* is printed; the driver replays it on real trees and compares each live  *)
(* tree after every step with the text the model says it stands for.       *)
(***************************************************************************)
EXTENDS Integers, Sequences, FiniteSets, TLC, Json

CONSTANTS Shape, Emit, MaxSteps

Trees == {1, 2}
Rules == {"where-from-sql", "join-from-sql"}
VARIABLES life,      \* [Trees -> "none" | "live" | "released"]
          base,      \* [Trees -> node id of the parsed statement (0 before)]
          grafts,    \* [Trees -> sequence of <<rule, node>>, in the order received]
          next,      \* next fresh node id
          cache,     \* [Rules -> node id or 0]: what a cached-graft rule parsed once
          blank,     \* set of node ids handed to the pools
          hist
svars == <<life, base, grafts, next, cache, blank, hist>>
Live(t) == life[t] = "live"
Nodes(t) == IF Live(t) THEN {base[t]} \cup {grafts[t][i][2] : i \in DOMAIN grafts[t]} ELSE {}

SInit == /\ life = [t \in Trees |-> "none"] /\ base = [t \in Trees |-> 0] /\ grafts = [t \in Trees |-> <<>>]
         /\ next = 1 /\ cache = [r \in Rules |-> 0] /\ blank = {} /\ hist = <<>>
Parse(t) == /\ life[t] = "none" /\ Len(hist) < MaxSteps
            /\ life' = [life EXCEPT ![t] = "live"] /\ base' = [base EXCEPT ![t] = next] /\ next' = next + 1
            /\ hist' = Append(hist, <<"parse", t, "">>) /\ UNCHANGED <<grafts, cache, blank>>
Apply(t, r) ==
    /\ Live(t) /\ Len(hist) < MaxSteps /\ Len(grafts[t]) < 2
    /\ LET reuse == Shape = "cached-graft" /\ cache[r] # 0
           n == IF reuse THEN cache[r] ELSE next IN
       /\ grafts' = [grafts EXCEPT ![t] = Append(@, <<r, n>>)]
       /\ next' = IF reuse THEN next ELSE next + 1
       /\ cache' = IF Shape = "cached-graft" THEN [cache EXCEPT ![r] = n] ELSE cache
    /\ hist' = Append(hist, <<"apply", t, r>>) /\ UNCHANGED <<life, base, blank>>
Release(t) == /\ Live(t) /\ Len(hist) < MaxSteps
              /\ blank' = blank \cup Nodes(t) /\ life' = [life EXCEPT ![t] = "released"]
              /\ hist' = Append(hist, <<"release", t, "">>) /\ UNCHANGED <<base, grafts, next, cache>>
Report == /\ Len(hist) = MaxSteps \/ (\A t \in Trees : life[t] = "released")
          /\ hist # <<>> /\ hist[Len(hist)][1] # "report"
          /\ (Emit => PrintT(ToJson([hist |-> hist])))
          /\ hist' = Append(hist, <<"report", 0, "">>) /\ UNCHANGED <<life, base, grafts, next, cache, blank>>
SNext == (\E t \in Trees : Parse(t) \/ Release(t) \/ \E r \in Rules : Apply(t, r)) \/ Report
SpecShare == SInit /\ [][SNext]_svars
Disjoint == \A a, b \in Trees : a # b => Nodes(a) \cap Nodes(b) = {}
Intact == \A t \in Trees : Nodes(t) \cap blank = {}
=============================================================================
