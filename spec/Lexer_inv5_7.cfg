SPECIFICATION Spec
CONSTANTS
  Alphabet = {"^","sp","L","sq","nl"}
  MaxLen = 7
  Emit = TRUE
INVARIANTS TypeOK ExactlyOneEOF NoTokensWithError SourceOrder CommentOrder NothingDropped
