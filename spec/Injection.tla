------------------------------ MODULE Injection ------------------------------
(***************************************************************************)
(* The tree-based injection scan (security.Scanner.Scan) as a function of  *)
(* WHERE a payload stands in a statement (C16).                            *)
(*                                                                         *)
(* A case is a payload (a condition) pushed outwards through               *)
(*   expression steps   and/or operands, NOT, parentheses, CASE, IN list,  *)
(*                      BETWEEN bound, function argument, CAST, arithmetic *)
(*   a placement        the clause of a statement that takes the condition *)
(*                      (WHERE of SELECT/UPDATE/DELETE, HAVING, JOIN ON,   *)
(*                      select item, ORDER BY, INSERT value, UPDATE SET)   *)
(*   nesting steps      the statement placed as sub-query (IN, EXISTS,     *)
(*                      scalar), derived table, joined derived table, CTE  *)
(*                      body, INSERT ... SELECT, either arm of a UNION     *)
(* The scanner visits a set of positions.  Shape = "closed": every         *)
(* position (what C16 demands).  Shape = "pinned": what the pinned code    *)
(* visits - WHERE/HAVING/select items of a TOP-LEVEL statement, recursing  *)
(* only through binary, unary and call nodes.                              *)
(*     ContextClosed   the payload's finding is reported at every position *)
(*     Threshold       raising the minimum severity removes exactly the    *)
(*                     findings below it                                   *)
(*     CountsMatch     total and per-severity counts equal the findings    *)
(* Every case is printed with the payload's documented class and severity; *)
(* the driver renders it, scans the real tree with all four thresholds     *)
(* and compares with the scan of the payload as a top-level WHERE          *)
(* condition.                                                              *)
(***************************************************************************)
EXTENDS Integers, Sequences, FiniteSets, TLC, Json

CONSTANTS MaxExpr, MaxNest, Shape, Emit

\* same-literal comparisons include the ones whose literal text is empty or zero (what a value-less literal would also look like)
CondPayloads == {"taut-num", "taut-str", "taut-ident", "taut-empty-str", "taut-zero", "sleep", "pg_sleep", "benchmark", "load_file", "xp_cmdshell"}
\* UNION probing is a whole statement: it has no expression steps and no placement, only nesting
StmtPayloads == {"union-null", "union-system", "union-null-system"}     \* the last one is both: two documented findings
Payloads == CondPayloads \cup StmtPayloads
Doc(p) == CASE p \in {"taut-num", "taut-str", "taut-ident", "taut-empty-str", "taut-zero"} -> [class |-> "TAUTOLOGY", sev |-> "CRITICAL"]
            [] p \in {"sleep", "pg_sleep", "benchmark"} -> [class |-> "TIME_BASED", sev |-> "HIGH"]
            [] p = "union-null" -> [class |-> "UNION_BASED", sev |-> "HIGH"]
            [] p \in {"union-system", "union-null-system"} -> [class |-> "UNION_BASED", sev |-> "CRITICAL"]
            [] OTHER -> [class |-> "OUT_OF_BAND", sev |-> "CRITICAL"]
\* further documented findings of a payload (the NULL-column probe inside the system-table probe)
Also(p) == IF p = "union-null-system" THEN {[class |-> "UNION_BASED", sev |-> "HIGH"]} ELSE {}
Docs(p) == {Doc(p)} \cup Also(p)
ExprSteps == {"and-left", "and-right", "or-left", "or-right", "not", "paren", "case-when", "in-list", "between", "func-arg", "cast", "arith",
              "case-first-when", "func-first-arg", "in-list-first",   \* not the last element of a list
              \* operator chains are parsed by iteration and are as deep as they are long: the condition as the left-most (deepest)
              \* leaf of a chain of 300 conjuncts, and as the conjunct that follows a parenthesised chain of 300 disjuncts
              "long-chain-leftmost", "after-long-chain"}
Placements == {"where", "having", "join-on", "update-where", "delete-where", "select-item", "order-by", "insert-value", "update-set", "group-by",
               \* the payload in an element that is not the last of its list
               "join-on-first", "join-on-middle", "select-first-item", "order-by-first", "insert-first-row", "update-first-set", "group-by-first"}
NestSteps == {"in-subquery", "exists", "scalar", "derived", "join-derived", "cte", "insert-select", "union-right", "union-left"}
\* only queries can be nested
QueryPlacement(pl) == pl \in {"where", "having", "join-on", "select-item", "order-by", "group-by", "join-on-first", "join-on-middle",
                                "select-first-item", "order-by-first", "group-by-first"}
Sev == [LOW |-> 1, MEDIUM |-> 2, HIGH |-> 3, CRITICAL |-> 4]
Thresholds == {"LOW", "MEDIUM", "HIGH", "CRITICAL"}

\* ScriptLaw (checked by the driver on the real scanner): a tree holds a sequence of statements; its findings are the
\* findings of the statements one after the other, and every count is the count of that list.  Each case is also placed
\* first, in the middle and twice in a script of up to three statements.
RECURSIVE ScriptFindings(_)
ScriptFindings(perStatement) == IF perStatement = <<>> THEN <<>> ELSE Head(perStatement) \o ScriptFindings(Tail(perStatement))

VARIABLES payload, exprs, place, nests, threshold, findings, pc
vars == <<payload, exprs, place, nests, threshold, findings, pc>>

SeqsUpTo(S, n) == UNION {[1..k -> S] : k \in 0..n}
Init == /\ payload \in Payloads
        /\ exprs \in SeqsUpTo(ExprSteps, MaxExpr) /\ place \in Placements \cup {"statement"} /\ nests \in SeqsUpTo(NestSteps, MaxNest)
        /\ (Len(nests) > 0 => QueryPlacement(place) \/ place = "statement")
        /\ (payload \in StmtPayloads <=> place = "statement") /\ (payload \in StmtPayloads => exprs = <<>>)
        /\ threshold \in Thresholds /\ findings = {} /\ pc = "scan"

\* what the pinned scanner reaches (transcribed from scanStatement / scanExpression at the pinned commit)
PinnedVisits == /\ nests = <<>>
                /\ place \in {"where", "having", "update-where", "delete-where", "statement"}
                /\ \A i \in 1..Len(exprs) : exprs[i] \in {"and-left", "and-right", "or-left", "or-right", "not", "paren"}
Visits == Shape \in {"closed", "early-return"} \/ PinnedVisits

Scan == /\ pc = "scan" /\ pc' = "done"
        \* Shape "early-return": a detector that stops at the first finding the threshold filters out never
        \* reaches the graver finding behind it
        /\ findings' = IF ~Visits THEN {}
                       ELSE IF Shape = "early-return" /\ \E f \in Also(payload) : Sev[f.sev] < Sev[threshold] THEN {}
                       ELSE {f \in Docs(payload) : Sev[f.sev] >= Sev[threshold]}
        /\ (Emit /\ threshold = "LOW" => PrintT(ToJson([payload |-> payload, exprs |-> exprs, place |-> place, nests |-> nests,
                                                         class |-> Doc(payload).class, sev |-> Doc(payload).sev])))
        /\ UNCHANGED <<payload, exprs, place, nests, threshold>>
Spec == Init /\ [][Scan]_vars

ContextClosed == pc = "done" => \A f \in Docs(payload) : Sev[f.sev] >= Sev[threshold] => f \in findings
Threshold == pc = "done" => \A f \in findings : Sev[f.sev] >= Sev[threshold]
CountsMatch == pc = "done" => Cardinality(findings) = Cardinality({f \in findings : f.sev \in Thresholds})
=============================================================================
