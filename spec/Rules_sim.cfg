SPECIFICATION Spec
CONSTANTS
  MaxSteps = 12
  Emit = TRUE
INVARIANTS LimitsNonNegative
