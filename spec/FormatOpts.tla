----------------------------- MODULE FormatOpts -----------------------------
(***************************************************************************)
(* The option lattices of the five serialisers of property C06.  In the    *)
(* model a serialiser is  Layout(opts) o Render : the options only choose  *)
(* letter case of keywords, blanks, line breaks and a final semicolon, so  *)
(* the token sequence - hence the tree (Grammar!RoundTrip) - cannot depend *)
(* on them.  TLC enumerates every option set; the driver applies each real *)
(* serialiser under each of them.                                          *)
(***************************************************************************)
EXTENDS Integers, Sequences, TLC, Json

ASTFormat  == [ser : {"AST.Format"}, case : {"preserve", "upper", "lower"}, tabs : BOOLEAN, width : {-2, 0, 2, 4},
               perClause : BOOLEAN, semicolon : BOOLEAN, lineWidth : {0, 80}]
GosqlxFmt  == [ser : {"gosqlx.Format"}, indent : {-2, 0, 2, 4}, upper : BOOLEAN, semicolon : BOOLEAN, limit : {0, 80}]
PkgFmt     == [ser : {"formatter.Format"}, indent : {-2, 0, 2, 4}, upper : BOOLEAN, compact : BOOLEAN]
CliFmt     == [ser : {"cli.SQLFormatter"}, indent : {"  ", "\t", "    "}, compact : BOOLEAN, upper : BOOLEAN, align : BOOLEAN]
Plain      == [ser : {"AST.SQL"}]
All == ASTFormat \cup GosqlxFmt \cup PkgFmt \cup CliFmt \cup Plain

VARIABLES o, done
Init == o \in All /\ done = FALSE
Run == ~done /\ done' = TRUE /\ UNCHANGED o /\ PrintT(ToJson(o))
Spec == Init /\ [][Run]_<<o, done>>

\* what a layout may change in a token sequence: the case of keyword tokens and a trailing semicolon - nothing else
Keyword(t) == t \in {"SELECT", "FROM", "WHERE", "AND", "OR", "NOT"}
Lower(t) == CASE t = "SELECT" -> "select" [] t = "FROM" -> "from" [] t = "WHERE" -> "where" [] t = "AND" -> "and"
              [] t = "OR" -> "or" [] t = "NOT" -> "not" [] OTHER -> t
Layout(opts, toks) ==
    LET cased == IF "case" \in DOMAIN opts /\ opts.case = "lower" THEN [i \in DOMAIN toks |-> Lower(toks[i])] ELSE toks
    IN IF "semicolon" \in DOMAIN opts /\ opts.semicolon THEN Append(cased, ";") ELSE cased
Sample == <<"SELECT", "a", "FROM", "t", "WHERE", "NOT", "a">>
Fold(toks) == [i \in DOMAIN toks |-> IF toks[i] \in {"select", "from", "where", "and", "or", "not"}
                                     THEN CHOOSE k \in {"SELECT", "FROM", "WHERE", "AND", "OR", "NOT"} : Lower(k) = toks[i] ELSE toks[i]]
StripSemi(toks) == IF toks # <<>> /\ toks[Len(toks)] = ";" THEN SubSeq(toks, 1, Len(toks) - 1) ELSE toks
OptionsCannotChangeTokens == Fold(StripSemi(Layout(o, Sample))) = Sample
=============================================================================
