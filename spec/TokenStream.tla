----------------------------- MODULE TokenStream -----------------------------
(***************************************************************************)
(* The low-level parser's view of its input: a token slice handed in by    *)
(* the caller - possibly empty, possibly without the end marker, possibly  *)
(* with type-less tokens - read through a cursor (currentPos) and a cached *)
(* current token (currentToken).                                           *)
(*                                                                         *)
(* advance() increments the cursor and refreshes the cached token only     *)
(* while the cursor is inside the slice.  Shape = "stale" is the pinned    *)
(* code: past the end the cached token keeps its last value.  Shape =      *)
(* "eof": past the end the cached token reads as the end marker.           *)
(* "late-eof" (the repaired code): one step past the end the cached token  *)
(* keeps its value - tests of the repository rely on that - and from the   *)
(* second step on it reads as the end marker.                              *)
(*                                                                         *)
(* The program is the parser's recurring loop shape                        *)
(*     for !isType(stop) && !isType(EOF) { advance() }                     *)
(* (skip to a closing token) inside the statement loop                     *)
(*     for currentPos < len(tokens) && !isType(EOF) { ... }                *)
(* Properties (C01): InBounds - the slice is never indexed outside its     *)
(* bounds; Terminates - every call returns, for EVERY token slice.  With   *)
(* the stale shape a slice without end marker never leaves the inner loop. *)
(* Every slice is printed; the driver spells the kinds as real tokens and  *)
(* feeds them to every token-level entry point in child processes.         *)
(***************************************************************************)
EXTENDS Integers, Sequences, FiniteSets, TLC, Json

CONSTANTS Kinds, MaxLen, Shape, Emit

Slices == UNION {[1..n -> Kinds] : n \in 0..MaxLen}

VARIABLES toks, pos, cur, pc, reads
vars == <<toks, pos, cur, pc, reads>>

\* Parse(tokens): currentPos = 0; currentToken = tokens[0] if there is one (else whatever it was: the zero token)
Init == /\ toks \in Slices
        /\ pos = 0 /\ cur = (IF Len(toks) > 0 THEN toks[1] ELSE "zero")
        /\ pc = "loop" /\ reads = {}

Advance == /\ pos' = pos + 1
           /\ IF pos + 1 < Len(toks)
              THEN cur' = toks[pos + 2] /\ reads' = reads \cup {pos + 1}
              ELSE cur' = (CASE Shape = "eof" -> "EOF"
                             [] Shape = "late-eof" -> (IF pos + 1 > Len(toks) THEN "EOF" ELSE cur)
                             [] OTHER -> cur) /\ reads' = reads

\* statement loop: one statement = skip to the closing token, then step over it
StmtLoop == /\ pc = "loop"
            /\ IF pos < Len(toks) /\ cur # "EOF" THEN pc' = "skip" ELSE pc' = "done"
            /\ UNCHANGED <<toks, pos, cur, reads>>
Skip == /\ pc = "skip"
        /\ IF cur # "rparen" /\ cur # "EOF"
           THEN Advance /\ pc' = "skip"
           ELSE Advance /\ pc' = "loop"
        /\ UNCHANGED toks
Report == /\ pc = "done" /\ pc' = "reported"
          /\ (Emit => PrintT(ToJson([toks |-> toks])))
          /\ UNCHANGED <<toks, pos, cur, reads>>
Next == StmtLoop \/ Skip \/ Report
Spec == Init /\ [][Next]_vars /\ WF_vars(Next)

InBounds == reads \subseteq 0..(Len(toks) - 1)
Terminates == <>(pc = "reported")
\* the cursor never runs away: it stops at most one step past the end per statement
CursorBounded == pos <= 2 * Len(toks) + 1
=============================================================================
