SPECIFICATION Spec
CONSTANTS
  MaxIn = 4
  MaxTok = 3
  Emit = TRUE
INVARIANTS AtLimitAccepted OverLimitRejected SizeBeforeTokens
PROPERTIES Terminates
