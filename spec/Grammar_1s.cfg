SPECIFICATION Spec
CONSTANTS
  MaxOps = 1
  OpSet = "all"
  Atoms = "shifted"
  Emit = TRUE
INVARIANTS RoundTrip ParenOnlyAdds
