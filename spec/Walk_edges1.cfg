SPECIFICATION Spec
CONSTANTS
  Machine = "edges"
  N = 1
  Depth = 1
  Emit = TRUE
  Shape = "ideal"
INVARIANTS EdgeReached PathWellFormed
