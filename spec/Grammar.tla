------------------------------ MODULE Grammar ------------------------------
(***************************************************************************)
(* The expression grammar of GoSQLX as a model: abstract syntax trees      *)
(* (records carrying the Go type and field names of pkg/sql/ast, zero      *)
(* fields omitted), the operator ladder, a reference serialiser Render     *)
(* (minimal parentheses, optionally redundant ones) and a reference        *)
(* parser RefParse (one operator per precedence level, like the            *)
(* implementation's one function per level).                               *)
(*                                                                         *)
(* Ladder (higher binds tighter); in brackets the lowest level each        *)
(* operand slot accepts without parentheses:                               *)
(*   1  OR                      left-assoc   [1 , 2]                       *)
(*   2  AND                     left-assoc   [2 , 3]                       *)
(*   3  NOT x                   prefix       [4]                           *)
(*   4  = <> < >=               non-assoc    [5 , 5]                       *)
(*      x IS [NOT] NULL [5], x [NOT] BETWEEN l AND u [5,5,5],              *)
(*      x [NOT] IN (list) [5; any], x [NOT] LIKE p [5 , 5]                 *)
(*   5  ||                      left-assoc   [5 , 6]                       *)
(*   6  + -                     left-assoc   [6 , 7]                       *)
(*   7  * / %                   left-assoc   [7 , 8]      -x  prefix [8]   *)
(*   8  -> ->>  x::type         left-assoc   [8 , 9]                       *)
(*   9  identifiers, literals, f(args), CASE, ( expr )                     *)
(* TLC checks RoundTrip (RefParse(Render(t)) = t for the minimal, the full *)
(* and every single redundant parenthesisation) on every tree it           *)
(* enumerates and prints each tree with its renderings; the driver feeds   *)
(* the renderings to the real parser and compares the projected real tree  *)
(* with the model tree.                                                    *)
(***************************************************************************)
EXTENDS Integers, Sequences, FiniteSets, TLC, Json

CONSTANTS MaxOps,      \* operator nodes per tree (exactly)
          OpSet,       \* "all" or "core": which operator classes are used
          Atoms,       \* "simple": identifiers and literals; "shifted": the same starting with a literal;
                       \* "rich": also sub-query, EXISTS, array subscript, interval
          Emit

\* ---- abstract syntax ----------------------------------------------------------------
Id(n)        == [T |-> "Identifier", Name |-> n]
QId(t, n)    == [T |-> "Identifier", Table |-> t, Name |-> n]
Lit(v, ty)   == [T |-> "LiteralValue", Value |-> v, Type |-> ty]
NullLit      == [T |-> "LiteralValue", Type |-> "null"]
Bin(l, o, r) == [T |-> "BinaryExpression", Left |-> l, Operator |-> o, Right |-> r]
NBin(l, o, r) == [T |-> "BinaryExpression", Left |-> l, Operator |-> o, Right |-> r, Not |-> TRUE]
IsNull(e)    == [T |-> "BinaryExpression", Left |-> e, Operator |-> "IS NULL", Right |-> NullLit]
IsNotNull(e) == [T |-> "BinaryExpression", Left |-> e, Operator |-> "IS NULL", Right |-> NullLit, Not |-> TRUE]
NotE(e)      == [T |-> "UnaryExpression", Operator |-> "Not", Expr |-> e]     \* operator kinds by constant name
Neg(e)       == [T |-> "UnaryExpression", Operator |-> "Minus", Expr |-> e]
Btw(e, l, u) == [T |-> "BetweenExpression", Expr |-> e, Lower |-> l, Upper |-> u]
NBtw(e, l, u) == [T |-> "BetweenExpression", Expr |-> e, Lower |-> l, Upper |-> u, Not |-> TRUE]
InL(e, xs)   == [T |-> "InExpression", Expr |-> e, List |-> xs]
NInL(e, xs)  == [T |-> "InExpression", Expr |-> e, List |-> xs, Not |-> TRUE]
CastE(e, ty) == [T |-> "CastExpression", Expr |-> e, Type |-> ty]
Fn(n, xs)    == [T |-> "FunctionCall", Name |-> n, Arguments |-> xs]
CaseE(c, r, el) == [T |-> "CaseExpression", WhenClauses |-> <<[T |-> "WhenClause", Condition |-> c, Result |-> r]>>, ElseClause |-> el]
Hole         == [T |-> "Hole"]

HasNot(t) == "Not" \in DOMAIN t
\* operands that are not operator nodes of the ladder (they parse as primaries)
SubSel == [T |-> "SelectStatement", Columns |-> <<Id("b")>>, From |-> <<[T |-> "TableReference", Name |-> "u"]>>, TableName |-> "u"]
SubQ   == [T |-> "SubqueryExpression", Subquery |-> SubSel]
ExistsQ == [T |-> "ExistsExpression", Subquery |-> SubSel]
ArrSub == [T |-> "ArraySubscriptExpression", Array |-> Id("a"), Indices |-> <<Lit("1", "int")>>]
Itv    == [T |-> "IntervalExpression", Value |-> "1 day"]
AtomTypes == {"Identifier", "LiteralValue", "SubqueryExpression", "ExistsExpression", "ArraySubscriptExpression", "IntervalExpression"}
IsAtom(t) == t.T \in AtomTypes

\* the atoms that fill the leaves of a shape, left to right (distinct, so that a swap is visible)
AtomAt(k) == IF Atoms = "rich" /\ k % 2 = 0
             THEN (CASE (k \div 2) % 4 = 1 -> SubQ [] (k \div 2) % 4 = 2 -> ArrSub [] (k \div 2) % 4 = 3 -> ExistsQ [] OTHER -> Itv)
             ELSE
             \* "shifted": the rotation starts one place later, so that the FIRST leaf is a literal
             LET j == IF Atoms = "shifted" THEN k + 1 ELSE k IN
             CASE j % 7 = 1 -> Id("a") [] j % 7 = 2 -> Lit("1", "int") [] j % 7 = 3 -> Id("b")
               [] j % 7 = 4 -> Lit("x", "string") [] j % 7 = 5 -> QId("t", "c") [] j % 7 = 6 -> Lit("2.5", "float")
               [] OTHER -> Id("d")

\* ---- operator classes -----------------------------------------------------------------------
BinOps == IF OpSet = "all" THEN {"OR", "AND", "=", "<>", "<", ">=", "||", "+", "-", "*", "/", "%", "->", "->>"}
          ELSE {"OR", "AND", "=", "||", "+", "*", "->"}
UnOps  == IF OpSet = "all" THEN {"NOT", "NEG", "ISNULL", "ISNOTNULL", "CAST"} ELSE {"NOT", "NEG", "ISNOTNULL", "CAST"}
MixOps == IF OpSet = "all" THEN {"BETWEEN", "NOTBETWEEN", "IN", "NOTIN", "LIKE", "NOTLIKE", "FUNC", "CASE"}
          ELSE {"NOTBETWEEN", "IN", "LIKE", "FUNC"}

LevelOfBin(o) == CASE o = "OR" -> 1 [] o = "AND" -> 2 [] o \in {"=", "<>", "<", "<=", ">", ">="} -> 4
                   [] o = "||" -> 5 [] o \in {"+", "-"} -> 6 [] o \in {"*", "/", "%"} -> 7 [] OTHER -> 8

Un(o, t) == CASE o = "NOT" -> NotE(t) [] o = "NEG" -> Neg(t) [] o = "ISNULL" -> IsNull(t)
              [] o = "ISNOTNULL" -> IsNotNull(t) [] o = "CAST" -> CastE(t, "int")
\* the further operands of these forms are leaves
Mix(o, t) == CASE o = "BETWEEN" -> Btw(t, Hole, Hole) [] o = "NOTBETWEEN" -> NBtw(t, Hole, Hole)
               [] o = "IN" -> InL(t, <<Hole, Hole>>) [] o = "NOTIN" -> NInL(t, <<Hole>>)
               [] o = "LIKE" -> Bin(t, "LIKE", Hole) [] o = "NOTLIKE" -> NBin(t, "LIKE", Hole)
               [] o = "FUNC" -> Fn("f", <<t, Hole>>) [] o = "CASE" -> CaseE(t, Hole, Hole)

\* all shapes with exactly n operator nodes
RECURSIVE Shapes(_)
Shapes(n) ==
    IF n = 0 THEN {Hole}
    ELSE {Un(o, t) : o \in UnOps, t \in Shapes(n - 1)}
         \cup {Mix(o, t) : o \in MixOps, t \in Shapes(n - 1)}
         \cup UNION {{Bin(l, o, r) : o \in BinOps, l \in Shapes(k), r \in Shapes(n - 1 - k)} : k \in 0..(n - 1)}

\* ---- filling the holes ----------------------------------------------------------------------------
RECURSIVE NH(_), Fill(_, _)
SeqNH(xs) == IF xs = <<>> THEN 0 ELSE NH(xs[1]) + (IF Len(xs) > 1 THEN NH(xs[2]) ELSE 0)
NH(t) == CASE t.T = "Hole" -> 1
           [] IsAtom(t) -> 0
           [] t.T = "BinaryExpression" -> NH(t.Left) + NH(t.Right)
           [] t.T \in {"UnaryExpression", "CastExpression"} -> NH(t.Expr)
           [] t.T = "BetweenExpression" -> NH(t.Expr) + NH(t.Lower) + NH(t.Upper)
           [] t.T = "InExpression" -> NH(t.Expr) + SeqNH(t.List)
           [] t.T = "FunctionCall" -> SeqNH(t.Arguments)
           [] t.T = "CaseExpression" -> NH(t.WhenClauses[1].Condition) + NH(t.WhenClauses[1].Result) + NH(t.ElseClause)
FillSeq(xs, k) == IF Len(xs) = 1 THEN <<Fill(xs[1], k)>> ELSE <<Fill(xs[1], k), Fill(xs[2], k + NH(xs[1]))>>
Fill(t, k) ==
    CASE t.T = "Hole" -> AtomAt(k)
      [] IsAtom(t) -> t
      [] t.T = "BinaryExpression" -> [t EXCEPT !.Left = Fill(t.Left, k), !.Right = Fill(t.Right, k + NH(t.Left))]
      [] t.T \in {"UnaryExpression", "CastExpression"} -> [t EXCEPT !.Expr = Fill(t.Expr, k)]
      [] t.T = "BetweenExpression" -> [t EXCEPT !.Expr = Fill(t.Expr, k), !.Lower = Fill(t.Lower, k + NH(t.Expr)),
                                                 !.Upper = Fill(t.Upper, k + NH(t.Expr) + NH(t.Lower))]
      [] t.T = "InExpression" -> [t EXCEPT !.Expr = Fill(t.Expr, k), !.List = FillSeq(t.List, k + NH(t.Expr))]
      [] t.T = "FunctionCall" -> [t EXCEPT !.Arguments = FillSeq(t.Arguments, k)]
      [] t.T = "CaseExpression" ->
            LET w == t.WhenClauses[1] IN
            [t EXCEPT !.WhenClauses = <<[w EXCEPT !.Condition = Fill(w.Condition, k), !.Result = Fill(w.Result, k + NH(w.Condition))]>>,
                      !.ElseClause = Fill(t.ElseClause, k + NH(w.Condition) + NH(w.Result))]

\* ---- levels ------------------------------------------------------------------------------------------
IsIsNull(t) == t.T = "BinaryExpression" /\ t.Operator = "IS NULL"
IsLike(t)   == t.T = "BinaryExpression" /\ t.Operator = "LIKE"
Level(t) == CASE t.T = "BinaryExpression" -> (IF IsIsNull(t) \/ IsLike(t) THEN 4 ELSE LevelOfBin(t.Operator))
              [] t.T = "UnaryExpression" -> (IF t.Operator = "Not" THEN 3 ELSE 7)
              [] t.T \in {"BetweenExpression", "InExpression"} -> 4
              [] t.T = "CastExpression" -> 8
              [] OTHER -> 9

\* ---- reference serialiser ------------------------------------------------------------------------------
\* mode: 0 = parentheses only where the ladder requires, -1 = around every operator node,
\* k >= 1 = additionally around the k-th operator node in pre-order, -2 = around every atom (operand) only
RECURSIVE R(_, _, _, _), NOps(_)
NOps(t) == CASE IsAtom(t) -> 0
             [] t.T = "BinaryExpression" -> 1 + NOps(t.Left) + (IF IsIsNull(t) THEN 0 ELSE NOps(t.Right))
             [] t.T \in {"UnaryExpression", "CastExpression"} -> 1 + NOps(t.Expr)
             [] t.T = "BetweenExpression" -> 1 + NOps(t.Expr) + NOps(t.Lower) + NOps(t.Upper)
             [] t.T = "InExpression" -> 1 + NOps(t.Expr) + NOps(t.List[1]) + (IF Len(t.List) > 1 THEN NOps(t.List[2]) ELSE 0)
             [] t.T = "FunctionCall" -> 1 + NOps(t.Arguments[1]) + (IF Len(t.Arguments) > 1 THEN NOps(t.Arguments[2]) ELSE 0)
             [] t.T = "CaseExpression" -> 1 + NOps(t.WhenClauses[1].Condition) + NOps(t.WhenClauses[1].Result) + NOps(t.ElseClause)

SubToks == <<"SELECT", "b", "FROM", "u">>
AtomToks(t) == IF t.T = "SubqueryExpression" THEN <<"(">> \o SubToks \o <<")">>
               ELSE IF t.T = "ExistsExpression" THEN <<"EXISTS", "(">> \o SubToks \o <<")">>
               ELSE IF t.T = "ArraySubscriptExpression" THEN <<"a", "[", "1", "]">>
               ELSE IF t.T = "IntervalExpression" THEN <<"INTERVAL", "'1 day'">>
               ELSE IF t.T = "Identifier" THEN (IF "Table" \in DOMAIN t THEN <<t.Table, ".", t.Name>> ELSE <<t.Name>>)
               ELSE IF t.Type = "null" THEN <<"NULL">>
               ELSE IF t.Type = "string" THEN <<"'" \o t.Value \o "'">>
               ELSE <<t.Value>>

\* R(t, need, mode, idx): tokens of t in a slot that requires level >= need; idx = pre-order index of t's root
Wrap(ts) == <<"(">> \o ts \o <<")">>
R(t, need, mode, idx) ==
    IF IsAtom(t) THEN (IF mode = -2 THEN Wrap(AtomToks(t)) ELSE AtomToks(t))
    ELSE
    LET body ==
        CASE t.T = "BinaryExpression" /\ IsIsNull(t) ->
                R(t.Left, 5, mode, idx + 1) \o (IF HasNot(t) THEN <<"IS", "NOT", "NULL">> ELSE <<"IS", "NULL">>)
          [] t.T = "BinaryExpression" /\ IsLike(t) ->
                R(t.Left, 5, mode, idx + 1) \o (IF HasNot(t) THEN <<"NOT", "LIKE">> ELSE <<"LIKE">>)
                   \o R(t.Right, 5, mode, idx + 1 + NOps(t.Left))
          [] t.T = "BinaryExpression" ->
                LET lv == LevelOfBin(t.Operator)
                    ln == IF lv = 4 THEN 5 ELSE lv
                    rn == IF lv = 4 THEN 5 ELSE lv + 1 IN
                R(t.Left, ln, mode, idx + 1) \o <<t.Operator>> \o R(t.Right, rn, mode, idx + 1 + NOps(t.Left))
          [] t.T = "UnaryExpression" ->
                IF t.Operator = "Not" THEN <<"NOT">> \o R(t.Expr, 4, mode, idx + 1) ELSE <<"-">> \o R(t.Expr, 8, mode, idx + 1)
          [] t.T = "CastExpression" -> R(t.Expr, 8, mode, idx + 1) \o <<"::", t.Type>>
          [] t.T = "BetweenExpression" ->
                R(t.Expr, 5, mode, idx + 1) \o (IF HasNot(t) THEN <<"NOT", "BETWEEN">> ELSE <<"BETWEEN">>)
                   \o R(t.Lower, 5, mode, idx + 1 + NOps(t.Expr)) \o <<"AND">>
                   \o R(t.Upper, 5, mode, idx + 1 + NOps(t.Expr) + NOps(t.Lower))
          [] t.T = "InExpression" ->
                R(t.Expr, 5, mode, idx + 1) \o (IF HasNot(t) THEN <<"NOT", "IN", "(">> ELSE <<"IN", "(">>)
                   \o R(t.List[1], 1, mode, idx + 1 + NOps(t.Expr))
                   \o (IF Len(t.List) > 1 THEN <<",">> \o R(t.List[2], 1, mode, idx + 1 + NOps(t.Expr) + NOps(t.List[1])) ELSE <<>>)
                   \o <<")">>
          [] t.T = "FunctionCall" ->
                <<t.Name, "(">> \o R(t.Arguments[1], 1, mode, idx + 1)
                   \o (IF Len(t.Arguments) > 1 THEN <<",">> \o R(t.Arguments[2], 1, mode, idx + 1 + NOps(t.Arguments[1])) ELSE <<>>)
                   \o <<")">>
          [] t.T = "CaseExpression" ->
                LET w == t.WhenClauses[1] IN
                <<"CASE", "WHEN">> \o R(w.Condition, 1, mode, idx + 1) \o <<"THEN">> \o R(w.Result, 1, mode, idx + 1 + NOps(w.Condition))
                   \o <<"ELSE">> \o R(t.ElseClause, 1, mode, idx + 1 + NOps(w.Condition) + NOps(w.Result)) \o <<"END">>
        needed == Level(t) < need
        extra  == mode = -1 \/ mode = idx
    IN IF needed THEN (IF extra THEN Wrap(Wrap(body)) ELSE Wrap(body))
       ELSE IF extra THEN Wrap(body) ELSE body

Render(t, mode) == R(t, 1, mode, 1)

\* ---- reference parser ----------------------------------------------------------------------------------
\* every parse function returns [t |-> tree, r |-> remaining tokens]; a failure is [t |-> "ERR", r |-> ...]
Idents  == {"a", "b", "c", "d", "t", "f"}
Numbers == {"1", "2.5"}
Hd(ts)  == IF ts = <<>> THEN "<eof>" ELSE ts[1]
Err(ts) == [t |-> [T |-> "ERR"], r |-> ts]
Failed(x) == x.t.T = "ERR"
IsStr(tok) == Len(tok) >= 2 /\ SubSeq(tok, 1, 1) = "'"

RECURSIVE POr(_), POrLoop(_, _), PAnd(_), PAndLoop(_, _), PNotLevel(_), PCmp(_), PConcat(_), PConcatLoop(_, _),
          PAdd(_), PAddLoop(_, _), PMul(_), PMulLoop(_, _), PUnary(_), PJson(_), PJsonLoop(_, _), PPrimary(_), PArgs(_, _)

POr(ts) == LET l == PAnd(ts) IN IF Failed(l) THEN l ELSE POrLoop(l.t, l.r)
POrLoop(left, ts) == IF Hd(ts) = "OR" THEN LET r == PAnd(Tail(ts)) IN
                                           IF Failed(r) THEN r ELSE POrLoop(Bin(left, "OR", r.t), r.r)
                     ELSE [t |-> left, r |-> ts]
PAnd(ts) == LET l == PNotLevel(ts) IN IF Failed(l) THEN l ELSE PAndLoop(l.t, l.r)
PAndLoop(left, ts) == IF Hd(ts) = "AND" THEN LET r == PNotLevel(Tail(ts)) IN
                                             IF Failed(r) THEN r ELSE PAndLoop(Bin(left, "AND", r.t), r.r)
                      ELSE [t |-> left, r |-> ts]
PNotLevel(ts) == IF Hd(ts) = "NOT" THEN LET e == PCmp(Tail(ts)) IN IF Failed(e) THEN e ELSE [t |-> NotE(e.t), r |-> e.r]
                 ELSE PCmp(ts)
PCmp(ts) ==
    LET l == PConcat(ts) IN
    IF Failed(l) THEN l ELSE
    LET h == Hd(l.r)
        neg == h = "NOT"
        rest == IF neg THEN Tail(l.r) ELSE l.r
        k == Hd(rest) IN
    IF k = "IS" /\ ~neg
      THEN (IF Hd(Tail(rest)) = "NULL" THEN [t |-> IsNull(l.t), r |-> Tail(Tail(rest))]
            ELSE IF Hd(Tail(rest)) = "NOT" /\ Hd(Tail(Tail(rest))) = "NULL" THEN [t |-> IsNotNull(l.t), r |-> Tail(Tail(Tail(rest)))]
            ELSE Err(rest))
    ELSE IF k = "BETWEEN"
      THEN LET lo == PConcat(Tail(rest)) IN
           IF Failed(lo) \/ Hd(lo.r) # "AND" THEN Err(rest) ELSE
           LET hi == PConcat(Tail(lo.r)) IN
           IF Failed(hi) THEN hi ELSE [t |-> IF neg THEN NBtw(l.t, lo.t, hi.t) ELSE Btw(l.t, lo.t, hi.t), r |-> hi.r]
    ELSE IF k = "LIKE"
      THEN LET p == PConcat(Tail(rest)) IN
           IF Failed(p) THEN p ELSE [t |-> IF neg THEN NBin(l.t, "LIKE", p.t) ELSE Bin(l.t, "LIKE", p.t), r |-> p.r]
    ELSE IF k = "IN"
      THEN IF Hd(Tail(rest)) # "(" THEN Err(rest) ELSE
           LET xs == PArgs(Tail(Tail(rest)), <<>>) IN
           IF Failed(xs) THEN xs ELSE [t |-> IF neg THEN NInL(l.t, xs.t.items) ELSE InL(l.t, xs.t.items), r |-> xs.r]
    ELSE IF neg THEN Err(l.r)
    ELSE IF h \in {"=", "<>", "<", "<=", ">", ">="}
      THEN LET r == PConcat(Tail(l.r)) IN IF Failed(r) THEN r ELSE [t |-> Bin(l.t, h, r.t), r |-> r.r]
    ELSE l
\* a comma separated list of expressions up to ")"
PArgs(ts, acc) == LET e == POr(ts) IN
                  IF Failed(e) THEN e
                  ELSE IF Hd(e.r) = "," THEN PArgs(Tail(e.r), Append(acc, e.t))
                  ELSE IF Hd(e.r) = ")" THEN [t |-> [T |-> "LIST", items |-> Append(acc, e.t)], r |-> Tail(e.r)]
                  ELSE Err(e.r)
PConcat(ts) == LET l == PAdd(ts) IN IF Failed(l) THEN l ELSE PConcatLoop(l.t, l.r)
PConcatLoop(left, ts) == IF Hd(ts) = "||" THEN LET r == PAdd(Tail(ts)) IN
                                               IF Failed(r) THEN r ELSE PConcatLoop(Bin(left, "||", r.t), r.r)
                         ELSE [t |-> left, r |-> ts]
PAdd(ts) == LET l == PMul(ts) IN IF Failed(l) THEN l ELSE PAddLoop(l.t, l.r)
PAddLoop(left, ts) == IF Hd(ts) \in {"+", "-"} THEN LET r == PMul(Tail(ts)) IN
                                                    IF Failed(r) THEN r ELSE PAddLoop(Bin(left, Hd(ts), r.t), r.r)
                      ELSE [t |-> left, r |-> ts]
PMul(ts) == LET l == PUnary(ts) IN IF Failed(l) THEN l ELSE PMulLoop(l.t, l.r)
PMulLoop(left, ts) == IF Hd(ts) \in {"*", "/", "%"} THEN LET r == PUnary(Tail(ts)) IN
                                                         IF Failed(r) THEN r ELSE PMulLoop(Bin(left, Hd(ts), r.t), r.r)
                      ELSE [t |-> left, r |-> ts]
PUnary(ts) == IF Hd(ts) = "-" THEN LET e == PJson(Tail(ts)) IN IF Failed(e) THEN e ELSE [t |-> Neg(e.t), r |-> e.r]
              ELSE PJson(ts)
PJson(ts) == LET l == PPrimary(ts) IN IF Failed(l) THEN l ELSE PJsonLoop(l.t, l.r)
PJsonLoop(left, ts) ==
    IF Hd(ts) = "::" THEN (IF Len(ts) >= 2 THEN PJsonLoop(CastE(left, ts[2]), Tail(Tail(ts))) ELSE Err(ts))
    ELSE IF Hd(ts) \in {"->", "->>"} THEN LET r == PPrimary(Tail(ts)) IN
                                          IF Failed(r) THEN r ELSE PJsonLoop(Bin(left, Hd(ts), r.t), r.r)
    ELSE [t |-> left, r |-> ts]
PPrimary(ts) ==
    LET h == Hd(ts) IN
    IF h = "(" /\ Len(ts) >= 6 /\ SubSeq(ts, 2, 5) = SubToks /\ ts[6] = ")" THEN [t |-> SubQ, r |-> SubSeq(ts, 7, Len(ts))]
    ELSE IF h = "EXISTS" /\ Len(ts) >= 7 /\ ts[2] = "(" /\ SubSeq(ts, 3, 6) = SubToks /\ ts[7] = ")" THEN [t |-> ExistsQ, r |-> SubSeq(ts, 8, Len(ts))]
    ELSE IF h = "INTERVAL" /\ Len(ts) >= 2 /\ ts[2] = "'1 day'" THEN [t |-> Itv, r |-> Tail(Tail(ts))]
    ELSE IF h = "a" /\ Len(ts) >= 4 /\ ts[2] = "[" /\ ts[3] = "1" /\ ts[4] = "]" THEN [t |-> ArrSub, r |-> SubSeq(ts, 5, Len(ts))]
    ELSE IF h = "(" THEN LET e == POr(Tail(ts)) IN
                    IF Failed(e) THEN e ELSE IF Hd(e.r) = ")" THEN [t |-> e.t, r |-> Tail(e.r)] ELSE Err(e.r)
    ELSE IF h = "CASE"
      THEN IF Hd(Tail(ts)) # "WHEN" THEN Err(ts) ELSE
           LET c == POr(Tail(Tail(ts))) IN
           IF Failed(c) \/ Hd(c.r) # "THEN" THEN Err(ts) ELSE
           LET r == POr(Tail(c.r)) IN
           IF Failed(r) \/ Hd(r.r) # "ELSE" THEN Err(ts) ELSE
           LET e == POr(Tail(r.r)) IN
           IF Failed(e) \/ Hd(e.r) # "END" THEN Err(ts) ELSE [t |-> CaseE(c.t, r.t, e.t), r |-> Tail(e.r)]
    ELSE IF h = "CAST"        \* the function form of a cast, CAST ( x AS type ): the serialisers print casts this way
      THEN IF Hd(Tail(ts)) # "(" THEN Err(ts) ELSE
           LET e == POr(Tail(Tail(ts))) IN
           IF Failed(e) \/ Hd(e.r) # "AS" \/ Len(e.r) < 3 \/ e.r[3] # ")" THEN Err(ts)
           ELSE [t |-> CastE(e.t, e.r[2]), r |-> Tail(Tail(Tail(e.r)))]
    ELSE IF h = "NULL" THEN [t |-> NullLit, r |-> Tail(ts)]
    ELSE IF h \in Numbers THEN [t |-> Lit(h, IF h = "2.5" THEN "float" ELSE "int"), r |-> Tail(ts)]
    ELSE IF h # "<eof>" /\ IsStr(h) THEN [t |-> Lit(SubSeq(h, 2, Len(h) - 1), "string"), r |-> Tail(ts)]
    ELSE IF h \in Idents
      THEN IF Hd(Tail(ts)) = "(" THEN LET xs == PArgs(Tail(Tail(ts)), <<>>) IN
                                      IF Failed(xs) THEN xs ELSE [t |-> Fn(h, xs.t.items), r |-> xs.r]
           ELSE IF Hd(Tail(ts)) = "." /\ Len(ts) >= 3 /\ ts[3] \in Idents THEN [t |-> QId(h, ts[3]), r |-> Tail(Tail(Tail(ts)))]
           ELSE [t |-> Id(h), r |-> Tail(ts)]
    ELSE Err(ts)

RefParse(ts) == LET x == POr(ts) IN IF Failed(x) \/ x.r # <<>> THEN [T |-> "ERR"] ELSE x.t

\* ---- the enumeration as a state machine: one state per tree ---------------------------------------------------
\* ---- expression slots: where an expression can stand in a statement, and the statement tree around it ----------
TRef(n) == [T |-> "TableReference", Name |-> n]
SelT == [T |-> "SelectStatement", Columns |-> <<Id("x")>>, From |-> <<TRef("t")>>, TableName |-> "t"]
Slots == {"select-item", "where", "having", "join-on", "group-by", "order-by", "func-arg", "case-then", "in-list", "update-set", "delete-where", "insert-value"}
SlotPre(s) == CASE s = "select-item" -> <<"SELECT">>
                [] s = "where" -> <<"SELECT", "x", "FROM", "t", "WHERE">>
                [] s = "having" -> <<"SELECT", "x", "FROM", "t", "GROUP", "BY", "x", "HAVING">>
                [] s = "join-on" -> <<"SELECT", "x", "FROM", "t", "JOIN", "u", "ON">>
                [] s = "group-by" -> <<"SELECT", "x", "FROM", "t", "GROUP", "BY">>
                [] s = "order-by" -> <<"SELECT", "x", "FROM", "t", "ORDER", "BY">>
                [] s = "func-arg" -> <<"SELECT", "g", "(">>
                [] s = "case-then" -> <<"SELECT", "CASE", "WHEN", "x", "THEN">>
                [] s = "in-list" -> <<"SELECT", "x", "IN", "(", "y", ",">>
                [] s = "update-set" -> <<"UPDATE", "t", "SET", "x", "=">>
                [] s = "delete-where" -> <<"DELETE", "FROM", "t", "WHERE">>
                [] s = "insert-value" -> <<"INSERT", "INTO", "t", "(", "x", ")", "VALUES", "(">>
SlotPost(s) == CASE s = "func-arg" -> <<")">> [] s = "case-then" -> <<"END">> [] s = "in-list" -> <<")">>
                 [] s = "insert-value" -> <<")">> [] OTHER -> <<>>
\* the complete statement tree the real parser must return for the slot with expression e in it
SlotTree(s, e) ==
    CASE s = "select-item" -> [T |-> "SelectStatement", Columns |-> <<e>>]
      [] s = "where" -> [SelT EXCEPT !.T = "SelectStatement"] @@ [Where |-> e]
      [] s = "having" -> SelT @@ [GroupBy |-> <<Id("x")>>, Having |-> e]
      [] s = "join-on" -> SelT @@ [Joins |-> <<[T |-> "JoinClause", Type |-> "INNER", Left |-> TRef("t"), Right |-> TRef("u"), Condition |-> e]>>]
      [] s = "group-by" -> SelT @@ [GroupBy |-> <<e>>]
      [] s = "order-by" -> SelT @@ [OrderBy |-> <<[T |-> "OrderByExpression", Expression |-> e, Ascending |-> TRUE]>>]
      [] s = "func-arg" -> [T |-> "SelectStatement", Columns |-> <<Fn("g", <<e>>)>>]
      [] s = "case-then" -> [T |-> "SelectStatement", Columns |-> <<[T |-> "CaseExpression",
                                 WhenClauses |-> <<[T |-> "WhenClause", Condition |-> Id("x"), Result |-> e]>>]>>]
      [] s = "in-list" -> [T |-> "SelectStatement", Columns |-> <<InL(Id("x"), <<Id("y"), e>>)>>]
      [] s = "update-set" -> [T |-> "UpdateStatement", TableName |-> "t",
                              Assignments |-> <<[T |-> "UpdateExpression", Column |-> Id("x"), Value |-> e]>>]
      [] s = "delete-where" -> [T |-> "DeleteStatement", TableName |-> "t", Where |-> e]
      [] s = "insert-value" -> [T |-> "InsertStatement", TableName |-> "t", Columns |-> <<Id("x")>>, Values |-> <<<<e>>>>]

VARIABLES tree, done
vars == <<tree, done>>

Init == /\ tree \in {Fill(s, 1) : s \in Shapes(MaxOps)} /\ done = FALSE
Run == /\ ~done /\ done' = TRUE /\ UNCHANGED tree
       /\ Emit => PrintT(ToJson([tree |-> tree, min |-> Render(tree, 0), full |-> Render(tree, -1), atoms |-> Render(tree, -2),
                                 one |-> [k \in 1..NOps(tree) |-> Render(tree, k)]]))
Spec == Init /\ [][Run]_vars

\* the slot table is printed once by a separate specification (SlotSpec) with the identifier "e" in every slot
SlotInit == tree = Id("e") /\ done = FALSE
SlotRun == /\ ~done /\ done' = TRUE /\ UNCHANGED tree
           /\ PrintT(ToJson([slots |-> [s \in Slots |-> [pre |-> SlotPre(s), post |-> SlotPost(s), tree |-> SlotTree(s, Id("<<E>>"))]]]))
SlotSpec == SlotInit /\ [][SlotRun]_vars

\* ---- theorems -------------------------------------------------------------------------------------------------
\* C03/C06: the reference serialiser and the reference parser are inverse on every tree, for every
\* parenthesisation that the serialiser may choose
RoundTrip == \A mode \in (-2)..NOps(tree) : RefParse(Render(tree, mode)) = tree
\* redundant parentheses never change the tree (they only ever add tokens)
ParenOnlyAdds == Len(Render(tree, -1)) >= Len(Render(tree, 0))
=============================================================================
