SPECIFICATION Spec
CONSTANTS
  N = 64
  K = 4
  PosShape = "rescan"
  SerShape = "builder"
  Emit = FALSE
INVARIANTS NearLinear
