------------------------------- MODULE LintFix -------------------------------
(***************************************************************************)
(* Text rewriters (the fixes of lint rules L001 trailing whitespace, L002  *)
(* mixed indentation, L003 consecutive blank lines, L007 keyword case,     *)
(* L010 redundant whitespace, and the language server's format action) as  *)
(* functions on a text that is a sequence of SEGMENTS joined by SEPARATORS *)
(* (C17).                                                                  *)
(*   code segments       keywords in three letter cases, identifiers,      *)
(*                       numbers, punctuation                              *)
(*   protected segments  string literals (one with a keyword and doubled   *)
(*                       blanks inside, one spanning several lines with    *)
(*                       keywords, doubled blanks, trailing blanks, blank  *)
(*                       lines and a tab inside, one with a doubled quote),*)
(*                       quoted and backticked identifiers spelled like    *)
(*                       keywords, a line comment containing a quote, a    *)
(*                       block comment spanning lines, a dollar-quoted     *)
(*                       string spanning lines                             *)
(*   separators          one blank, two blanks, tab, newline, newline with *)
(*                       space / tab / mixed indentation, three blank      *)
(*                       lines, trailing blanks before the newline, CR-LF  *)
(*                       (also with three blank lines and with trailing    *)
(*                       blanks before it)                                 *)
(* A rewriter is given by what it does to each separator and to each       *)
(* segment.  Shape = "token-aware": separators between tokens and the      *)
(* letter case of keywords only.  Shape = "line-based" (the pinned code):  *)
(* the quote state restarts on every line, so every line of a protected    *)
(* segment after its first is rewritten as if it were code.                *)
(*     PreservesTokens  the segments of the output are the segments of the *)
(*                      input, keywords up to letter case                  *)
(*     Idempotent       rewriting the output again changes nothing         *)
(*     CleanAfterFix    no separator of the output has the defect the      *)
(*                      applied rule names                                 *)
(* Every text is printed with its segments; the driver spells it, applies  *)
(* the real fixes and the format action, and compares real token streams.  *)
(***************************************************************************)
EXTENDS Integers, Sequences, FiniteSets, TLC, Json

CONSTANTS MaxSegs, Seps, Shape, Emit     \* Seps: the separators used, a subset of AllSeps

\* (hashOp: an operator spelled with '#' - in this language '#' starts no comment)
\* (identKwU8: ONE identifier in which a letter outside ASCII touches letters that spell a keyword - note-like words;
\*  a rewriter that finds words with a narrower notion of "letter" than the tokenizer sees a keyword there)
Code == {"kwU", "kwL", "kwM", "ident", "num", "comma", "star", "eq", "lparen", "rparen", "hashOp", "identKwU8"}
Protected == {"strKw", "strMulti", "strMultiCrlf", "strEsc", "strBs", "qidKw", "btKw", "cmtLine", "cmtPlain", "cmtBlockOne", "cmtBlock", "dollarMulti",
              "cmtBsq", "dollarBsq"}     \* a backslash before a quote OUTSIDE a string literal (comment, dollar-quoted body): nothing special
MultiLine == {"strMulti", "strMultiCrlf", "cmtBlock", "dollarMulti"}      \* strMultiCrlf: the same with CR-LF line ends inside
Segs == Code \cup Protected
AllSeps == {"sp", "sp2", "tab", "nl", "nlIndent", "nlTab", "nlMixed", "blank3", "trail", "crlf",
            "blank3crlf", "trailcrlf"}      \* three blank lines / trailing blanks in a text with CR-LF line ends
ASSUME Seps \subseteq AllSeps
Rules == {"L001", "L002", "L003", "L007", "L010", "format"}

\* a line comment runs to the end of its line: the separator after it must start with a line end
EndsLine(sep) == sep \in {"nl", "nlIndent", "nlTab", "nlMixed", "blank3", "crlf", "blank3crlf"}
Texts == UNION {{t \in [segs : [1..n -> Segs], seps : [1..(n - 1) -> Seps]] :
                    \A i \in 1..(n - 1) : t.segs[i] \in {"cmtLine", "cmtPlain"} => EndsLine(t.seps[i])} : n \in 1..MaxSegs}

VARIABLES text, rule, out1, out2, pc
vars == <<text, rule, out1, out2, pc>>

\* ---- what a rule's fix does to a separator and to a segment ---------------------------------------------------
FixSep(r, s) == CASE r = "L001" /\ s = "trail" -> "nl"
                  [] r = "L001" /\ s = "trailcrlf" -> "crlf"
                  [] r = "L003" /\ s = "blank3crlf" -> "crlf"
                  [] r = "L002" /\ s \in {"nlTab", "nlMixed"} -> "nlIndent"
                  [] r = "L003" /\ s = "blank3" -> "nl"          \* at most one blank line: modelled as none
                  [] r = "L010" /\ s = "sp2" -> "sp"
                  [] r = "format" /\ s \in {"sp2", "tab"} -> "sp"
                  [] r = "format" /\ s \in {"trail", "blank3", "nlTab", "nlMixed", "nlIndent", "crlf", "blank3crlf", "trailcrlf"} -> "nl"
                  [] OTHER -> s
\* "damaged" marks a protected segment whose inner lines were rewritten
FixSeg(r, g) == CASE g \in {"kwL", "kwM"} /\ r \in {"L007", "format"} -> "kwU"
                  [] Shape = "line-based" /\ g \in MultiLine /\ r \in {"L001", "L003", "L007", "L010", "format"} -> "damaged"
                  [] OTHER -> g
Apply(r, t) == [segs |-> [i \in DOMAIN t.segs |-> FixSeg(r, t.segs[i])], seps |-> [i \in DOMAIN t.seps |-> FixSep(r, t.seps[i])]]

Init == text \in Texts /\ rule \in Rules /\ out1 = text /\ out2 = text /\ pc = "fix"
Fix == /\ pc = "fix" /\ out1' = Apply(rule, text) /\ pc' = "again" /\ UNCHANGED <<text, rule, out2>>
Again == /\ pc = "again" /\ out2' = Apply(rule, out1) /\ pc' = "done"
         /\ (Emit /\ rule = "L001" => PrintT(ToJson([segs |-> text.segs, seps |-> text.seps])))
         /\ UNCHANGED <<text, rule, out1>>
Next == Fix \/ Again
Spec == Init /\ [][Next]_vars

Fold(g) == IF g \in {"kwU", "kwL", "kwM"} THEN "kw" ELSE g
PreservesTokens == pc # "fix" => /\ DOMAIN out1.segs = DOMAIN text.segs
                                 /\ \A i \in DOMAIN text.segs : Fold(out1.segs[i]) = Fold(text.segs[i])
Idempotent == pc = "done" => out2 = out1
Defect(r, s) == CASE r = "L001" -> s \in {"trail", "trailcrlf"} [] r = "L002" -> s \in {"nlTab", "nlMixed"} [] r = "L003" -> s \in {"blank3", "blank3crlf"}
                  [] r = "L010" -> s = "sp2" [] OTHER -> FALSE
CleanAfterFix == pc # "fix" => /\ \A i \in DOMAIN out1.seps : ~Defect(rule, out1.seps[i])
                               /\ (rule = "L007" => \A i \in DOMAIN out1.segs : out1.segs[i] \notin {"kwL", "kwM"})
=============================================================================
