package main

// PollStride.tla on the real code: how much work a context-aware call does between two polls cannot be seen from
// outside, the number of polls can.  Each family of the specification is run at two lengths under a counting context
// that never fires; the polls must grow with the length: at least one more poll per `stride` more elements.

import (
	"context"
	"encoding/json"
	"fmt"
	"strings"
	"sync/atomic"
	"time"

	"github.com/ajitpratap0/GoSQLX/pkg/gosqlx"
	"github.com/ajitpratap0/GoSQLX/pkg/sql/tokenizer"

	"verif/internal/core"
)

type plainCount struct {
	context.Context
	n atomic.Int64
}

func (c *plainCount) Err() error { c.n.Add(1); return nil }

func repN(n int, f func(i int) string, sep string) string {
	p := make([]string, n)
	for i := range p {
		p[i] = f(i)
	}
	return strings.Join(p, sep)
}

type strideFamily struct {
	build  func(n int) string
	stride int  // elements per poll the check insists on (the code polls far more often; the slack keeps tuning free)
	lexer  bool // judged on TokenizeContext (else on gosqlx.ParseWithContext)
}

var strideFamilies = map[string]strideFamily{
	"statements":      {func(n int) string { return repN(n, func(i int) string { return fmt.Sprintf("SELECT %d", i) }, ";\n") }, 16, false},
	"select-list":     {func(n int) string { return "SELECT " + repN(n, func(i int) string { return fmt.Sprintf("c%d", i) }, ", ") + " FROM t" }, 16, false},
	"in-list-numbers": {func(n int) string { return "SELECT a FROM t WHERE b IN (" + repN(n, func(i int) string { return fmt.Sprint(i) }, ", ") + ")" }, 16, false},
	"in-list-strings": {func(n int) string { return "SELECT a FROM t WHERE b IN (" + repN(n, func(i int) string { return "'x'" }, ", ") + ")" }, 16, false},
	"in-list-placeholders": {func(n int) string {
		return "SELECT a FROM t WHERE b IN (" + repN(n, func(i int) string { return fmt.Sprintf("$%d", i+1) }, ", ") + ")"
	}, 16, false},
	"values-rows":     {func(n int) string { return "INSERT INTO t (a, b) VALUES " + repN(n, func(i int) string { return fmt.Sprintf("(%d, 'x')", i) }, ", ") }, 16, false},
	"values-cells":    {func(n int) string { return "INSERT INTO t VALUES (" + repN(n, func(i int) string { return fmt.Sprint(i) }, ", ") + ")" }, 16, false},
	"call-arguments":  {func(n int) string { return "SELECT f(" + repN(n, func(i int) string { return fmt.Sprint(i) }, ", ") + ") FROM t" }, 16, false},
	"order-by-keys":   {func(n int) string { return "SELECT a FROM t ORDER BY " + repN(n, func(i int) string { return fmt.Sprintf("c%d", i) }, ", ") }, 16, false},
	"group-by-keys":   {func(n int) string { return "SELECT a FROM t GROUP BY " + repN(n, func(i int) string { return fmt.Sprintf("c%d", i) }, ", ") }, 16, false},
	"case-arms":       {func(n int) string { return "SELECT CASE " + repN(n, func(i int) string { return "WHEN a = 1 THEN 2" }, " ") + " END FROM t" }, 16, false},
	"ctes":            {func(n int) string { return "WITH " + repN(n, func(i int) string { return fmt.Sprintf("c%d AS (SELECT 1)", i) }, ", ") + " SELECT 1" }, 16, false},
	"joins":           {func(n int) string { return "SELECT * FROM t " + repN(n, func(i int) string { return fmt.Sprintf("JOIN u%d ON 1 = 1", i) }, " ") }, 16, false},
	"set-assignments": {func(n int) string { return "UPDATE t SET " + repN(n, func(i int) string { return fmt.Sprintf("c%d = 1", i) }, ", ") }, 16, false},
	"union-arms":      {func(n int) string { return repN(n, func(i int) string { return "SELECT 1" }, " UNION ") }, 16, false},
	"array-elements":  {func(n int) string { return "SELECT ARRAY[" + repN(n, func(i int) string { return fmt.Sprint(i) }, ", ") + "]" }, 16, false},
	"tokens":          {func(n int) string { return "SELECT " + repN(n/2, func(i int) string { return "a" }, ", ") + " FROM t" }, 1024, true},
	"line-comments":   {func(n int) string { return repN(n, func(i int) string { return "-- c" }, "\n") + "\nSELECT 1" }, 16, true},
}

func pollsOf(f strideFamily, n int) (int64, error) {
	c := &plainCount{Context: context.Background()}
	sql := f.build(n)
	if f.lexer {
		t := tokenizer.GetTokenizer()
		_, err := t.TokenizeContext(c, []byte(sql))
		tokenizer.PutTokenizer(t)
		return c.n.Load(), err
	}
	tree, err := gosqlx.ParseWithContext(c, sql)
	_ = tree
	return c.n.Load(), err
}

func strides(run *core.Run, tier string) {
	r := core.MustTLC(core.TLCOpts{Spec: "PollStride", Cfg: "PollStride.cfg", Timeout: 5 * time.Minute})
	run.AddTLC(r.Stat("work between polls: WorkAfterDoneBounded for every family, list length and moment of cancellation"))
	pin, err := core.RunTLC(core.TLCOpts{Spec: "PollStride", Cfg: "PollStride_shortcut.cfg", Timeout: 5 * time.Minute})
	if err != nil || pin.Violation != "WorkAfterDoneBounded" {
		core.Fatalf("PollStride_shortcut.cfg must violate WorkAfterDoneBounded (got %q, %v)", pin.Violation, err)
	}
	ps := pin.Stat("shortcut shape (cheap list elements take a path that does not poll): the work after cancellation grows with the list")
	ps.ExpectViol = "WorkAfterDoneBounded"
	run.AddTLC(ps)
	n1, n2 := 400, 1600
	if tier == "thorough" {
		n1, n2 = 1000, 9000
	}
	judged := 0
	for _, line := range r.Cases {
		var c struct {
			Family string `json:"family"`
		}
		if err := json.Unmarshal([]byte(line), &c); err != nil {
			core.Fatalf("bad case: %v", err)
		}
		f, ok := strideFamilies[c.Family]
		if !ok {
			core.Fatalf("no builder for family %q", c.Family)
		}
		a, b := n1, n2
		if c.Family == "tokens" {
			a, b = n1*10, n2*10
		}
		p1, e1 := pollsOf(f, a)
		p2, e2 := pollsOf(f, b)
		run.Eval(2)
		if e1 != nil || e2 != nil {
			core.Fatalf("family %s is rejected: %v %v", c.Family, e1, e2)
		}
		judged++
		run.Nontrivial("stride\x00" + c.Family)
		need := int64((b - a) / f.stride)
		if p2-p1 < need {
			run.Violate(core.Violation{Sig: "work-between-polls-unbounded|" + c.Family, Clause: "the call returns after a bounded amount of further work once the context is done",
				Case:    map[string]any{"kind": "poll-stride", "family": c.Family, "sql_at_3": f.build(3), "lengths": []int{a, b}},
				Observe: map[string]any{"polls": []int64{p1, p2}}, Expect: fmt.Sprintf("at least %d more polls for %d more elements", need, b-a)})
		}
	}
	if judged < len(strideFamilies) {
		core.Fatalf("only %d of %d families judged", judged, len(strideFamilies))
	}
}
