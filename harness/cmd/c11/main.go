// C11 — cancellation is honoured promptly, reported as such, and leaves no residue.
//
//	M  Cancel.tla: a context-aware call as a sequence of polls, the context turning done at the k-th poll, the
//	   error unwinding through chain-preserving / chain-flattening frames, the entry point's guard poll. TLC
//	   checks CancelReported, NeverFiredEqualsPlain, BoundedAfterFire, Terminates for the repaired shape and finds
//	   the lost chain for the pinned one.
//	R  for every statement of a catalogue that puts a poll inside every wrapping construct, and every context-
//	   aware entry point, the real code is run under a counting context: first never firing (n polls; result must
//	   equal the context-free call), then firing at EVERY k in 0..n-1 with Canceled and with DeadlineExceeded.
//	   Each run must return no tree and an error matching the context's error, after at most Bound further polls;
//	   the parser/tokenizer used must then behave like a fresh one.
//	T  every run is logged (start/poll/return) and the concatenated log validated against CancelTrace.tla.
package main

import (
	"context"
	"encoding/json"
	"errors"
	"fmt"
	"os"
	"runtime"
	"strings"
	"time"

	"github.com/ajitpratap0/GoSQLX/pkg/gosqlx"
	"github.com/ajitpratap0/GoSQLX/pkg/models"
	"github.com/ajitpratap0/GoSQLX/pkg/sql/ast"
	"github.com/ajitpratap0/GoSQLX/pkg/sql/parser"
	"github.com/ajitpratap0/GoSQLX/pkg/sql/tokenizer"

	"verif/internal/core"
	"verif/internal/gram"
	"verif/internal/ops"
	"verif/internal/project"
)

const bound = 1 // polls allowed after the firing one (the entry point's guard poll)

type cctx struct {
	context.Context
	n      int64
	fire   int64
	err    error
	sites  []string
	cancel context.CancelCauseFunc // set: the embedded context is a real one, cancelled WITH A CAUSE at the firing poll
}

var errReason = errors.New("the server is shutting down")

type causeErr struct{}

func (causeErr) Error() string { return "cancelled with a cause" }

func (c *cctx) Err() error {
	i := c.n
	c.n++
	pc, _, _, _ := runtime.Caller(1)
	f := runtime.FuncForPC(pc).Name()
	c.sites = append(c.sites, f[strings.LastIndex(f, "/")+1:])
	if i >= c.fire {
		if c.cancel != nil {
			c.cancel(errReason) // the reason is the caller's business; the context's error stays context.Canceled
			return c.Context.Err()
		}
		return c.err
	}
	return nil
}

func (c *cctx) Done() <-chan struct{} {
	ch := make(chan struct{})
	if c.n > c.fire {
		close(ch)
	}
	return ch
}

var statements = []string{
	"SELECT a FROM t WHERE a = 1",
	"WITH c AS (SELECT a FROM t WHERE a = 1) SELECT a FROM c",
	"WITH c AS (SELECT a FROM t), d AS (SELECT b FROM c WHERE b > 2) SELECT b FROM d",
	"SELECT CASE WHEN a > 1 THEN b + 1 ELSE c END FROM t",
	"SELECT CASE a WHEN 1 THEN 'x' WHEN 2 THEN 'y' END FROM t",
	"SELECT a FROM t JOIN u ON t.a = u.a AND u.b > 1 LEFT JOIN v ON v.c = u.c",
	"SELECT a FROM t UNION SELECT b FROM u WHERE b = 2",
	"SELECT a FROM t WHERE b IN (1, 2 + 3, 4)",
	"SELECT a FROM t WHERE b IN (SELECT c FROM u WHERE c > 1)",
	"SELECT a FROM t WHERE b BETWEEN 1 + 1 AND 10",
	"SELECT f(a, b + 1, g(c)) FROM t",
	"SELECT SUM(a) OVER (PARTITION BY b + 1 ORDER BY c ROWS BETWEEN 1 PRECEDING AND CURRENT ROW) FROM t",
	"SELECT a FROM (SELECT b AS a FROM u WHERE b > 1) s WHERE a < 5",
	"SELECT a FROM t WHERE EXISTS (SELECT 1 FROM u WHERE u.a = t.a)",
	"SELECT (SELECT MAX(b) FROM u WHERE u.a = t.a) FROM t",
	"SELECT a FROM t GROUP BY a + 1 HAVING COUNT(*) > 2 ORDER BY a + 2 LIMIT 5",
	"INSERT INTO t (a, b) VALUES (1 + 2, 'x'), (3, f(4))",
	"INSERT INTO t (a) VALUES (1) ON CONFLICT (a) DO UPDATE SET a = 3 + 1 RETURNING a + 1",
	"INSERT INTO t SELECT a + 1 FROM u WHERE a > 1",
	"UPDATE t SET a = b + 1, c = (SELECT 1) WHERE d = 2 RETURNING a",
	"DELETE FROM t WHERE a = 1 AND b IN (2, 3)",
	"MERGE INTO t USING s ON t.id = s.id WHEN MATCHED THEN UPDATE SET v = s.v + 1 WHEN NOT MATCHED THEN INSERT (id) VALUES (s.id + 1)",
	"SELECT a[1], b[2:3] FROM t",
	"SELECT ARRAY[1, 2 + 3] FROM t",
	"SELECT CAST(a + 1 AS INT), b::text FROM t",
	"SELECT a FROM t WHERE NOT (b = 1 OR c = 2)",
	"SELECT a FROM t WHERE b LIKE 'x%' AND c IS NOT NULL",
	"SELECT a FROM t; SELECT b FROM u WHERE b = 1; SELECT c FROM v",
	"SELECT COUNT(*) FILTER (WHERE a > 1) FROM t",
	"SELECT a FROM t WHERE (b, c) IN ((1, 2), (3, 4))",
	"CREATE TABLE t (a INT DEFAULT 1 + 1, b INT CHECK (b > 0))",
	"CREATE VIEW v AS SELECT a FROM t WHERE a > 1",
	"SELECT a FROM t WHERE a = ANY (SELECT b FROM u)",
	"SELECT a FROM t ORDER BY CASE WHEN a > 1 THEN 1 ELSE 2 END",
	"SELECT a FROM t WHERE a = 1 INTERSECT SELECT a FROM u WHERE a = 2 EXCEPT SELECT a FROM v",
	"SELECT a FROM t JOIN LATERAL (SELECT b FROM u WHERE u.a = t.a) l ON true",
	"SELECT INTERVAL '1 day' + a FROM t",
	"SELECT a FROM t WHERE b = 1 FOR UPDATE",
}

// exprStatements puts every nesting construct on each side of every binary operator class, so that a poll
// exists below each (operator, side) pair of the expression parser.
func exprStatements() []string {
	opsList := []string{"OR", "AND", "=", "<>", "+", "*", "||", "LIKE"}
	nests := []string{"(x + 1)", "f(x, 2)", "x IN (1, 2, 3)", "EXISTS (SELECT 1 FROM u)", "CASE WHEN x = 1 THEN 2 ELSE 3 END",
		"(SELECT MAX(y) FROM u)", "x BETWEEN 1 AND 2", "NOT (x = 1)", "CAST(x AS INT)"}
	var out []string
	for _, op := range opsList {
		for _, n := range nests {
			boolish := strings.Contains(n, " IN ") || strings.HasPrefix(n, "EXISTS") || strings.Contains(n, "BETWEEN") || strings.HasPrefix(n, "NOT")
			arith := op != "OR" && op != "AND"
			if arith && boolish {
				continue
			}
			out = append(out, "SELECT a FROM t WHERE "+n+" "+op+" b", "SELECT a FROM t WHERE b "+op+" "+n)
		}
	}
	return out
}

// probes are run on the instances a cancelled call used; they exercise every scanning loop of the tokenizer
// and the nesting budget of the parser.
func tokenizerProbes() []string {
	return []string{
		"SELECT a -- c\nFROM 'open",
		"SELECT /* " + strings.Repeat("long comment ", 400) + "*/ a FROM t",
		"SELECT '" + strings.Repeat("long string ", 400) + "' FROM t",
		"-- " + strings.Repeat("long line comment ", 300) + "\nSELECT 1",
		"SELECT " + strings.Repeat("a, ", 150) + "a FROM t",
		"SELECT \"" + strings.Repeat("q", 5000) + "\" FROM t",
		"\t\t SELECT $$" + strings.Repeat("body ", 1000) + "$$",
	}
}

func longInput(cols int) string {
	return "SELECT " + strings.Repeat("a, ", cols) + "a FROM t WHERE a = 1"
}

type entry struct {
	name string
	// call runs the entry point; plain runs the context-free equivalent. Both return a rendering of the
	// result, whether a tree/token list came back, and the error.
	call   func(ctx context.Context, sql string, p *parser.Parser, t *tokenizer.Tokenizer) (string, bool, error)
	plain  func(sql string) (string, bool, error)
	parser bool
}

func render(tree *ast.AST, err error) (string, bool, error) {
	if tree == nil {
		return "err:" + ops.Err(err).String(), false, err
	}
	s := project.String(tree.Statements)
	ast.ReleaseAST(tree)
	if err != nil {
		return s, true, err
	}
	return s, true, nil
}

func mustTokens(sql string) []models.TokenWithSpan {
	t, _ := tokenizer.New()
	toks, err := t.Tokenize([]byte(sql))
	if err != nil {
		core.Fatalf("catalogue statement does not tokenize: %q: %v", sql, err)
	}
	return toks
}

var entries = []entry{
	{name: "gosqlx.ParseWithContext", parser: true,
		call: func(ctx context.Context, sql string, _ *parser.Parser, _ *tokenizer.Tokenizer) (string, bool, error) {
			return render(gosqlx.ParseWithContext(ctx, sql))
		},
		plain: func(sql string) (string, bool, error) { return render(gosqlx.Parse(sql)) }},
	{name: "Parser.ParseContextFromModelTokens", parser: true,
		call: func(ctx context.Context, sql string, p *parser.Parser, _ *tokenizer.Tokenizer) (string, bool, error) {
			return render(p.ParseContextFromModelTokens(ctx, mustTokens(sql)))
		},
		plain: func(sql string) (string, bool, error) {
			return render(parser.NewParser().ParseFromModelTokens(mustTokens(sql)))
		}},
	// the same pair on a parser configured to reject empty statements: the configuration is part of the call
	{name: "Parser[strict].ParseContextFromModelTokens", parser: true,
		call: func(ctx context.Context, sql string, _ *parser.Parser, _ *tokenizer.Tokenizer) (string, bool, error) {
			return render(parser.NewParser(parser.WithStrictMode()).ParseContextFromModelTokens(ctx, mustTokens(sql)))
		},
		plain: func(sql string) (string, bool, error) {
			return render(parser.NewParser(parser.WithStrictMode()).ParseFromModelTokens(mustTokens(sql)))
		}},
	{name: "Tokenizer.TokenizeContext",
		call: func(ctx context.Context, sql string, _ *parser.Parser, t *tokenizer.Tokenizer) (string, bool, error) {
			toks, err := t.TokenizeContext(ctx, []byte(sql))
			if err != nil {
				return "err:" + ops.Err(err).String(), toks != nil, err
			}
			return ops.TokString(toks, true), true, nil
		},
		plain: func(sql string) (string, bool, error) {
			t, _ := tokenizer.New()
			toks, err := t.Tokenize([]byte(sql))
			if err != nil {
				return "err:" + ops.Err(err).String(), false, err
			}
			return ops.TokString(toks, true), true, nil
		}},
}

var (
	tokProbes    []string
	parserProbes []string
)

type dlErr struct{}

func (dlErr) Error() string   { return context.DeadlineExceeded.Error() }
func (dlErr) Timeout() bool   { return true }
func (dlErr) Temporary() bool { return true }

var textOnly = map[string]bool{}

func main() {
	tier := os.Getenv("VERIF_TIER")
	if tier == "" {
		tier = "quick"
	}
	run := core.NewRun("C11", tier, "model_checking")
	run.Rule = "for each catalogue statement x entry point: the uncancelled run under a counting context (n polls), then one run per k in 0..n-1 per context error (Canceled, DeadlineExceeded); non-trivial = a run whose context fired at a poll made inside the parser or inside the tokenizer loop (k >= 1)"
	run.Assumptions = []string{
		"the context is observed only through ctx.Err() (the library never selects on Done()); a context that fires between two polls is observed at the next poll",
		"wall-clock promptness is not measured: 'bounded further work' is the number of polls after the firing one",
	}
	ideal := core.MustTLC(core.TLCOpts{Spec: "Cancel", Cfg: "Cancel_ideal.cfg", Timeout: 2 * time.Minute})
	run.AddTLC(ideal.Stat("repaired shape (entry point re-polls before returning an error): CancelReported, NeverFiredEqualsPlain, BoundedAfterFire, Terminates"))
	p, err := core.RunTLC(core.TLCOpts{Spec: "Cancel", Cfg: "Cancel_pinned.cfg", Timeout: time.Minute})
	if err != nil || p.Violation != "CancelReported" {
		core.Fatalf("Cancel_pinned.cfg must violate CancelReported (got %q, %v)", p.Violation, err)
	}
	st := p.Stat("pinned shape (frames that flatten the chain, no guard): TLC must find the unreported cancellation")
	st.ExpectViol = "CancelReported"
	run.AddTLC(st)

	stmts := append([]string{}, statements...)
	stmts = append(stmts, exprStatements()...)
	stmts = append(stmts, longInput(110))
	// inputs without a statement: the statement loop has nothing to iterate over
	stmts = append(stmts, "", " \n\t ", "-- only a comment\n", "/* only a comment */", ";", " ; ; ", "SELECT 1;; SELECT 2", "; SELECT 1", "SELECT 1;;")
	// characters in front of and behind a statement that an input layer may treat specially (byte-order mark,
	// no-break and zero-width space, form feed, vertical tab, NUL): whatever the context-free call makes of them,
	// the context-aware call with a context that never fires makes the same
	for _, pad := range []string{"\ufeff", "\u00a0", "\u200b", "\f", "\v", "\x00", "\ufeff\ufeff", "\u2028"} {
		for _, t := range []string{pad + "SELECT a FROM t WHERE a = 1", "SELECT a FROM t WHERE a = 1" + pad, pad + "-- c\nSELECT 1"} {
			stmts = append(stmts, t)
			textOnly[t] = true // for the entry points that take text (the others need a token slice)
		}
	}
	// a sample of Select.tla's statement forms (every named form, sampled clause combinations, ORDER BY lists,
	// tails and window specifications)
	model := gram.FormTexts(run)
	run.Extra["model_statements_in_catalogue"] = len(model)
	stmts = append(stmts, model...)
	if tier == "thorough" {
		stmts = append(stmts, longInput(320))
		// every statement also nested inside each wrapping construct
		for _, s := range statements {
			if strings.HasPrefix(s, "SELECT") && !strings.Contains(s, ";") {
				stmts = append(stmts,
					"WITH w AS ("+s+") SELECT 1 FROM w",
					"SELECT x FROM ("+s+") q",
					"SELECT 1 FROM z WHERE EXISTS ("+s+")",
					"INSERT INTO z "+s,
					"SELECT 1 UNION "+s)
			}
		}
	}
	tokProbes = tokenizerProbes()
	// the deepest nesting a fresh parser accepts (calibrated) shows a leaked recursion depth
	deep := 1
	for d := 2; d < 400; d++ {
		tree, err := parser.NewParser().ParseFromModelTokens(mustTokens("SELECT " + strings.Repeat("(", d) + "1" + strings.Repeat(")", d)))
		if err != nil {
			break
		}
		ast.ReleaseAST(tree)
		deep = d
	}
	parserProbes = []string{"SELECT x FROM y WHERE ) z", "SELECT " + strings.Repeat("(", deep) + "1" + strings.Repeat(")", deep), "SELECT a FROM t WHERE a = 1 OR b IN (1, 2)"}
	var trace strings.Builder
	type runInfo struct {
		line  int
		entry string
		sql   string
		k     int64
	}
	var runs []runInfo
	lines := 0
	emit := func(m map[string]any) {
		b, _ := json.Marshal(m)
		trace.Write(b)
		trace.WriteByte('\n')
		lines++
	}
	for _, e := range entries {
		for _, sql := range stmts {
			if strings.HasPrefix(e.name, "Parser") && textOnly[sql] {
				continue
			}
			plainRes, _, _ := e.plain(sql)
			// uncancelled run under the counting context
			c0 := &cctx{Context: context.Background(), fire: 1 << 50, err: context.Canceled}
			res0, _, _ := e.call(c0, sql, parser.NewParser(), newTok())
			n := c0.n
			run.Eval(1)
			runs = append(runs, runInfo{lines + 1, e.name, sql, -1})
			emit(map[string]any{"ev": "start", "total": n, "fire": n})
			for range c0.sites {
				emit(map[string]any{"ev": "poll", "done": false, "parser": false})
			}
			r := "tree"
			if res0 != plainRes {
				r = "other-error"
				run.Violate(core.Violation{Sig: "never-fired-differs-from-plain|" + e.name, Clause: "a context that never fires yields exactly the result of the context-free call",
					Case: map[string]any{"entry": e.name, "sql": sql}, Observe: firstN(res0, 300), Expect: firstN(plainRes, 300)})
			}
			emit(map[string]any{"ev": "return", "res": r})
			if n == 0 {
				// a call that never looks at its context on this input: an already-done context (k = 0) must still be reported
				for _, ctxErr := range []error{context.Canceled, context.DeadlineExceeded} {
					c := &cctx{Context: context.Background(), fire: 0, err: ctxErr}
					res, gotValue, err := e.call(c, sql, parser.NewParser(), newTok())
					run.Eval(1)
					if gotValue || !errors.Is(err, ctxErr) {
						run.Violate(core.Violation{Sig: "done-context-never-polled|" + e.name + "|" + ops.Err(err).Code, Clause: "if the context is already done the call returns no tree and an error that matches the context's error under errors.Is",
							Case: map[string]any{"entry": e.name, "sql": firstN(sql, 300), "k": 0, "of": 0, "ctx_err": ctxErr.Error()}, Observe: firstN(res+" "+fmt.Sprint(err), 300)})
					}
				}
			}
			for k := int64(0); k < n; k++ {
				for _, cerr := range []error{context.Canceled, error(dlErr{}), error(causeErr{})} {
					ctxErr := cerr
					if _, ok := cerr.(dlErr); ok {
						ctxErr = context.DeadlineExceeded
					}
					c := &cctx{Context: context.Background(), fire: k, err: ctxErr}
					if _, ok := cerr.(causeErr); ok {
						// a real context cancelled with a cause that does not wrap the context's error
						ctxErr = context.Canceled
						inner, cancel := context.WithCancelCause(context.Background())
						c = &cctx{Context: inner, fire: k, err: ctxErr, cancel: cancel}
					}
					pi, ti := parser.NewParser(), newTok()
					res, gotValue, err := e.call(c, sql, pi, ti)
					run.Eval(1)
					site := c0.sites[k]
					inParser := strings.HasPrefix(site, "parser.")
					if k >= 1 {
						run.Nontrivial(fmt.Sprintf("%s|%s|%d|%v", e.name, sql, k, ctxErr))
					}
					post := c.n - k - 1
					runs = append(runs, runInfo{lines + 1, e.name, sql, k})
					emit(map[string]any{"ev": "start", "total": n, "fire": k})
					for i := int64(0); i < c.n; i++ {
						// "parser": the poll is made below the statement loop of ParseContext (whose error path has the guard poll)
						emit(map[string]any{"ev": "poll", "done": i >= k, "parser": strings.HasPrefix(c.sites[i], "parser.(*Parser).parse")})
					}
					rr := "cancelled"
					caseInfo := map[string]any{"entry": e.name, "sql": firstN(sql, 300), "k": k, "of": n, "poll_site": site, "ctx_err": ctxErr.Error()}
					if gotValue {
						rr = "tree"
						run.Violate(core.Violation{Sig: "value-returned-after-cancel|" + e.name + "|" + site, Clause: "a call whose context became done returns no tree", Case: caseInfo, Observe: firstN(res, 200)})
					} else if !errors.Is(err, ctxErr) {
						rr = "other-error"
						run.Violate(core.Violation{Sig: "cancel-not-reported|" + e.name + "|" + site + "|" + ops.Err(err).Code, Clause: "the error matches the context's error under errors.Is",
							Case: caseInfo, Observe: firstN(fmt.Sprint(err), 300)})
					}
					emit(map[string]any{"ev": "return", "res": rr})
					if post > bound {
						run.Violate(core.Violation{Sig: "work-after-cancel|" + e.name + "|" + site, Clause: "the call returns after a bounded amount of further work",
							Case: caseInfo, Observe: map[string]any{"polls_after_fire": post, "sites": c.sites[k:]}})
					}
					// residue: the instances used by the cancelled call behave like fresh ones
					if e.parser {
						vs := pi.VerifState()
						if vs.CtxSet || vs.Depth != 0 {
							run.Violate(core.Violation{Sig: "residue-after-cancel|parser|state|" + site, Clause: "the parser used by a cancelled call remains fit for reuse",
								Case: caseInfo, Observe: vs})
						}
						for _, probe := range parserProbes {
							got, _, _ := render(pi.ParseFromModelTokensWithPositions(mustTokens(probe)))
							want, _, _ := render(parser.NewParser().ParseFromModelTokensWithPositions(mustTokens(probe)))
							if got != want {
								run.Violate(core.Violation{Sig: "residue-after-cancel|parser|" + site, Clause: "the parser used by a cancelled call remains fit for reuse",
									Case: caseInfo, Observe: map[string]any{"probe": firstN(probe, 80), "result": firstN(got, 300)}, Expect: firstN(want, 300)})
								break
							}
						}
						// ... and so do the pools the call drew from: two trees held at the same time are two objects,
						// each the tree of its own statement (a container released twice would be handed out twice)
						ta, ea := pi.ParseFromModelTokens(mustTokens(parserProbes[2]))
						tb, eb := pi.ParseFromModelTokens(mustTokens("SELECT c FROM w; SELECT d FROM v"))
						if ea == nil && eb == nil {
							wa, _ := parser.NewParser().ParseFromModelTokens(mustTokens(parserProbes[2]))
							if ta == tb || project.String(ta.Statements) != project.String(wa.Statements) {
								run.Violate(core.Violation{Sig: "residue-after-cancel|pools|" + site, Clause: "the parser used by a cancelled call remains fit for reuse",
									Case: caseInfo, Observe: map[string]any{"same_object": ta == tb, "first_tree_now": firstN(project.String(ta.Statements), 300)}, Expect: firstN(project.String(wa.Statements), 300)})
							}
							ast.ReleaseAST(wa)
						}
						if ta != nil && ta != tb {
							ast.ReleaseAST(ta)
						}
						if tb != nil {
							ast.ReleaseAST(tb)
						}
					} else {
						for _, tp := range tokProbes {
							toks, terr := ti.Tokenize([]byte(tp))
							ft := newTok()
							wt, werr := ft.Tokenize([]byte(tp))
							if ops.TokString(toks, true) != ops.TokString(wt, true) || fmt.Sprint(terr) != fmt.Sprint(werr) || ops.CommentString(ti.Comments) != ops.CommentString(ft.Comments) {
								run.Violate(core.Violation{Sig: "residue-after-cancel|tokenizer|" + site, Clause: "the tokenizer used by a cancelled call remains fit for reuse",
									Case: caseInfo, Observe: map[string]any{"probe": firstN(tp, 60), "err": fmt.Sprint(terr)}, Expect: fmt.Sprint(werr)})
								break
							}
						}
					}
					_ = inParser
				}
			}
			if n >= 6 {
				run.Sample(map[string]any{"entry": e.name, "sql": firstN(sql, 160), "polls": n, "sites": compress(c0.sites)})
			}
		}
	}
	strides(run, tier)
	// T: validate the concatenated log against the specification
	cfg := fmt.Sprintf("SPECIFICATION TraceSpec\nCONSTANTS\n  MaxPolls = 100000\n  MaxDepth = 1\n  Guard = TRUE\n  Bound = %d\nINVARIANTS CancelReported NeverFiredEqualsPlain BoundedAfterFire\nPOSTCONDITION TraceAccepted\n", bound)
	if f := os.Getenv("VERIF_KEEP_TRACE"); f != "" {
		_ = os.WriteFile(f, []byte(trace.String()), 0o644)
	}
	tr, err := core.RunTLC(core.TLCOpts{Spec: "CancelTrace", Cfg: "trace.cfg", Workers: 1, Timeout: 20 * time.Minute, KeepOut: true,
		ExtraFile: map[string][]byte{"trace.ndjson": []byte(trace.String()), "trace.cfg": []byte(cfg)}})
	if err != nil {
		core.Fatalf("trace validation: %v", err)
	}
	accepted := tr.Violation == "" && strings.Contains(tr.Output, "No error has been found") && !strings.Contains(tr.Output, "TRACE-REJECTED")
	ts := tr.Stat(fmt.Sprintf("trace validation of %d real runs (%d events)", len(runs), lines))
	ts.Mode = "trace-validation"
	run.AddTLC(ts)
	run.Extra["trace_events"] = lines
	run.Extra["trace_accepted_by_tlc"] = accepted
	if accepted {
		run.Traces(int64(len(runs)))
	} else if run.NumNew() == 0 {
		// the specification rejects behaviour that the direct checks accept: the machinery disagrees with itself
		core.Fatalf("CancelTrace.tla rejected the log although every run satisfied the direct checks:\n%s", tailOf(tr.Output, 2500))
	} else {
		run.Extra["trace_rejection"] = tailOf(tr.Output, 600)
	}
	run.Exhaustive = true
	run.Finish()
}

func newTok() *tokenizer.Tokenizer {
	t, err := tokenizer.New()
	if err != nil {
		core.Fatalf("tokenizer.New: %v", err)
	}
	return t
}

func compress(s []string) []string {
	var out []string
	for i := 0; i < len(s); {
		j := i
		for j < len(s) && s[j] == s[i] {
			j++
		}
		if j-i > 1 {
			out = append(out, fmt.Sprintf("%s x%d", s[i], j-i))
		} else {
			out = append(out, s[i])
		}
		i = j
	}
	return out
}

func firstN(s string, n int) string {
	if len(s) > n {
		return s[:n]
	}
	return s
}

func tailOf(s string, n int) string {
	if len(s) > n {
		return s[len(s)-n:]
	}
	return s
}
