package main

import (
	"fmt"
	"os"
	"github.com/ajitpratap0/GoSQLX/pkg/gosqlx"
	"verif/internal/project"
)

func main() {
	for _, s := range os.Args[1:] {
		t, err := gosqlx.Parse(s)
		if err != nil {
			fmt.Printf("%s\n   ERR %.150v\n", s, err)
			continue
		}
		fmt.Printf("%s\n   %s\n", s, project.String(t.Statements))
	}
}
