// probe prints, for every SQL line on stdin, the projected tree of the real parser and what the serialisers
// print for it (a development aid for writing model trees; not a check).
package main

import (
	"bufio"
	"fmt"
	"os"

	"github.com/ajitpratap0/GoSQLX/pkg/gosqlx"
	"github.com/ajitpratap0/GoSQLX/pkg/sql/ast"
	"github.com/ajitpratap0/GoSQLX/pkg/sql/keywords"
	"github.com/ajitpratap0/GoSQLX/pkg/sql/parser"

	clicmd "github.com/ajitpratap0/GoSQLX/cmd/gosqlx/cmd"
	_ "verif/internal/astnames"
	"verif/internal/project"
)

func main() {
	dialect := ""
	if len(os.Args) > 1 {
		dialect = os.Args[1]
	}
	sc := bufio.NewScanner(os.Stdin)
	sc.Buffer(make([]byte, 1<<20), 1<<24)
	for sc.Scan() {
		sql := sc.Text()
		if sql == "" {
			continue
		}
		fmt.Println("SQL  ", sql)
		tree, err := gosqlx.Parse(sql)
		if dialect != "" {
			tree, err = parser.ParseWithDialect(sql, keywords.SQLDialect(dialect))
		}
		if err != nil {
			fmt.Println("ERR  ", firstLine(err.Error()))
			continue
		}
		fmt.Println("TREE ", project.String(tree.Statements))
		out := tree.SQL()
		fmt.Println("OUT  ", out)
		fmt.Printf("FMT   %q\n", tree.Format(ast.ReadableStyle()))
		{
			o, err := clicmd.NewSQLFormatter(clicmd.FormatterOptions{Indent: "  ", UppercaseKw: true}).Format(tree)
			fmt.Printf("CLI   %q %v\n", o, err)
		}
		if t2, err := gosqlx.Parse(out); err != nil {
			fmt.Println("RT   rejected:", firstLine(err.Error()))
		} else if project.String(t2.Statements) != project.String(tree.Statements) {
			fmt.Println("RT   differs:", project.String(t2.Statements))
		}
	}
}

func firstLine(s string) string {
	for i, c := range s {
		if c == '\n' {
			return s[:i]
		}
	}
	return s
}
