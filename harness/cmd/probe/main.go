package main

import (
	"fmt"
	"github.com/ajitpratap0/GoSQLX/pkg/gosqlx"
	"verif/internal/project"
)

func main() {
	base := "SELECT a FROM t LEFT JOIN u ON t.a = u.a GROUP BY a ORDER BY a"
	t0, err := gosqlx.Parse(base)
	fmt.Println(err)
	ref := project.String(t0.Statements)
	for _, s := range []string{
		"SELECT a FROM t LEFT /* c */ JOIN u ON t.a = u.a GROUP BY a ORDER BY a",
		"SELECT a FROM t LEFT JOIN u ON t.a = u.a GROUP /* c */ BY a ORDER BY a",
		"SELECT a FROM t LEFT JOIN u ON t.a = u.a GROUP BY a ORDER -- c\n BY a",
		"SELECT a FROM t LEFT\nJOIN u ON t.a = u.a GROUP\tBY a ORDER   BY a",
		"SELECT a FROM t LEFT OUTER JOIN u ON t.a = u.a GROUP BY a ORDER BY a",
		"SELECT a FROM t LEFT /*c*/ OUTER /*c*/ JOIN u ON t.a = u.a GROUP BY a ORDER BY a",
		"select a from t left join u on t.a = u.a group by a order by a",
	} {
		t, err := gosqlx.Parse(s)
		if err != nil {
			fmt.Printf("%q\n   ERR %v\n", s, err)
			continue
		}
		fmt.Printf("%q\n   same=%v\n", s, project.String(t.Statements) == ref)
	}
}
