package main

import (
	"fmt"
	"github.com/ajitpratap0/GoSQLX/pkg/gosqlx"
)

func main() {
	for _, s := range []string{"SHOW TABLES", "DESCRIBE t", "DESC t", "EXPLAIN t", "REPLACE INTO t (a) VALUES (1)", "USE db", "ANALYZE t", "VACUUM", "CALL p(1)", "VALUES (1, 2)", "TABLE t", "SHOW DATABASES", "SHOW COLUMNS FROM t", "PRAGMA x", "(SELECT 1)"} {
		_, err := gosqlx.Parse(s)
		fmt.Printf("%-40q %v\n", s, err == nil)
	}
}
