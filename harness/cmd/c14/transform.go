package main

// Transforms are analyses built on traversal (the last sentence of C14): a rewrite rule that renames a table must reach
// the name wherever it sits.  The statements are the compositions of Names.tla (every position a table, column or
// function name can stand in, nested through every kind of hole); the law is Transform.tla's Commutes: renaming in the
// tree equals renaming in the text, i.e.  Apply(ReplaceTable(t, z), Parse(s)) = Parse(s[t := z])  for every table
// name t written in s.

import (
	"encoding/json"
	"regexp"
	"strings"
	"time"

	"github.com/ajitpratap0/GoSQLX/pkg/gosqlx"
	"github.com/ajitpratap0/GoSQLX/pkg/sql/ast"
	"github.com/ajitpratap0/GoSQLX/pkg/transform"

	"verif/internal/core"
	"verif/internal/gram"
)

type ncase struct {
	Path []string `json:"path"`
	Slot []string `json:"slot"`
	Toks []string `json:"toks"`
	T    []string `json:"T"`
	C    []string `json:"C"`
	A    []string `json:"A"`
}

var reLevel = regexp.MustCompile(`^[a-zA-Z]+?(\d)`)

// site names the frame a generated name belongs to (kind of the frame, and the kind it is nested in).
func site(c *ncase, name string) string {
	m := reLevel.FindStringSubmatch(name)
	if m == nil {
		return c.Path[len(c.Path)-1]
	}
	l := int(m[1][0] - '0')
	if l < 1 || l > len(c.Path) {
		return "?"
	}
	kind := c.Path[l-1]
	if strings.HasPrefix(kind, "slot-") && len(c.Slot) == 2 {
		kind = "slot:" + c.Slot[0]
	}
	if l == 1 {
		return kind
	}
	return kind + "-in-" + c.Path[l-2]
}

const renamed = "zz_renamed"

func transformLaws(tier string) {
	cfg := "Names_2.cfg"
	r := core.MustTLC(core.TLCOpts{Spec: "Names", Cfg: cfg, Timeout: 20 * time.Minute})
	run.AddTLC(r.Stat("compositions of name-bearing frames (source of statements for the rewrite rules)"))
	tr := core.MustTLC(core.TLCOpts{Spec: "Transform", Cfg: "Transform_rename.cfg", Timeout: 5 * time.Minute})
	run.AddTLC(tr.Stat("rewrite rules over abstract statements (sites of a name at every depth): Commutes, OnlyThatName"))
	pin, err := core.RunTLC(core.TLCOpts{Spec: "Transform", Cfg: "Transform_rename_owndescent.cfg", Timeout: 5 * time.Minute})
	if err != nil || pin.Violation != "Commutes" {
		core.Fatalf("Transform_rename_owndescent.cfg must violate Commutes (got %q, %v)", pin.Violation, err)
	}
	ps := pin.Stat("own-descent shape (the rule walks the clauses it knows instead of the tree): a site outside them keeps the old name")
	ps.ExpectViol = "Commutes"
	run.AddTLC(ps)

	judged, unsupported := 0, 0
	for ci, line := range r.Cases {
		var c ncase
		if err := json.Unmarshal([]byte(line), &c); err != nil {
			core.Fatalf("bad case: %v", err)
		}
		if tier != "thorough" && len(c.Path) > 1 && ci%2 == 1 {
			continue
		}
		for _, t := range c.T {
			if strings.Contains(t, ".") || t == renamed {
				continue
			}
			// the name must be a table name only: not an alias, not a column, not the name of a CTE being defined
			skip := false
			for _, a := range append(append([]string{}, c.A...), c.C...) {
				if strings.EqualFold(a, t) {
					skip = true
				}
			}
			sub := make([]string, len(c.Toks))
			for i, tok := range c.Toks {
				sub[i] = tok
				if tok == t {
					sub[i] = renamed
					if i+2 < len(c.Toks) && c.Toks[i+1] == "AS" && c.Toks[i+2] == "(" || i > 0 && c.Toks[i-1] == "." {
						skip = true // a CTE definition, or the name as the second part of a schema-qualified name
					}
				}
			}
			if skip {
				continue
			}
			text, want := gram.Layouts(c.Toks, 0), gram.Layouts(sub, 0)
			tree, err := gosqlx.Parse(text)
			run.Eval(1)
			if err != nil || len(tree.Statements) != 1 {
				continue
			}
			wtree, err := gosqlx.Parse(want)
			if err != nil || len(wtree.Statements) != 1 {
				ast.ReleaseAST(tree)
				continue
			}
			if err := transform.Apply(tree.Statements[0], transform.ReplaceTable(t, renamed)); err != nil {
				unsupported++
				ast.ReleaseAST(tree)
				ast.ReleaseAST(wtree)
				continue
			}
			judged++
			if len(c.Path) > 1 || len(c.Slot) == 2 && c.Slot[0] != "-" {
				run.Nontrivial("rename\x00" + text + "\x00" + t)
			}
			// what the rewritten tree stands for (redundant fields of the tree - the statement's TableName, a join's
			// copy of its left side - are not part of it)
			got, exp := transform.FormatSQL(tree.Statements[0]), transform.FormatSQL(wtree.Statements[0])
			if got != exp {
				run.Violate(core.Violation{Sig: "transform-missed|ReplaceTable|" + site(&c, t), Clause: "analyses built on traversal (transforms) cannot miss a nested sub-query or expression because of where it sits",
					Case:    map[string]any{"kind": "transform", "rule": "ReplaceTable", "old": t, "new": renamed, "path": c.Path, "slot": c.Slot, "sql": text},
					Observe: strDiff(got, exp), Expect: "the tree of: " + want})
			}
			ast.ReleaseAST(tree)
			ast.ReleaseAST(wtree)
		}
	}
	qualifyLaw(r.Cases)
	run.Extra["transform_rename_judged"] = judged
	run.Extra["transform_rename_unsupported_statement"] = unsupported
	if judged < 2000 {
		core.Fatalf("only %d renames judged", judged)
	}
}

func strDiff(a, b string) string {
	i := 0
	for i < len(a) && i < len(b) && a[i] == b[i] {
		i++
	}
	lo := i - 60
	if lo < 0 {
		lo = 0
	}
	ha, hb := i+80, i+80
	if ha > len(a) {
		ha = len(a)
	}
	if hb > len(b) {
		hb = len(b)
	}
	return "got ..." + a[lo:ha] + "... want ..." + b[lo:hb] + "..."
}

const qualifier = "zq"

// qualifyLaw: QualifyColumns(q) on a statement without sub-queries equals writing q. before every unqualified column
// reference in the text - whichever clause or operand position the reference stands in.
func qualifyLaw(cases []string) {
	judged := 0
	for _, line := range cases {
		var c ncase
		if err := json.Unmarshal([]byte(line), &c); err != nil {
			core.Fatalf("bad case: %v", err)
		}
		if len(c.Path) != 1 || len(c.C) == 0 {
			continue
		}
		cols := map[string]bool{}
		for _, x := range c.C {
			cols[x] = true
		}
		for _, a := range c.A { // a name that is also an alias is ambiguous at the token level
			delete(cols, a)
		}
		var sub []string
		n := 0
		for i, tok := range c.Toks {
			if cols[tok] && (i == 0 || c.Toks[i-1] != "." && c.Toks[i-1] != "AS") && (i+1 >= len(c.Toks) || c.Toks[i+1] != "." && c.Toks[i+1] != "(") {
				sub = append(sub, qualifier, ".", tok)
				n++
			} else {
				sub = append(sub, tok)
			}
		}
		if n == 0 {
			continue
		}
		text, want := gram.Layouts(c.Toks, 0), gram.Layouts(sub, 0)
		tree, err := gosqlx.Parse(text)
		run.Eval(1)
		if err != nil || len(tree.Statements) != 1 {
			continue
		}
		if _, ok := tree.Statements[0].(*ast.SelectStatement); !ok {
			ast.ReleaseAST(tree)
			continue
		}
		wtree, err := gosqlx.Parse(want)
		if err != nil || len(wtree.Statements) != 1 {
			ast.ReleaseAST(tree)
			continue
		}
		if err := transform.Apply(tree.Statements[0], transform.QualifyColumns(qualifier)); err != nil {
			core.Fatalf("QualifyColumns on a SELECT failed: %v", err)
		}
		judged++
		if len(c.Slot) == 2 && c.Slot[0] != "-" {
			run.Nontrivial("qualify\x00" + text)
		}
		got, exp := transform.FormatSQL(tree.Statements[0]), transform.FormatSQL(wtree.Statements[0])
		if got != exp {
			where := c.Path[0]
			if len(c.Slot) == 2 && c.Slot[0] != "-" {
				where = "slot:" + c.Slot[0] + ":" + c.Slot[1]
			}
			run.Violate(core.Violation{Sig: "transform-missed|QualifyColumns|" + where, Clause: "analyses built on traversal (transforms) cannot miss a nested sub-query or expression because of where it sits",
				Case:    map[string]any{"kind": "transform", "rule": "QualifyColumns", "qualifier": qualifier, "path": c.Path, "slot": c.Slot, "sql": text},
				Observe: strDiff(got, exp), Expect: "the tree of: " + want})
		}
		ast.ReleaseAST(tree)
		ast.ReleaseAST(wtree)
	}
	run.Extra["transform_qualify_judged"] = judged
	if judged < 300 {
		core.Fatalf("only %d QualifyColumns cases judged", judged)
	}
}
