#!/bin/sh
# usage: gen.sh <repo> <verif dir> [modflag]
set -e
REPO="$1"; V="$2"
go run ./cmd/c14gen "$REPO" "$V/harness/cmd/c14/registry_gen.go"
