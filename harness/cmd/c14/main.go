// C14 — tree traversal reaches every node of every tree.
//
//	M  Walk.tla, machine "algo": Walk/Inspect as an explicit call stack over every ordered tree of <= N nodes and
//	   every assignment of visitor verdicts (go / prune / error / error in the closing call), checked against a
//	   denotational reference (LogIsPrefixOfRef, FinalLogIsRef, CompleteWhenAllGo, NothingForeign,
//	   PrunedIsSkipped, Terminates): GIVEN complete Children(), Walk reaches everything exactly once.
//	   Machine "edges": paths of composable (owner type, field, target type) edges over the node schema, which is
//	   extracted from the working tree on every run (node types by c14gen, fields and targets by reflection).
//	R  every algo case is built from real nodes and walked by the real ast.Walk (and ast.Inspect where no error
//	   verdict occurs) with a visitor that follows the verdicts; the event log must equal the specification's.
//	   Every edge path is built from real nested nodes and ast.Inspect must reach the innermost one.
//	   Every model statement and corpus file is parsed and the set of nodes seen by ast.Inspect is compared with
//	   the set of node-typed values reachable from the tree by reflection, both ways.
package main

import (
	"encoding/json"
	"fmt"
	"os"
	"reflect"
	"sort"
	"strings"
	"time"

	"github.com/ajitpratap0/GoSQLX/pkg/gosqlx"
	"github.com/ajitpratap0/GoSQLX/pkg/sql/ast"

	"verif/internal/core"
	"verif/internal/gram"
)

var (
	run    *core.Run
	schema []byte
)

func main() {
	tier := os.Getenv("VERIF_TIER")
	if tier == "" {
		tier = "quick"
	}
	run = core.NewRun("C14", tier, "model_checking")
	run.Rule = "traversal algorithm: every ordered tree of <= 4 (quick) / 5 (thorough) nodes x every verdict assignment, on real nodes; structure: every (owner type, field, target type) edge of the schema extracted from the working tree (thorough: every composable pair of edges); whole trees: every model statement and corpus file; non-trivial = a tree with >= 3 nodes and a non-go verdict, an edge whose field is not the owner's first, a parsed statement with >= 6 nodes"
	run.Assumptions = []string{
		"a node is 'part of the tree' when it is reachable from the *ast.AST through exported fields (pointers, interfaces, slices, arrays, maps, embedded plain structs)",
		"a node stored by value is identified by the address of its storage, or by deep equality when Children() hands out a copy",
	}
	initSchema()
	buildSchemaModule()
	run.Extra["node_types_extracted"] = len(nodeTypes)

	algo(tier)
	edges(tier)
	wholeTrees(tier)
	transformLaws(tier)
	run.Exhaustive = true
	run.Finish()
}

func tlc(cfg string, to time.Duration) *core.TLCResult {
	return core.MustTLC(core.TLCOpts{Spec: "Walk", Cfg: cfg, Timeout: to, ExtraFile: map[string][]byte{"NodeSchema.tla": schema}})
}

// ---------------------------------------------------------------------------------------------------------
// schema module

// unreturnedPinned lists the (owner, field) pairs whose Children() did not return the field at the pinned commit
// (transcribed from this driver's findings on that commit; used only to show that TLC sees the hole).
var unreturnedPinned = [][2]string{{"WindowFrame", "Start"}, {"WindowFrame", "End"}, {"OnConflict", "Action.Where"},
	{"CreateTableStatement", "Options"}, {"CreateTable", "OnCluster"}, {"CreateTable", "AggregationPolicy"},
	{"AlterTableOperation", "ColumnName"}, {"AlterTableOperation", "TableName"}, {"FunctionDesc", "Name"},
	{"TriggerEvent", "Columns"}, {"TriggerExecBody", "FuncDesc"}, {"TriggerReferencing", "TransitionRelationName"}}

type edge struct {
	Owner  string `json:"owner"`
	Field  string `json:"field"`
	Target string `json:"target"`
}

var (
	typeByName = map[string]reflect.Type{}
	slotByKey  = map[string]slot{}
	allEdges   []edge
)

func buildSchemaModule() {
	var b strings.Builder
	b.WriteString("---- MODULE NodeSchema ----\n\\* generated on every run from the working tree (c14gen + reflection)\nEdges == {\n")
	first := true
	for _, t := range nodeTypes {
		typeByName[t.Name()] = t
		for _, s := range slotsOf(t) {
			slotByKey[t.Name()+"."+s.Name] = s
			for _, tg := range s.Targets {
				if !first {
					b.WriteString(",\n")
				}
				first = false
				fmt.Fprintf(&b, "  [owner |-> %q, field |-> %q, target |-> %q]", t.Name(), s.Name, tg.Name())
				allEdges = append(allEdges, edge{t.Name(), s.Name, tg.Name()})
			}
		}
	}
	b.WriteString("}\nUnreturned == {")
	for i, u := range unreturnedPinned {
		if i > 0 {
			b.WriteString(", ")
		}
		fmt.Fprintf(&b, "<<%q, %q>>", u[0], u[1])
	}
	b.WriteString("}\n====\n")
	schema = []byte(b.String())
	run.Extra["schema_edges_extracted"] = len(allEdges)
	if len(allEdges) < 500 {
		core.Fatalf("schema extraction found only %d edges", len(allEdges))
	}
}

// ---------------------------------------------------------------------------------------------------------
// algorithm replay

type ev struct {
	Ev   string `json:"ev"`
	Node int    `json:"node"`
}
type algoCase struct {
	N       int      `json:"n"`
	Parent  []int    `json:"parent"`
	Verdict []string `json:"verdict"`
	Log     []ev     `json:"log"`
	Failed  bool     `json:"failed"`
}

type walkState struct {
	c   *algoCase
	id  map[ast.Node]int
	log []ev
}
type vis struct {
	s    *walkState
	node int
}

var errVerdict = fmt.Errorf("verdict: error")

func (v *vis) Visit(n ast.Node) (ast.Visitor, error) {
	if n == nil {
		if v.node == 0 {
			return nil, nil
		}
		v.s.log = append(v.s.log, ev{"leave", v.node})
		if v.s.c.Verdict[v.node-1] == "posterr" {
			return nil, errVerdict
		}
		return nil, nil
	}
	id, ok := v.s.id[n]
	if !ok {
		id = -1
	}
	if id == 0 {
		return &vis{v.s, 0}, nil // pass-through node of a stretched edge
	}
	v.s.log = append(v.s.log, ev{"visit", id})
	if id < 0 {
		return nil, nil
	}
	switch v.s.c.Verdict[id-1] {
	case "error":
		return nil, errVerdict
	case "prune":
		return nil, nil
	}
	return &vis{v.s, id}, nil
}

// buildReal builds the case's tree from real nodes. With stretch > 0 every edge of the model tree is replaced by
// a chain of that many pass-through nodes (unary/cast/alias nodes the visitor always descends into): for the
// model's nodes such a chain is stuttering, so the log projected on the model's nodes must still be the
// specification's log.
func buildReal(c *algoCase, rot, stretch int) (ast.Node, map[ast.Node]int) {
	kids := make([][]int, c.N+1)
	for i := 2; i <= c.N; i++ {
		kids[c.Parent[i-1]] = append(kids[c.Parent[i-1]], i)
	}
	id := map[ast.Node]int{}
	var mk func(i int) ast.Expression
	mk = func(i int) ast.Expression {
		var ch []ast.Expression
		for _, k := range kids[i] {
			e := mk(k)
			for j := 0; j < stretch; j++ {
				switch j % 3 {
				case 0:
					e = &ast.UnaryExpression{Operator: ast.Minus, Expr: e}
				case 1:
					e = &ast.CastExpression{Expr: e, Type: "INT"}
				default:
					e = &ast.AliasedExpression{Expr: e, Alias: "x"}
				}
				id[e] = 0 // pass-through
			}
			ch = append(ch, e)
		}
		var n ast.Expression
		r := (rot + i) % 4
		switch {
		case len(ch) == 0 && r%2 == 0:
			n = &ast.Identifier{Name: fmt.Sprintf("n%d", i)}
		case len(ch) == 0:
			n = &ast.LiteralValue{Value: fmt.Sprint(i), Type: "int"}
		case len(ch) == 1 && r == 0:
			n = &ast.UnaryExpression{Operator: ast.Minus, Expr: ch[0]}
		case len(ch) == 1 && r == 1:
			n = &ast.CastExpression{Expr: ch[0], Type: "INT"}
		case len(ch) == 1 && r == 2:
			n = &ast.AliasedExpression{Expr: ch[0], Alias: "x"}
		case len(ch) == 2 && r < 2:
			n = &ast.BinaryExpression{Left: ch[0], Operator: "+", Right: ch[1]}
		case r == 0 || r == 3:
			n = &ast.FunctionCall{Name: "f", Arguments: ch}
		case r == 1:
			n = &ast.ListExpression{Values: ch}
		default:
			n = &ast.TupleExpression{Expressions: ch}
		}
		id[n] = i
		return n
	}
	root := mk(1)
	return root, id
}

func sameLog(a, b []ev) bool {
	if len(a) != len(b) {
		return false
	}
	for i := range a {
		if a[i] != b[i] {
			return false
		}
	}
	return true
}

func algo(tier string) {
	cfg := "Walk_algo4.cfg"
	if tier == "thorough" {
		cfg = "Walk_algo5.cfg"
	}
	r := tlc(cfg, 20*time.Minute)
	run.AddTLC(r.Stat("Walk as a call-stack machine over all ordered trees x all verdict assignments vs the denotational reference"))
	lv := tlc("Walk_live.cfg", 5*time.Minute)
	run.AddTLC(lv.Stat("liveness: every walk terminates"))
	if len(r.Cases) == 0 {
		core.Fatalf("no algo cases")
	}
	for ci, line := range r.Cases {
		var c algoCase
		if err := json.Unmarshal([]byte(line), &c); err != nil {
			core.Fatalf("bad algo case %q: %v", line, err)
		}
		for rot := 0; rot < 3; rot++ {
			stretch := 0
			if rot == 2 {
				if c.N < 2 || (ci%4 != 0 && tier != "thorough") {
					continue
				}
				stretch = []int{150, 700, 2500}[ci%3]
			}
			root, id := buildReal(&c, ci+rot, stretch)
			st := &walkState{c: &c, id: id}
			var werr error
			func() {
				defer func() {
					if p := recover(); p != nil {
						werr = fmt.Errorf("panic: %v", p)
					}
				}()
				werr = ast.Walk(&vis{st, 0}, root)
			}()
			run.Eval(1)
			nonGo := false
			for _, v := range c.Verdict {
				if v != "go" {
					nonGo = true
				}
			}
			if c.N >= 3 && nonGo {
				run.Nontrivial(line)
			}
			if !sameLog(st.log, c.Log) || (werr != nil) != c.Failed || (werr != nil && werr != errVerdict) {
				run.Violate(core.Violation{Sig: "walk-log-differs|" + firstDiff(st.log, c.Log), Clause: "walking visits every node that is part of the tree and nothing that is not (traversal follows Walk.tla)",
					Case: map[string]any{"kind": "algo", "case": c, "rot": ci + rot, "stretch": stretch}, Observe: map[string]any{"log": st.log, "err": fmt.Sprint(werr)}, Expect: c.Log})
			}
			// Inspect: go/prune verdicts only
			if !c.Failed && !hasVerdict(&c, "posterr") {
				var log []ev
				var stack []int
				ast.Inspect(root, func(n ast.Node) bool {
					if n == nil {
						if top := stack[len(stack)-1]; top != 0 {
							log = append(log, ev{"leave", top})
						}
						stack = stack[:len(stack)-1]
						return false
					}
					i := id[n]
					if i == 0 {
						stack = append(stack, 0)
						return true
					}
					log = append(log, ev{"visit", i})
					if c.Verdict[i-1] == "go" {
						stack = append(stack, i)
						return true
					}
					return false
				})
				run.Eval(1)
				if !sameLog(log, c.Log) {
					run.Violate(core.Violation{Sig: "inspect-log-differs|" + firstDiff(log, c.Log), Clause: "inspection visits every node that is part of the tree and nothing that is not",
						Case: map[string]any{"kind": "algo-inspect", "case": c, "rot": ci + rot, "stretch": stretch}, Observe: log, Expect: c.Log})
				}
			}
		}
		if ci%977 == 5 {
			run.Sample(map[string]any{"kind": "algo", "case": c})
		}
	}
	run.Traces(int64(len(r.Cases)))
}

func firstN(s string, n int) string {
	if len(s) > n {
		return s[:n] + "..."
	}
	return s
}

func hasVerdict(c *algoCase, v string) bool {
	for _, x := range c.Verdict {
		if x == v {
			return true
		}
	}
	return false
}

func firstDiff(got, want []ev) string {
	for i := 0; i < len(got) && i < len(want); i++ {
		if got[i] != want[i] {
			return fmt.Sprintf("%s-instead-of-%s", got[i].Ev, want[i].Ev)
		}
	}
	if len(got) < len(want) {
		return "missing-" + want[len(got)].Ev
	}
	if len(got) > len(want) {
		return "extra-" + got[len(want)].Ev
	}
	return "error-status"
}

// ---------------------------------------------------------------------------------------------------------
// edges

func asNode(v reflect.Value) (ast.Node, bool) {
	// v is an addressable struct value of a node type
	if v.CanAddr() {
		if n, ok := v.Addr().Interface().(ast.Node); ok {
			return n, true
		}
	}
	n, ok := v.Interface().(ast.Node)
	return n, ok
}

func mark(v reflect.Value, m string) {
	if v.Kind() != reflect.Struct {
		return
	}
	for i := 0; i < v.NumField(); i++ {
		if v.Type().Field(i).IsExported() && v.Field(i).Kind() == reflect.String {
			v.Field(i).SetString(m)
			return
		}
	}
}

// fill puts benign nodes in every node-capable field of v (a struct value of node type t) except skip.
func fill(v reflect.Value, t reflect.Type, skip string) {
	for _, s := range slotsOf(t) {
		if s.Name == skip || len(s.Targets) == 0 {
			continue
		}
		tg := s.Targets[0]
		for _, c := range s.Targets {
			if c.Name() == "Identifier" {
				tg = c
			}
		}
		inner := reflect.New(tg)
		mark(inner.Elem(), "filler")
		store(v, s, inner)
	}
}

// store puts the node *inner into slot s of the struct value v.
func store(v reflect.Value, s slot, inner reflect.Value) reflect.Value {
	f := v.FieldByIndex(s.Path)
	var val reflect.Value
	switch s.Store {
	case "iface":
		if inner.Type().Implements(s.Static) {
			val = inner
		} else {
			val = inner.Elem()
		}
	case "ptr":
		val = inner
	case "value":
		val = inner.Elem()
	}
	ft := f.Type()
	if s.Slice == 0 {
		f.Set(val)
		return f
	}
	// wrap in slices of length one (arrays: index 0)
	var wrap func(t reflect.Type, level int) reflect.Value
	var leaf reflect.Value
	wrap = func(t reflect.Type, level int) reflect.Value {
		if level == 0 {
			return val
		}
		var c reflect.Value
		if t.Kind() == reflect.Array {
			c = reflect.New(t).Elem()
		} else {
			c = reflect.MakeSlice(t, 1, 1)
		}
		c.Index(0).Set(wrap(t.Elem(), level-1))
		return c
	}
	f.Set(wrap(ft, s.Slice))
	leaf = f
	for i := 0; i < s.Slice; i++ {
		leaf = leaf.Index(0)
	}
	return leaf
}

type edgeOutcome struct {
	reached bool
	panicked string
	typedNil []string
}

func tryPath(path []edge, filled bool) edgeOutcome {
	var out edgeOutcome
	last := path[len(path)-1]
	tt := typeByName[last.Target]
	sent := reflect.New(tt)
	mark(sent.Elem(), "SENTINEL")
	cur := sent
	var storage reflect.Value
	for k := len(path) - 1; k >= 0; k-- {
		e := path[k]
		ot := typeByName[e.Owner]
		owner := reflect.New(ot)
		if filled {
			fill(owner.Elem(), ot, e.Field)
		}
		st := store(owner.Elem(), slotByKey[e.Owner+"."+e.Field], cur)
		if k == len(path)-1 {
			storage = st
		}
		cur = owner
	}
	root, ok := asNode(cur.Elem())
	if !ok {
		core.Fatalf("%s is not a node", path[0].Owner)
	}
	sentPtr := sent.Pointer()
	var storePtr uintptr
	if storage.Kind() == reflect.Struct && storage.CanAddr() {
		storePtr = storage.Addr().Pointer()
	}
	sentVal := sent.Elem().Interface()
	func() {
		defer func() {
			if p := recover(); p != nil {
				out.panicked = fmt.Sprint(p)
			}
		}()
		ast.Inspect(root, func(n ast.Node) bool {
			if n == nil {
				return false
			}
			rv := reflect.ValueOf(n)
			if rv.Kind() == reflect.Ptr {
				if rv.IsNil() {
					out.typedNil = append(out.typedNil, rv.Type().Elem().Name())
					return false
				}
				if rv.Pointer() == sentPtr || (storePtr != 0 && rv.Pointer() == storePtr && rv.Type().Elem() == tt) {
					out.reached = true
				} else if rv.Type().Elem() == tt && rv.Pointer() != cur.Pointer() && reflect.DeepEqual(rv.Elem().Interface(), sentVal) {
					out.reached = true
				}
			} else if rv.Type() == tt && reflect.DeepEqual(rv.Interface(), sentVal) {
				out.reached = true
			}
			return true
		})
	}()
	return out
}

func edges(tier string) {
	cfg := "Walk_edges1.cfg"
	if tier == "thorough" {
		cfg = "Walk_edges2.cfg"
	}
	r := tlc(cfg, 30*time.Minute)
	run.AddTLC(r.Stat("paths of composable edges over the extracted node schema: EdgeReached, PathWellFormed"))
	pr, err := core.RunTLC(core.TLCOpts{Spec: "Walk", Cfg: "Walk_edges_pinned.cfg", Timeout: 5 * time.Minute, ExtraFile: map[string][]byte{"NodeSchema.tla": schema}})
	if err != nil || pr.Violation != "EdgeReached" {
		// the pinned pairs may no longer exist in the schema (field renamed/removed): then the contrast run cannot fail
		present := false
		for _, u := range unreturnedPinned {
			if _, ok := slotByKey[u[0]+"."+u[1]]; ok {
				present = true
			}
		}
		if present {
			core.Fatalf("Walk_edges_pinned.cfg must violate EdgeReached (got %q, %v)", pr.Violation, err)
		}
	} else {
		st := pr.Stat("pinned shape (Children() omits window frame bounds): TLC must find the unreachable edge")
		st.ExpectViol = "EdgeReached"
		run.AddTLC(st)
	}
	seen := map[string]bool{}
	unjudged, typedNilTotal := 0, 0
	first := map[string]string{}
	for _, t := range nodeTypes {
		if ss := slotsOf(t); len(ss) > 0 {
			first[t.Name()] = ss[0].Name
		}
	}
	for _, line := range r.Cases {
		if seen[line] {
			continue
		}
		seen[line] = true
		var path []edge
		if err := json.Unmarshal([]byte(line), &path); err != nil {
			core.Fatalf("bad path %q", line)
		}
		run.Eval(1)
		last := path[len(path)-1]
		if first[last.Owner] != last.Field {
			run.Nontrivial(line)
		}
		o := tryPath(path, false)
		if o.panicked != "" {
			o = tryPath(path, true)
		}
		if o.panicked != "" {
			unjudged++
			continue
		}
		typedNilTotal += len(o.typedNil)
		if !o.reached {
			// name the first edge on the path that is not reached on its own
			bad := last
			for _, e := range path {
				if s := tryPath([]edge{e}, false); s.panicked == "" && !s.reached {
					bad = e
					break
				}
			}
			run.Violate(core.Violation{Sig: "unvisited-field|" + bad.Owner + "." + bad.Field, Clause: "traversal visits everything reachable through the tree's own fields (per node type x field)",
				Case: map[string]any{"kind": "edge", "path": path}, Observe: "ast.Inspect from the outermost owner never reaches the node stored in the field"})
		}
	}
	if len(seen) < len(allEdges) {
		core.Fatalf("TLC printed %d paths for %d edges", len(seen), len(allEdges))
	}
	run.Extra["edge_paths_replayed"] = len(seen)
	run.Extra["edge_paths_unjudged_panic_on_synthetic_node"] = unjudged
	run.Extra["typed_nil_children_seen_on_synthetic_nodes"] = typedNilTotal
	if unjudged*5 > len(seen) {
		core.Fatalf("%d of %d edge paths could not be judged (synthetic nodes panic)", unjudged, len(seen))
	}
	run.Traces(int64(len(seen)))
}

// ---------------------------------------------------------------------------------------------------------
// whole trees

type nkey struct {
	p uintptr
	t reflect.Type
}
type rnode struct {
	key    nkey
	where  string
	val    reflect.Value
	parent int // index of the nearest enclosing node in the result, -1 for the root
}

func isNodeT(t reflect.Type) bool {
	return t.Kind() == reflect.Struct && (nodeSet[t] || t.Implements(nodeIface) || reflect.PointerTo(t).Implements(nodeIface))
}

func reach(root reflect.Value) []rnode {
	var out []rnode
	seen := map[nkey]bool{}
	cur := -1 // index of the nearest enclosing node
	var visit func(v reflect.Value, owner, field string, viaPtr bool)
	visit = func(v reflect.Value, owner, field string, viaPtr bool) {
		switch v.Kind() {
		case reflect.Interface:
			if !v.IsNil() {
				visit(v.Elem(), owner, field, false)
			}
		case reflect.Ptr:
			if v.IsNil() {
				return
			}
			et := v.Type().Elem()
			if isNodeT(et) {
				k := nkey{v.Pointer(), et}
				if seen[k] {
					return
				}
				seen[k] = true
				out = append(out, rnode{k, owner + "." + field + ">" + et.Name(), v.Elem(), cur})
				save := cur
				cur = len(out) - 1
				visit(v.Elem(), et.Name(), "", true)
				cur = save
				return
			}
			if et.Kind() == reflect.Struct || et.Kind() == reflect.Slice || et.Kind() == reflect.Interface || et.Kind() == reflect.Ptr {
				k := nkey{v.Pointer(), et}
				if seen[k] {
					return
				}
				seen[k] = true
				visit(v.Elem(), owner, field, false)
			}
		case reflect.Struct:
			t := v.Type()
			own, fld := owner, field
			save := cur
			defer func() { cur = save }()
			if isNodeT(t) {
				if !viaPtr && v.IsZero() {
					return // a zero struct stored by value is how an absent optional node is spelled
				}
				if !viaPtr {
					var p uintptr
					if v.CanAddr() {
						p = v.Addr().Pointer()
					}
					k := nkey{p, t}
					if p != 0 && seen[k] {
						return
					}
					seen[k] = true
					out = append(out, rnode{k, owner + "." + field + ">" + t.Name(), v, cur})
					cur = len(out) - 1
				}
				own = t.Name()
				fld = ""
			}
			if t.PkgPath() != "" && !strings.Contains(t.PkgPath(), "GoSQLX") {
				return
			}
			for i := 0; i < t.NumField(); i++ {
				if !t.Field(i).IsExported() {
					continue
				}
				fn := t.Field(i).Name
				if fld != "" {
					fn = fld + "." + fn
				}
				visit(v.Field(i), own, fn, false)
			}
		case reflect.Slice, reflect.Array:
			for i := 0; i < v.Len(); i++ {
				visit(v.Index(i), owner, field, false)
			}
		case reflect.Map:
			it := v.MapRange()
			for it.Next() {
				visit(it.Value(), owner, field, false)
			}
		}
	}
	visit(root, "root", "", false)
	return out
}

// pumped returns statements whose trees are far deeper or wider than any model statement: operator chains (built
// by the parser in a loop, so deeper than its recursion limit), long lists, many joins, set-operation chains.
func pumped(tier string) []gram.Input {
	var out []gram.Input
	rep := func(n int, f func(i int) string, sep string) string {
		var b strings.Builder
		for i := 0; i < n; i++ {
			if i > 0 {
				b.WriteString(sep)
			}
			b.WriteString(f(i))
		}
		return b.String()
	}
	sizes := []int{60, 450, 1500}
	if tier == "thorough" {
		sizes = append(sizes, 6000)
	}
	for _, n := range sizes {
		d := fmt.Sprintf("pumped:%d:", n)
		out = append(out,
			gram.Input{Text: "SELECT a FROM t WHERE a IN (SELECT k FROM s) OR " + rep(n, func(i int) string { return fmt.Sprintf("a = %d", i) }, " OR "), Desc: d + "or-chain"},
			gram.Input{Text: "SELECT a FROM t WHERE " + rep(n, func(i int) string { return fmt.Sprintf("c%d > %d", i, i) }, " AND ") + " AND EXISTS (SELECT 1 FROM s)", Desc: d + "and-chain"},
			gram.Input{Text: "SELECT (SELECT MAX(k) FROM s) + " + rep(n, func(i int) string { return fmt.Sprintf("c%d", i) }, " + ") + " FROM t", Desc: d + "plus-chain"},
			gram.Input{Text: "SELECT " + rep(n, func(i int) string { return fmt.Sprintf("n%d", i) }, " || ") + " FROM t", Desc: d + "concat-chain"},
			gram.Input{Text: "SELECT a FROM t WHERE a IN (" + rep(n, func(i int) string { return fmt.Sprint(i) }, ", ") + ")", Desc: d + "in-list"},
			gram.Input{Text: "SELECT " + rep(n, func(i int) string { return fmt.Sprintf("c%d AS x%d", i, i) }, ", ") + " FROM t", Desc: d + "select-list"},
			gram.Input{Text: "SELECT CASE " + rep(n, func(i int) string { return fmt.Sprintf("WHEN a = %d THEN %d", i, i) }, " ") + " ELSE 0 END FROM t", Desc: d + "case-whens"},
			gram.Input{Text: "INSERT INTO t (a, b) VALUES " + rep(n, func(i int) string { return fmt.Sprintf("(%d, 'v%d')", i, i) }, ", "), Desc: d + "values-rows"},
		)
		if n <= 450 {
			out = append(out,
				gram.Input{Text: "SELECT a FROM t0 " + rep(n, func(i int) string { return fmt.Sprintf("JOIN t%d ON t%d.k = t0.k", i+1, i+1) }, " "), Desc: d + "joins"},
				gram.Input{Text: rep(n, func(i int) string { return fmt.Sprintf("SELECT c%d FROM t%d", i, i) }, " UNION ALL "), Desc: d + "union-chain"})
		}
	}
	// nesting up to what the parser accepts
	for _, n := range []int{20, 45, 90} {
		out = append(out,
			gram.Input{Text: "SELECT " + strings.Repeat("(", n) + "a" + strings.Repeat(")", n) + " FROM t", Desc: fmt.Sprintf("pumped:%d:parens", n)},
			gram.Input{Text: "SELECT a FROM t WHERE a IN " + strings.Repeat("(SELECT a FROM t WHERE a IN ", n) + "(1)" + strings.Repeat(")", n), Desc: fmt.Sprintf("pumped:%d:subqueries", n)},
			gram.Input{Text: "SELECT " + strings.Repeat("f(", n) + "a" + strings.Repeat(")", n) + " FROM t", Desc: fmt.Sprintf("pumped:%d:calls", n)})
	}
	return out
}

func wholeTrees(tier string) {
	inputs := append(pumped(tier), gram.Inputs(run, tier)...)
	pumpedParsed := 0
	parsed := 0
	for ii, in := range inputs {
		tree, err := gosqlx.Parse(in.Text)
		if err != nil {
			continue
		}
		parsed++
		if strings.HasPrefix(in.Desc, "pumped:") {
			pumpedParsed++
		}
		run.Eval(1)
		want := reach(reflect.ValueOf(tree))
		visited := map[nkey]int{}
		alive := map[nkey]reflect.Value{} // keeps copies handed out by Children() alive and readable
		var visitedVals []reflect.Value
		var nilTypes []string
		panicked := ""
		func() {
			defer func() {
				if p := recover(); p != nil {
					panicked = fmt.Sprint(p)
				}
			}()
			ast.Inspect(tree, func(n ast.Node) bool {
				if n == nil {
					return false
				}
				rv := reflect.ValueOf(n)
				if rv.Kind() == reflect.Ptr {
					if rv.IsNil() {
						nilTypes = append(nilTypes, rv.Type().Elem().Name())
						return false
					}
					visited[nkey{rv.Pointer(), rv.Type().Elem()}]++
					alive[nkey{rv.Pointer(), rv.Type().Elem()}] = rv
				} else {
					visitedVals = append(visitedVals, rv)
				}
				return true
			})
		}()
		if len(want) >= 6 {
			run.Nontrivial(in.Text)
		}
		cse := map[string]any{"kind": "tree", "sql": firstN(in.Text, 600), "from": in.Desc}
		if panicked != "" {
			run.Violate(core.Violation{Sig: "inspect-panics|" + core.CrashLine(panicked), Clause: "walking a parsed tree visits every node", Case: cse, Observe: panicked})
			continue
		}
		for _, t := range nilTypes {
			run.Violate(core.Violation{Sig: "visited-typed-nil|" + t, Clause: "traversal visits nothing that is not part of the tree", Case: cse,
				Observe: "the visitor was handed a nil *" + t})
		}
		wantKeys := map[nkey]bool{}
		for _, w := range want {
			wantKeys[w.key] = true
		}
		seenW := make([]bool, len(want))
		for wi, w := range want {
			if w.key.p != 0 && visited[w.key] > 0 {
				seenW[wi] = true
				continue
			}
			// a copy handed out by value or by pointer to a copy
			ok := false
			for _, vv := range visitedVals {
				if vv.Type() == w.key.t && reflect.DeepEqual(vv.Interface(), w.val.Interface()) {
					ok = true
					break
				}
			}
			if !ok {
				for k := range visited {
					if k.t == w.key.t && !wantKeys[k] {
						if reflect.DeepEqual(alive[k].Elem().Interface(), w.val.Interface()) {
							ok = true
							break
						}
					}
				}
			}
			seenW[wi] = ok
			if !ok && w.parent >= 0 && !seenW[w.parent] {
				continue // below a node that is itself unvisited: reported once, at the top
			}
			if !ok {
				run.Violate(core.Violation{Sig: "unvisited|" + w.where, Clause: "traversal visits every statement, clause and expression node reachable through the tree's own fields",
					Case: cse, Observe: "reachable by reflection at " + w.where + ", never handed to the visitor"})
			}
		}
		for k := range visited {
			if wantKeys[k] {
				continue
			}
			// a pointer to a copy of a value node is fine when the copy equals a node of the tree
			ok := false
			kv := alive[k].Elem().Interface()
			for _, w := range want {
				if w.key.t == k.t && reflect.DeepEqual(kv, w.val.Interface()) {
					ok = true
					break
				}
			}
			if !ok {
				run.Violate(core.Violation{Sig: "visited-foreign|" + k.t.Name(), Clause: "traversal visits nothing that is not part of the tree", Case: cse,
					Observe: firstN(fmt.Sprintf("%+v", kv), 300)})
			}
		}
		if ii%1500 == 7 {
			run.Sample(map[string]any{"kind": "tree", "sql": in.Text, "reachable_nodes": len(want), "visited_pointer_nodes": len(visited), "visited_value_nodes": len(visitedVals)})
		}
		ast.ReleaseAST(tree)
	}
	run.Extra["statements_parsed"] = parsed
	run.Extra["pumped_statements_parsed"] = pumpedParsed
	if pumpedParsed < 20 {
		core.Fatalf("only %d pumped statements parsed", pumpedParsed)
	}
	if parsed*10 < len(inputs)*8 {
		core.Fatalf("only %d of %d inputs parsed", parsed, len(inputs))
	}
	_ = sort.Strings
}
