package main

import (
	"reflect"
	"sort"

	"github.com/ajitpratap0/GoSQLX/pkg/sql/ast"
)

var nodeIface = reflect.TypeOf((*ast.Node)(nil)).Elem()

// slot describes one place of a node type that can hold a node: the field path from the node (through plain
// structs), how the value is stored and which node types may be stored there.
type slot struct {
	Owner   reflect.Type
	Path    []int  // field index path from the owner struct
	Name    string // dotted field names
	Store   string // "iface" | "ptr" | "value" ; Slice = wrapped in a slice ; PtrSlice etc. are flattened
	Slice   int    // number of slice levels around the stored value
	Static  reflect.Type
	Targets []reflect.Type // node types (struct types; stored as *T unless only T implements Node)
}

func isNodeType(t reflect.Type) bool {
	return t.Implements(nodeIface) || reflect.PointerTo(t).Implements(nodeIface)
}

var nodeSet = map[reflect.Type]bool{}

func initSchema() {
	for _, t := range nodeTypes {
		nodeSet[t] = true
	}
}

// implementors lists the registered node types assignable to interface type it (as T or *T).
func implementors(it reflect.Type) []reflect.Type {
	var out []reflect.Type
	for _, t := range nodeTypes {
		if t.Kind() == reflect.Interface {
			continue
		}
		if reflect.PointerTo(t).Implements(it) || t.Implements(it) {
			out = append(out, t)
		}
	}
	return out
}

func slotsOf(owner reflect.Type) []slot {
	var out []slot
	if owner.Kind() != reflect.Struct {
		return nil
	}
	var rec func(t reflect.Type, path []int, name string, depth int)
	rec = func(t reflect.Type, path []int, name string, depth int) {
		for i := 0; i < t.NumField(); i++ {
			f := t.Field(i)
			if !f.IsExported() {
				continue
			}
			p := append(append([]int{}, path...), i)
			n := f.Name
			if name != "" {
				n = name + "." + f.Name
			}
			ft := f.Type
			sl := 0
			for ft.Kind() == reflect.Slice || ft.Kind() == reflect.Array {
				ft = ft.Elem()
				sl++
			}
			switch {
			case ft.Kind() == reflect.Interface && (ft.Implements(nodeIface) || ft == nodeIface):
				out = append(out, slot{Owner: owner, Path: p, Name: n, Store: "iface", Slice: sl, Static: ft, Targets: implementors(ft)})
			case ft.Kind() == reflect.Ptr && ft.Elem().Kind() != reflect.Interface && isNodeType(ft.Elem()) && nodeSet[ft.Elem()]:
				out = append(out, slot{Owner: owner, Path: p, Name: n, Store: "ptr", Slice: sl, Static: ft, Targets: []reflect.Type{ft.Elem()}})
			case ft.Kind() == reflect.Struct && nodeSet[ft]:
				out = append(out, slot{Owner: owner, Path: p, Name: n, Store: "value", Slice: sl, Static: ft, Targets: []reflect.Type{ft}})
			case ft.Kind() == reflect.Struct && sl == 0 && depth < 2 && ft.PkgPath() == owner.PkgPath():
				rec(ft, p, n, depth+1) // a plain struct embedded by value: its node-capable fields belong to the owner
			case ft.Kind() == reflect.Ptr && ft.Elem().Kind() == reflect.Struct && !nodeSet[ft.Elem()] && ft.Elem().PkgPath() == owner.PkgPath():
				// pointer to a plain (non-node) struct of the package: recorded as a "plain" slot so that the
				// nodes inside it are accounted for by the whole-tree comparison
				out = append(out, slot{Owner: owner, Path: p, Name: n, Store: "plainptr", Slice: sl, Static: ft})
			case ft.Kind() == reflect.Struct && sl > 0 && !nodeSet[ft] && ft.PkgPath() == owner.PkgPath():
				out = append(out, slot{Owner: owner, Path: p, Name: n, Store: "plainvalue", Slice: sl, Static: ft})
			}
		}
	}
	rec(owner, nil, "", 0)
	sort.Slice(out, func(i, j int) bool { return out[i].Name < out[j].Name })
	return out
}
