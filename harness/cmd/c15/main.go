// C15 — extracted tables, columns and functions are exactly those referenced.
//
//	M  Names.tla: statements composed from frames (every position a table, column or function name can stand in)
//	   nested through every kind of hole up to Depth; for every composition the token rendering and the expected
//	   sets T / TQ / C / CQ / F, with the laws Written, Clean, Disjoint, Consistent, NestedIncluded.
//	R  every composition is laid out in four ways, parsed by the real parser and run through ExtractTables,
//	   ExtractTablesQualified, ExtractColumns, ExtractColumnsQualified, ExtractFunctions and ExtractMetadata: each
//	   result, as a set, must equal the specification's; no duplicates; every layout gives the same result; the
//	   convenience function equals the individual ones.
package main

import (
	"encoding/json"
	"fmt"
	"os"
	"regexp"
	"sort"
	"strings"
	"time"

	"github.com/ajitpratap0/GoSQLX/pkg/gosqlx"
	"github.com/ajitpratap0/GoSQLX/pkg/sql/ast"

	"verif/internal/core"
	"verif/internal/gram"
)

type ncase struct {
	Path []string   `json:"path"`
	Slot []string   `json:"slot"` // position and shape of the expression slot of a slot frame
	Toks []string   `json:"toks"`
	T    []string   `json:"T"`
	TQ   [][]string `json:"TQ"`
	C    []string   `json:"C"`
	CQ   [][]string `json:"CQ"`
	F    []string   `json:"F"`
	A    []string   `json:"A"`
}

var run *core.Run
var reLevel = regexp.MustCompile(`^[a-zA-Z]+?(\d)`)

func pathKey(c *ncase) string {
	k := strings.Join(c.Path, ">")
	if len(c.Slot) == 2 && c.Slot[0] != "-" {
		k += "[" + c.Slot[0] + ":" + c.Slot[1] + "]"
	}
	return k
}

func set(xs []string) map[string]bool {
	m := map[string]bool{}
	for _, x := range xs {
		m[x] = true
	}
	return m
}

// owner names the frame a generated name belongs to: "<kind>" or "<kind>-in-<parent kind>".
func owner(c *ncase, name string) string {
	base := name
	if i := strings.LastIndex(base, "."); i >= 0 {
		base = base[i+1:]
	}
	if base == "tshared" || base == "cshared" {
		return "shared"
	}
	m := reLevel.FindStringSubmatch(base)
	if m == nil {
		return c.Path[len(c.Path)-1]
	}
	l := int(m[1][0] - '0')
	if l < 1 || l > len(c.Path) {
		return "?"
	}
	kind := c.Path[l-1]
	if strings.HasPrefix(kind, "slot-") && len(c.Slot) == 2 {
		// a name of the expression (c<L>e.., FA<L>..) or of the frame around it
		role := "frame"
		if regexp.MustCompile(`^(c\d[efg]|F[ABC]\d)$`).MatchString(base) || base == "COUNT" {
			role = c.Slot[1]
		}
		kind = "slot:" + c.Slot[0] + ":" + role
	}
	if l == 1 {
		return kind
	}
	return kind + "-in-" + c.Path[l-2]
}

func classifyExtra(c *ncase, name string) string {
	up := strings.ToUpper(name)
	switch {
	case set(c.A)[name]:
		return "alias"
	case strings.Contains(name, "_with_") || strings.HasPrefix(name, "("):
		return "synthetic-name"
	case strings.Contains(name, "'") || strings.Contains(name, " "):
		return "string-content"
	case up == "SELECT" || up == "FROM" || up == "WHERE" || up == "JOIN" || up == "INT" || up == "ALL":
		return "keyword"
	case name == "*":
		return "star"
	}
	for _, t := range c.Toks {
		if strings.HasPrefix(t, "'") && strings.Contains(t, name) && !set(c.T)[name] && !set(c.C)[name] {
			return "string-content"
		}
	}
	return "other:" + owner(c, name)
}

func compare(c *ncase, what string, got []string, want []string, layout int, text string) {
	cse := map[string]any{"kind": "names", "path": c.Path, "slot": c.Slot, "sql": text, "layout": layout, "result": what}
	seen := map[string]int{}
	for _, g := range got {
		seen[g]++
	}
	for g, n := range seen {
		if n > 1 {
			run.Violate(core.Violation{Sig: what + "-duplicate|" + owner(c, g), Clause: "results are duplicate-free", Case: cse, Observe: got})
		}
	}
	w := set(want)
	for _, x := range want {
		if seen[x] == 0 {
			run.Violate(core.Violation{Sig: what + "-missing|" + owner(c, x), Clause: "the extracted set equals the set of names written in those positions, at any sub-query or CTE depth",
				Case: cse, Observe: got, Expect: want})
		}
	}
	for g := range seen {
		if !w[g] {
			run.Violate(core.Violation{Sig: what + "-extra|" + classifyExtra(c, g), Clause: "aliases, internally synthesised names, string contents and keywords never appear",
				Case: cse, Observe: got, Expect: want})
		}
	}
}

func qn(qs []gosqlx.QualifiedName, table bool) []string {
	var out []string
	for _, q := range qs {
		if table {
			// <<schema, name>>: a two-part table name is schema.name
			sch := q.Schema
			if q.Table != "" {
				sch = strings.TrimPrefix(sch+"."+q.Table, ".")
			}
			out = append(out, sch+"|"+q.Name)
		} else {
			qual := q.Table
			if q.Schema != "" {
				qual = q.Schema + "." + q.Table
			}
			out = append(out, qual+"|"+q.Name)
		}
	}
	return out
}

func pairs(ps [][]string) []string {
	var out []string
	for _, p := range ps {
		out = append(out, p[0]+"|"+p[1])
	}
	return out
}

func main() {
	tier := os.Getenv("VERIF_TIER")
	if tier == "" {
		tier = "quick"
	}
	run = core.NewRun("C15", tier, "model_checking")
	run.Rule = "every composition of Names.tla (27 leaf frames (among them the same table name under two qualifications) and 30 expression positions x 26 expression shapes, x 24 kinds of hole, depth <= 2 quick / 3 thorough; every SELECT composition also in three far contexts) x 4 layouts x 6 extraction functions; non-trivial = a composition of depth >= 2 or one with aliases, literals or shared names"
	run.Assumptions = []string{
		"a CTE referenced in FROM is a name written in a table position and is expected as written",
		"the unqualified table variant reports a qualified table as written (schema.name); column qualifiers are reported as written (an alias used as a qualifier is a qualifier, not an extracted table)",
	}
	cfg := "Names_2.cfg"
	if tier == "thorough" {
		cfg = "Names_3.cfg"
	}
	r := core.MustTLC(core.TLCOpts{Spec: "Names", Cfg: cfg, Timeout: 20 * time.Minute})
	run.AddTLC(r.Stat("compositions of name-bearing frames: Written, Clean, Disjoint, Consistent, NestedIncluded"))
	rejected := map[string]int{}
	for ci, line := range r.Cases {
		var c ncase
		if err := json.Unmarshal([]byte(line), &c); err != nil {
			core.Fatalf("bad case: %v", err)
		}
		var first map[string][]string
		for layout := 0; layout < 4; layout++ {
			text := gram.Layouts(c.Toks, layout)
			tree, err := gosqlx.Parse(text)
			run.Eval(1)
			if err != nil {
				rejected[pathKey(&c)]++
				continue
			}
			if len(c.Path) > 1 || len(c.A) > 0 {
				run.Nontrivial(text)
			}
			res := map[string][]string{
				"tables":            gosqlx.ExtractTables(tree),
				"tables-qualified":  qn(gosqlx.ExtractTablesQualified(tree), true),
				"columns":           gosqlx.ExtractColumns(tree),
				"columns-qualified": qn(gosqlx.ExtractColumnsQualified(tree), false),
				"functions":         gosqlx.ExtractFunctions(tree),
			}
			compare(&c, "tables", res["tables"], c.T, layout, text)
			compare(&c, "tables-qualified", res["tables-qualified"], pairs(c.TQ), layout, text)
			compare(&c, "columns", res["columns"], c.C, layout, text)
			compare(&c, "columns-qualified", res["columns-qualified"], pairs(c.CQ), layout, text)
			compare(&c, "functions", upperAll(res["functions"]), c.F, layout, text)
			md := gosqlx.ExtractMetadata(tree)
			mres := map[string][]string{"tables": md.Tables, "tables-qualified": qn(md.TablesQualified, true), "columns": md.Columns,
				"columns-qualified": qn(md.ColumnsQualified, false), "functions": md.Functions}
			for k, v := range res {
				if !sameSet(v, mres[k]) {
					run.Violate(core.Violation{Sig: "metadata-differs|" + k, Clause: "ExtractMetadata reports what the individual functions report",
						Case: map[string]any{"kind": "names", "path": c.Path, "sql": text}, Observe: mres[k], Expect: v})
				}
			}
			if first == nil {
				first = res
			} else {
				for k, v := range res {
					if !sameSet(v, first[k]) {
						run.Violate(core.Violation{Sig: "layout-dependent|" + k, Clause: "results do not depend on layout",
							Case: map[string]any{"kind": "names", "path": c.Path, "sql": text, "layout": layout}, Observe: v, Expect: first[k]})
					}
				}
			}
			ast.ReleaseAST(tree)
		}
		if c.Toks[0] == "SELECT" && (tier == "thorough" || len(c.Path) == 1 || ci%5 == 0) {
			farContexts(&c)
		}
		if ci%300 == 11 {
			run.Sample(map[string]any{"path": c.Path, "sql": strings.Join(c.Toks, " "), "T": c.T, "C": c.C, "F": c.F})
		}
	}
	run.Traces(int64(len(r.Cases)))
	var rj []string
	for k, n := range rejected {
		rj = append(rj, fmt.Sprintf("%s (%d layouts)", k, n))
	}
	sort.Strings(rj)
	run.Extra["compositions_rejected_by_the_parser"] = rj
	if len(rejected)*4 > len(r.Cases) {
		core.Fatalf("%d of %d compositions are rejected by the parser", len(rejected), len(r.Cases))
	}
	run.Exhaustive = true
	run.Finish()
}

func upperAll(xs []string) []string {
	out := make([]string, len(xs))
	for i, x := range xs {
		out[i] = strings.ToUpper(x)
	}
	return out
}

func sameSet(a, b []string) bool {
	x, y := set(a), set(b)
	if len(x) != len(y) {
		return false
	}
	for k := range x {
		if !y[k] {
			return false
		}
	}
	return true
}

// farContexts: FarContexts of Names.tla - the composition as the first (deepest) operand of a long conjunction in WHERE
// and in a join condition, and as the innermost of many derived tables.  Expected names: the composition's plus the
// context's own.
func farContexts(c *ncase) {
	q := strings.Join(c.Toks, " ")
	chain := func(n int) (string, []string) {
		var b strings.Builder
		var cols []string
		for i := 1; i <= n; i++ {
			fmt.Fprintf(&b, " AND fw%d = %d", i, i)
			cols = append(cols, fmt.Sprintf("fw%d", i))
		}
		return b.String(), cols
	}
	tail, tailCols := chain(130)
	deep, deepCols := q, []string{}
	for i := 1; i <= 40; i++ {
		deep = fmt.Sprintf("SELECT fd%d FROM ( %s ) fa%d", i, deep, i)
		deepCols = append(deepCols, fmt.Sprintf("fd%d", i))
	}
	for _, fc := range []struct {
		name, text string
		tabs, cols []string
	}{
		{"first-conjunct-before-long-chain", "SELECT fw0 FROM fwt WHERE EXISTS ( " + q + " )" + tail, []string{"fwt"}, append([]string{"fw0"}, tailCols...)},
		{"first-join-condition-conjunct-before-long-chain", "SELECT fw0 FROM fwt JOIN fwu ON EXISTS ( " + q + " )" + tail, []string{"fwt", "fwu"}, append([]string{"fw0"}, tailCols...)},
		{"innermost-of-deep-derived-tables", deep, nil, deepCols},
	} {
		tree, err := gosqlx.Parse(fc.text)
		run.Eval(1)
		if err != nil {
			continue
		}
		run.Nontrivial(fc.text)
		fcase := *c
		fcase.Path = append([]string{"far:" + fc.name}, c.Path...)
		var tq, cq []string
		for _, t := range fc.tabs {
			tq = append(tq, "|"+t)
		}
		for _, x := range fc.cols {
			cq = append(cq, "|"+x)
		}
		farCompare(&fcase, fc.name, "tables", gosqlx.ExtractTables(tree), append(append([]string{}, c.T...), fc.tabs...), fc.text)
		farCompare(&fcase, fc.name, "tables-qualified", qn(gosqlx.ExtractTablesQualified(tree), true), append(pairs(c.TQ), tq...), fc.text)
		farCompare(&fcase, fc.name, "columns", gosqlx.ExtractColumns(tree), append(append([]string{}, c.C...), fc.cols...), fc.text)
		farCompare(&fcase, fc.name, "columns-qualified", qn(gosqlx.ExtractColumnsQualified(tree), false), append(pairs(c.CQ), cq...), fc.text)
		farCompare(&fcase, fc.name, "functions", upperAll(gosqlx.ExtractFunctions(tree)), c.F, fc.text)
		ast.ReleaseAST(tree)
	}
}

func farCompare(c *ncase, ctx, what string, got, want []string, text string) {
	g := set(got)
	for _, x := range want {
		if !g[x] {
			run.Violate(core.Violation{Sig: what + "-missing|far:" + ctx, Clause: "the extracted set equals the set of names written in those positions, at any sub-query or CTE depth",
				Case: map[string]any{"kind": "names", "path": c.Path, "sql": text}, Observe: got, Expect: want})
			return
		}
	}
	w := set(want)
	for _, x := range got {
		if !w[x] {
			run.Violate(core.Violation{Sig: what + "-extra|far:" + ctx, Clause: "aliases, internally synthesised names, string contents and keywords never appear",
				Case: map[string]any{"kind": "names", "path": c.Path, "sql": text}, Observe: got, Expect: want})
			return
		}
	}
}
