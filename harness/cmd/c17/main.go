// C17 — the linter flags exactly what it names; text rewriters keep meaning and converge.
//
//	M  LintFix.tla: texts as segments (code tokens; protected segments: literals with keywords, doubled blanks,
//	   several lines inside, quoted identifiers spelled like keywords, comments with quotes) joined by separators
//	   (blanks, tabs, indentation kinds, blank lines, trailing blanks, CR-LF); a rewriter is what it does to each
//	   separator and segment. The token-aware shape satisfies PreservesTokens, Idempotent, CleanAfterFix; the
//	   line-based shape (quote state restarts per line) damages multi-line protected segments.
//	R  every text is spelled and run through the real fixes of L001, L002, L003, L007, L010, through all fixes in
//	   sequence (what 'gosqlx lint --fix' does) and through the language server's format action: the real token
//	   stream and comments of the output must equal the input's up to the letter case of keywords; fixing again
//	   must change nothing; re-linting must report no violation of the applied rule; each rule must flag exactly
//	   the lines the specification's separators and segments make defective, at an existing line and column.
package main

import (
	"bytes"
	"encoding/json"
	"fmt"
	"io"
	"os"
	"sort"
	"strconv"
	"strings"
	"sync"
	"time"

	"github.com/ajitpratap0/GoSQLX/pkg/linter"
	"github.com/ajitpratap0/GoSQLX/pkg/linter/rules/keywords"
	"github.com/ajitpratap0/GoSQLX/pkg/linter/rules/whitespace"
	"github.com/ajitpratap0/GoSQLX/pkg/lsp"
	"github.com/ajitpratap0/GoSQLX/pkg/models"
	"github.com/ajitpratap0/GoSQLX/pkg/sql/tokenizer"

	"verif/internal/core"
)

type tcase struct {
	Segs []string `json:"segs"`
	Seps []string `json:"seps"`
}

var run *core.Run

var kwWords = []string{"select", "from", "where", "and", "order", "insert", "update", "group"}

func spellSeg(g string, i int) string {
	kw := kwWords[i%len(kwWords)]
	switch g {
	case "kwU":
		return strings.ToUpper(kw)
	case "kwL":
		return kw
	case "kwM":
		return strings.ToUpper(kw[:1]) + kw[1:2] + strings.ToUpper(kw[2:3]) + kw[3:]
	case "ident":
		return "abc"
	case "num":
		return "42"
	case "comma":
		return ","
	case "star":
		return "*"
	case "eq":
		return "="
	case "lparen":
		return "("
	case "rparen":
		return ")"
	case "hashOp":
		return "#>"
	case "identKwU8":
		return []string{"not\u00e9", "all\u00e9e", "i\u00e7in", "\u00e9select", "from\u00fc", "is\u00e4"}[i%6]
	case "strKw":
		return "'select  from'"
	case "strMulti":
		return "'a\n  select  b  \n\n\n\n\tc from'"
	case "strMultiCrlf":
		return "'a\r\n  select  b  \r\n\r\n\r\n\r\n\tc from'"
	case "strEsc":
		return "'it''s  ok'"
	case "qidKw":
		return "\"select\""
	case "btKw":
		return "`from`"
	case "cmtLine":
		return "-- it's  select"
	case "cmtPlain":
		return "-- select  from"
	case "cmtBlockOne":
		return "/* select  from */"
	case "strBs":
		return "'it\\'s  select'"
	case "cmtBlock":
		return "/* select  'x \n\n\n\n  from  */"
	case "dollarMulti":
		return "$$ select  \n\n\n\n  from $$"
	case "cmtBsq":
		return "/* isn\\'t  select */"
	case "dollarBsq":
		return "$fn$ it\\'s  select $fn$"
	}
	core.Fatalf("unknown segment %s", g)
	return ""
}

var sepText = map[string]string{"sp": " ", "sp2": "  ", "tab": "\t", "nl": "\n", "nlIndent": "\n    ", "nlTab": "\n\t", "nlMixed": "\n\t  ",
	"blank3": "\n\n\n\n", "trail": "  \n", "crlf": "\r\n", "blank3crlf": "\r\n\r\n\r\n\r\n", "trailcrlf": "  \r\n"}

func spell(c *tcase) string {
	var b strings.Builder
	for i, g := range c.Segs {
		b.WriteString(spellSeg(g, i))
		if i < len(c.Seps) {
			b.WriteString(sepText[c.Seps[i]])
		}
	}
	return b.String()
}

type tokView struct {
	toks []string // "type:value" with keyword values folded
	coms []string
	ok   bool
}

func view(text string) tokView {
	t := tokenizer.GetTokenizer()
	defer tokenizer.PutTokenizer(t)
	toks, err := t.Tokenize([]byte(text))
	if err != nil {
		return tokView{}
	}
	v := tokView{ok: true}
	for _, tk := range toks {
		val := tk.Token.Value
		quoted := tk.Token.Type == models.TokenTypeSingleQuotedString || tk.Token.Type == models.TokenTypeDoubleQuotedString || tk.Token.Quote != 0 ||
			strings.Contains(tk.Token.Type.String(), "STRING") || strings.Contains(tk.Token.Type.String(), "QUOTED")
		if !quoted && tk.Token.Type != models.TokenTypeIdentifier {
			val = strings.ToUpper(val) // the letter case of keywords may change; an identifier keeps its spelling
		}
		v.toks = append(v.toks, fmt.Sprintf("%s:%s", tk.Token.Type.String(), val))
	}
	for _, c := range t.Comments {
		v.coms = append(v.coms, c.Text)
	}
	return v
}

func sameView(a, b tokView) (bool, string) {
	if len(a.toks) != len(b.toks) {
		return false, fmt.Sprintf("token count %d -> %d", len(a.toks), len(b.toks))
	}
	for i := range a.toks {
		if a.toks[i] != b.toks[i] {
			ta, tb := a.toks[i], b.toks[i]
			if strings.SplitN(ta, ":", 2)[0] != strings.SplitN(tb, ":", 2)[0] {
				return false, "token kind changed"
			}
			return false, "token value changed"
		}
	}
	if strings.Join(a.coms, "\x00") != strings.Join(b.coms, "\x00") {
		return false, "comment changed"
	}
	return true, ""
}

type rw struct {
	name string
	rule func() linter.Rule
}

var rewriters = []rw{
	{"L001", func() linter.Rule { return whitespace.NewTrailingWhitespaceRule() }},
	{"L002", func() linter.Rule { return whitespace.NewMixedIndentationRule() }},
	{"L003", func() linter.Rule { return whitespace.NewConsecutiveBlankLinesRule(1) }},
	{"L007", func() linter.Rule { return keywords.NewKeywordCaseRule(keywords.CaseUpper) }},
	{"L010", func() linter.Rule { return whitespace.NewRedundantWhitespaceRule() }},
}

func lintWith(r linter.Rule, text string) []linter.Violation {
	return linter.New(r).LintString(text, "x.sql").Violations
}

func fixWith(r linter.Rule, text string) (string, error) {
	return r.Fix(text, lintWith(r, text))
}

func fixAll(text string) string {
	l := linter.New(whitespace.NewTrailingWhitespaceRule(), whitespace.NewMixedIndentationRule(), whitespace.NewConsecutiveBlankLinesRule(1),
		whitespace.NewLongLinesRule(100), whitespace.NewRedundantWhitespaceRule(), keywords.NewKeywordCaseRule(keywords.CaseUpper))
	vs := l.LintString(text, "x.sql").Violations
	for _, r := range l.Rules() {
		if !r.CanAutoFix() {
			continue
		}
		if out, err := r.Fix(text, vs); err == nil {
			text = out
		}
	}
	return text
}

// hasBs: a literal with a backslash-escaped quote makes the rules fall back to their line-based behaviour
func hasBs(c *tcase) bool {
	for _, g := range c.Segs {
		if g == "strBs" {
			return true
		}
	}
	return false
}

func hasMulti(c *tcase) bool {
	for _, g := range c.Segs {
		if g == "strMulti" || g == "strMultiCrlf" || g == "cmtBlock" || g == "dollarMulti" || g == "strBs" {
			return true
		}
	}
	return false
}

func firstProtected(c *tcase) string {
	for _, g := range c.Segs {
		switch g {
		case "strKw", "strMulti", "strMultiCrlf", "strEsc", "strBs", "qidKw", "btKw", "cmtLine", "cmtPlain", "cmtBlockOne", "cmtBlock", "dollarMulti", "cmtBsq", "dollarBsq":
			return g
		}
	}
	return "code-only"
}

// lineContent lists the protected segments on line li of a text without multi-line segments.
func lineContent(c *tcase, li int) string {
	line := 0
	m := map[string]bool{}
	for i, g := range c.Segs {
		if line == li {
			switch g {
			case "strKw", "strEsc", "strBs", "qidKw", "btKw", "cmtLine", "cmtPlain", "cmtBlockOne", "cmtBsq", "dollarBsq":
				m[g] = true
			}
		}
		if i < len(c.Seps) {
			switch c.Seps[i] {
			case "trail", "nl", "nlIndent", "nlTab", "nlMixed", "crlf", "trailcrlf":
				line++
			case "blank3", "blank3crlf":
				line += 4
			}
		}
	}
	var ks []string
	for k := range m {
		ks = append(ks, k)
	}
	sort.Strings(ks)
	if len(ks) == 0 {
		return "code-only"
	}
	return strings.Join(ks, "+")
}

func shape(c *tcase) string {
	// the protected segments of the case (signature material)
	m := map[string]bool{}
	for _, g := range c.Segs {
		switch g {
		case "strKw", "strMulti", "strMultiCrlf", "strEsc", "strBs", "qidKw", "btKw", "cmtLine", "cmtPlain", "cmtBlockOne", "cmtBlock", "dollarMulti", "cmtBsq", "dollarBsq":
			m[g] = true
		}
	}
	var ks []string
	for k := range m {
		ks = append(ks, k)
	}
	sort.Strings(ks)
	if len(ks) == 0 {
		return "code-only"
	}
	return strings.Join(ks, "+")
}

// culprit names the first protected segment whose exact spelling no longer occurs in out ("none": all survive).
func culprit(c *tcase, out string) string {
	for _, g := range c.Segs {
		if g == "strBs" {
			return "strBs" // the rules fall back to their line-based behaviour for the whole text
		}
	}
	for i, g := range c.Segs {
		switch g {
		case "strKw", "strMulti", "strMultiCrlf", "strEsc", "strBs", "qidKw", "btKw", "cmtLine", "cmtPlain", "cmtBlockOne", "cmtBlock", "dollarMulti", "cmtBsq", "dollarBsq":
			if !strings.Contains(out, spellSeg(g, i)) {
				return g
			}
		}
	}
	return "none"
}

func checkRewrite(name string, c *tcase, text string, in tokView, out string, again func(string) string, relint func(string) int) {
	cse := map[string]any{"kind": "rewrite", "rewriter": name, "segs": c.Segs, "seps": c.Seps, "text": text}
	ov := view(out)
	run.Eval(1)
	if !ov.ok {
		run.Violate(core.Violation{Sig: "rewrite-breaks-lexing|" + name + "|" + culprit(c, out), Clause: "the output's token sequence equals the original's", Case: cse, Observe: out})
		return
	}
	if same, why := sameView(in, ov); !same {
		run.Violate(core.Violation{Sig: "rewrite-changes-tokens|" + name + "|" + culprit(c, out) + "|" + strings.ReplaceAll(strings.SplitN(why, " ", 3)[0]+" "+strings.SplitN(why+" x", " ", 3)[1], " ", "-"),
			Clause: "string literals, quoted identifiers and comments keep their exact content and nothing is added, dropped or merged", Case: cse, Observe: out, Expect: text})
	}
	if again != nil {
		if o2 := again(out); o2 != out {
			run.Violate(core.Violation{Sig: "rewrite-not-idempotent|" + name + "|" + culprit(c, out), Clause: "applying the same fixes again changes nothing", Case: cse, Observe: o2, Expect: out})
		}
	}
	if relint != nil && !hasBs(c) {
		if n := relint(out); n > 0 {
			run.Violate(core.Violation{Sig: "violations-remain-after-fix|" + name + "|" + firstProtected(c), Clause: "re-linting reports no remaining violation of a rule whose fix was applied", Case: cse, Observe: fmt.Sprintf("%d violations in %q", n, out)})
		}
	}
}

// ---- expected lint lines (texts without multi-line protected segments) -------------------------------------

type lineInfo struct {
	trailing, doubled, lowerKw, blankRun, blanksAtEdge bool
	indent                                             string // "", "space", "tab", "mixed": what the line's indentation is made of
	inconsistent                                       bool   // L002: mixed, or of another kind than the first indented line
}

func expectedLines(c *tcase) []lineInfo {
	lines := []lineInfo{{}}
	cur := func() *lineInfo { return &lines[len(lines)-1] }
	newline := func(n int) {
		for i := 0; i < n; i++ {
			lines = append(lines, lineInfo{})
		}
	}
	for i, g := range c.Segs {
		if g == "kwL" || g == "kwM" {
			cur().lowerKw = true
		}
		if i < len(c.Seps) {
			switch c.Seps[i] {
			case "sp2":
				cur().doubled = true
			case "trail", "trailcrlf":
				cur().trailing = true
				cur().blanksAtEdge = true // two blanks at the end of the line: L010 may or may not count them
				newline(1)
			case "blank3", "blank3crlf":
				newline(4)
				lines[len(lines)-2].blankRun = true
			case "nlIndent", "nlMixed":
				newline(1)
				cur().blanksAtEdge = true // indentation made of several blanks: not asserted for L010
				cur().indent = map[string]string{"nlIndent": "space", "nlMixed": "mixed"}[c.Seps[i]]
			case "nlTab":
				newline(1)
				cur().indent = "tab"
			case "nl", "crlf":
				newline(1)
			}
		}
	}
	// L002 names two defects: a line whose indentation mixes tabs and blanks, and a line indented with the other
	// character than the first (unmixed) indented line of the text
	first := ""
	for i := range lines {
		switch in := lines[i].indent; {
		case in == "mixed":
			lines[i].inconsistent = true
		case in != "" && first == "":
			first = in
		case in != "" && in != first:
			lines[i].inconsistent = true
		}
	}
	return lines
}

func checkLint(c *tcase, text string) {
	if hasMulti(c) {
		return
	}
	exp := expectedLines(c)
	nlines := strings.Count(text, "\n") + 1
	textLines := strings.Split(text, "\n")
	for _, rwr := range rewriters {
		r := rwr.rule()
		vs := lintWith(r, text)
		run.Eval(1)
		flagged := map[int]bool{}
		for _, v := range vs {
			flagged[v.Location.Line] = true
			if v.Location.Line < 1 || v.Location.Line > nlines || v.Location.Column < 0 || (v.Location.Line >= 1 && v.Location.Line <= nlines && v.Location.Column > len(textLines[v.Location.Line-1])+1) {
				run.Violate(core.Violation{Sig: "violation-outside-text|" + rwr.name, Clause: "a violation is reported at an existing line and column", Case: map[string]any{"kind": "lint", "rule": rwr.name, "text": text},
					Observe: fmt.Sprintf("%d:%d", v.Location.Line, v.Location.Column)})
			}
		}
		for li, e := range exp {
			var want, judged bool
			switch rwr.name {
			case "L001":
				want, judged = e.trailing, true
			case "L010":
				want, judged = e.doubled, e.doubled || !e.blanksAtEdge
			case "L007":
				want, judged = e.lowerKw, true
			case "L002":
				want, judged = e.inconsistent, true
			}
			if !judged {
				continue
			}
			if want != flagged[li+1] {
				kind := "not-flagged"
				if flagged[li+1] {
					kind = "flagged-without-defect"
				}
				run.Violate(core.Violation{Sig: "lint-" + kind + "|" + rwr.name + "|" + lineContent(c, li), Clause: "each layout rule reports a line exactly when the line has the defect the rule names",
					Case: map[string]any{"kind": "lint", "rule": rwr.name, "segs": c.Segs, "seps": c.Seps, "text": text, "line": li + 1}, Observe: fmt.Sprint(vs)})
			}
		}
		if rwr.name == "L003" {
			anyRun := false
			for _, e := range exp {
				anyRun = anyRun || e.blankRun
			}
			if anyRun != (len(vs) > 0) {
				run.Violate(core.Violation{Sig: "lint-blank-lines|" + firstProtected(c), Clause: "each layout rule reports a line exactly when the line has the defect the rule names",
					Case: map[string]any{"kind": "lint", "rule": "L003", "text": text}, Observe: fmt.Sprint(vs), Expect: anyRun})
			}
		}
	}
}

// checkLongLines: L005 (no fix) reports a line exactly when it is longer than the maximum. The maximum is set to 24 so
// that the model's texts have lines on both sides of it. Not judged: lines that start with a comment (the rule
// documents that it skips comment-only lines), non-ASCII lines (bytes against characters) and a CR-LF line of exactly
// the maximum (the carriage return is or is not part of the line).
func checkLongLines(c *tcase, text string) {
	if hasMulti(c) {
		return
	}
	const max = 24
	vs := lintWith(whitespace.NewLongLinesRule(max), text)
	run.Eval(1)
	flagged := map[int]bool{}
	for _, v := range vs {
		flagged[v.Location.Line] = true
	}
	for li, line := range strings.Split(text, "\n") {
		visible := strings.TrimSuffix(line, "\r")
		t := strings.TrimSpace(visible)
		if strings.HasPrefix(t, "--") || strings.HasPrefix(t, "/*") || (visible != line && len(visible) == max) {
			continue
		}
		ascii := true
		for i := 0; i < len(line); i++ {
			ascii = ascii && line[i] < 0x80
		}
		if !ascii {
			continue
		}
		if want := len(visible) > max; want != flagged[li+1] {
			kind := "not-flagged"
			if flagged[li+1] {
				kind = "flagged-without-defect"
			}
			run.Violate(core.Violation{Sig: "lint-" + kind + "|L005|" + lineContent(c, li), Clause: "each layout rule reports a line exactly when the line has the defect the rule names",
				Case: map[string]any{"kind": "lint", "rule": "L005", "max": max, "segs": c.Segs, "seps": c.Seps, "text": text, "line": li + 1, "length": len(visible)}, Observe: fmt.Sprint(vs)})
		}
	}
}

// ---- language server ---------------------------------------------------------------------------------------------

type lspClient struct {
	in   *io.PipeWriter
	out  *lockedBuf
	sent int
	n    int
}
type lockedBuf struct {
	mu sync.Mutex
	b  bytes.Buffer
}

func (l *lockedBuf) Write(p []byte) (int, error) {
	l.mu.Lock()
	defer l.mu.Unlock()
	return l.b.Write(p)
}

func newLSP() *lspClient {
	pr, pw := io.Pipe()
	c := &lspClient{in: pw, out: &lockedBuf{}}
	srv := lsp.NewServer(pr, c.out, nil)
	go func() { defer func() { _ = recover() }(); _ = srv.Run() }()
	c.write(`{"jsonrpc":"2.0","id":"init","method":"initialize","params":{"capabilities":{}}}`)
	c.write(`{"jsonrpc":"2.0","method":"initialized","params":{}}`)
	return c
}

func (c *lspClient) write(body string) {
	_, _ = c.in.Write([]byte(fmt.Sprintf("Content-Length: %d\r\n\r\n%s", len(body), body)))
	c.sent++
}

// format asks the server to format text; ok=false when no usable answer arrives.
func (c *lspClient) format(text string) (string, bool) {
	c.n++
	uri := fmt.Sprintf("file:///d%d.sql", c.n)
	tj, _ := json.Marshal(text)
	c.write(fmt.Sprintf(`{"jsonrpc":"2.0","method":"textDocument/didOpen","params":{"textDocument":{"uri":%q,"languageId":"sql","version":1,"text":%s}}}`, uri, tj))
	id := "f" + strconv.Itoa(c.n)
	c.write(fmt.Sprintf(`{"jsonrpc":"2.0","id":%q,"method":"textDocument/formatting","params":{"textDocument":{"uri":%q},"options":{"tabSize":4,"insertSpaces":true}}}`, id, uri))
	deadline := time.Now().Add(10 * time.Second)
	for time.Now().Before(deadline) {
		c.out.mu.Lock()
		data := append([]byte(nil), c.out.b.Bytes()...)
		c.out.mu.Unlock()
		// scan frames for the response
		for len(data) > 0 {
			i := bytes.Index(data, []byte("\r\n\r\n"))
			if i < 0 {
				break
			}
			n := -1
			for _, l := range strings.Split(string(data[:i]), "\r\n") {
				if v, ok := strings.CutPrefix(l, "Content-Length: "); ok {
					n, _ = strconv.Atoi(v)
				}
			}
			if n < 0 || len(data) < i+4+n {
				break
			}
			body := data[i+4 : i+4+n]
			data = data[i+4+n:]
			var m struct {
				ID     json.RawMessage `json:"id"`
				Result []struct {
					Range struct {
						Start, End struct{ Line, Character int }
					} `json:"range"`
					NewText string `json:"newText"`
				} `json:"result"`
			}
			if json.Unmarshal(body, &m) == nil && string(m.ID) == strconv.Quote(id) {
				c.out.mu.Lock()
				c.out.b.Reset()
				c.out.mu.Unlock()
				if len(m.Result) == 0 {
					return text, true // nothing to change
				}
				if len(m.Result) == 1 && m.Result[0].Range.Start.Line == 0 && m.Result[0].Range.Start.Character == 0 {
					return m.Result[0].NewText, true // whole-document replacement
				}
				return "", false
			}
		}
		time.Sleep(100 * time.Microsecond)
	}
	return "", false
}

func (c *lspClient) close() { c.in.Close() }

func main() {
	tier := os.Getenv("VERIF_TIER")
	if tier == "" {
		tier = "quick"
	}
	run = core.NewRun("C17", tier, "model_checking")
	run.Rule = "every text of LintFix.tla (all texts of <= 2 segments over 21 segment kinds x 10 separators; 3 segments with 5 separators quick, 10 thorough) x 5 rule fixes + all fixes in sequence + the language server's format action; lint exactness for texts without multi-line protected segments; non-trivial = a text with at least one protected segment"
	run.Assumptions = []string{
		"the real tokenizer (checked against Lexer.tla by C04) is the judge of 'token sequence': kinds and values must be equal, unquoted words up to letter case, comment texts exactly",
		"for lines inside multi-line literals and comments no assertion is made about what the layout rules flag; re-lint cleanliness and lint exactness are asserted for texts without such segments and without a backslash-escaped quote (the rules document that they do not handle it; a repository test pins that)",
		"texts the tokenizer rejects are not judged",
	}
	pin, err := core.RunTLC(core.TLCOpts{Spec: "LintFix", Cfg: "LintFix_pinned.cfg", Timeout: 5 * time.Minute})
	if err != nil || pin.Violation != "PreservesTokens" {
		core.Fatalf("LintFix_pinned.cfg must violate PreservesTokens (got %q, %v)", pin.Violation, err)
	}
	ps := pin.Stat("line-based rewriters (quote state restarts per line): a multi-line protected segment is damaged")
	ps.ExpectViol = "PreservesTokens"
	run.AddTLC(ps)
	cfgs := []string{"LintFix_2.cfg", "LintFix_3q.cfg"}
	if tier == "thorough" {
		cfgs = []string{"LintFix_3.cfg"}
	}
	seen := map[string]bool{}
	var cases []tcase
	for _, cfg := range cfgs {
		r := core.MustTLC(core.TLCOpts{Spec: "LintFix", Cfg: cfg, Timeout: 30 * time.Minute})
		run.AddTLC(r.Stat("texts as segments and separators x rewriters: PreservesTokens, Idempotent, CleanAfterFix"))
		for _, line := range r.Cases {
			if seen[line] {
				continue
			}
			seen[line] = true
			var c tcase
			if err := json.Unmarshal([]byte(line), &c); err != nil {
				core.Fatalf("bad case %q", line)
			}
			cases = append(cases, c)
		}
	}
	run.Traces(int64(len(cases)))
	var wg sync.WaitGroup
	work := make(chan int, 1024)
	var mu sync.Mutex
	rejected, lspFailed, lspRuns := 0, 0, 0
	for wk := 0; wk < 16; wk++ {
		wg.Add(1)
		go func() {
			defer wg.Done()
			var cl *lspClient
			for ci := range work {
				c := &cases[ci]
				text := spell(c)
				in := view(text)
				if !in.ok {
					mu.Lock()
					rejected++
					mu.Unlock()
					continue
				}
				if shape(c) != "code-only" {
					run.Nontrivial(text)
				}
				for _, rwr := range rewriters {
					r := rwr.rule()
					out, err := fixWith(r, text)
					if err != nil {
						continue
					}
					checkRewrite(rwr.name, c, text, in, out,
						func(s string) string { o, _ := fixWith(rwr.rule(), s); return o },
						func(s string) int { return len(lintWith(rwr.rule(), s)) })
				}
				all := fixAll(text)
				if ci%9973 == 11 {
					run.Sample(map[string]any{"segs": c.Segs, "seps": c.Seps, "text": text, "all_fixes_output": all})
				}
				checkRewrite("all-fixes", c, text, in, all, fixAll, nil)
				checkLint(c, text)
				checkLongLines(c, text)
				// language server: every text of <= 2 segments, a sample of the others
				if len(c.Segs) <= 2 || ci%40 == 0 || tier == "thorough" && ci%8 == 0 {
					if cl == nil || cl.sent > 80 {
						if cl != nil {
							cl.close()
						}
						time.Sleep(0)
						cl = newLSP()
					}
					out, ok := cl.format(text)
					mu.Lock()
					lspRuns++
					if !ok {
						lspFailed++
					}
					mu.Unlock()
					if ok {
						checkRewrite("lsp-format", c, text, in, out, nil, nil)
					} else {
						cl.close()
						cl = nil
					}
				}
			}
			if cl != nil {
				cl.close()
			}
		}()
	}
	for i := range cases {
		work <- i
	}
	close(work)
	wg.Wait()
	run.Extra["texts_rejected_by_the_tokenizer"] = rejected
	run.Extra["lsp_format_runs"] = lspRuns
	run.Extra["lsp_format_without_answer"] = lspFailed
	if rejected*2 > len(cases) {
		core.Fatalf("%d of %d texts are rejected by the tokenizer", rejected, len(cases))
	}
	if lspRuns > 0 && lspFailed*5 > lspRuns {
		core.Fatalf("%d of %d format requests got no usable answer", lspFailed, lspRuns)
	}
	run.Exhaustive = true
	run.Finish()
}
