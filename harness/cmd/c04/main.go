// C04 — see internal/lexcheck: the inputs of Lexer.tla replayed on the real tokenizer.
package main

import "verif/internal/lexcheck"

func main() { lexcheck.Main("C04") }
