// C07 — all parsing and validation entry points agree.
//
//	M  Pipeline.tla (every entry point as a path CheckSize -> Lex -> Convert -> Loop -> Return; EntryAgreement:
//	   the outcome is a function of the input alone; FamilyOfCode; Totality) and StmtLoop.tla (the statement loop
//	   with stray semicolons in strict and recovery mode; StrictVerdict) are model checked; both print their
//	   inputs with the predicted verdict.
//	R  every abstract input is concretised several times (well-formed statements and single-token corruptions,
//	   lexical garbage, the byte limit) and run through all 15 entry points of the property: all must accept or
//	   all reject as the specification predicts, returned trees must be equal, error codes equal and of the
//	   predicted family. Batches of up to 4 inputs are run through ParseMultiple / ValidateMultiple and compared
//	   with the individual calls and the first failing index.
package main

import (
	"encoding/json"
	"fmt"
	"math/rand"
	"os"
	"regexp"
	"strconv"
	"strings"
	"time"

	"github.com/ajitpratap0/GoSQLX/pkg/gosqlx"
	"github.com/ajitpratap0/GoSQLX/pkg/sql/ast"

	"verif/internal/core"
	"verif/internal/gram"
	"verif/internal/entry"
	"verif/internal/ops"
	"verif/internal/project"
	"verif/internal/stmts"
)

type loopCase struct {
	Segs []struct {
		Good bool `json:"good"`
		Kw   bool `json:"kw"`
	} `json:"segs"`
	Lead   int    `json:"lead"`
	Dbl    bool   `json:"dbl"`
	Trail  int    `json:"trail"`
	Mode   string `json:"mode"`
	Status string `json:"status"`
}

type pipeCase struct {
	Size string `json:"size"`
	Lex  string `json:"lex"`
	Segs  []bool `json:"segs"`
	Pad   string `json:"pad"`
	PadAt string `json:"padAt"`
	Sep   string `json:"sep"`
	Res   struct {
		Verdict  string `json:"verdict"`
		Stage    string `json:"stage"`
		Family   string `json:"family"`
		FirstBad int    `json:"firstBad"`
	} `json:"res"`
}

var (
	run       *core.Run
	good, bad []stmts.Stmt
	rng       *rand.Rand
)

var lexGarbage = []string{"SELECT 'unterminated", "SELECT a FROM t WHERE b = \"open", "SELECT ^ FROM t", "SELECT a FROM t WHERE x = 'a\nb"}

func main() {
	tier := os.Getenv("VERIF_TIER")
	if tier == "" {
		tier = "quick"
	}
	run = core.NewRun("C07", tier, "model_checking")
	run.Rule = "every input of StmtLoop.tla (segment lists, stray semicolons) and Pipeline.tla (size / lexical / grammatical failure) concretised several times and run through all 15 entry points; batches of <= 4 inputs with the failing one at each index; non-trivial = an input that is rejected, multi-statement or has stray semicolons"
	run.Assumptions = []string{
		"inputs contain at least one token other than semicolons (blank input is excluded by the property)",
		"default options only; the failing index of a batch is read from the 'query N:' prefix of the error message, and not judged when that prefix is absent",
		"the token-limit case needs a > 1,000,000-token input and is only run in the thorough tier",
	}
	rng = rand.New(rand.NewSource(run.Seed))
	lcfg, pcfg := "StmtLoop_q.cfg", "Pipeline_q.cfg"
	if tier == "thorough" {
		lcfg, pcfg = "StmtLoop_t.cfg", "Pipeline_t.cfg"
	}
	lm := core.MustTLC(core.TLCOpts{Spec: "StmtLoop", Cfg: lcfg, Timeout: 15 * time.Minute})
	run.AddTLC(lm.Stat("statement loop in strict and recovery mode: StrictVerdict, NoLoss, Progress, Termination"))
	pm := core.MustTLC(core.TLCOpts{Spec: "Pipeline", Cfg: pcfg, Timeout: 5 * time.Minute})
	run.AddTLC(pm.Stat("entry points as stage pipelines: EntryAgreement, FamilyOfCode, Totality"))
	// the pools also hold a sample of Select.tla's statement forms
	run.Extra["model_statements_in_pools"] = gram.ExportForms(run)
	good, bad = stmts.Pools()
	if len(good) < 10 || len(bad) < 30 {
		core.Fatalf("statement pools too small")
	}
	variants := 2
	if tier == "thorough" {
		variants = 6
	}
	if len(os.Args) > 2 && os.Args[1] == "--replay" {
		b, _ := os.ReadFile(os.Args[2])
		var f struct {
			Violation struct {
				Case struct {
					Text string `json:"text"`
				} `json:"case"`
			} `json:"violation"`
		}
		_ = json.Unmarshal(b, &f)
		agree(f.Violation.Case.Text, "", "", nil)
		run.Finish()
	}
	seen := map[string]bool{}
	for _, c := range lm.Cases {
		var lc loopCase
		if err := json.Unmarshal([]byte(c), &lc); err != nil {
			core.Fatalf("bad case: %v", err)
		}
		if len(lc.Segs) == 0 {
			continue
		}
		key := fmt.Sprint(lc.Segs, lc.Lead, lc.Dbl, lc.Trail)
		if seen[key] {
			continue
		}
		seen[key] = true
		for v := 0; v < variants; v++ {
			var sb strings.Builder
			sb.WriteString(strings.Repeat("; ", lc.Lead))
			for i, s := range lc.Segs {
				sb.WriteString(pick(s.Good, s.Kw).SQL)
				if i < len(lc.Segs)-1 {
					if lc.Dbl {
						sb.WriteString(";;\n")
					} else {
						sb.WriteString(";\n")
					}
				} else {
					sb.WriteString(strings.Repeat(";", lc.Trail))
				}
			}
			// StrictVerdict of StmtLoop.tla: accepted exactly when every segment is well-formed
			want, fam := "accept", "none"
			for _, sg := range lc.Segs {
				if !sg.Good {
					want, fam = "reject", "parser"
				}
			}
			agree(sb.String(), want, fam, json.RawMessage(c))
		}
	}
	for _, c := range pm.Cases {
		var pc pipeCase
		if err := json.Unmarshal([]byte(c), &pc); err != nil {
			core.Fatalf("bad case: %v", err)
		}
		var text string
		switch {
		case pc.Size == "tooLarge":
			text = "SELECT a FROM t WHERE b = '" + strings.Repeat("x", 10*1024*1024) + "'"
		case pc.Lex == "lexError":
			text = lexGarbage[rng.Intn(len(lexGarbage))]
		case pc.Lex == "tooManyTokens":
			if tier != "thorough" || os.Getenv("VERIF_SKIP_TOKEN_LIMIT") != "" {
				continue
			}
			text = "SELECT " + strings.Repeat("a,\n", 1000001) + "a FROM t"
		case pc.Sep == "none":
			// well-formed statements one after the other without a semicolon: the second one starting with every
			// keyword a statement can start with.  Only agreement is judged (some pairs read as ONE statement, e.g.
			// INSERT INTO t followed by SELECT; then every entry point must read them so)
			reps := map[string]string{}
			var order []string
			for _, g := range good {
				w := strings.ToUpper(strings.Fields(g.SQL)[0])
				if _, ok := reps[w]; !ok {
					reps[w] = g.SQL
					order = append(order, w)
				}
			}
			for _, w := range order {
				for k := 0; k < 2; k++ {
					parts := []string{}
					for i := 0; i < len(pc.Segs)-1; i++ {
						parts = append(parts, good[rng.Intn(len(good))].SQL)
					}
					parts = append(parts, reps[w])
					agree(strings.Join(parts, []string{" ", "\n"}[k]), "", "", json.RawMessage(c))
				}
			}
			continue
		default:
			var parts []string
			for _, g := range pc.Segs {
				if g {
					parts = append(parts, good[rng.Intn(len(good))].SQL)
				} else {
					parts = append(parts, bad[rng.Intn(len(bad))].SQL)
				}
			}
			text = strings.Join(parts, ";\n")
		}
		if pc.Pad != "" && pc.Pad != "none" {
			// every spelling of the padding class, before the first and / or after the last segment
			for _, pad := range padSpellings[pc.Pad] {
				padded := text
				if pc.PadAt == "lead" || pc.PadAt == "both" {
					padded = pad + padded
				}
				if pc.PadAt == "trail" || pc.PadAt == "both" {
					padded = padded + pad
				}
				agree(padded, pc.Res.Verdict, pc.Res.Family, json.RawMessage(c))
			}
			continue
		}
		agree(text, pc.Res.Verdict, pc.Res.Family, json.RawMessage(c))
	}
	batches(tier)
	modelBatches(tier)
	run.Exhaustive = true
	run.Finish()
}

// padSpellings: the padding classes of Pipeline.tla (a line comment is followed by its newline so that it does not
// swallow the statement after it)
var padSpellings = map[string][]string{
	"blank":   {" ", "\t", "\n", "\r\n", " \n\t "},
	"comment": {"-- c\n", "/* c */", "/* c */ "},
	"control": {"\x00", "\f", "\v", "\x1a", "\x7f", "\ufeff", "\u00a0", "\u2028"},
}

func pick(wantGood, wantKw bool) stmts.Stmt {
	pool := bad
	if wantGood {
		pool = good
	}
	for tries := 0; tries < 10000; tries++ {
		st := pool[rng.Intn(len(pool))]
		if st.KwStart == wantKw {
			return st
		}
	}
	core.Fatalf("no segment of class good=%v kw=%v in the pools", wantGood, wantKw)
	return stmts.Stmt{}
}

// agree runs one input through every entry point.
func agree(text, wantVerdict, wantFamily string, abstract any) {
	outs := make([]entry.Outcome, len(entry.All))
	for i, ep := range entry.All {
		outs[i] = ep.Run(text)
		run.Eval(1)
	}
	short := text
	if len(short) > 400 {
		short = short[:200] + fmt.Sprintf("...(%d bytes)...", len(text)) + short[len(short)-100:]
	}
	fail := func(sig, clause string, obs any) {
		caseInfo := map[string]any{"text": short, "abstract": abstract}
		if len(text) <= 4000 {
			caseInfo["text"] = text
		}
		run.Violate(core.Violation{Sig: sig, Clause: clause, Case: caseInfo, Observe: obs, Expect: map[string]any{"verdict": wantVerdict, "family": wantFamily}})
	}
	if wantVerdict != "accept" || strings.Contains(text, ";") {
		run.Nontrivial(text)
	}
	if len(text) < 200 && strings.Count(text, ";") == 2 {
		run.Sample(map[string]any{"text": text, "expected": wantVerdict, "entry_points": len(entry.All)})
	}
	ref := outs[0]
	refTree := ""
	for i, o := range outs {
		name := entry.All[i].Name
		if o.Accept != ref.Accept {
			fail("verdict-differs|"+entry.All[0].Name+"|"+name, "all entry points accept or all reject", map[string]any{entry.All[0].Name: ref, name: o})
			continue
		}
		if wantVerdict != "" && o.Accept != (wantVerdict == "accept") {
			fail("verdict-differs-from-spec|"+name, "the verdict is the one the statement-loop specification predicts", o)
			continue
		}
		if o.Accept && o.HasTree {
			if o.Tree == "tree-and-error" {
				fail("tree-and-error|"+name, "a failing call returns no tree", o)
			} else if refTree == "" {
				refTree = o.Tree
			} else if o.Tree != refTree {
				fail("tree-differs|"+name, "entry points that return a tree return equal trees", map[string]any{"first": firstN(refTree, 300), name: firstN(o.Tree, 300)})
			}
		}
		if !o.Accept {
			if o.Code != ref.Code {
				fail("error-code-differs|"+entry.All[0].Name+"="+ref.Code+"|"+name+"="+o.Code, "entry points that fail report the same error code", map[string]any{entry.All[0].Name: ref.Err, name: o.Err})
			}
			if wantFamily != "" && wantFamily != "none" && entry.Family(o.Code) != wantFamily {
				fail("error-family|"+name+"|"+o.Code+"-for-"+wantFamily, "the failing stage determines the family of the error code", o)
			}
		}
	}
}

var reQuery = regexp.MustCompile(`query (\d+):`)

func batches(tier string) {
	n := 400
	if tier == "thorough" {
		n = 4000
	}
	for b := 0; b < n; b++ {
		k := 1 + rng.Intn(4)
		failAt := -1
		if rng.Intn(3) > 0 {
			failAt = rng.Intn(k)
		}
		qs := make([]string, k)
		for i := range qs {
			if i == failAt || (failAt >= 0 && i > failAt && rng.Intn(2) == 0) {
				if rng.Intn(5) == 0 {
					qs[i] = lexGarbage[rng.Intn(len(lexGarbage))]
				} else {
					qs[i] = bad[rng.Intn(len(bad))].SQL
				}
			} else {
				qs[i] = good[rng.Intn(len(good))].SQL
			}
		}
		run.Eval(2)
		run.Nontrivial("batch" + strings.Join(qs, "\x00"))
		// individual calls
		firstFail := -1
		var indTrees []string
		var indCode string
		for i, q := range qs {
			tree, err := gosqlx.Parse(q)
			if err != nil {
				firstFail = i
				indCode = ops.Err(err).Code
				break
			}
			indTrees = append(indTrees, project.String(tree.Statements))
			ast.ReleaseAST(tree)
		}
		fail := func(sig, clause string, obs, exp any) {
			run.Violate(core.Violation{Sig: sig, Clause: clause, Case: map[string]any{"batch": qs, "text": strings.Join(qs, " ||| ")}, Observe: obs, Expect: exp})
		}
		trees, err := gosqlx.ParseMultiple(qs)
		verr := gosqlx.ValidateMultiple(qs)
		if (err != nil) != (firstFail >= 0) || (verr != nil) != (firstFail >= 0) {
			fail("batch-verdict-differs", "a batch call fails exactly when an individual call fails", map[string]any{"parse_multiple": fmt.Sprint(err), "validate_multiple": fmt.Sprint(verr)}, firstFail)
			continue
		}
		if firstFail < 0 {
			if len(trees) != len(qs) {
				fail("batch-tree-count", "a batch call returns what the individual calls return", len(trees), len(qs))
				continue
			}
			for i, t := range trees {
				if project.String(t.Statements) != indTrees[i] {
					fail("batch-tree-differs", "a batch call returns what the individual calls return", firstN(project.String(t.Statements), 300), firstN(indTrees[i], 300))
					break
				}
			}
			for _, t := range trees {
				ast.ReleaseAST(t)
			}
			continue
		}
		if trees != nil {
			fail("batch-trees-with-error", "a failing batch returns no trees", len(trees), nil)
		}
		for name, e := range map[string]error{"ParseMultiple": err, "ValidateMultiple": verr} {
			if m := reQuery.FindStringSubmatch(e.Error()); m != nil {
				if idx, _ := strconv.Atoi(m[1]); idx != firstFail {
					fail("batch-fails-at-wrong-index|"+name, "a batch call fails at the first failing index", idx, firstFail)
				}
			}
			if code := codeOf(e); code != indCode {
				fail("batch-error-code-differs|"+name, "a batch call reports the individual call's error code", code, indCode)
			}
		}
	}
}

// modelBatches replays every batch of Batch.tla: classes are concretised from the statement pools (heavy = a
// 20,000-column SELECT), each batch several times, and both helpers must fail at the specification's index with
// the error code the failing query gives on its own, or return one tree per query.
func modelBatches(tier string) {
	cfg, reps := "Batch_q.cfg", 3
	if tier == "thorough" {
		cfg, reps = "Batch_t.cfg", 6
	}
	r := core.MustTLC(core.TLCOpts{Spec: "Batch", Cfg: cfg, Timeout: 5 * time.Minute})
	run.AddTLC(r.Stat("batch helpers: all short batches and long batches with probe failures; FailsIffSomeBad, FirstFailure, NoTreesOnFailure, TreesInOrder"))
	lv := core.MustTLC(core.TLCOpts{Spec: "Batch", Cfg: "Batch_live.cfg", Timeout: 2 * time.Minute})
	run.AddTLC(lv.Stat("batch helpers: termination"))
	var hb strings.Builder
	hb.WriteString("SELECT ")
	for i := 0; i < 20000; i++ {
		if i > 0 {
			hb.WriteString(", ")
		}
		fmt.Fprintf(&hb, "c%d", i)
	}
	hb.WriteString(" FROM t")
	heavy := hb.String()
	var uniform []stmts.Stmt
	for i, g := range good {
		if tier == "thorough" || (i+int(run.Seed))%3 == 0 {
			uniform = append(uniform, g)
		}
	}
	for bi, line := range r.Cases {
		var c struct {
			Batch  []string `json:"batch"`
			OK     bool     `json:"ok"`
			Index  int      `json:"index"`
			Family string   `json:"family"`
		}
		if err := json.Unmarshal([]byte(line), &c); err != nil {
			core.Fatalf("bad batch case %q: %v", line, err)
		}
		nrep := reps
		if len(c.Batch) > 0 && c.Batch[0] == "same" {
			nrep = len(uniform) // a uniform batch of every accepted statement of the pool (quick: a rotating third)
		}
		for rep := 0; rep < nrep; rep++ {
			qs := make([]string, len(c.Batch))
			for i, cl := range c.Batch {
				switch cl {
				case "ok":
					qs[i] = good[(bi+rep*7+i)%len(good)].SQL
				case "same":
					qs[i] = uniform[rep].SQL
				case "heavy":
					qs[i] = heavy
				case "syntax":
					qs[i] = bad[(bi+rep*5+i)%len(bad)].SQL
				case "lex":
					qs[i] = lexGarbage[(bi+rep+i)%len(lexGarbage)]
				}
			}
			run.Eval(2)
			if len(qs) >= 8 {
				run.Nontrivial(line)
			}
			fail := func(sig string, obs, exp any) {
				show := qs
				if len(show) > 0 && len(show[0]) > 200 {
					show = append([]string{"<heavy: SELECT c0, ..., c19999 FROM t>"}, qs[1:]...)
				}
				run.Violate(core.Violation{Sig: sig, Clause: "a batch call fails at the first failing index with that query's error, and returns what the individual calls return",
					Case: map[string]any{"kind": "model-batch", "classes": c.Batch, "batch": show}, Observe: obs, Expect: exp})
			}
			wantCode := ""
			if !c.OK {
				_, ierr := gosqlx.Parse(qs[c.Index])
				if ierr == nil {
					core.Fatalf("class %s concretised by an accepted query %q", c.Batch[c.Index], qs[c.Index])
				}
				wantCode = ops.Err(ierr).Code
			}
			trees, perr := gosqlx.ParseMultiple(qs)
			verr := gosqlx.ValidateMultiple(qs)
			for name, e := range map[string]error{"ParseMultiple": perr, "ValidateMultiple": verr} {
				if (e == nil) != c.OK {
					fail("batch-verdict-differs|"+name, fmt.Sprint(e), c.OK)
					continue
				}
				if e == nil {
					continue
				}
				if m := reQuery.FindStringSubmatch(e.Error()); m != nil {
					if idx, _ := strconv.Atoi(m[1]); idx != c.Index {
						fail("batch-fails-at-wrong-index|"+name, idx, c.Index)
					}
				}
				if code := codeOf(e); code != wantCode {
					fail("batch-error-code-differs|"+name, code, wantCode)
				}
			}
			if c.OK && perr == nil {
				if len(trees) != len(qs) {
					fail("batch-tree-count", len(trees), len(qs))
				} else {
					for i, t := range trees {
						if i == 0 && len(qs[0]) > 10000 || c.Batch[0] == "same" && i > 0 && i < len(trees)-1 {
							continue
						}
						ind, ierr := gosqlx.Parse(qs[i])
						if ierr != nil {
							core.Fatalf("ok class concretised by a rejected query %q", qs[i])
						}
						if project.String(t.Statements) != project.String(ind.Statements) {
							fail("batch-tree-differs", firstN(project.String(t.Statements), 300), firstN(project.String(ind.Statements), 300))
						}
						ast.ReleaseAST(ind)
					}
				}
			}
			if !c.OK && trees != nil {
				fail("batch-trees-with-error", len(trees), nil)
			}
			for _, t := range trees {
				ast.ReleaseAST(t)
			}
		}
	}
	run.Traces(int64(len(r.Cases)))
}

func codeOf(err error) string { return ops.Err(err).Code }

func firstN(s string, n int) string {
	if len(s) > n {
		return s[:n]
	}
	return s
}
