// C19 — CLI verdicts match the library; files are never left half-written.
//
//	M  CliWrite.tla: the in-place rewrite as a system-call protocol with crash / failed-write faults between
//	   any two steps; TLC proves Atomicity, OnlyOnSuccess, NoStrayTmp for the temp+rename protocol and finds the
//	   violation for truncate-and-write. CliVerdict.tla: exit status / files touched / reports per command x
//	   input classes x source; TLC checks the table's consistency laws and prints every case.
//	T  the real binary (built from the working tree) runs under strace; the system calls on the target and on
//	   temporary files in its directory are validated against CliWriteTrace.tla (every prefix = a crash point).
//	R  fault enumeration on the real binary: a write failure after every byte offset (RLIMIT_FSIZE = k),
//	   ENOSPC injected at every write, SIGKILL injected at every relevant system call; afterwards the file must
//	   hold the complete original or the complete new content. Every case of CliVerdict is executed and its
//	   exit status, touched files and JSON/SARIF reports compared with the specification and the library.
package main

import (
	"encoding/json"
	"fmt"
	"os"
	"path/filepath"
	"sort"
	"strings"
	"sync"
	"syscall"
	"time"

	"github.com/ajitpratap0/GoSQLX/pkg/gosqlx"

	"verif/internal/cli"
	"verif/internal/core"
	"verif/internal/gram"
	"verif/internal/ops"
)

var (
	run  *core.Run
	bin  string
	tier string
	work string
)

func main() {
	cli.MaybeExecHelper()
	tier = os.Getenv("VERIF_TIER")
	if tier == "" {
		tier = "quick"
	}
	run = core.NewRun("C19", tier, "model_checking")
	run.Rule = "verdicts: every case of CliVerdict.tla (command x source x 1-2 input classes) executed on the real binary; " +
		"atomicity: for every in-place scenario a failed write after every byte offset of the output (geometric ladder above 2 KiB in the quick tier), ENOSPC at every write call, SIGKILL at every relevant system call; " +
		"non-trivial = a fault run in which the fault actually hit (the run did not complete normally) or a verdict case with at least one rejected or unformatted input"
	run.Assumptions = []string{
		"a write failure after k bytes is produced with RLIMIT_FSIZE=k and SIGXFSZ ignored (write returns EFBIG after a partial write); crashes are SIGKILL delivered by strace on syscall entry",
		"the file system applies rename atomically (POSIX); durability across power loss (fsync ordering) is not observed",
		"the library verdict used as oracle is gosqlx.Validate for acceptance and the CLI's rule set re-created from the public linter API for lint findings",
	}
	var err error
	work, err = os.MkdirTemp("", "verif-c19-")
	if err != nil {
		core.Fatalf("%v", err)
	}
	core.RemoveAtExit(work)
	defer os.RemoveAll(work)
	bin = cli.Build(work)

	if len(os.Args) > 2 && os.Args[1] == "--replay" {
		replay(os.Args[2])
		finish()
	}

	// M
	for _, c := range []string{"CliWrite_safe.cfg", "CliWrite_safe_fail.cfg"} {
		r := core.MustTLC(core.TLCOpts{Spec: "CliWrite", Cfg: c, Timeout: 2 * time.Minute})
		run.AddTLC(r.Stat("temp+rename protocol with Crash/WriteFail between any two steps: Atomicity, OnlyOnSuccess, NoStrayTmp, Terminates"))
	}
	p, err := core.RunTLC(core.TLCOpts{Spec: "CliWrite", Cfg: "CliWrite_pinned.cfg", Timeout: time.Minute})
	if err != nil || p.Violation != "Atomicity" {
		core.Fatalf("CliWrite_pinned.cfg must violate Atomicity (got %q, %v)\n%s", p.Violation, err, p.Output)
	}
	st := p.Stat("truncate-and-write protocol of the pinned commit: TLC must find the half-written file")
	st.ExpectViol = "Atomicity"
	run.AddTLC(st)
	v := core.MustTLC(core.TLCOpts{Spec: "CliVerdict", Cfg: "CliVerdict.cfg", Timeout: 2 * time.Minute})
	run.AddTLC(v.Stat("verdict table: CheckNeverWrites, ExitIffAccepted, OnlyOnSuccess, PrintWriteCheckConsistent, ReportNamesExactlyFailures; one case per state"))

	prepareClasses()
	verdicts(v.Cases)
	relations()
	atomicity()
	finish()
}

func finish() {
	os.RemoveAll(work)
	run.Finish()
}

// ---------------------------------------------------------------------------
// input classes

var content = map[string]string{}

func prepareClasses() {
	seedv := []string{
		"SELECT a,b FROM t WHERE x=1",
		"SELECT id,name FROM users WHERE id=10 AND name='x'",
		"SELECT u.id,o.total FROM users u JOIN orders o ON u.id=o.uid WHERE o.total>5",
	}
	content["unfmt"] = seedv[int(run.Seed)%len(seedv)]
	content["warn"] = "select   a from t  \n"
	content["bad"] = "SELECT FROM"
	// "fmt": the fixed point the binary itself writes in place
	d := scratch(map[string]string{"f.sql": content["unfmt"]})
	r := cli.Run(cli.Opts{Bin: bin, Dir: d, Args: []string{"format", "-i", "f.sql"}, Fsize: -1})
	b, _ := os.ReadFile(filepath.Join(d, "f.sql"))
	if r.Exit != 0 || len(b) == 0 || string(b) == content["unfmt"] {
		core.Fatalf("cannot produce the formatted class: format -i exit %d, content %q, stderr %s", r.Exit, b, r.Stderr)
	}
	content["fmt"] = string(b)
	// sanity of the concretisation against the library (machinery, not verdicts)
	for c, s := range content {
		acc := gosqlx.Validate(s) == nil
		if acc != (c != "bad") {
			core.Fatalf("class %q: library acceptance %v does not match the class", c, acc)
		}
		e, w := ops.LintCounts(s)
		if e != 0 || (w > 0) != (c == "warn") {
			core.Fatalf("class %q (%q): library lint findings errors=%d warnings=%d do not match the class", c, s, e, w)
		}
	}
}

var scratchN int
var scratchMu sync.Mutex

func scratch(files map[string]string) string {
	scratchMu.Lock()
	scratchN++
	d := filepath.Join(work, fmt.Sprintf("d%06d", scratchN))
	scratchMu.Unlock()
	if err := os.MkdirAll(d, 0o755); err != nil {
		core.Fatalf("%v", err)
	}
	for n, c := range files {
		if err := os.WriteFile(filepath.Join(d, n), []byte(c), 0o644); err != nil {
			core.Fatalf("%v", err)
		}
	}
	return d
}

func listDir(d string) []string {
	es, _ := os.ReadDir(d)
	var out []string
	for _, e := range es {
		out = append(out, e.Name())
	}
	sort.Strings(out)
	return out
}

// ---------------------------------------------------------------------------
// verdict matrix

type vcase struct {
	Case struct {
		Cmd string   `json:"cmd"`
		Src  string   `json:"src"`
		Ins  []string `json:"ins"`
		Pres string   `json:"pres"`
		Env  string   `json:"env"`
	} `json:"case"`
	Verdict struct {
		Exit     int   `json:"exit"`
		Must     []int `json:"must"`
		May      []int `json:"may"`
		Reported []int `json:"reported"`
	} `json:"verdict"`
}

func argsOf(cmd string) []string {
	switch cmd {
	case "validate":
		return []string{"validate"}
	case "validate-quiet":
		return []string{"validate", "--quiet"}
	case "validate-json":
		return []string{"validate", "--output-format", "json"}
	case "validate-sarif":
		return []string{"validate", "--output-format", "sarif"}
	case "format":
		return []string{"format"}
	case "format-check":
		return []string{"format", "--check"}
	case "format-inplace":
		return []string{"format", "-i"}
	case "format-check-inplace":
		return []string{"format", "--check", "-i"}
	case "format-check-output":
		return []string{"format", "-o", "out.txt", "--check"}
	case "format-output":
		return []string{"format", "-o", "out.txt"}
	case "lint":
		return []string{"lint"}
	case "lint-failwarn":
		return []string{"lint", "--fail-on-warn"}
	case "lint-fix":
		return []string{"lint", "--auto-fix"}
	case "parse":
		return []string{"parse"}
	}
	core.Fatalf("unknown command %q", cmd)
	return nil
}

func verdicts(cases []string) {
	if len(cases) == 0 {
		core.Fatalf("CliVerdict printed no cases")
	}
	var wg sync.WaitGroup
	sem := make(chan struct{}, 16)
	for _, c := range cases {
		var vc vcase
		if err := json.Unmarshal([]byte(c), &vc); err != nil {
			core.Fatalf("bad case %q: %v", c, err)
		}
		wg.Add(1)
		sem <- struct{}{}
		go func(vc vcase) {
			defer wg.Done()
			defer func() { <-sem }()
			runVerdict(vc)
		}(vc)
	}
	wg.Wait()
}

var (
	otherOnce sync.Once
	otherDir  string
)

// otherFileSystem returns a writable directory on another file system than the scratch directories ("" if there is none).
func otherFileSystem() string {
	otherOnce.Do(func() {
		var a, b syscall.Stat_t
		if syscall.Stat(work, &a) != nil || syscall.Stat("/dev/shm", &b) != nil || a.Dev == b.Dev {
			return
		}
		d, err := os.MkdirTemp("/dev/shm", "verif-c19-tmp-")
		if err != nil {
			return
		}
		core.RemoveAtExit(d)
		otherDir = d
	})
	return otherDir
}

func runVerdict(vc vcase) {
	files := map[string]string{}
	var names []string
	for i, cl := range vc.Case.Ins {
		n := fmt.Sprintf("in%d_%s.sql", i+1, cl)
		names = append(names, n)
		if vc.Case.Src == "files" {
			files[n] = content[cl]
		}
	}
	d := scratch(files)
	args := argsOf(vc.Case.Cmd)
	switch vc.Case.Pres {
	case "":
	case "json", "yaml", "table", "tree":
		args = append(args, "-f", vc.Case.Pres)
	case "ast", "tokens":
		args = append(args, "--"+vc.Case.Pres)
	case "treeview":
		args = append(args, "--tree")
	case "verbose":
		args = append(args, "-v")
	default:
		core.Fatalf("unknown presentation %q", vc.Case.Pres)
	}
	stdin := ""
	if strings.HasPrefix(vc.Case.Src, "dir-") || vc.Case.Src == "glob" {
		// the inputs lie in a directory q: flat; the last one in a sub-directory; next to a dot-file; next to a file
		// of another extension - and are given as the directory (-r) or as a glob pattern
		put := func(rel, text string) {
			p := filepath.Join(d, rel)
			if err := os.MkdirAll(filepath.Dir(p), 0o755); err != nil {
				core.Fatalf("%v", err)
			}
			if err := os.WriteFile(p, []byte(text), 0o644); err != nil {
				core.Fatalf("%v", err)
			}
		}
		for i, n := range names {
			rel := filepath.Join("q", n)
			if vc.Case.Src == "dir-nested" && i == len(names)-1 {
				rel = filepath.Join("q", "sub", n)
			}
			put(rel, content[vc.Case.Ins[i]])
		}
		switch vc.Case.Src {
		case "dir-dotfile":
			put(filepath.Join("q", ".gitkeep"), "")
		case "dir-other-ext":
			put(filepath.Join("q", "notes.txt"), "this is not SQL ((")
		}
		if vc.Case.Src == "glob" {
			args = append(args, "q/*.sql")
		} else {
			args = append(args, "-r", "q")
		}
	}
	switch vc.Case.Src {
	case "files":
		args = append(args, names...)
	case "stdin":
		args = append(args, "-")
		stdin = content[vc.Case.Ins[0]]
	case "inline":
		args = append(args, content[vc.Case.Ins[0]])
	}
	var env []string
	switch vc.Case.Env {
	case "":
	case "tmpdir-missing":
		env = []string{"TMPDIR=" + filepath.Join(d, "no-such-directory")}
	case "tmpdir-elsewhere":
		other := otherFileSystem()
		if other == "" {
			return // no second file system on this machine: the case cannot be stated
		}
		env = []string{"TMPDIR=" + other}
	default:
		core.Fatalf("unknown environment %q", vc.Case.Env)
	}
	r := cli.Run(cli.Opts{Bin: bin, Dir: d, Args: args, Stdin: stdin, Fsize: -1, Env: env})
	run.Eval(1)
	key := core.JSON(vc.Case)
	nontrivial := false
	for _, cl := range vc.Case.Ins {
		if cl != "fmt" {
			nontrivial = true
		}
	}
	if nontrivial {
		run.Nontrivial(key)
	}
	run.Sample(map[string]any{"kind": "verdict", "case": vc.Case, "expected": vc.Verdict, "exit": r.Exit})
	fail := func(sig, clause string, obs any) {
		run.Violate(core.Violation{Sig: sig, Clause: clause, Case: map[string]any{"kind": "verdict", "case": vc.Case, "args": args, "content": content},
			Observe: obs, Expect: vc.Verdict})
	}
	if r.Killed || r.Exit > 1 && r.Exit != 2 {
		fail("cli-died|"+vc.Case.Cmd+"|"+vc.Case.Src, "the command exits normally", map[string]any{"exit": r.Exit, "stderr": firstN(r.Stderr, 600)})
		return
	}
	// The trailing-whitespace class is not a well-formed stdin/inline case for exit-status purposes only
	// when the shell-level source changes the text; it does not here.
	if (r.Exit == 0) != (vc.Verdict.Exit == 0) {
		fail("exit-status|"+vc.Case.Cmd+"|"+vc.Case.Src+"|"+strings.Join(vc.Case.Ins, "+"), "exit status is zero exactly when the library accepts every input and no failing finding exists",
			map[string]any{"exit": r.Exit, "stdout": firstN(r.Stdout, 300), "stderr": firstN(r.Stderr, 300)})
	}
	// touched files
	if vc.Case.Src == "files" {
		may := map[int]bool{}
		for _, i := range vc.Verdict.May {
			may[i] = true
		}
		must := map[int]bool{}
		for _, i := range vc.Verdict.Must {
			must[i] = true
		}
		for i, n := range names {
			b, err := os.ReadFile(filepath.Join(d, n))
			cl := vc.Case.Ins[i]
			changed := err != nil || string(b) != content[cl]
			if changed && !may[i+1] {
				fail("file-modified|"+vc.Case.Cmd+"|"+cl, "check-only modes never modify a file; in-place modes replace a file only when its processing succeeded",
					map[string]any{"file": n, "now": firstN(string(b), 200)})
			}
			if !changed && must[i+1] {
				fail("file-not-rewritten|"+vc.Case.Cmd+"|"+cl, "format -i writes the formatted text", map[string]any{"file": n})
			}
			if changed && vc.Case.Cmd == "format-inplace" && cl == "unfmt" && string(b) != content["fmt"] {
				fail("file-wrong-content|"+vc.Case.Cmd+"|"+cl, "format -i writes what format prints", map[string]any{"file": n, "now": firstN(string(b), 200)})
			}
		}
		extra := []string{}
		for _, n := range listDir(d) {
			if _, ok := files[n]; !ok && !(vc.Case.Cmd == "format-output" && n == "out.txt") {
				extra = append(extra, n)
			}
		}
		if len(extra) > 0 {
			fail("stray-file|"+vc.Case.Cmd, "no other file is created", extra)
		}
	}
	// reports
	switch vc.Case.Cmd {
	case "validate-json":
		var rep struct {
			Results struct {
				Valid   bool `json:"valid"`
				Total   int  `json:"total_files"`
				Invalid int  `json:"invalid_files"`
			} `json:"results"`
			Errors []struct {
				File string `json:"file"`
			} `json:"errors"`
		}
		if err := json.Unmarshal([]byte(r.Stdout), &rep); err != nil {
			fail("report-malformed|json", "machine-readable reports are well-formed", firstN(r.Stdout, 400))
			return
		}
		var got []string
		for _, e := range rep.Errors {
			got = append(got, filepath.Base(e.File))
		}
		checkReported(vc, names, got, "json", fail)
		if rep.Results.Total != len(names) || rep.Results.Invalid != len(vc.Verdict.Reported) || rep.Results.Valid != (len(vc.Verdict.Reported) == 0) {
			fail("report-counts|json", "report counts equal the failing inputs", rep.Results)
		}
	case "validate-sarif":
		var rep struct {
			Version string `json:"version"`
			Runs    []struct {
				Results []struct {
					Locations []struct {
						PhysicalLocation struct {
							ArtifactLocation struct {
								URI string `json:"uri"`
							} `json:"artifactLocation"`
						} `json:"physicalLocation"`
					} `json:"locations"`
				} `json:"results"`
			} `json:"runs"`
		}
		if err := json.Unmarshal([]byte(r.Stdout), &rep); err != nil || rep.Version == "" || len(rep.Runs) != 1 {
			fail("report-malformed|sarif", "machine-readable reports are well-formed", firstN(r.Stdout, 400))
			return
		}
		var got []string
		for _, res := range rep.Runs[0].Results {
			for _, l := range res.Locations {
				got = append(got, filepath.Base(l.PhysicalLocation.ArtifactLocation.URI))
			}
		}
		checkReported(vc, names, got, "sarif", fail)
	}
}

func checkReported(vc vcase, names, got []string, kind string, fail func(string, string, any)) {
	want := map[string]bool{}
	for _, i := range vc.Verdict.Reported {
		want[names[i-1]] = true
	}
	gotSet := map[string]bool{}
	for _, g := range got {
		gotSet[g] = true
	}
	for w := range want {
		if !gotSet[w] {
			fail("report-misses-failure|"+kind, "reports name exactly the failing inputs", map[string]any{"reported": got, "missing": w})
		}
	}
	for g := range gotSet {
		if !want[g] {
			fail("report-names-nonfailure|"+kind, "reports name exactly the failing inputs", map[string]any{"reported": got, "extra": g})
		}
	}
}

// ---------------------------------------------------------------------------
// print / write / check consistency on the real binary

func relations() {
	flagSets := [][]string{{}, {"--compact"}, {"--no-uppercase"}, {"--indent", "4"}}
	inputs := []string{content["unfmt"], content["warn"], "SELECT a FROM t; SELECT b FROM u", "INSERT INTO t (a) VALUES (1)", "SELECT a FROM t -- c\n"}
	// a sample of Select.tla's statement forms (every eighth in the quick tier)
	model := gram.FormTexts(run)
	for i, m := range model {
		if tier == "thorough" || i%8 == 0 {
			inputs = append(inputs, m)
		}
	}
	run.Extra["relation_inputs"] = len(inputs)
	// near-misses of the output form: the text format prints, decorated with blanks around it (only a difference in
	// the final newlines is "no change"; see NearMisses in CliVerdict.tla)
	decorate := func(canon string) []string {
		body := strings.TrimRight(canon, "\n")
		return []string{"\n\n" + body + "\n", "   " + body + "\n", body + "   \n", body + "\n\t\n", body + "\r\n", " \t" + body + " \n\n", body + "\n\n\n"}
	}
	nearMisses := 0
	defer func() { run.Extra["relation_near_miss_inputs"] = nearMisses }()
	for _, fl := range flagSets {
		queue := append([]string{}, inputs...)
		for qi := 0; qi < len(queue); qi++ {
			in := queue[qi]
			d := scratch(map[string]string{"f.sql": in, "g.sql": in})
			pr := cli.Run(cli.Opts{Bin: bin, Dir: d, Args: append(append([]string{"format"}, fl...), "f.sql"), Fsize: -1})
			wr := cli.Run(cli.Opts{Bin: bin, Dir: d, Args: append(append([]string{"format", "-i"}, fl...), "g.sql"), Fsize: -1})
			run.Eval(2)
			run.Nontrivial("rel" + core.JSON(fl) + in)
			if pr.Exit != 0 || wr.Exit != 0 {
				continue // not an accepted input for this binary: nothing to relate
			}
			if qi < 5 {
				queue = append(queue, decorate(pr.Stdout)...)
				nearMisses += 7
			}
			written, _ := os.ReadFile(filepath.Join(d, "g.sql"))
			c := map[string]any{"kind": "relation", "flags": fl, "input": in}
			fail := func(sig, clause string, obs any) {
				run.Violate(core.Violation{Sig: sig, Clause: clause, Case: c, Observe: obs})
			}
			if strings.TrimRight(pr.Stdout, "\n") != strings.TrimRight(string(written), "\n") {
				fail("print-differs-from-write|"+strings.Join(fl, ""), "the text format prints and the text format -i writes are the same", map[string]any{"printed": pr.Stdout, "written": string(written)})
			}
			// R1: what -i wrote passes --check
			c1 := cli.Run(cli.Opts{Bin: bin, Dir: d, Args: append(append([]string{"format", "--check"}, fl...), "g.sql"), Fsize: -1})
			run.Eval(1)
			if c1.Exit != 0 {
				fail("check-rejects-written|"+strings.Join(fl, ""), "format --check accepts what format -i wrote with the same options", map[string]any{"written": string(written), "stderr": firstN(c1.Stderr, 200)})
			}
			// R3: --check on the original is the verdict "format would not change it"
			c0 := cli.Run(cli.Opts{Bin: bin, Dir: d, Args: append(append([]string{"format", "--check"}, fl...), "f.sql"), Fsize: -1})
			run.Eval(1)
			same := strings.TrimRight(pr.Stdout, "\n") == strings.TrimRight(in, "\n")
			if (c0.Exit == 0) != same {
				fail("check-verdict-inconsistent|"+strings.Join(fl, ""), "the verdict of format --check is consistent with the text format prints", map[string]any{"check_exit": c0.Exit, "format_changes_the_text": !same, "printed": firstN(pr.Stdout, 200)})
			}
			// R2: what format printed passes --check
			if err := os.WriteFile(filepath.Join(d, "h.sql"), []byte(pr.Stdout), 0o644); err != nil {
				core.Fatalf("%v", err)
			}
			c2 := cli.Run(cli.Opts{Bin: bin, Dir: d, Args: append(append([]string{"format", "--check"}, fl...), "h.sql"), Fsize: -1})
			run.Eval(1)
			if c2.Exit != 0 {
				fail("check-rejects-printed|"+strings.Join(fl, ""), "format --check accepts what format printed with the same options", map[string]any{"printed": pr.Stdout, "stderr": firstN(c2.Stderr, 200)})
			}
		}
	}
}

// ---------------------------------------------------------------------------
// in-place atomicity

type scenario struct {
	Name    string            `json:"name"`
	Files   map[string]string `json:"files"`
	Args    []string          `json:"args"`
	Targets []string          `json:"targets"`
}

func bigSQL(n int) string {
	var b strings.Builder
	for i := 0; i < n; i++ {
		fmt.Fprintf(&b, "select col%d,other%d from table%d where id=%d and name='n%d';\n", i, i, i, i, i)
	}
	return b.String()
}

func scenarios() []scenario {
	big := 12
	if tier == "thorough" {
		big = 40
	}
	return []scenario{
		{Name: "format-inplace-small", Files: map[string]string{"a.sql": content["unfmt"]}, Args: []string{"format", "-i", "a.sql"}, Targets: []string{"a.sql"}},
		{Name: "format-inplace-multi", Files: map[string]string{"a.sql": content["unfmt"], "b.sql": content["bad"], "c.sql": content["warn"]}, Args: []string{"format", "-i", "a.sql", "b.sql", "c.sql"}, Targets: []string{"a.sql", "b.sql", "c.sql"}},
		{Name: "format-inplace-big", Files: map[string]string{"big.sql": bigSQL(big)}, Args: []string{"format", "-i", "big.sql"}, Targets: []string{"big.sql"}},
		{Name: "lint-fix-small", Files: map[string]string{"w.sql": content["warn"]}, Args: []string{"lint", "--auto-fix", "w.sql"}, Targets: []string{"w.sql"}},
		{Name: "lint-fix-big", Files: map[string]string{"w.sql": strings.Repeat("select   a  from t   \nwhere  x = 1  \n\n\n", big)}, Args: []string{"lint", "--auto-fix", "w.sql"}, Targets: []string{"w.sql"}},
		{Name: "format-inplace-invalid", Files: map[string]string{"b.sql": content["bad"]}, Args: []string{"format", "-i", "b.sql"}, Targets: []string{"b.sql"}},
	}
}

func atomicity() {
	var mu sync.Mutex
	accepted, rejected := 0, 0
	for _, sc := range scenarios() {
		// baseline: what the complete new contents are
		d := scratch(sc.Files)
		base := cli.Run(cli.Opts{Bin: bin, Dir: d, Args: sc.Args, Fsize: -1})
		newc := map[string]string{}
		for _, t := range sc.Targets {
			b, err := os.ReadFile(filepath.Join(d, t))
			if err != nil {
				core.Fatalf("baseline %s: %v", sc.Name, err)
			}
			newc[t] = string(b)
		}
		// T: strace the same run and validate its system calls per target
		d2 := scratch(sc.Files)
		tr := cli.Run(cli.Opts{Bin: bin, Dir: d2, Args: sc.Args, Fsize: -1, Strace: true})
		if tr.Exit != base.Exit {
			core.Fatalf("scenario %s is not deterministic (exit %d vs %d)", sc.Name, base.Exit, tr.Exit)
		}
		for _, t := range sc.Targets {
			ok := validateTrace(sc, t, tr, d2, newc[t], tr.Exit, false)
			mu.Lock()
			if ok {
				accepted++
			} else {
				rejected++
			}
			mu.Unlock()
		}
		faults(sc, newc, tr)
	}
	run.Traces(int64(accepted))
	run.Extra["syscall_traces_accepted"] = accepted
	run.Extra["syscall_traces_rejected"] = rejected
}

// validateTrace checks the syscall events of one run for one target against CliWriteTrace.tla.
func validateTrace(sc scenario, target string, r cli.Result, dir, newContent string, exit int, killed bool) bool {
	orig := sc.Files[target]
	ev := cli.FileEvents(r.Calls, dir, target)
	success := newContent != orig
	unchanged := !success
	if unchanged {
		// either processing failed (skip) or the file already has its final form
		if gosqlx.Validate(orig) != nil {
			ev = append([]map[string]any{{"ev": "skip"}}, ev...)
		} else {
			ev = append([]map[string]any{{"ev": "unchanged"}}, ev...)
		}
	}
	if killed {
		ev = append(ev, map[string]any{"ev": "killed"})
	} else {
		ev = append(ev, map[string]any{"ev": "exit", "code": exit, "unchanged": unchanged && gosqlx.Validate(orig) == nil})
	}
	var nd strings.Builder
	for _, e := range ev {
		if _, ok := e["file"]; !ok {
			e["file"] = ""
		}
		if _, ok := e["n"]; !ok {
			e["n"] = 0
			e["ret"] = 0
		}
		if _, ok := e["code"]; !ok {
			e["code"] = 0
			e["unchanged"] = false
		}
		b, _ := json.Marshal(e)
		nd.Write(b)
		nd.WriteByte('\n')
	}
	n := len(newContent)
	if n == 0 {
		n = 1
	}
	cfg := fmt.Sprintf("SPECIFICATION TraceSpec\nCONSTANTS\n  N = %d\n  Safe = TRUE\n  Success = %s\nINVARIANTS Atomicity OnlyOnSuccess NoStrayTmp\nPOSTCONDITION TraceAccepted\n",
		n, map[bool]string{true: "TRUE", false: "FALSE"}[success && gosqlx.Validate(orig) == nil])
	res, err := core.RunTLC(core.TLCOpts{Spec: "CliWriteTrace", Cfg: "trace.cfg", Workers: 1, Timeout: 2 * time.Minute,
		ExtraFile: map[string][]byte{"trace.ndjson": []byte(nd.String()), "trace.cfg": []byte(cfg)}, KeepOut: true})
	if err != nil {
		core.Fatalf("trace validation: %v", err)
	}
	okTrace := res.Violation == "" && !strings.Contains(res.Output, "TRACE-REJECTED") && strings.Contains(res.Output, "No error has been found")
	if okTrace {
		run.AddTLC(core.TLCStat{Spec: "CliWriteTrace", Cfg: sc.Name + ":" + target, Generated: res.Generated, Distinct: res.Distinct, WallS: res.WallS, Mode: "trace-validation"})
	} else {
		mu2.Lock()
		rejectedTraces = append(rejectedTraces, map[string]any{"scenario": sc.Name, "target": target, "events": ev, "tlc": rejectLine(res.Output)})
		run.Extra["rejected_traces"] = rejectedTraces
		mu2.Unlock()
	}
	return okTrace
}

var (
	mu2            sync.Mutex
	rejectedTraces []map[string]any
)

func rejectLine(out string) string {
	for _, l := range strings.Split(out, "\n") {
		if strings.Contains(l, "TRACE-REJECTED") || strings.Contains(l, "is violated") {
			return l
		}
	}
	return tailOf(out, 300)
}

func tailOf(s string, n int) string {
	if len(s) > n {
		return s[len(s)-n:]
	}
	return s
}

func ladder(n int) []int64 {
	var ks []int64
	if n <= 2048 || tier == "thorough" {
		step := 1
		if tier != "thorough" && n > 600 {
			step = 1 + n/600
		}
		for k := 0; k < n; k += step {
			ks = append(ks, int64(k))
		}
		if n > 0 {
			ks = append(ks, int64(n-1))
		}
		return ks
	}
	for k := 0; k < 64 && k < n; k++ {
		ks = append(ks, int64(k))
	}
	for k := 64; k < n; k = k*5/4 + 1 {
		ks = append(ks, int64(k))
	}
	for k := n - 32; k < n; k++ {
		if k > 0 {
			ks = append(ks, int64(k))
		}
	}
	return ks
}

func faults(sc scenario, newc map[string]string, baseline cli.Result) {
	maxLen := 0
	for _, t := range sc.Targets {
		if newc[t] != sc.Files[t] && len(newc[t]) > maxLen {
			maxLen = len(newc[t])
		}
	}
	type job struct {
		kind   string
		fsize  int64
		inject string
	}
	var jobs []job
	for _, k := range ladder(maxLen) {
		jobs = append(jobs, job{kind: "efbig", fsize: k})
	}
	// count relevant syscalls of the baseline for injection points
	counts := map[string]int{}
	for _, c := range baseline.Calls {
		counts[c.Name]++
	}
	for i := 1; i <= counts["write"]; i++ {
		jobs = append(jobs, job{kind: "enospc", fsize: -1, inject: fmt.Sprintf("write:error=ENOSPC:when=%d", i)})
	}
	for _, name := range []string{"openat", "write", "close", "rename", "renameat", "renameat2", "fsync", "fchmod", "fchmodat", "chmod", "unlinkat", "unlink"} {
		n := counts[name]
		if name == "openat" || name == "close" {
			// the tail of the run is what matters: the Go runtime's start-up opens come first
			if n > 14 {
				n = 14
			}
		}
		for i := 1; i <= n; i++ {
			w := i
			if name == "openat" || name == "close" {
				w = counts[name] - n + i
			}
			jobs = append(jobs, job{kind: "sigkill@" + name, fsize: -1, inject: fmt.Sprintf("%s:signal=SIGKILL:when=%d", name, w)})
		}
	}
	var wg sync.WaitGroup
	sem := make(chan struct{}, 16)
	for _, j := range jobs {
		wg.Add(1)
		sem <- struct{}{}
		go func(j job) {
			defer wg.Done()
			defer func() { <-sem }()
			d := scratch(sc.Files)
			r := cli.Run(cli.Opts{Bin: bin, Dir: d, Args: sc.Args, Fsize: j.fsize, Inject: j.inject})
			run.Eval(1)
			hit := r.Killed || r.Exit != baseline.Exit
			if hit {
				run.Nontrivial(fmt.Sprintf("%s|%s|%d|%s", sc.Name, j.kind, j.fsize, j.inject))
			}
			if j.kind == "efbig" && j.fsize == 3 {
				run.Sample(map[string]any{"kind": "fault", "scenario": sc.Name, "fault": j.kind, "after_bytes": j.fsize, "exit": r.Exit})
			}
			for _, t := range sc.Targets {
				b, err := os.ReadFile(filepath.Join(d, t))
				got := string(b)
				if err != nil || (got != sc.Files[t] && got != newc[t]) {
					run.Violate(core.Violation{Sig: "inplace-not-atomic|" + sc.Args[0] + "|" + j.kind,
						Clause: "after an interrupted or failed write the file holds the complete original or the complete new content",
						Case:   map[string]any{"kind": "fault", "scenario": sc, "fault": j.kind, "fsize": j.fsize, "inject": j.inject, "target": t},
						Observe: map[string]any{"content": firstN(got, 300), "len": len(got), "err": fmt.Sprint(err), "exit": r.Exit},
						Expect:  map[string]any{"orig_len": len(sc.Files[t]), "new_len": len(newc[t])}})
				}
				if got == newc[t] && got != sc.Files[t] && gosqlx.Validate(sc.Files[t]) != nil {
					run.Violate(core.Violation{Sig: "inplace-replaced-failed-file|" + sc.Args[0], Clause: "a file is replaced only when its processing succeeded",
						Case: map[string]any{"kind": "fault", "scenario": sc, "fault": j.kind, "target": t}})
				}
			}
			if !r.Killed {
				// a run that ended by itself leaves no stray files behind
				var extra []string
				for _, n := range listDir(d) {
					if _, ok := sc.Files[n]; !ok {
						extra = append(extra, n)
					}
				}
				if len(extra) > 0 {
					run.Violate(core.Violation{Sig: "stray-temp-file|" + sc.Args[0] + "|" + j.kind, Clause: "a temporary file never outlives a run that ended normally",
						Case: map[string]any{"kind": "fault", "scenario": sc, "fault": j.kind, "fsize": j.fsize, "inject": j.inject}, Observe: extra})
				}
			}
			os.RemoveAll(d)
		}(j)
	}
	wg.Wait()
}

func firstN(s string, n int) string {
	if len(s) > n {
		return s[:n]
	}
	return s
}

func replay(path string) {
	b, err := os.ReadFile(path)
	if err != nil {
		core.Fatalf("replay: %v", err)
	}
	var f struct {
		Violation struct {
			Case struct {
				Kind     string   `json:"kind"`
				Scenario scenario `json:"scenario"`
				Fsize    int64    `json:"fsize"`
				Inject   string   `json:"inject"`
				Fault    string   `json:"fault"`
			} `json:"case"`
		} `json:"violation"`
	}
	if err := json.Unmarshal(b, &f); err != nil {
		core.Fatalf("replay: %v", err)
	}
	prepareClasses()
	if f.Violation.Case.Kind == "fault" {
		sc := f.Violation.Case.Scenario
		d := scratch(sc.Files)
		base := cli.Run(cli.Opts{Bin: bin, Dir: d, Args: sc.Args, Fsize: -1, Strace: true})
		newc := map[string]string{}
		for _, t := range sc.Targets {
			bb, _ := os.ReadFile(filepath.Join(d, t))
			newc[t] = string(bb)
		}
		faults(sc, newc, base)
		return
	}
	v := core.MustTLC(core.TLCOpts{Spec: "CliVerdict", Cfg: "CliVerdict.cfg", Timeout: 2 * time.Minute})
	verdicts(v.Cases)
	relations()
}
