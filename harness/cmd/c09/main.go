// C09 — returned values belong to the caller; pooled nodes come back clean.
//
//	X  the pool schema (every Get*/Put* pair of pkg/sql/ast/pool.go, every field of every pooled struct, the
//	   number of sync.Pool variables) is extracted from the working tree on every run into spec/gen/PoolSchema.tla
//	   and into the registry the driver links against.
//	M  Pools.tla: the cycle machine (Populate(T, f); Put; Get => CleanAfterGet) over the extracted schema and the
//	   history machine (ParseInto / Release / ClientGet / ParseFail; NoAliasing, CleanInPool, SnapshotStable); the
//	   pinned shape violates both cleanliness invariants.
//	R  for every (type, field) TLC prints, the field of a real pooled node is filled with non-zero content (a
//	   reflective populator: nested nodes, slices, strings, flags), the node is Put and Got back (pool identity
//	   pinned to one thread), and every field of what comes back must be zero; every history of the history
//	   machine is replayed with real parses, releases and client Gets, deep snapshots of every held tree, token
//	   list, scan result and extracted list being compared before and after each step.
package main

import (
	"context"
	"encoding/json"
	"fmt"
	"os"
	"reflect"
	"runtime"
	"sort"
	"strings"
	"sync"
	"time"

	"github.com/ajitpratap0/GoSQLX/pkg/gosqlx"
	"github.com/ajitpratap0/GoSQLX/pkg/models"
	"github.com/ajitpratap0/GoSQLX/pkg/sql/ast"
	"github.com/ajitpratap0/GoSQLX/pkg/sql/parser"
	"github.com/ajitpratap0/GoSQLX/pkg/sql/security"
	"github.com/ajitpratap0/GoSQLX/pkg/sql/tokenizer"

	"verif/internal/core"
	"verif/internal/project"
)

type poolEntry struct {
	Type string
	Get  func() any
	Put  func(any)
}

var run *core.Run

func main() {
	runtime.GOMAXPROCS(1)
	runtime.LockOSThread()
	tier := os.Getenv("VERIF_TIER")
	if tier == "" {
		tier = "quick"
	}
	run = core.NewRun("C09", tier, "model_checking")
	if len(os.Args) == 6 && os.Args[1] == "--histories" {
		b, err := os.ReadFile(os.Args[2])
		if err != nil {
			core.Fatalf("child: %v", err)
		}
		var k, n int
		fmt.Sscan(os.Args[3], &k)
		fmt.Sscan(os.Args[4], &n)
		replayAll(strings.Split(string(b), "\n"), k, n)
		run.Export(os.Args[5])
		return
	}
	run.Rule = "cleanliness: every (pooled type, field) pair of the extracted schema, populated, put and got back; histories: every history of the history machine of Pools.tla (<= 4 steps quick, <= 5 thorough) replayed on real trees with deep snapshots; non-trivial = a cycle whose field can hold content, or a history in which something is released or drawn while another slot is held"
	run.Assumptions = []string{
		"sync.Pool identity is pinned with GOMAXPROCS(1)+LockOSThread so that the node put is the node got; a dropped node is replaced by a fresh one, which is clean by construction",
		"slice capacity is not content: a pooled node may keep the capacity of its slices",
	}
	byType := map[string]poolEntry{}
	for _, e := range registry {
		byType[e.Type] = e
	}
	run.Extra["pooled_types_extracted"] = len(registry)
	run.Extra["sync_pool_vars_extracted"] = syncPoolVars

	cy := core.MustTLC(core.TLCOpts{Spec: "Pools", Cfg: "Pools_cycle.cfg", Timeout: 5 * time.Minute})
	run.AddTLC(cy.Stat("cycle machine over the extracted schema: CleanAfterGet, CleanInPool"))
	cp, err := core.RunTLC(core.TLCOpts{Spec: "Pools", Cfg: "Pools_cycle_pinned.cfg", Timeout: 2 * time.Minute})
	if err != nil || cp.Violation != "CleanAfterGet" {
		core.Fatalf("Pools_cycle_pinned.cfg must violate CleanAfterGet (got %q, %v)", cp.Violation, err)
	}
	st := cp.Stat("pinned shape (Put leaves fields): TLC must find the dirty node")
	st.ExpectViol = "CleanAfterGet"
	run.AddTLC(st)
	if len(cy.Cases) == 0 {
		core.Fatalf("no cycles printed")
	}
	for _, c := range cy.Cases {
		var tf struct{ Type, Field, Size string }
		if err := json.Unmarshal([]byte(c), &tf); err != nil {
			core.Fatalf("bad cycle %q", c)
		}
		e, ok := byType[tf.Type]
		if !ok {
			core.Fatalf("extracted type %s has no registry entry", tf.Type)
		}
		cycle(e, tf.Field, tf.Size)
	}
	// all fields at once, twice (what a released tree of another query leaves behind)
	for _, e := range registry {
		cycle(e, "*", "few")
		cycle(e, "*", "many")
	}

	// the expression-slice pool has no struct: a slice put with content must come back empty with no element kept
	{
		sl := ast.GetExpressionSlice()
		*sl = append(*sl, &ast.Identifier{Name: "leftover"}, &ast.LiteralValue{Value: "x"})
		ast.PutExpressionSlice(sl)
		got := ast.GetExpressionSlice()
		run.Eval(1)
		run.Nontrivial("ExpressionSlice")
		full := (*got)[:cap(*got)]
		kept := 0
		for _, e := range full {
			if e != nil {
				kept++
			}
		}
		if len(*got) != 0 || kept != 0 {
			run.Violate(core.Violation{Sig: "pooled-node-dirty|ExpressionSlice", Clause: "a container obtained from the pools is indistinguishable from a freshly constructed one",
				Case: map[string]any{"kind": "cycle", "type": "ExpressionSlice"}, Observe: fmt.Sprintf("len=%d kept=%d", len(*got), kept)})
		}
	}

	hcfg := "Pools_hist.cfg"
	if tier == "thorough" {
		hcfg = "Pools_hist5.cfg"
	}
	h := core.MustTLC(core.TLCOpts{Spec: "Pools", Cfg: hcfg, Timeout: 10 * time.Minute})
	run.AddTLC(h.Stat("history machine: NoAliasing, CleanInPool, SnapshotStable; one history per state"))
	hp, err := core.RunTLC(core.TLCOpts{Spec: "Pools", Cfg: "Pools_hist_pinned.cfg", Timeout: 2 * time.Minute})
	if err != nil || hp.Violation != "CleanInPoolH" {
		core.Fatalf("Pools_hist_pinned.cfg must violate CleanInPoolH (got %q, %v)", hp.Violation, err)
	}
	st2 := hp.Stat("pinned shape: released nodes stay dirty in the pool")
	st2.ExpectViol = "CleanInPoolH"
	run.AddTLC(st2)
	hw, err := core.RunTLC(core.TLCOpts{Spec: "Pools", Cfg: "Pools_hist_writes.cfg", Timeout: 2 * time.Minute})
	if err != nil || hw.Violation != "SnapshotStable" {
		core.Fatalf("Pools_hist_writes.cfg must violate SnapshotStable (got %q, %v)", hw.Violation, err)
	}
	st3 := hw.Stat("writes-through shape: a library that completes a token window in place changes what the caller holds")
	st3.ExpectViol = "SnapshotStable"
	run.AddTLC(st3)
	cases := h.Cases
	// long random histories of the same machine (three slots, fourteen steps), walked by TLC's simulator
	{
		num := 150
		if tier == "thorough" {
			num = 3000
		}
		sim := core.MustTLC(core.TLCOpts{Spec: "Pools", Cfg: "Pools_sim.cfg", Workers: 1, Simulate: fmt.Sprintf("num=%d", num), Depth: 16, Seed: 1000 + run.Seed, Timeout: 10 * time.Minute})
		ss := sim.Stat(fmt.Sprintf("random behaviours of the history machine (%d of 14 steps, three slots), replayed in full", num))
		ss.Mode = "simulation"
		run.AddTLC(ss)
		long := 0
		for _, c := range sim.Cases {
			if strings.Count(c, `"op"`) >= 14 {
				cases = append(cases, c)
				long++
			}
		}
		if long < num/2 {
			core.Fatalf("Pools simulation produced only %d full-length histories", long)
		}
		run.Extra["long_random_histories"] = long
	}
	if tier == "thorough" {
		// the histories are independent: eight child processes (each pinned to one thread, each with its own
		// pools, which keep whatever the child's earlier histories left in them) take every eighth history
		dir, err := os.MkdirTemp("", "verif-c09-")
		if err != nil {
			core.Fatalf("scratch: %v", err)
		}
		core.RemoveAtExit(dir)
		in := dir + "/histories.ndjson"
		if err := os.WriteFile(in, []byte(strings.Join(cases, "\n")), 0o644); err != nil {
			core.Fatalf("scratch: %v", err)
		}
		const shards = 8
		var wg sync.WaitGroup
		results := make([]core.ChildResult, shards)
		for k := 0; k < shards; k++ {
			wg.Add(1)
			go func(k int) {
				defer wg.Done()
				results[k] = run.RunChild([]string{"--histories", in, fmt.Sprint(k), fmt.Sprint(shards)}, fmt.Sprintf("%s/out%d.json", dir, k), 40*time.Minute)
			}(k)
		}
		wg.Wait()
		for k, res := range results {
			if !res.Merged || res.Crashed || res.TimedOut {
				core.Fatalf("history shard %d did not finish (crashed=%v timed out=%v):\n%s", k, res.Crashed, res.TimedOut, res.Text)
			}
		}
	} else {
		replayAll(cases, 0, 1)
	}
	run.Traces(int64(len(cases)))
	grafts(tier)
	gatedRelease()
	sizeSweep(tier)
	concurrent(tier)
	run.Exhaustive = true
	run.Finish()
}

// ---------------------------------------------------------------------------
// cleanliness

var (
	exprT = reflect.TypeOf((*ast.Expression)(nil)).Elem()
	stmtT = reflect.TypeOf((*ast.Statement)(nil)).Elem()
	nodeT = reflect.TypeOf((*ast.Node)(nil)).Elem()
)

// populate fills v (settable) with non-zero content.
func populate(v reflect.Value, depth int) {
	switch v.Kind() {
	case reflect.String:
		v.SetString("dirty")
	case reflect.Bool:
		v.SetBool(true)
	case reflect.Int, reflect.Int8, reflect.Int16, reflect.Int32, reflect.Int64:
		v.SetInt(7)
	case reflect.Uint, reflect.Uint8, reflect.Uint16, reflect.Uint32, reflect.Uint64:
		v.SetUint(7)
	case reflect.Float32, reflect.Float64:
		v.SetFloat(7.5)
	case reflect.Ptr:
		if depth > 2 {
			return
		}
		n := reflect.New(v.Type().Elem())
		populate(n.Elem(), depth+1)
		v.Set(n)
	case reflect.Struct:
		for i := 0; i < v.NumField(); i++ {
			if v.Type().Field(i).IsExported() && depth < 2 {
				populate(v.Field(i), depth+1)
			}
		}
	case reflect.Slice:
		if depth > 2 {
			return
		}
		n := 2
		if depth == 0 {
			n = sliceLen
		}
		s := reflect.MakeSlice(v.Type(), n, n+2)
		for i := 0; i < n; i++ {
			populate(s.Index(i), depth+1)
		}
		v.Set(s)
	case reflect.Map:
		if v.Type().Key().Kind() == reflect.String && depth <= 2 {
			m := reflect.MakeMap(v.Type())
			e := reflect.New(v.Type().Elem()).Elem()
			populate(e, depth+1)
			m.SetMapIndex(reflect.ValueOf("k").Convert(v.Type().Key()), e)
			v.Set(m)
		}
	case reflect.Interface:
		switch {
		case v.Type() == exprT || (v.Type() == nodeT):
			v.Set(reflect.ValueOf(&ast.Identifier{Name: "leftover", Table: "other_query"}))
		case v.Type() == stmtT:
			v.Set(reflect.ValueOf(&ast.SelectStatement{TableName: "other_query", Distinct: true}))
		case v.Type().NumMethod() == 0:
			v.Set(reflect.ValueOf("dirty"))
		}
	}
}

func isZeroContent(v reflect.Value) bool {
	switch v.Kind() {
	case reflect.Slice, reflect.Map:
		return v.Len() == 0
	case reflect.Interface, reflect.Ptr:
		return v.IsNil()
	}
	return v.IsZero()
}

var sliceLen = 2

// cycle runs one Populate / Put / Get cycle twice: the node goes back by its own Put function, and by the generic
// release that walks a tree (PutExpression for expression nodes, ReleaseAST for statements) - the route ReleaseAST takes.
func cycle(e poolEntry, field, size string) {
	cycleVia(e, field, size, "typed")
	probe := e.Get()
	_, isExpr := probe.(ast.Expression)
	_, isStmt := probe.(ast.Statement)
	reflect.ValueOf(probe).Elem().Set(reflect.Zero(reflect.ValueOf(probe).Elem().Type()))
	e.Put(probe)
	if isExpr || isStmt {
		cycleVia(e, field, size, "generic")
	}
}

func cycleVia(e poolEntry, field, size, route string) {
	sliceLen = map[string]int{"few": 2, "many": 100, "huge": 1500}[size]
	defer func() { sliceLen = 2 }()
	// drain: make sure the pool hands us the node we put
	obj := e.Get()
	rv := reflect.ValueOf(obj).Elem()
	var targets []string
	for i := 0; i < rv.NumField(); i++ {
		f := rv.Type().Field(i)
		if !f.IsExported() {
			continue
		}
		if field == "*" || f.Name == field {
			populate(rv.Field(i), 0)
			if !isZeroContent(rv.Field(i)) {
				targets = append(targets, f.Name)
			}
		}
	}
	run.Eval(1)
	if len(targets) == 0 {
		// the populator has no content for this field type (e.g. an unexported interface): not judged
		e.Put(obj)
		return
	}
	run.Nontrivial(e.Type + "." + field + "." + size + "." + route)
	if route == "generic" {
		switch n := obj.(type) {
		case ast.Expression:
			ast.PutExpression(n)
		case ast.Statement:
			tree := ast.NewAST()
			tree.Statements = append(tree.Statements, n)
			ast.ReleaseAST(tree)
		}
	} else {
		e.Put(obj)
	}
	got := e.Get()
	same := got == obj
	gv := reflect.ValueOf(got).Elem()
	var dirty []string
	for i := 0; i < gv.NumField(); i++ {
		f := gv.Type().Field(i)
		if f.IsExported() && !isZeroContent(gv.Field(i)) {
			dirty = append(dirty, f.Name)
		}
	}
	if field != "*" && len(targets) > 0 && e.Type == "BinaryExpression" {
		run.Sample(map[string]any{"kind": "cycle", "type": e.Type, "field": field, "same_object_returned": same})
	}
	for _, d := range dirty {
		sig := "pooled-node-dirty|" + e.Type + "." + d
		if route == "generic" {
			sig += "|generic-release"
		}
		run.Violate(core.Violation{Sig: sig, Clause: "a node obtained from the pools is indistinguishable from a freshly constructed one",
			Case: map[string]any{"kind": "cycle", "type": e.Type, "populated": targets, "size": size, "released_through": route}, Observe: firstN(fmt.Sprintf("%v", gv.FieldByName(d).Interface()), 300)})
	}
	// hand back a clean node so that later cycles start from a clean pool
	gv.Set(reflect.Zero(gv.Type()))
	e.Put(got)
}

// ---------------------------------------------------------------------------
// histories

type hstep struct {
	Op   string `json:"op"`
	Slot string `json:"slot"`
	Kind string `json:"kind"`
}

var kindSQL = map[string][]string{
	"select": {"SELECT a, b FROM t JOIN u ON t.a = u.a WHERE a = 1 AND b IN (1, 2) GROUP BY a HAVING COUNT(*) > 1 ORDER BY a DESC LIMIT 5",
		"SELECT DISTINCT x.c, f(y) FROM x WHERE c BETWEEN 1 AND 2 OR c IS NULL",
		// sub-selects in every kind of position (one tree reaches a derived table through FROM and through the join's copy of its left side)
		"SELECT x.a, (SELECT MAX(b) FROM w) FROM t, (SELECT a FROM s WHERE a IN (SELECT b FROM w)) x JOIN u ON u.a = x.a",
		"SELECT a FROM (SELECT a FROM s) x JOIN (SELECT b FROM w) y ON x.a = y.b UNION SELECT c FROM (SELECT c FROM v) z"},
	"insert": {"INSERT INTO t (a, b) VALUES (1, 'x'), (2, 'y')", "UPDATE t SET a = 1, b = a + 2 WHERE c = 3"},
	"tuple": {"SELECT a FROM t WHERE (a, b) IN ((1, 2), (3, 4))", "SELECT ARRAY[1, 2, 3], (x, y) FROM t",
		"SELECT readings[bounds[1]:bounds[2]], grid[1][2], ARRAY[a[1], b[2:3]] FROM t WHERE ((a, b), c) IN (((1, 2), 3))",
		// parenthesised lists that are not tuples in the tree (grouping sets, ROLLUP, CUBE) next to row values that are
		"SELECT a, b, c FROM t GROUP BY GROUPING SETS ((a, b), (a, c), (a), ()), ROLLUP (b, c), CUBE (a, c)",
		"SELECT a FROM t WHERE (p, q) = (7, 8) AND (r, s, u) IN ((1, 2, 3))"},
}
var failSQL = map[string]string{"select": "SELECT a FROM t WHERE (a, b) IN ((1, 2), (3, ", "insert": "INSERT INTO t (a) VALUES (1, (2, 3", "tuple": "SELECT ARRAY[1, (2, 3), FROM"}

type countCtx struct {
	context.Context
	n, fireAt int
}

func (c *countCtx) Err() error {
	c.n++
	if c.n > c.fireAt {
		return context.Canceled
	}
	return nil
}
func (c *countCtx) Done() <-chan struct{} {
	if c.n >= c.fireAt {
		ch := make(chan struct{})
		close(ch)
		return ch
	}
	return nil
}

type holding struct {
	tree     *ast.AST
	toks     []models.TokenWithSpan
	scan     *security.ScanResult
	tables   []string
	snapshot string
}

func snap(h *holding) string {
	fs := []string{}
	for _, f := range h.scan.Findings {
		fs = append(fs, fmt.Sprint(f.Pattern, f.Severity, f.Description))
	}
	return project.String(h.tree.Statements) + "|" + fmt.Sprint(len(h.toks)) + tokDigest(h.toks) + "|" + strings.Join(fs, ";") + "|" + strings.Join(h.tables, ",")
}

func tokDigest(ts []models.TokenWithSpan) string {
	var b strings.Builder
	for _, t := range ts {
		fmt.Fprintf(&b, "%d%s@%d:%d-%d:%d", int(t.Token.Type), t.Token.Value, t.Start.Line, t.Start.Column, t.End.Line, t.End.Column)
	}
	return b.String()
}

// replayAll replays every n-th history starting with the k-th.
func replayAll(cases []string, k, n int) {
	for i := k; i < len(cases); i += n {
		var hist []hstep
		if err := json.Unmarshal([]byte(cases[i]), &hist); err != nil {
			core.Fatalf("bad history: %v", err)
		}
		replay(hist, i)
	}
}

func replay(hist []hstep, idx int) {
	slots := map[string]*holding{}
	drawn := map[uintptr]string{} // nodes the clients of this history drew from the pools and keep
	overlap := false
	fail := func(i int, sig, clause string, obs, exp any) {
		run.Violate(core.Violation{Sig: sig, Clause: clause, Case: map[string]any{"kind": "history", "history": hist[:i+1]}, Observe: obs, Expect: exp})
	}
	for i, s := range hist {
		run.Eval(1)
		switch s.Op {
		case "parse":
			sql := kindSQL[s.Kind][(idx+i)%len(kindSQL[s.Kind])]
			tree, err := gosqlx.Parse(sql)
			if err != nil {
				core.Fatalf("history statement does not parse: %q: %v", sql, err)
			}
			tk := tokenizer.GetTokenizer()
			toks, _ := tk.Tokenize([]byte(sql))
			tokenizer.PutTokenizer(tk)
			h := &holding{tree: tree, toks: toks, scan: security.NewScanner().Scan(tree), tables: gosqlx.ExtractTables(tree)}
			sort.Strings(h.tables)
			h.snapshot = snap(h)
			// a tree just parsed must be the tree of this statement alone (nothing left over from released nodes)
			ref, _ := gosqlx.Parse(sql)
			if project.String(ref.Statements) != project.String(tree.Statements) {
				fail(i, "parse-not-reproducible-after-release|"+s.Kind, "pooled nodes come back clean", project.String(tree.Statements), project.String(ref.Statements))
			}
			ast.ReleaseAST(ref)
			if len(slots) > 0 {
				overlap = true
			}
			slots[s.Slot] = h
		case "release":
			if len(slots) > 1 {
				overlap = true
			}
			ast.ReleaseAST(slots[s.Slot].tree)
			delete(slots, s.Slot)
		case "clientget":
			// a client draws nodes of every pooled type and writes into them
			if len(slots) > 0 {
				overlap = true
			}
			for _, e := range registry {
				// two of each type; the client keeps them (they are never put back), so no later draw may hand out
				// one of them again: a node put into its pool twice is handed to two holders (NoAliasing)
				for k := 0; k < 2; k++ {
					obj := e.Get()
					rv := reflect.ValueOf(obj).Elem()
					if rv.Type().Size() > 0 {
						ptr := reflect.ValueOf(obj).Pointer()
						if _, again := drawn[ptr]; again {
							fail(i, "pool-hands-out-a-held-node|"+rv.Type().Name(), "every node obtained from the node pools is indistinguishable from a freshly constructed one (and is nobody else's)", "the same "+rv.Type().Name()+" was handed out twice while the first holder keeps it", nil)
						}
						drawn[ptr] = rv.Type().Name()
					}
					for f := 0; f < rv.NumField(); f++ {
						if rv.Type().Field(f).IsExported() {
							populate(rv.Field(f), 1)
						}
					}
				}
			}
		case "parsecancel":
			// a context that reports cancellation from its n-th poll on; n rotates so that every poll point of the
			// statement is hit many times over the histories
			ctx := &countCtx{Context: context.Background(), fireAt: (idx + i*7) % 24}
			if tree, err := gosqlx.ParseWithContext(ctx, kindSQL[s.Kind][0]+"; "+kindSQL[s.Kind][1]); err == nil {
				ast.ReleaseAST(tree)
			}
		case "parsefail":
			if tree, err := gosqlx.Parse(failSQL[s.Kind]); err == nil {
				ast.ReleaseAST(tree)
			}
		case "use":
			// the caller hands what it holds back to the library, which may only read it
			if len(slots) > 1 {
				overlap = true
			}
			use(slots[s.Slot], s.Kind)
		}
		// what is still held must be unchanged
		for name, h := range slots {
			if now := snap(h); now != h.snapshot {
				after := s.Op
				if s.Op == "use" {
					after += ":" + s.Kind
				}
				fail(i, "held-value-modified|after-"+after, "values handed to the caller are never modified by later library activity", map[string]any{"slot": name, "now": firstN(now, 400)}, firstN(h.snapshot, 400))
				h.snapshot = now
			}
		}
	}
	if overlap {
		run.Nontrivial("h" + core.JSON(hist))
	}
	if len(hist) == 4 && idx%1500 == 3 {
		run.Sample(map[string]any{"kind": "history", "steps": hist})
	}
	for _, h := range slots {
		ast.ReleaseAST(h.tree)
	}
}

// use hands a held value back to the library.  Token windows: nine prefixes of the held token slice (short, a third, half, two thirds, all
// but the last one to three tokens) and two-token windows along it - none of them ends in the end marker, all
// have spare capacity behind them that belongs to the caller.
func use(h *holding, kind string) {
	windows := func(f func(w []models.TokenWithSpan)) {
		n := len(h.toks)
		for _, k := range []int{1, 2, 3, n / 3, n / 2, 2 * n / 3, n - 3, n - 2, n - 1} {
			if k >= 1 && k < n {
				f(h.toks[:k])
			}
		}
		for i := 1; i+2 < n; i += 7 {
			f(h.toks[i : i+2])
		}
	}
	switch kind {
	case "parse-tokens":
		p := parser.NewParser()
		if tree, err := p.ParseFromModelTokens(h.toks); err == nil {
			ast.ReleaseAST(tree)
		}
		if tree, err := p.ParseFromModelTokensWithPositions(h.toks); err == nil {
			ast.ReleaseAST(tree)
		}
		p.Release()
	case "parse-window":
		p := parser.NewParser()
		windows(func(w []models.TokenWithSpan) {
			if tree, err := p.ParseFromModelTokens(w); err == nil {
				ast.ReleaseAST(tree)
			}
			if tree, err := p.ParseFromModelTokensWithPositions(w); err == nil {
				ast.ReleaseAST(tree)
			}
		})
		p.Release()
	case "recover-window":
		p := parser.NewParser()
		windows(func(w []models.TokenWithSpan) { p.ParseWithRecoveryFromModelTokens(w) })
		p.Release()
	case "context-window":
		p := parser.NewParser()
		windows(func(w []models.TokenWithSpan) {
			if tree, err := p.ParseContextFromModelTokens(context.Background(), w); err == nil {
				ast.ReleaseAST(tree)
			}
		})
		p.Release()
	case "scan":
		security.NewScanner().Scan(h.tree)
		sc, _ := security.NewScannerWithSeverity(security.SeverityHigh)
		sc.Scan(h.tree)
	case "serialise":
		_ = h.tree.SQL()
		for _, st := range h.tree.Statements {
			if s, ok := st.(interface{ SQL() string }); ok {
				_ = s.SQL()
			}
		}
	case "format":
		_ = h.tree.Format(ast.CompactStyle())
		_ = h.tree.Format(ast.ReadableStyle())
	case "extract":
		gosqlx.ExtractMetadata(h.tree)
		gosqlx.ExtractTablesQualified(h.tree)
		gosqlx.ExtractColumnsQualified(h.tree)
	case "walk":
		ast.Inspect(h.tree, func(ast.Node) bool { return true })
		for _, st := range h.tree.Statements {
			ast.Inspect(st, func(n ast.Node) bool { return n == nil || len(n.Children()) < 3 })
		}
	default:
		core.Fatalf("unknown use kind %q", kind)
	}
}

// sizeSweep instantiates the history [tokenize x, hold the tokens; tokenize y on the same instance] with an x of EVERY
// token count from 5 to N: whether a returned slice shares storage with something the tokenizer keeps depends on how
// the count relates to buffer capacities, which no fixed statement can cover. Both ways of reusing the instance
// (directly; through the pool, pinned to one thread) and both entry points are used, with a shorter and a longer y.
func sizeSweep(tier string) {
	n := 900
	if tier == "thorough" {
		n = 3400
	}
	var cols []string
	others := []string{"DELETE FROM audit_log WHERE id = 1", "UPDATE audit_log SET seen = 1, " + strings.Repeat("k = k + 1, ", 60) + "z = 0 WHERE id IN (1, 2, 3)"}
	checked := 0
	for k := 1; 2*k+4 <= n; k++ {
		cols = append(cols, fmt.Sprintf("c%d", k))
		for _, tail := range []string{" FROM t", " FROM t x"} { // 2k+3 and 2k+4 tokens with the end marker
			sql := "SELECT " + strings.Join(cols, ", ") + tail
			for mode := 0; mode < 4; mode++ {
				var held []models.TokenWithSpan
				var err error
				direct := tokenizer.GetTokenizer()
				switch mode {
				case 0: // pooled, Tokenize
					held, err = direct.Tokenize([]byte(sql))
					tokenizer.PutTokenizer(direct)
				case 1: // pooled, TokenizeContext
					held, err = direct.TokenizeContext(context.Background(), []byte(sql))
					tokenizer.PutTokenizer(direct)
				case 2, 3: // the caller keeps using its own instance
					held, err = direct.Tokenize([]byte(sql))
				}
				if err != nil {
					core.Fatalf("size sweep statement does not tokenize: %v", err)
				}
				before := tokDigest(held)
				for _, o := range others {
					t2 := direct
					if mode < 2 {
						t2 = tokenizer.GetTokenizer()
					}
					if mode == 3 {
						_, _ = t2.TokenizeContext(context.Background(), []byte(o))
					} else {
						_, _ = t2.Tokenize([]byte(o))
					}
					if mode < 2 {
						tokenizer.PutTokenizer(t2)
					}
				}
				if mode >= 2 {
					tokenizer.PutTokenizer(direct)
				}
				run.Eval(1)
				checked++
				if after := tokDigest(held); after != before {
					run.Violate(core.Violation{Sig: "held-value-modified|tokens|after-tokenize", Clause: "values handed to the caller are never modified by later library activity",
						Case:    map[string]any{"kind": "size-sweep", "token_count": len(held), "reuse": []string{"pool", "pool+context", "direct", "direct+context"}[mode], "sql_prefix": firstN(sql, 80)},
						Observe: firstN(after, 300), Expect: firstN(before, 300)})
				}
			}
		}
	}
	run.Nontrivial(fmt.Sprintf("size-sweep-%d", n))
	run.Extra["size_sweep_token_counts"] = fmt.Sprintf("5..%d, %d holdings", n, checked)
}

// concurrent holds one result of every kind while other goroutines parse, release and draw from the pools; the
// holder's snapshots must not move ("on any goroutine").
func concurrent(tier string) {
	runtime.GOMAXPROCS(8)
	defer runtime.GOMAXPROCS(1)
	rounds := 40
	if tier == "thorough" {
		rounds = 400
	}
	var held []*holding
	for _, k := range []string{"select", "insert", "tuple"} {
		for _, sql := range kindSQL[k] {
			tree, err := gosqlx.Parse(sql)
			if err != nil {
				core.Fatalf("%v", err)
			}
			tk := tokenizer.GetTokenizer()
			toks, _ := tk.Tokenize([]byte(sql))
			tokenizer.PutTokenizer(tk)
			h := &holding{tree: tree, toks: toks, scan: security.NewScanner().Scan(tree), tables: gosqlx.ExtractTables(tree)}
			sort.Strings(h.tables)
			h.snapshot = snap(h)
			held = append(held, h)
		}
	}
	var wg sync.WaitGroup
	for g := 0; g < 8; g++ {
		wg.Add(1)
		go func(g int) {
			defer wg.Done()
			for r := 0; r < rounds; r++ {
				for _, k := range []string{"select", "insert", "tuple"} {
					for _, sql := range kindSQL[k] {
						if t, err := gosqlx.Parse(sql); err == nil {
							ast.ReleaseAST(t)
						}
					}
					if t, err := gosqlx.Parse(failSQL[k]); err == nil {
						ast.ReleaseAST(t)
					}
				}
				e := registry[(g+r)%len(registry)]
				obj := e.Get()
				rv := reflect.ValueOf(obj).Elem()
				for f := 0; f < rv.NumField(); f++ {
					if rv.Type().Field(f).IsExported() {
						populate(rv.Field(f), 1)
					}
				}
				e.Put(obj)
			}
		}(g)
	}
	wg.Wait()
	run.Eval(int64(8 * rounds))
	for i, h := range held {
		if now := snap(h); now != h.snapshot {
			run.Violate(core.Violation{Sig: "held-value-modified|concurrent", Clause: "values handed to the caller are never modified by later library activity on any goroutine",
				Case: map[string]any{"kind": "concurrent", "held": i}, Observe: firstN(now, 400), Expect: firstN(h.snapshot, 400)})
		}
		ast.ReleaseAST(h.tree)
	}
	run.Nontrivial("concurrent")
}

func firstN(s string, n int) string {
	if len(s) > n {
		return s[:n]
	}
	return s
}
