#!/bin/sh
# usage: gen.sh <repo> <verif dir> [modflag]
set -e
REPO="$1"; V="$2"
go run ./cmd/c09gen "$REPO" "$V/harness/cmd/c09/registry_gen.go" "$V/spec/gen/PoolSchema.tla"
