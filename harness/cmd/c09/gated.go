package main

// Sharing.tla's pattern on the tree container: a release preempted at the moment its container becomes available to
// other goroutines (the pool event "ast.put") while another goroutine takes that very container from the pool, builds
// a tree on it the way the NewAST documentation prescribes (append to its Statements) and keeps it.  Whatever the
// release still does after that moment must not reach the container: the held tree stands for the same statements
// before and after the release has finished.

import (
	"fmt"
	"runtime"
	"strings"
	"time"

	"github.com/ajitpratap0/GoSQLX/pkg/gosqlx"
	"github.com/ajitpratap0/GoSQLX/pkg/sql/ast"

	"verif/internal/core"
	"verif/internal/project"
)

func gatedRelease() {
	var releaser int64
	parked := make(chan string, 1)
	resume := make(chan struct{})
	ast.VerifPoolGate = func(point string) {
		if releaser == 0 || goidOf() != releaser || point != "ast.put" {
			return
		}
		parked <- point
		<-resume
	}
	defer func() { ast.VerifPoolGate = nil }()
	old := runtime.GOMAXPROCS(1)
	defer runtime.GOMAXPROCS(old)
	script := func(n int, col string) string {
		var parts []string
		for i := 0; i < n; i++ {
			parts = append(parts, fmt.Sprintf("SELECT %s%d FROM t%d WHERE k = %d", col, i, i, i))
		}
		return strings.Join(parts, "; ")
	}
	hits := 0
	for _, na := range []int{1, 4, 24, 200} {
		for _, nb := range []int{1, 3, 16} {
			victim, err := gosqlx.Parse(script(na, "a"))
			if err != nil {
				core.Fatalf("%v", err)
			}
			done := make(chan struct{})
			go func() {
				releaser = goidOf()
				ast.ReleaseAST(victim)
				releaser = 0
				close(done)
			}()
			var held *ast.AST
			var before []string
			sameContainer := false
			select {
			case <-parked:
				held = ast.NewAST() // first: the container the release just put
				sameContainer = held == victim
				src, err := gosqlx.Parse(script(nb, "b"))
				if err != nil {
					core.Fatalf("%v", err)
				}
				held.Statements = append(held.Statements, src.Statements...)
				src.Statements = nil
				ast.ReleaseAST(src)
				for _, s := range held.Statements {
					before = append(before, project.String(s))
				}
				resume <- struct{}{}
			case <-time.After(20 * time.Second):
				core.Fatalf("the release never reached the pool event ast.put: the gate no longer binds")
			}
			<-done
			run.Eval(1)
			if sameContainer {
				hits++
				run.Nontrivial(fmt.Sprintf("gated-release %d/%d", na, nb))
			}
			cse := map[string]any{"kind": "gated-release", "released_tree_statements": na, "held_tree_statements": nb, "schedule": []string{"A: ReleaseAST(tree) up to pool event ast.put", "B: NewAST(), append statements, keep", "A: rest of ReleaseAST"}}
			for i, s := range held.Statements {
				now := "<nil>"
				if s != nil {
					now = project.String(s)
				}
				if i >= len(before) || now != before[i] {
					run.Violate(core.Violation{Sig: "live-tree-changed|by-release-of-another|after-container-put", Clause: "releasing one tree never changes another live tree; trees handed to the caller are never modified by later library activity on any goroutine",
						Case: cse, Observe: map[string]any{"statement": i, "now": firstN(now, 200)}, Expect: firstN(before[i], 200)})
					break
				}
			}
			if len(held.Statements) != nb {
				run.Violate(core.Violation{Sig: "live-tree-changed|by-release-of-another|length", Clause: "releasing one tree never changes another live tree", Case: cse, Observe: len(held.Statements), Expect: nb})
			}
			ast.ReleaseAST(held)
		}
	}
	run.Extra["gated_release_same_container"] = hits
	if hits < 6 {
		core.Fatalf("the second goroutine drew the released container in only %d of 12 schedules", hits)
	}
}

func goidOf() int64 {
	var buf [64]byte
	n := runtime.Stack(buf[:], false)
	f := strings.Fields(string(buf[:n]))
	if len(f) < 2 {
		return -1
	}
	var id int64
	fmt.Sscan(f[1], &id)
	return id
}
