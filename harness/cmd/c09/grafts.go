package main

// Grafts.tla on real trees: rules of pkg/transform that are built from SQL text parse it and graft the parsed nodes into
// the tree they are applied to.  Every history of the model (parse / apply / release over two trees and one rule value
// of each kind) is replayed; after every step every live tree must stand for the text the model says it stands for
// (Intact: releasing the other tree changed nothing) and two live trees share no node (Disjoint).

import (
	"encoding/json"
	"fmt"
	"reflect"
	"strings"
	"time"

	"github.com/ajitpratap0/GoSQLX/pkg/gosqlx"
	"github.com/ajitpratap0/GoSQLX/pkg/sql/ast"
	"github.com/ajitpratap0/GoSQLX/pkg/transform"

	"verif/internal/core"
)

type graftHist struct {
	Hist [][]any `json:"hist"`
}

var graftBase = map[int]string{1: "SELECT a FROM t1 WHERE b = 1", 2: "SELECT c, d FROM t2"}

const (
	graftCond = "tenant_id = 42"
	graftJoin = "LEFT JOIN o ON o.k = 7"
)

// graftText renders what the model says a tree stands for: its base statement with the grafts in the order received.
func graftText(t int, grafts []string) string {
	sel, from, where := "SELECT a", "FROM t1", []string{"b = 1"}
	if t == 2 {
		sel, from, where = "SELECT c, d", "FROM t2", nil
	}
	var joins []string
	for _, g := range grafts {
		if g == "where-from-sql" {
			where = append(where, graftCond)
		} else {
			joins = append(joins, graftJoin)
		}
	}
	s := sel + " " + from
	if len(joins) > 0 {
		s += " " + strings.Join(joins, " ")
	}
	if len(where) > 0 {
		s += " WHERE " + strings.Join(where, " AND ")
	}
	return s
}

func nodePointers(n ast.Node) map[uintptr]string {
	out := map[uintptr]string{}
	ast.Inspect(n, func(x ast.Node) bool {
		if x == nil {
			return false
		}
		v := reflect.ValueOf(x)
		if v.Kind() == reflect.Ptr && !v.IsNil() && v.Elem().Type().Size() > 0 {
			out[v.Pointer()] = v.Elem().Type().Name()
		}
		return true
	})
	return out
}

func grafts(tier string) {
	r := core.MustTLC(core.TLCOpts{Spec: "Grafts", Cfg: "Grafts_fresh.cfg", Timeout: 5 * time.Minute})
	run.AddTLC(r.Stat("rules that graft parsed text, two trees, release: Disjoint, Intact; every history of 6 steps"))
	pin, err := core.RunTLC(core.TLCOpts{Spec: "Grafts", Cfg: "Grafts_cached.cfg", Timeout: 5 * time.Minute})
	if err != nil || pin.Violation != "Disjoint" {
		core.Fatalf("Grafts_cached.cfg must violate Disjoint (got %q, %v)", pin.Violation, err)
	}
	ps := pin.Stat("cached-graft shape (the rule parses its text once and grafts the same nodes into every tree): two live trees share nodes")
	ps.ExpectViol = "Disjoint"
	run.AddTLC(ps)
	if len(r.Cases) < 500 {
		core.Fatalf("only %d histories", len(r.Cases))
	}
	for hi, line := range r.Cases {
		var h graftHist
		if err := json.Unmarshal([]byte(line), &h); err != nil {
			core.Fatalf("bad history: %v", err)
		}
		rules := map[string]transform.Rule{"where-from-sql": transform.AddWhereFromSQL(graftCond), "join-from-sql": transform.AddJoinFromSQL(graftJoin)}
		trees := map[int]*ast.AST{}
		got := map[int][]string{}
		var trail []string
		for si, st := range h.Hist {
			act, _ := st[0].(string)
			tf, _ := st[1].(float64)
			t := int(tf)
			rn, _ := st[2].(string)
			switch act {
			case "parse":
				tree, err := gosqlx.Parse(graftBase[t])
				if err != nil {
					core.Fatalf("base statement rejected: %v", err)
				}
				trees[t], got[t] = tree, nil
			case "apply":
				if err := rules[rn].Apply(trees[t].Statements[0]); err != nil {
					core.Fatalf("rule %s failed: %v", rn, err)
				}
				got[t] = append(got[t], rn)
			case "release":
				ast.ReleaseAST(trees[t])
				delete(trees, t)
			case "report":
				continue
			}
			trail = append(trail, fmt.Sprintf("%s(%d%s)", act, t, map[bool]string{true: "," + rn, false: ""}[rn != ""]))
			run.Eval(1)
			if len(trees) == 2 || act == "release" && len(trees) == 1 {
				run.Nontrivial(fmt.Sprintf("graft %d/%d", hi, si))
			}
			cse := map[string]any{"kind": "grafts", "history": trail, "where_rule_text": graftCond, "join_rule_text": graftJoin}
			for lt, tree := range trees {
				want := graftText(lt, got[lt])
				wtree, err := gosqlx.Parse(want)
				if err != nil {
					core.Fatalf("model text rejected: %q: %v", want, err)
				}
				a, b := transform.FormatSQL(tree.Statements[0]), transform.FormatSQL(wtree.Statements[0])
				ast.ReleaseAST(wtree)
				if a != b {
					after := act
					if act == "apply" {
						after = "apply:" + rn
					}
					run.Violate(core.Violation{Sig: "live-tree-changed|rewrite-rules|after-" + after, Clause: "releasing one tree never changes another live tree; trees handed to the caller are never modified by later library activity",
						Case: cse, Observe: map[string]any{"tree": lt, "stands_for": a}, Expect: b})
				}
			}
			if len(trees) == 2 {
				p1, p2 := nodePointers(trees[1]), nodePointers(trees[2])
				for p, ty := range p1 {
					if _, ok := p2[p]; ok {
						run.Violate(core.Violation{Sig: "live-trees-share-a-node|rewrite-rules|" + ty, Clause: "releasing one tree never changes another live tree (two live trees share no node)",
							Case: cse, Observe: "a " + ty + " node is part of both trees"})
						break
					}
				}
			}
		}
		for _, tree := range trees {
			ast.ReleaseAST(tree)
		}
	}
	run.Traces(int64(len(r.Cases)))
}
