// C16 — injection findings are context-closed, layout-invariant and self-consistent.
//
//	M  Injection.tla: a payload pushed outwards through expression steps, a placement and nesting steps; the
//	   closed scanner reports it at every position (ContextClosed, Threshold, CountsMatch); the pinned scanner
//	   (top-level WHERE/HAVING, binary/unary/call nodes only) violates ContextClosed.
//	R  every case is rendered (four layouts, payload function names in both letter cases), parsed and scanned by
//	   the real security.Scanner.Scan with each of the four minimum severities: the set of (class, severity)
//	   pairs must equal the scan of the same payload as a top-level WHERE condition and contain the documented
//	   class and severity; each threshold must remove exactly the findings below it; counts must equal the listed
//	   findings; the tree must be unchanged and a second scan (same scanner, fresh scanner) must agree.
//	   ScanSQL (raw text) is checked for the threshold, count and repeatability laws.
package main

import (
	"encoding/json"
	"fmt"
	"os"
	"sort"
	"strings"
	"sync"
	"time"

	"github.com/ajitpratap0/GoSQLX/pkg/gosqlx"
	"github.com/ajitpratap0/GoSQLX/pkg/sql/ast"
	"github.com/ajitpratap0/GoSQLX/pkg/sql/security"

	"verif/internal/core"
	"verif/internal/gram"
	"verif/internal/project"
)

type icase struct {
	Payload string   `json:"payload"`
	Exprs   []string `json:"exprs"`
	Place   string   `json:"place"`
	Nests   []string `json:"nests"`
	Class   string   `json:"class"`
	Sev     string   `json:"sev"`
}

var run *core.Run

func payloadToks(p string, lower bool) []string {
	fn := func(n string) string {
		if lower {
			return strings.ToLower(n)
		}
		return n
	}
	switch p {
	case "taut-num":
		return []string{"1", "=", "1"}
	case "taut-str":
		return []string{"'a'", "=", "'a'"}
	case "taut-ident":
		return []string{"k", "=", "k"}
	case "taut-empty-str":
		return []string{"''", "=", "''"}
	case "taut-zero":
		return []string{"0", "=", "0"}
	case "sleep":
		return []string{fn("SLEEP"), "(", "5", ")", "=", "0"}
	case "pg_sleep":
		return []string{fn("PG_SLEEP"), "(", "5", ")", "=", "0"}
	case "benchmark":
		return []string{fn("BENCHMARK"), "(", "1000000", ",", "1", ")", "=", "0"}
	case "load_file":
		return []string{fn("LOAD_FILE"), "(", "'/etc/passwd'", ")", "=", "'x'"}
	case "xp_cmdshell":
		return []string{fn("XP_CMDSHELL"), "(", "'dir'", ")", "=", "0"}
	}
	core.Fatalf("unknown payload %s", p)
	return nil
}

func cat(parts ...[]string) []string {
	var out []string
	for _, p := range parts {
		out = append(out, p...)
	}
	return out
}
func w(s string) []string { return strings.Fields(s) }

func valueOf(c []string) []string { return cat(w("CASE WHEN"), c, w("THEN 1 ELSE 0 END")) }

func exprStep(step string, c []string) []string {
	switch step {
	case "and-left":
		return cat(w("("), c, w("AND b = 2 )"))
	case "and-right":
		return cat(w("( b = 2 AND"), c, w(")"))
	case "or-left":
		return cat(w("("), c, w("OR b = 2 )"))
	case "or-right":
		return cat(w("( b = 2 OR"), c, w(")"))
	case "not":
		return cat(w("NOT ("), c, w(")"))
	case "paren":
		return cat(w("( ("), c, w(") )"))
	case "case-when":
		return cat(valueOf(c), w("= 1"))
	case "in-list":
		return cat(w("b IN ( 1 ,"), valueOf(c), w(")"))
	case "between":
		return cat(w("b BETWEEN"), valueOf(c), w("AND 9"))
	case "func-arg":
		return cat(w("ABS ("), valueOf(c), w(") = 1"))
	case "cast":
		return cat(w("CAST ("), valueOf(c), w("AS INT ) = 1"))
	case "arith":
		return cat(valueOf(c), w("+ 1 = 2"))
	case "case-first-when":
		return cat(w("CASE WHEN"), c, w("THEN 1 WHEN b = 2 THEN 2 ELSE 0 END = 1"))
	case "func-first-arg":
		return cat(w("COALESCE ("), valueOf(c), w(", 1 , 2 ) = 1"))
	case "in-list-first":
		return cat(w("b IN ("), valueOf(c), w(", 1 , 2 )"))
	case "long-chain-leftmost":
		out := cat(w("("), c)
		for i := 0; i < 300; i++ {
			out = append(out, "AND", "b", "<>", fmt.Sprint(i))
		}
		return append(out, ")")
	case "after-long-chain":
		out := w("( ( b = 0")
		for i := 1; i < 300; i++ {
			out = append(out, "OR", "b", "=", fmt.Sprint(i))
		}
		return cat(out, w(") AND"), c, w(")"))
	}
	core.Fatalf("unknown expression step %s", step)
	return nil
}

func placeIn(pl string, c []string) []string {
	switch pl {
	case "where":
		return cat(w("SELECT a FROM t WHERE"), c)
	case "having":
		return cat(w("SELECT a FROM t GROUP BY a HAVING"), c)
	case "join-on":
		return cat(w("SELECT a FROM t JOIN u ON"), c)
	case "update-where":
		return cat(w("UPDATE t SET a = 1 WHERE"), c)
	case "delete-where":
		return cat(w("DELETE FROM t WHERE"), c)
	case "select-item":
		return cat(w("SELECT"), valueOf(c), w("FROM t"))
	case "order-by":
		return cat(w("SELECT a FROM t ORDER BY"), valueOf(c))
	case "group-by":
		return cat(w("SELECT a FROM t GROUP BY"), valueOf(c))
	case "insert-value":
		return cat(w("INSERT INTO t ( a ) VALUES ("), valueOf(c), w(")"))
	case "update-set":
		return cat(w("UPDATE t SET a ="), valueOf(c))
	case "join-on-first":
		return cat(w("SELECT t . a FROM t JOIN u ON"), c, w("JOIN v ON t . a = v . a"))
	case "join-on-middle":
		return cat(w("SELECT t . a FROM t JOIN u ON t . a = u . a LEFT JOIN v ON"), c, w("JOIN z ON t . a = z . a"))
	case "select-first-item":
		return cat(w("SELECT"), valueOf(c), w(", a , b FROM t"))
	case "order-by-first":
		return cat(w("SELECT a FROM t ORDER BY"), valueOf(c), w(", a DESC"))
	case "group-by-first":
		return cat(w("SELECT a FROM t GROUP BY"), valueOf(c), w(", a"))
	case "insert-first-row":
		return cat(w("INSERT INTO t ( a ) VALUES ("), valueOf(c), w(") , ( 2 ) , ( 3 )"))
	case "update-first-set":
		return cat(w("UPDATE t SET a ="), valueOf(c), w(", b = 2 , c = 3"))
	}
	core.Fatalf("unknown placement %s", pl)
	return nil
}

func nestStep(step string, q []string) []string {
	switch step {
	case "in-subquery":
		return cat(w("SELECT a FROM t WHERE a IN ("), q, w(")"))
	case "exists":
		return cat(w("SELECT a FROM t WHERE EXISTS ("), q, w(")"))
	case "scalar":
		return cat(w("SELECT ("), q, w(") FROM t"))
	case "derived":
		return cat(w("SELECT * FROM ("), q, w(") x"))
	case "join-derived":
		return cat(w("SELECT t . a FROM t JOIN ("), q, w(") x ON t . a = x . a"))
	case "cte":
		return cat(w("WITH c AS ("), q, w(") SELECT a FROM c"))
	case "insert-select":
		return cat(w("INSERT INTO t ( a )"), q)
	case "union-right":
		return cat(w("SELECT a FROM t UNION"), q)
	case "union-left":
		return cat(q, w("UNION SELECT a FROM t"))
	}
	core.Fatalf("unknown nesting step %s", step)
	return nil
}

func stmtPayload(p string, lower bool) []string {
	switch p {
	case "union-null":
		return w("SELECT a , b FROM t UNION SELECT NULL , NULL")
	case "union-null-system":
		if lower {
			return w("SELECT a , b FROM t UNION SELECT NULL , NULL FROM pg_catalog . pg_class")
		}
		return w("SELECT a , b FROM t UNION SELECT NULL , NULL FROM PG_CATALOG . PG_CLASS")
	case "union-system":
		if lower {
			return w("SELECT a FROM t UNION SELECT relname FROM pg_catalog . pg_class")
		}
		return w("SELECT a FROM t UNION SELECT relname FROM PG_CATALOG . PG_CLASS")
	}
	return nil
}

func render(c *icase, lower bool) []string {
	if st := stmtPayload(c.Payload, lower); st != nil {
		for _, n := range c.Nests {
			st = nestStep(n, st)
		}
		return st
	}
	cond := payloadToks(c.Payload, lower)
	for _, e := range c.Exprs {
		cond = exprStep(e, cond)
	}
	st := placeIn(c.Place, cond)
	for _, n := range c.Nests {
		st = nestStep(n, st)
	}
	return st
}

func pairsOf(r *security.ScanResult) []string {
	var out []string
	for _, f := range r.Findings {
		out = append(out, string(f.Pattern)+"/"+string(f.Severity))
	}
	sort.Strings(out)
	return out
}

func uniq(xs []string) []string {
	var out []string
	for i, x := range xs {
		if i == 0 || xs[i-1] != x {
			out = append(out, x)
		}
	}
	return out
}

var sevRank = map[string]int{"LOW": 1, "MEDIUM": 2, "HIGH": 3, "CRITICAL": 4}
var thresholds = []security.Severity{security.SeverityLow, security.SeverityMedium, security.SeverityHigh, security.SeverityCritical}

// laws checks threshold filtering, counts and repeatability of one scan function on one input.
func laws(api string, cse map[string]any, scan func(s *security.Scanner) *security.ScanResult) []string {
	all := scan(security.NewScanner())
	base := pairsOf(all)
	for _, th := range thresholds {
		s, err := security.NewScannerWithSeverity(th)
		if err != nil {
			core.Fatalf("%v", err)
		}
		r := scan(s)
		run.Eval(1)
		got := pairsOf(r)
		var want []string
		for _, p := range base {
			if sevRank[p[strings.LastIndex(p, "/")+1:]] >= sevRank[string(th)] {
				want = append(want, p)
			}
		}
		if strings.Join(got, ",") != strings.Join(want, ",") {
			run.Violate(core.Violation{Sig: "threshold-filter|" + api + "|" + string(th), Clause: "raising the minimum severity removes exactly the findings below it", Case: cse, Observe: got, Expect: want})
		}
		cnt := map[string]int{}
		for _, f := range r.Findings {
			cnt[string(f.Severity)]++
		}
		if r.TotalCount != len(r.Findings) || r.CriticalCount != cnt["CRITICAL"] || r.HighCount != cnt["HIGH"] || r.MediumCount != cnt["MEDIUM"] || r.LowCount != cnt["LOW"] {
			run.Violate(core.Violation{Sig: "counts-differ|" + api, Clause: "the total and per-severity counts always equal the findings listed", Case: cse,
				Observe: fmt.Sprintf("total=%d critical=%d high=%d medium=%d low=%d", r.TotalCount, r.CriticalCount, r.HighCount, r.MediumCount, r.LowCount), Expect: cnt})
		}
		// the same scanner again
		if again := pairsOf(scan(s)); strings.Join(again, ",") != strings.Join(got, ",") {
			run.Violate(core.Violation{Sig: "scan-not-repeatable|" + api, Clause: "scanning does not depend on previous scans", Case: cse, Observe: again, Expect: got})
		}
	}
	return base
}

func main() {
	tier := os.Getenv("VERIF_TIER")
	if tier == "" {
		tier = "quick"
	}
	run = core.NewRun("C16", tier, "model_checking")
	run.Rule = "every case of Injection.tla (8 condition payloads x <= 1 expression step (15 kinds) x 17 placements, 2 UNION probing statements, x <= 1 nesting step; thorough: <= 2 expression steps or <= 2 nesting steps) x 2 layouts (4 in the thorough tier) x both letter cases of payload function names x 4 minimum severities; non-trivial = a case with at least one expression or nesting step"
	run.Assumptions = []string{
		"findings are compared as sets of (class, severity) pairs: a context such as OR may add a second finding of the same class",
		"the reference for a payload is the real scan of 'SELECT a FROM t WHERE <payload>', which must contain the documented class and severity",
		"position closure is asserted for the tree scan (Scanner.Scan); the raw-text scan (ScanSQL) is checked for the threshold, count and repeatability laws only, because comments and layout legitimately change what its text patterns see",
	}
	cfgs := []string{"Injection_q.cfg"}
	if tier == "thorough" {
		cfgs = []string{"Injection_t1.cfg", "Injection_t2.cfg"}
	}
	pin, err := core.RunTLC(core.TLCOpts{Spec: "Injection", Cfg: "Injection_pinned.cfg", Timeout: 5 * time.Minute})
	if err != nil || pin.Violation != "ContextClosed" {
		core.Fatalf("Injection_pinned.cfg must violate ContextClosed (got %q, %v)", pin.Violation, err)
	}
	ps := pin.Stat("pinned scanner (top-level WHERE/HAVING, binary/unary/call nodes only): a position where the payload is missed")
	ps.ExpectViol = "ContextClosed"
	run.AddTLC(ps)
	early, err := core.RunTLC(core.TLCOpts{Spec: "Injection", Cfg: "Injection_early.cfg", Timeout: 5 * time.Minute})
	if err != nil || early.Violation != "ContextClosed" {
		core.Fatalf("Injection_early.cfg must violate ContextClosed (got %q, %v)", early.Violation, err)
	}
	es := early.Stat("a detector that returns at the first finding the threshold filters out: the graver finding of the same payload is lost")
	es.ExpectViol = "ContextClosed"
	run.AddTLC(es)
	// references
	ref := map[string][]string{}
	for _, p := range []string{"taut-num", "taut-str", "taut-ident", "taut-empty-str", "taut-zero", "sleep", "pg_sleep", "benchmark", "load_file", "xp_cmdshell", "union-null", "union-system", "union-null-system"} {
		for _, lower := range []bool{false, true} {
			var text string
			if st := stmtPayload(p, lower); st != nil {
				text = strings.Join(st, " ")
			} else {
				text = strings.Join(cat(w("SELECT a FROM t WHERE"), payloadToks(p, lower)), " ")
			}
			tree, err := gosqlx.Parse(text)
			if err != nil {
				core.Fatalf("reference statement does not parse: %s: %v", text, err)
			}
			key := fmt.Sprint(p, lower)
			ref[key] = uniq(pairsOf(security.NewScanner().Scan(tree)))
			ast.ReleaseAST(tree)
		}
	}
	seen := map[string]bool{}
	var cases []icase
	for _, cfg := range cfgs {
		r := core.MustTLC(core.TLCOpts{Spec: "Injection", Cfg: cfg, Timeout: 30 * time.Minute})
		run.AddTLC(r.Stat("payload x expression steps x placement x nesting steps x threshold: ContextClosed, Threshold, CountsMatch"))
		for _, line := range r.Cases {
			if seen[line] {
				continue
			}
			seen[line] = true
			var c icase
			if err := json.Unmarshal([]byte(line), &c); err != nil {
				core.Fatalf("bad case %q", line)
			}
			cases = append(cases, c)
		}
	}
	run.Traces(int64(len(cases)))
	var mu sync.Mutex
	rejected := map[string]int{}
	var wg sync.WaitGroup
	work := make(chan int, 1024)
	for wk := 0; wk < 16; wk++ {
		wg.Add(1)
		go func() {
			defer wg.Done()
			for ci := range work {
				c := &cases[ci]
				layouts := []int{ci % 2 * 2, 1 + ci%2*2} // quick: two of the four layouts by rotation
				if tier == "thorough" {
					layouts = []int{0, 1, 2, 3}
				}
				for li, layout := range layouts {
					lower := (ci+li)%2 == 1
					toks := render(c, lower)
					text := gram.Layouts(toks, layout)
					tree, err := gosqlx.Parse(text)
					run.Eval(1)
					if err != nil {
						mu.Lock()
						rejected[c.Place+"/"+strings.Join(c.Exprs, ">")+"/"+strings.Join(c.Nests, ">")]++
						mu.Unlock()
						continue
					}
					if len(c.Exprs)+len(c.Nests) > 0 {
						run.Nontrivial(text)
					}
					cse := map[string]any{"kind": "injection", "payload": c.Payload, "exprs": c.Exprs, "place": c.Place, "nests": c.Nests, "sql": text}
					before := project.String(tree.Statements)
					base := uniq(laws("Scan", cse, func(s *security.Scanner) *security.ScanResult { return s.Scan(tree) }))
					if after := project.String(tree.Statements); after != before {
						run.Violate(core.Violation{Sig: "scan-modifies-tree", Clause: "scanning does not modify the tree", Case: cse})
					}
					want := ref[fmt.Sprint(c.Payload, lower)]
					doc := c.Class + "/" + c.Sev
					hasDoc := false
					for _, x := range want {
						if x == doc {
							hasDoc = true
						}
					}
					if !hasDoc {
						run.Violate(core.Violation{Sig: "reference-lacks-documented-finding|" + c.Payload, Clause: "each documented payload is reported with its documented class and severity when it is the WHERE condition of a top-level statement",
							Case: map[string]any{"payload": c.Payload, "lower": lower}, Observe: want, Expect: doc})
					}
					if strings.Join(base, ",") != strings.Join(want, ",") {
						where := c.Place
						if len(c.Exprs) > 0 {
							where += "|in:" + c.Exprs[len(c.Exprs)-1]
						}
						if len(c.Nests) > 0 {
							where += "|under:" + strings.Join(c.Nests, ">")
						}
						kind := "missed"
						if len(base) > len(want) {
							kind = "extra"
						}
						run.Violate(core.Violation{Sig: "finding-" + kind + "|" + c.Class + "|" + where, Clause: "the payload is reported equally wherever it occurs as a condition or call in that or any nested statement",
							Case: cse, Observe: base, Expect: want})
					}
					single := pairsOf(security.NewScanner().Scan(tree))
					ast.ReleaseAST(tree)
					// Scripts (Injection.tla, ScriptLaw): the findings of a script are the findings of its statements, one
					// after the other, and the counts are the counts of that list - wherever in the script the payload is
					if ci%4 == 0 && li == 0 && !strings.Contains(text, ";") {
						const plain = "SELECT pa FROM pt WHERE pb = 2"
						for si, sc := range []struct {
							text string
							n    int
						}{{text + ";\n" + plain, 1}, {plain + ";\n" + text + ";\n" + plain, 1}, {text + ";\n" + text + ";\n" + plain, 2}} {
							stree, err := gosqlx.Parse(sc.text)
							run.Eval(1)
							if err != nil {
								continue
							}
							scse := map[string]any{"kind": "injection-script", "payload": c.Payload, "exprs": c.Exprs, "place": c.Place, "nests": c.Nests, "sql": sc.text}
							got := laws("Scan|script", scse, func(s *security.Scanner) *security.ScanResult { return s.Scan(stree) })
							var want []string
							for k := 0; k < sc.n; k++ {
								want = append(want, single...)
							}
							sort.Strings(want)
							if strings.Join(got, ",") != strings.Join(want, ",") {
								run.Violate(core.Violation{Sig: fmt.Sprintf("script-findings-differ|shape-%d", si), Clause: "the payload is reported equally wherever it occurs ... in that or any nested statement; counts equal the findings listed",
									Case: scse, Observe: got, Expect: want})
							}
							ast.ReleaseAST(stree)
						}
					}
					if ci%997 == 5 && li == 0 {
						run.Sample(map[string]any{"payload": c.Payload, "exprs": c.Exprs, "place": c.Place, "nests": c.Nests, "sql": text, "findings": base, "reference": want})
					}
					if ci%7 == 0 {
						_ = laws("ScanSQL", map[string]any{"kind": "injection-text", "sql": text}, func(s *security.Scanner) *security.ScanResult { return s.ScanSQL(text) })
					}
				}
			}
		}()
	}
	for i := range cases {
		work <- i
	}
	close(work)
	wg.Wait()
	var rj []string
	for k, n := range rejected {
		rj = append(rj, fmt.Sprintf("%s (%d)", k, n))
	}
	sort.Strings(rj)
	if len(rj) > 60 {
		rj = append(rj[:60], fmt.Sprintf("... %d more", len(rj)-60))
	}
	run.Extra["positions_rejected_by_the_parser"] = rj
	if len(rejected)*3 > len(cases) {
		core.Fatalf("%d of %d position shapes are rejected by the parser", len(rejected), len(cases))
	}
	scannerHistories(tier)
	run.Exhaustive = true
	run.Finish()
}
