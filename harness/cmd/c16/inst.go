package main

// ScannerInst.tla on a real scanner: one scanner kept across scans, its minimum severity set by the holder between
// them.  Every history of the model is replayed with Scan (trees) and with ScanSQL (text); each scan must list what a
// fresh scanner built for the current minimum severity lists for the same input.

import (
	"encoding/json"
	"fmt"
	"strings"
	"time"

	"github.com/ajitpratap0/GoSQLX/pkg/gosqlx"
	"github.com/ajitpratap0/GoSQLX/pkg/sql/ast"
	"github.com/ajitpratap0/GoSQLX/pkg/sql/security"

	"verif/internal/core"
)

var instInputs = map[string]string{
	"clean":    "SELECT a FROM t WHERE b = 2",
	"high":     "SELECT a FROM t WHERE SLEEP(5) = 0",
	"critical": "SELECT a FROM t WHERE b = 1 OR 1 = 1",
	"both":     "SELECT a FROM t WHERE SLEEP(5) = 0 OR 1 = 1",
	"medium":   "SELECT a FROM t WHERE SLEEP(5) = 0 --",
}

func scannerHistories(tier string) {
	r := core.MustTLC(core.TLCOpts{Spec: "ScannerInst", Cfg: "ScannerInst.cfg", Timeout: 5 * time.Minute})
	run.AddTLC(r.Stat("one scanner across scans and threshold changes: Reported; every history of four operations"))
	pin, err := core.RunTLC(core.TLCOpts{Spec: "ScannerInst", Cfg: "ScannerInst_cached.cfg", Timeout: 5 * time.Minute})
	if err != nil || pin.Violation != "Reported" {
		core.Fatalf("ScannerInst_cached.cfg must violate Reported (got %q, %v)", pin.Violation, err)
	}
	ps := pin.Stat("cached shape (the threshold is resolved at the first finding and kept): a later minimum severity is ignored")
	ps.ExpectViol = "Reported"
	run.AddTLC(ps)
	trees := map[string]*ast.AST{}
	for c, sql := range instInputs {
		t, err := gosqlx.Parse(sql)
		if err != nil {
			core.Fatalf("input of class %s rejected: %v", c, err)
		}
		trees[c] = t
	}
	// the classes are what the model says they are (machinery, not verdicts): severities listed by a fresh scanner at LOW
	sevs := func(ps []string) string {
		m := map[string]bool{}
		for _, p := range ps {
			m[p[strings.LastIndex(p, "/")+1:]] = true
		}
		var out []string
		for _, s := range []string{"MEDIUM", "HIGH", "CRITICAL"} {
			if m[s] {
				out = append(out, s)
			}
		}
		return strings.Join(out, "+")
	}
	want := map[string]string{"clean": "", "high": "HIGH", "critical": "CRITICAL", "both": "HIGH+CRITICAL"}
	for c, w := range want {
		if got := sevs(pairsOf(security.NewScanner().Scan(trees[c]))); got != w {
			core.Fatalf("class %s carries %q for the tree scan, the model says %q", c, got, w)
		}
	}
	if got := sevs(pairsOf(security.NewScanner().ScanSQL(instInputs["medium"]))); got != "MEDIUM+HIGH" {
		core.Fatalf("class medium carries %q for the text scan, the model says MEDIUM+HIGH", got)
	}
	fresh := map[string][]string{}
	freshOf := func(api, c, min string) []string {
		k := api + "|" + c + "|" + min
		if v, ok := fresh[k]; ok {
			return v
		}
		s, err := security.NewScannerWithSeverity(security.Severity(min))
		if err != nil {
			core.Fatalf("NewScannerWithSeverity(%s): %v", min, err)
		}
		var v []string
		if api == "Scan" {
			v = pairsOf(s.Scan(trees[c]))
		} else {
			v = pairsOf(s.ScanSQL(instInputs[c]))
		}
		if v == nil {
			v = []string{}
		}
		fresh[k] = v
		return v
	}
	for hi, line := range r.Cases {
		var h struct {
			Hist []struct{ Op, Arg string } `json:"hist"`
		}
		if err := json.Unmarshal([]byte(line), &h); err != nil {
			core.Fatalf("bad history: %v", err)
		}
		if tier != "thorough" && hi%4 != int(run.Seed)%4 {
			continue
		}
		for _, api := range []string{"Scan", "ScanSQL"} {
			var s *security.Scanner
			min := ""
			var trail []string
			for _, st := range h.Hist {
				switch st.Op {
				case "new":
					s, _ = security.NewScannerWithSeverity(security.Severity(st.Arg))
					min = st.Arg
				case "set":
					s.MinSeverity = security.Severity(st.Arg)
					min = st.Arg
				case "scan":
					if st.Arg == "medium" && api == "Scan" {
						continue // the comment finding exists for the text scan only
					}
					var got []string
					if api == "Scan" {
						got = pairsOf(s.Scan(trees[st.Arg]))
					} else {
						got = pairsOf(s.ScanSQL(instInputs[st.Arg]))
					}
					run.Eval(1)
					exp := freshOf(api, st.Arg, min)
					if len(trail) >= 2 {
						run.Nontrivial(fmt.Sprintf("inst%d%s%d", hi, api, len(trail)))
					}
					if strings.Join(got, ",") != strings.Join(exp, ",") {
						run.Violate(core.Violation{Sig: "scan-depends-on-scanner-history|" + api + "|" + min, Clause: "raising the minimum severity removes exactly the findings below it; scanning does not depend on previous scans",
							Case:    map[string]any{"kind": "scanner-instance", "api": api, "before": append([]string{}, trail...), "input": instInputs[st.Arg], "minimum_severity": min},
							Observe: got, Expect: exp})
					}
				}
				trail = append(trail, st.Op+":"+st.Arg)
			}
		}
	}
	run.Traces(int64(len(r.Cases)))
}
