// C13 — every failure is a structured, classifiable, reproducible error.
//
//	X  the documented error codes are read from pkg/errors/errors.go of the working tree.
//	M  ErrorValue.tla: a failing call's return value as a root error (structured or bare) under layers that wrap
//	   or flatten it; Reachable, FamilyOfStage, Reproducible hold in the ideal shape and fail in the pinned one.
//	   Every (entry point, failing stage) pair is printed with the family the code must belong to.
//	   Lexer.tla's rejected inputs supply the lexical failures, the statement pools' single-token corruptions the
//	   grammatical ones, the pumps of C02 the nesting failures.
//	R  each pair is concretised by inputs of the stage's class and run through the real entry point several times:
//	   errors.As must reach a structured error, its code must be documented and of the stage's family (limits
//	   their dedicated codes), the message non-empty, a set location inside the input, every repetition equal;
//	   recovery errors must unwrap to the structured cause, cancellations to the context's error.
package main

import (
	"context"
	"encoding/json"
	"errors"
	"fmt"
	"os"
	"regexp"
	"sort"
	"strings"
	"sync"
	"time"

	gerrors "github.com/ajitpratap0/GoSQLX/pkg/errors"
	"github.com/ajitpratap0/GoSQLX/pkg/gosqlx"
	"github.com/ajitpratap0/GoSQLX/pkg/sql/parser"
	"github.com/ajitpratap0/GoSQLX/pkg/sql/tokenizer"

	"verif/internal/core"
	"verif/internal/entry"
	"verif/internal/gram"
	"verif/internal/lexcheck"
	"verif/internal/lexconc"
	"verif/internal/ops"
	"verif/internal/stmts"
)

var (
	run        *core.Run
	documented = map[string]bool{}
	points     = map[string]entry.Point{}
)

func readCodes() {
	b, err := os.ReadFile(core.RepoDir + "/pkg/errors/errors.go")
	if err != nil {
		core.Fatalf("%v", err)
	}
	for _, m := range regexp.MustCompile(`ErrorCode\s*=\s*"(E\d{4})"`).FindAllStringSubmatch(string(b), -1) {
		documented[m[1]] = true
	}
	if len(documented) < 20 {
		core.Fatalf("only %d documented codes found", len(documented))
	}
	run.Extra["documented_codes_extracted"] = len(documented)
}

func familyOK(stage, code string) bool {
	switch stage {
	case "size":
		return code == "E1006"
	case "tokens":
		return code == "E1007"
	case "depth":
		return code == "E2007"
	case "lex":
		return strings.HasPrefix(code, "E1") && code != "E1006" && code != "E1007"
	case "parse", "empty", "nested":
		return strings.HasPrefix(code, "E2") && code != "E2007"
	}
	return false
}

// inputs run between two repetitions: multi-line, tabs, long lines, rejected and accepted
var perturb = []string{"\nSELECT id, name FROM users WHERE active = true", "\t\tSELECT a,\n\t\t\tb FROM t\n\n\n  WHERE x = 'unterminated",
	"SELECT " + strings.Repeat("col, ", 40) + "col\nFROM t WHERE", "\n\n\n\n\n\n    SELECT 1;\n  SELECT ^"}

type input struct {
	stage, text, origin string
}

func inLocation(text string, line, col int) bool {
	lines := strings.Split(text, "\n")
	if line < 1 || line > len(lines) {
		return false
	}
	// columns are documented exactly for ASCII, tab-free prefixes only; elsewhere the implementation may count
	// bytes and expand tabs, so the upper bound allows for both
	l := lines[line-1]
	return col >= 1 && col <= len(l)+1+7*strings.Count(l, "\t")
}

func main() {
	tier := os.Getenv("VERIF_TIER")
	if tier == "" {
		tier = "quick"
	}
	run = core.NewRun("C13", tier, "model_checking")
	run.Rule = "every (entry point, failing stage) pair of ErrorValue.tla x inputs of the stage's class: lexical = every rejected input of Lexer.tla (3-grams over the full alphabet, 6-grams over the string and number alphabets) in two spellings, grammatical = every single-token corruption of the statement pools, nesting = pumps beyond the depth limit, size/token limit = one input each, cancellation = a cancelled context and an expired timeout; each run three times; non-trivial = a rejected input run through an entry point that wraps the root error at least once, or a multi-line input with a located error"
	run.Assumptions = []string{
		"a location is 'set' when its line is non-zero; it lies within the input when 1 <= line <= number of lines and 1 <= column <= byte length of that line + 1 (+7 per tab: columns are documented exactly only for ASCII, tab-free prefixes)",
		"cancellation returns the context's error (reachable with errors.Is); it is not required to carry a structured code",
	}
	readCodes()
	for _, p := range entry.All {
		points[p.Name] = p
	}
	points["Tokenizer.Tokenize"] = entry.Point{Name: "Tokenizer.Tokenize", Run: func(s string) entry.Outcome {
		t := tokenizer.GetTokenizer()
		defer tokenizer.PutTokenizer(t)
		_, err := t.Tokenize([]byte(s))
		if err == nil {
			return entry.Outcome{Accept: true}
		}
		var e *gerrors.Error
		o := entry.Outcome{Err: err.Error()}
		if errors.As(err, &e) && e != nil {
			o.Struct, o.Code, o.Msg, o.Line, o.Col = true, string(e.Code), e.Message, e.Location.Line, e.Location.Column
		}
		return o
	}}

	ev := core.MustTLC(core.TLCOpts{Spec: "ErrorValue", Cfg: "ErrorValue.cfg", Workers: 2, Timeout: 2 * time.Minute})
	run.AddTLC(ev.Stat("error values as root + layers: Reachable, FamilyOfStage, Reproducible; one case per (entry point, stage)"))
	pin, err := core.RunTLC(core.TLCOpts{Spec: "ErrorValue", Cfg: "ErrorValue_pinned.cfg", Workers: 2, Timeout: 2 * time.Minute})
	if err != nil || pin.Violation == "" {
		core.Fatalf("ErrorValue_pinned.cfg must violate an invariant (%v)", err)
	}
	ps := pin.Stat("pinned shape (bare roots, flattening layers): the structured error is lost")
	ps.ExpectViol = pin.Violation
	run.AddTLC(ps)
	sh, err := core.RunTLC(core.TLCOpts{Spec: "ErrorValue", Cfg: "ErrorValue_shared.cfg", Workers: 2, Timeout: 2 * time.Minute})
	if err != nil || sh.Violation != "Reproducible" {
		core.Fatalf("ErrorValue_shared.cfg must violate Reproducible (got %q, %v)", sh.Violation, err)
	}
	ss := sh.Stat("shared-root shape (one error object for the empty stage, written by position-tracking entry points): a run depends on the call before it")
	ss.ExpectViol = "Reproducible"
	run.AddTLC(ss)
	rb, err := core.RunTLC(core.TLCOpts{Spec: "ErrorValue", Cfg: "ErrorValue_rebuilt.cfg", Workers: 2, Timeout: 2 * time.Minute})
	if err != nil || rb.Violation != "CausesKept" {
		core.Fatalf("ErrorValue_rebuilt.cfg must violate CausesKept (got %q, %v)", rb.Violation, err)
	}
	rs := rb.Stat("rebuilt shape (a frame copies the first structured error into a new one): the causes under it are cut off")
	rs.ExpectViol = "CausesKept"
	run.AddTLC(rs)
	type pair struct{ Ep, Stage, Family string }
	pairs := map[pair]bool{}
	quads := map[quad]bool{}
	for _, line := range ev.Cases {
		var q quad
		if err := json.Unmarshal([]byte(line), &q); err != nil {
			core.Fatalf("bad case %q", line)
		}
		pairs[pair{q.Ep, q.Stage, q.Family}] = true
		quads[q] = true
	}

	// inputs per stage
	byStage := map[string][]input{}
	lexCfgs := []string{"Lexer_full3.cfg", "Lexer_str6.cfg", "Lexer_num6.cfg"}
	if tier == "thorough" {
		lexCfgs = append(lexCfgs, "Lexer_com6.cfg", "Lexer_dol6.cfg", "Lexer_qid6.cfg")
	}
	seenText := map[string]bool{}
	for _, cfg := range lexCfgs {
		r := core.MustTLC(core.TLCOpts{Spec: "Lexer", Cfg: cfg, Timeout: 30 * time.Minute})
		st := r.Stat("reference lexer (source of rejected inputs)")
		run.AddTLC(st)
		for _, line := range r.Cases {
			var cs lexcheck.Case
			if json.Unmarshal([]byte(line), &cs) != nil || cs.Err.E == "" {
				continue
			}
			for v := 0; v < 2; v++ {
				t := lexconc.Concretise(cs.Inp, v).S
				if !seenText[t] {
					seenText[t] = true
					byStage["lex"] = append(byStage["lex"], input{"lex", t, "Lexer.tla:" + cs.Err.E})
				}
			}
		}
	}
	for _, g := range []string{"SELECT 'unterminated", "SELECT a FROM t\nWHERE b = \"open", "SELECT a,\n  b ^^ FROM t", "SELECT a FROM t WHERE x = 'a\nb", "SELECT 1e FROM t", "SELECT $tag$ never closed", "SELECT /* never closed"} {
		byStage["lex"] = append(byStage["lex"], input{"lex", g, "garbage"})
	}
	// every character after a backslash in a string literal, followed by what a fixed-width escape would not take: a
	// rejected escape is a lexical problem whichever letter it is (accepted ones are not judged here)
	for c := byte(0x21); c < 0x7f; c++ {
		if c == '\'' {
			continue
		}
		for _, tail := range []string{"", "1", "12G4", "zz", "{"} {
			byStage["lex"] = append(byStage["lex"], input{"lex", "SELECT 'a\\" + string(c) + tail + "' FROM t", "escape:" + string(c)})
		}
		byStage["lex"] = append(byStage["lex"], input{"lex", "SELECT 'a\\" + string(c), "escape-at-end:" + string(c)})
	}
	// the pools also hold a sample of Select.tla's statement forms
	run.Extra["model_statements_in_pools"] = gram.ExportForms(run)
	_, bad := stmts.Pools()
	for i, b := range bad {
		text := b.SQL
		if i%3 == 1 {
			text = breakLines(text, 2) // located errors on later lines
		}
		byStage["parse"] = append(byStage["parse"], input{"parse", text, "corruption:" + b.Origin})
	}
	for _, d := range []int{150, 400} {
		byStage["depth"] = append(byStage["depth"],
			input{"depth", "SELECT " + strings.Repeat("(", d) + "a" + strings.Repeat(")", d) + " FROM t", "pump:parens"},
			input{"depth", "SELECT a FROM t WHERE " + strings.Repeat("NOT ", d) + "(a = 1)", "pump:not"},
			input{"depth", strings.Repeat("SELECT * FROM (", d) + "SELECT a FROM t" + strings.Repeat(") x", d), "pump:derived"},
			input{"depth", strings.Repeat("WITH c AS (", d) + "SELECT 1" + strings.Repeat(") SELECT * FROM c", d), "pump:cte"},
			input{"depth", "SELECT " + strings.Repeat("f(", d) + "a" + strings.Repeat(")", d) + " FROM t", "pump:calls"})
	}
	// the nesting limit reached inside every statement context that can hold an expression, bare and inside a CTE
	{
		exprs := map[string]func(d int) string{
			"parens": func(d int) string { return strings.Repeat("(", d) + "1" + strings.Repeat(")", d) },
			"not":    func(d int) string { return strings.Repeat("NOT ", d) + "(a = 1)" },
			"calls":  func(d int) string { return strings.Repeat("f(", d) + "a" + strings.Repeat(")", d) },
		}
		ctxs := []string{"SELECT %s FROM t", "SELECT a FROM t WHERE %s", "INSERT INTO t (a) VALUES (%s)", "INSERT INTO t (a) VALUES (1) RETURNING %s",
			"INSERT INTO t (a) VALUES (1) ON CONFLICT (a) DO UPDATE SET a = %s", "INSERT INTO t (a) VALUES (1) ON DUPLICATE KEY UPDATE a = %s",
			"REPLACE INTO t (a) VALUES (%s)", "UPDATE t SET a = %s", "UPDATE t SET a = 1 WHERE %s RETURNING a", "DELETE FROM t WHERE %s",
			"SELECT a FROM t JOIN u ON %s", "SELECT a FROM t GROUP BY a HAVING %s", "SELECT a FROM t ORDER BY %s", "SELECT a FROM t WHERE MATCH (a) AGAINST (%s)",
			"SELECT CASE WHEN %s THEN 1 ELSE 0 END FROM t", "SELECT SUM(a) OVER (PARTITION BY %s) FROM t", "SELECT a FROM t WHERE a IN (SELECT b FROM u WHERE %s)",
			"SELECT * FROM (SELECT %s FROM t) x", "MERGE INTO t USING u ON %s WHEN MATCHED THEN UPDATE SET a = 1", "CREATE VIEW v AS SELECT %s FROM t"}
		n := 0
		for _, c := range ctxs {
			for _, w := range []string{"%s", "WITH c AS (%s) SELECT * FROM c"} {
				if w != "%s" && (strings.HasPrefix(c, "CREATE") || strings.HasPrefix(c, "MERGE")) {
					continue
				}
				for en, e := range exprs {
					shallow := fmt.Sprintf(w, fmt.Sprintf(c, e(2)))
					if _, err := gosqlx.Parse(shallow); err != nil {
						continue // the context does not take this expression at all
					}
					n++
					byStage["depth"] = append(byStage["depth"], input{"depth", fmt.Sprintf(w, fmt.Sprintf(c, e(160))), "pump-in-context:" + en + ":" + firstN(fmt.Sprintf(w, c), 60)})
				}
			}
		}
		run.Extra["depth_contexts_accepted"] = n
		if n < 40 {
			core.Fatalf("only %d (context, expression) pairs are accepted at shallow depth", n)
		}
	}
	for _, e := range []string{"", ";", ";;;\n  ;", "  \n\t", "-- nothing\n", "/* nothing */ ;"} {
		byStage["empty"] = append(byStage["empty"], input{"empty", e, "no-statement"})
	}
	// nested: a grammar problem inside a construct whose parser reports the inner diagnostic as its cause
	for _, outer := range []string{"CREATE VIEW v AS %s", "CREATE MATERIALIZED VIEW v AS %s", "CREATE TABLE t2 AS %s", "WITH c AS (%s) SELECT a FROM c",
		"SELECT a FROM t WHERE b IN (%s)", "SELECT * FROM (%s) x", "INSERT INTO t %s", "SELECT a FROM t WHERE EXISTS (%s)",
		"MERGE INTO t USING (%s) s ON t.a = s.a WHEN MATCHED THEN DELETE", "SELECT a FROM t UNION %s", "EXPLAIN %s"} {
		for _, inner := range []string{"SELECT FROM", "SELECT a FROM t WHERE", "SELECT a FROM", "SELECT a FROM t ORDER BY", "SELECT a FROM t WHERE b = (1"} {
			byStage["nested"] = append(byStage["nested"], input{"nested", fmt.Sprintf(outer, inner), "inner-corruption:" + firstN(outer, 24)})
		}
	}
	for _, m := range []string{"MERGE INTO t USING s ON t.a = WHEN MATCHED THEN DELETE", "MERGE INTO t USING s ON t.a = s.a WHEN MATCHED AND THEN DELETE",
		"MERGE INTO t USING s ON t.a = s.a WHEN MATCHED THEN UPDATE SET a =", "MERGE INTO t USING s ON t.a = s.a WHEN NOT MATCHED THEN INSERT (a) VALUES (",
		"MERGE INTO USING s ON t.a = s.a WHEN MATCHED THEN DELETE", "MERGE INTO t USING ON t.a = s.a WHEN MATCHED THEN DELETE"} {
		byStage["nested"] = append(byStage["nested"], input{"nested", m, "merge-part"})
	}
	byStage["size"] = []input{{"size", "SELECT 1" + strings.Repeat(" ", tokenizer.MaxInputSize-7), "size+1"}}
	byStage["tokens"] = []input{{"tokens", "SELECT 1" + strings.Repeat(",1", tokenizer.MaxTokens/2+10), "tokens+"}}
	for st, ins := range byStage {
		run.Extra["inputs_"+st] = len(ins)
	}
	if len(byStage["lex"]) < 200 || len(byStage["parse"]) < 200 {
		core.Fatalf("too few rejected inputs (lex %d, parse %d)", len(byStage["lex"]), len(byStage["parse"]))
	}

	type task struct {
		p  pair
		in input
	}
	work := make(chan task, 1024)
	var wg sync.WaitGroup
	var classMismatch, judged int64
	var mu sync.Mutex
	for w := 0; w < 16; w++ {
		wg.Add(1)
		go func() {
			defer wg.Done()
			for t := range work {
				if one(t.p.Ep, t.p.Stage, t.in) {
					mu.Lock()
					judged++
					mu.Unlock()
				} else {
					mu.Lock()
					classMismatch++
					mu.Unlock()
				}
			}
		}()
	}
	for p := range pairs {
		if p.Stage == "cancel" {
			continue
		}
		if _, ok := points[p.Ep]; !ok {
			core.Fatalf("no runner for entry point %s", p.Ep)
		}
		ins := byStage[p.Stage]
		for i, in := range ins {
			// the quick tier runs every input through Tokenize / gosqlx.Parse / recovery and a rotating third of the rest
			if tier != "thorough" && len(ins) > 50 && !(p.Ep == "gosqlx.Parse" || p.Ep == "Tokenizer.Tokenize" || p.Ep == "gosqlx.ParseWithRecovery" || (i+len(p.Ep))%3 == 0) {
				continue
			}
			work <- task{p, in}
		}
	}
	close(work)
	wg.Wait()
	run.Extra["accepted_by_entry_point_although_class_rejected"] = classMismatch
	if classMismatch*20 > judged {
		core.Fatalf("%d of %d runs were accepted although the input class is rejected", classMismatch, judged+classMismatch)
	}
	// the second half of Reproducible: another call - any entry point, failing in any stage or succeeding - between
	// two runs of the same call changes neither what the second run returns nor the error value already returned
	{
		rep := func(st string) []input {
			ins := byStage[st]
			switch st {
			case "accept":
				return []input{{"accept", "SELECT a FROM t WHERE b = 1", "valid"}, {"accept", "SELECT a,\n  b\nFROM t\nORDER BY a;\nSELECT 2", "valid"}}
			case "empty":
				return ins
			case "size", "tokens":
				return ins[:1]
			}
			// a short one, one from the middle (thorough), a multi-line one
			out := []input{ins[0]}
			if tier == "thorough" {
				out = append(out, ins[len(ins)/2])
			}
			for _, in := range ins {
				if strings.Contains(in.text, "\n") && len(in.text) < 400 {
					out = append(out, in)
					break
				}
			}
			return out
		}
		n := 0
		qwork := make(chan quad, 256)
		var qwg sync.WaitGroup
		for w := 0; w < 16; w++ {
			qwg.Add(1)
			go func() {
				defer qwg.Done()
				for q := range qwork {
					between(q, rep, tier)
				}
			}()
		}
		for q := range quads {
			if q.Stage == "cancel" || q.Stage2 == "cancel" {
				continue
			}
			n++
			if (q.Stage == "size" || q.Stage == "tokens") && tier != "thorough" && (n+int(run.Seed))%8 != 0 {
				continue
			}
			qwork <- q
		}
		close(qwork)
		qwg.Wait()
		run.Extra["call_pairs_with_a_call_between"] = n
	}
	recoveryUnwrap(byStage["parse"])
	causeChains(byStage, tier)
	keptInstance(byStage, tier)
	cancellation()
	run.Traces(int64(len(pairs)))
	run.Exhaustive = false
	run.Finish()
}

type quad struct{ Ep, Stage, Family, Ep2, Stage2 string }

// codeChain lists the codes of the structured errors met when err is unwrapped layer by layer.
func codeChain(err error) []string {
	var out []string
	for e := err; e != nil; e = errors.Unwrap(e) {
		if se, ok := e.(*gerrors.Error); ok && se != nil {
			out = append(out, string(se.Code))
		}
	}
	return out
}

func isSubsequence(small, big []string) bool {
	i := 0
	for _, b := range big {
		if i < len(small) && small[i] == b {
			i++
		}
	}
	return i == len(small)
}

// causeChains (CausesKept): the failing stage builds a chain of structured errors (one, or two when the problem sits
// inside a construct that reports the inner diagnostic as its cause); the frames of an entry point may add layers but
// never cut the chain, so the longest chain any entry point exposes for an input is exposed by every entry point.
func causeChains(byStage map[string][]input, tier string) {
	var names []string
	for n := range points {
		names = append(names, n)
	}
	sort.Strings(names)
	deep := 0
	for _, st := range []string{"nested", "parse", "depth", "lex", "empty"} {
		ins := byStage[st]
		for i, in := range ins {
			if tier != "thorough" && st != "nested" && i%5 != 0 {
				continue
			}
			chains := map[string][]string{}
			var ref []string
			refEp := ""
			for _, n := range names {
				o := points[n].Run(in.text)
				run.Eval(1)
				if o.Accept || o.Raw == nil {
					continue
				}
				c := codeChain(o.Raw)
				chains[n] = c
				if len(c) > len(ref) {
					ref, refEp = c, n
				}
			}
			if len(ref) >= 2 {
				deep++
				run.Nontrivial("chain\x00" + in.text)
			}
			for _, n := range names {
				c, ok := chains[n]
				if !ok || n == "Tokenizer.Tokenize" && st != "lex" {
					continue
				}
				if !isSubsequence(ref, c) {
					run.Violate(core.Violation{Sig: "cause-cut|" + n + "|" + st, Clause: "wrapped causes remain reachable with errors.Is/errors.As",
						Case:    map[string]any{"entry_point": n, "stage": st, "input": firstN(in.text, 200), "origin": in.origin},
						Observe: map[string]any{"structured_errors_reachable": c}, Expect: map[string]any{"entry_point": refEp, "structured_errors_reachable": ref}})
				}
			}
		}
	}
	run.Extra["inputs_with_a_chain_of_two_or_more_structured_errors"] = deep
	if deep < 20 {
		core.Fatalf("only %d inputs produce a chain of two structured errors", deep)
	}
}

// between runs call (q.Ep, x), then (q.Ep2, y), then (q.Ep, x) again for representative inputs of the two stages.
func between(q quad, rep func(string) []input, tier string) {
	{
		{
			p1, p2 := points[q.Ep], points[q.Ep2]
			for _, x := range rep(q.Stage) {
				for _, y := range rep(q.Stage2) {
					o1 := p1.Run(x.text)
					if o1.Accept {
						continue
					}
					_ = p2.Run(y.text)
					held := o1.Refresh()
					o2 := p1.Run(x.text)
					run.Eval(3)
					run.Nontrivial("between" + q.Ep + "\x00" + x.text + "\x00" + q.Ep2 + "\x00" + y.text)
					cse := map[string]any{"entry_point": q.Ep, "stage": q.Stage, "input": firstN(x.text, 200), "between_entry_point": q.Ep2, "between_stage": q.Stage2, "between_input": firstN(y.text, 200)}
					show := func(o entry.Outcome) string {
						return fmt.Sprintf("%s@%d:%d %s", o.Code, o.Line, o.Col, firstN(o.Msg, 100))
					}
					if held.Code != o1.Code || held.Msg != o1.Msg || held.Line != o1.Line || held.Col != o1.Col || held.Err != o1.Err {
						run.Violate(core.Violation{Sig: "returned-error-changed-by-later-call|" + q.Ep + "|" + q.Stage + "|" + q.Ep2, Clause: "the same input always produces the same code, message and location (an error already returned does not change)",
							Case: cse, Observe: map[string]any{"when_returned": show(o1), "after_the_other_call": show(held)}})
					}
					if o2.Accept || o2.Code != o1.Code || o2.Msg != o1.Msg || o2.Line != o1.Line || o2.Col != o1.Col || o2.Err != o1.Err {
						run.Violate(core.Violation{Sig: "not-reproducible-after-other-call|" + q.Ep + "|" + q.Stage + "|" + q.Ep2 + "|" + q.Stage2, Clause: "the same input always produces the same code, message and location",
							Case: cse, Observe: map[string]any{"first": show(o1), "again": show(o2)}})
					}
				}
			}
		}
	}
}

// one runs input in through entry point ep three times; false = the entry point accepted it (not judged here).
func one(ep, stage string, in input) bool {
	p := points[ep]
	o := p.Run(in.text)
	run.Eval(1)
	if o.Accept {
		return false
	}
	show := in.text
	if len(show) > 300 {
		show = show[:300] + fmt.Sprintf("... (%d bytes)", len(in.text))
	}
	cse := map[string]any{"entry_point": ep, "stage": stage, "input": show, "origin": in.origin}
	fail := func(sig, clause string, obs, exp any) {
		run.Violate(core.Violation{Sig: sig, Clause: clause, Case: cse, Observe: obs, Expect: exp})
	}
	if len(in.text)%97 == 3 && len(in.text) < 200 {
		run.Sample(map[string]any{"entry_point": ep, "stage": stage, "input": in.text, "code": o.Code, "line": o.Line, "col": o.Col, "message": firstN(o.Msg, 100)})
	}
	wraps := strings.HasPrefix(ep, "gosqlx.") || strings.HasPrefix(ep, "parser.")
	if wraps || (o.Line > 1) {
		run.Nontrivial(ep + "\x00" + in.text)
	}
	if !o.Struct {
		fail("unstructured-error|"+ep+"|"+stage, "every error exposes a structured error through standard unwrapping", firstN(o.Err, 200), nil)
		return true
	}
	if !documented[o.Code] {
		fail("undocumented-code|"+o.Code, "a documented code", o.Code, nil)
	}
	if !familyOK(stage, o.Code) {
		fail("wrong-family|"+ep+"|"+stage+"|"+o.Code, "a code of the right family: lexical problems a tokenizer code, grammar problems a parser code, limit violations their dedicated codes", o.Code+": "+firstN(o.Msg, 120), stage)
	}
	if strings.TrimSpace(o.Msg) == "" {
		fail("empty-message|"+ep+"|"+o.Code, "a non-empty message", o.Err, nil)
	}
	if o.Line != 0 && !inLocation(in.text, o.Line, o.Col) {
		fail("location-outside-input|"+ep+"|"+o.Code, "a location that lies within the input when it is set", map[string]int{"line": o.Line, "col": o.Col}, nil)
	}
	if len(in.text) < 1<<20 {
		for rep := 0; rep < 2; rep++ {
			if rep == 1 {
				// a different history on the pooled tokenizer/parser between two runs of the same input
				_ = p.Run(perturb[len(in.text)%len(perturb)])
			}
			o2 := p.Run(in.text)
			run.Eval(1)
			if o2.Code != o.Code || o2.Msg != o.Msg || o2.Line != o.Line || o2.Col != o.Col || o2.Err != o.Err {
				field := "text"
				switch {
				case o2.Code != o.Code:
					field = "code"
				case o2.Msg != o.Msg:
					field = "message"
				case o2.Line != o.Line || o2.Col != o.Col:
					field = "location"
				}
				fail("not-reproducible|"+ep+"|"+field, "the same input always produces the same code, message and location",
					map[string]any{"first": fmt.Sprintf("%s@%d:%d %s", o.Code, o.Line, o.Col, firstN(o.Msg, 100)), "again": fmt.Sprintf("%s@%d:%d %s", o2.Code, o2.Line, o2.Col, firstN(o2.Msg, 100))}, nil)
				break
			}
		}
	}
	return true
}

// recoveryUnwrap: every error of the recovery parser is a ParseError whose structured cause is reachable with
// errors.As on the ParseError itself.
func recoveryUnwrap(ins []input) {
	for _, in := range ins {
		_, errs := gosqlx.ParseWithRecovery(in.text)
		for _, e := range errs {
			run.Eval(1)
			var se *gerrors.Error
			if !errors.As(e, &se) || se == nil {
				run.Violate(core.Violation{Sig: "cause-unreachable|gosqlx.ParseWithRecovery", Clause: "wrapped causes remain reachable with errors.Is/errors.As",
					Case: map[string]any{"input": in.text}, Observe: firstN(e.Error(), 200)})
				continue
			}
			var pe *parser.ParseError
			if errors.As(e, &pe) && pe.Cause != nil && !errors.Is(e, pe.Cause) {
				run.Violate(core.Violation{Sig: "cause-not-is|gosqlx.ParseWithRecovery", Clause: "wrapped causes remain reachable with errors.Is/errors.As",
					Case: map[string]any{"input": in.text}, Observe: firstN(e.Error(), 200)})
			}
		}
	}
}

func cancellation() {
	sqls := []string{"SELECT a, b FROM t WHERE a = 1 AND b IN (SELECT c FROM u)", "INSERT INTO t (a) VALUES (1); SELECT 2"}
	for _, sql := range sqls {
		ctx, cancel := context.WithCancel(context.Background())
		cancel()
		_, err := gosqlx.ParseWithContext(ctx, sql)
		check := func(name string, err error, want error) {
			run.Eval(1)
			run.Nontrivial("cancel" + name + sql)
			if err == nil || !errors.Is(err, want) {
				run.Violate(core.Violation{Sig: "cause-unreachable|" + name, Clause: "wrapped causes remain reachable with errors.Is", Case: map[string]any{"entry_point": name, "input": sql},
					Observe: fmt.Sprint(err), Expect: want.Error()})
			}
		}
		check("gosqlx.ParseWithContext", err, context.Canceled)
		_, err = gosqlx.ParseWithTimeout(sql, time.Nanosecond)
		time.Sleep(time.Millisecond)
		check("gosqlx.ParseWithTimeout", err, context.DeadlineExceeded)
		tk := tokenizer.GetTokenizer()
		toks, _ := tk.Tokenize([]byte(sql))
		tokenizer.PutTokenizer(tk)
		p := parser.NewParser()
		_, err = p.ParseContextFromModelTokens(ctx, toks)
		p.Release()
		check("Parser.ParseContext", err, context.Canceled)
	}
}

func firstN(s string, n int) string {
	if len(s) > n {
		return s[:n]
	}
	return s
}

// breakLines turns the first n blanks that stand BETWEEN lexemes into line breaks (a blank inside a quoted identifier
// or literal is part of the lexeme: a line break there would make another input, for a quoted identifier a lexical error).
func breakLines(text string, n int) string {
	b := []byte(text)
	var quote byte
	for i := 0; i < len(b) && n > 0; i++ {
		c := b[i]
		switch {
		case quote != 0:
			if c == quote {
				quote = 0
			}
		case c == '\'' || c == '"' || c == '`':
			quote = c
		case c == ' ':
			b[i] = '\n'
			n--
		}
	}
	return string(b)
}

// keptInstance: "the same input always produces the same code, message and location" on a parser its holder keeps across
// calls, and for the statements of one script in recovery mode: what an earlier input did - above all one rejected at the
// nesting limit inside each kind of construct - does not show in the error of the next.
func keptInstance(byStage map[string][]input, tier string) {
	call := func(p *parser.Parser, sql string) entry.Outcome {
		t := tokenizer.GetTokenizer()
		toks, err := t.Tokenize([]byte(sql))
		tokenizer.PutTokenizer(t)
		if err != nil {
			return entry.Outcome{Err: "tokenizer: " + err.Error()}
		}
		tree, perr := p.ParseFromModelTokens(toks)
		if perr == nil {
			_ = tree
			return entry.Outcome{Accept: true}
		}
		e := ops.Err(perr)
		return entry.Outcome{Code: e.Code, Msg: e.Msg, Line: e.Line, Col: e.Col, Err: perr.Error()}
	}
	var firsts []input
	firsts = append(firsts, byStage["depth"]...)
	if tier != "thorough" && len(firsts) > 24 {
		firsts = firsts[:24]
	}
	firsts = append(firsts, byStage["nested"][:8]...)
	seconds := []input{byStage["parse"][0], byStage["parse"][len(byStage["parse"])/2], {"accept", "SELECT a FROM t WHERE b = 1 OR c = 2", "valid"},
		{"parse", "SELECT a FROM t WHERE", "grammar"}, {"parse", "SELECT f(a, (b + ), c) FROM t", "grammar"}}
	n := 0
	for _, x := range firsts {
		for _, y := range seconds {
			fresh := call(parser.NewParser(), y.text)
			p := parser.NewParser()
			for rep := 0; rep < 3; rep++ { // a leak of a few levels per failure needs several failures to show
				_ = call(p, x.text)
			}
			got := call(p, y.text)
			run.Eval(2)
			n++
			run.Nontrivial("kept\x00" + x.text + "\x00" + y.text)
			if got.Accept != fresh.Accept || got.Code != fresh.Code || got.Msg != fresh.Msg || got.Line != fresh.Line || got.Col != fresh.Col {
				run.Violate(core.Violation{Sig: "error-depends-on-parser-history|kept-instance|after-" + x.stage, Clause: "the same input always produces the same code, message and location",
					Case:    map[string]any{"entry_point": "Parser.ParseFromModelTokens on a kept instance", "input": firstN(y.text, 200), "earlier_input_three_times": firstN(x.text, 200), "earlier_origin": x.origin},
					Observe: fmt.Sprintf("%s@%d:%d %s (accepted=%v)", got.Code, got.Line, got.Col, firstN(got.Msg, 100), got.Accept), Expect: fmt.Sprintf("%s@%d:%d %s (accepted=%v)", fresh.Code, fresh.Line, fresh.Col, firstN(fresh.Msg, 100), fresh.Accept)})
			}
		}
	}
	run.Extra["kept_instance_pairs"] = n
}
