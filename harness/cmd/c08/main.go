// C08 — results never depend on what a reused or pooled object did before.
//
// ParserInst.tla / TokInst.tla model one instance, its pool and its holder's configuration.
// TLC checks HistoryIndependence, CleanInPool, FreshAfterGet/Reset, ConfigIsHolders on the ideal
// machine (and finds the carry-over in the "pinned" shape), and prints one history per transition of
// the complete state graph (transition tour; every pair of consecutive transitions in the thorough
// tier). Each history is stepped through a real instance: after every step the instance's internal
// fields (VerifState hook) must equal the specification state, and every call's complete result must
// equal the same call on a freshly constructed instance carrying the holder's configuration.
package main

import (
	"context"
	"encoding/json"
	"errors"
	"fmt"
	"os"
	"runtime"
	"strings"
	"sync/atomic"
	"time"

	"github.com/ajitpratap0/GoSQLX/pkg/models"
	"github.com/ajitpratap0/GoSQLX/pkg/sql/ast"
	"github.com/ajitpratap0/GoSQLX/pkg/sql/keywords"
	"github.com/ajitpratap0/GoSQLX/pkg/sql/parser"
	"github.com/ajitpratap0/GoSQLX/pkg/sql/tokenizer"

	"verif/internal/core"
	"verif/internal/ops"
	"verif/internal/project"
)

type pstate struct {
	Toks     bool   `json:"toks"`
	Pos      string `json:"pos"`
	Strict   bool   `json:"strict"`
	Dialect  string `json:"dialect"`
	Where    string `json:"where"`
	HStrict  bool   `json:"hstrict"`
	HDialect string `json:"hdialect"`
	// tokenizer machine
	Inp bool   `json:"inp"`
	Com string `json:"com"`
}

type exp struct {
	Ok      bool   `json:"ok"`
	Loc     string `json:"loc"`
	Out     string `json:"out"`
	Com     string `json:"com"`
	Dialect string `json:"dialect"`
}

type pstep struct {
	Op      string `json:"op"`
	In      string `json:"in,omitempty"`
	Opt     string `json:"opt,omitempty"`
	Strict  bool   `json:"strict,omitempty"`
	Dialect string `json:"dialect,omitempty"`
	Exp     *exp   `json:"exp,omitempty"`
	St      pstate `json:"st"`
}

var run *core.Run

func main() {
	runtime.GOMAXPROCS(1)
	runtime.LockOSThread()
	tier := os.Getenv("VERIF_TIER")
	if tier == "" {
		tier = "quick"
	}
	run = core.NewRun("C08", tier, "model_checking")
	run.Rule = "one history per transition of the complete state graph of ParserInst.tla and TokInst.tla (quick) / per pair of consecutive transitions (thorough), each replayed on a real instance through the real pools; non-trivial = the history contains a call made after at least one earlier state-changing operation (reuse)"
	run.Assumptions = []string{
		"sync.Pool identity is pinned with GOMAXPROCS(1)+LockOSThread so that the instance put is the instance got (a dropped instance is treated as a fresh one, which the specification also allows)",
		"input classes are concretised by fixed statements chosen so that each instance field is observable (strict: ';; SELECT 1 ;;', dialect: 'LIMIT 10, 20', positions: error location, depth: nesting at limit-1)",
	}
	if len(os.Args) > 2 && os.Args[1] == "--replay" {
		replay(os.Args[2])
		run.Finish()
	}
	prepare()

	for _, m := range []struct{ spec, what string }{{"ParserInst", "parser"}, {"TokInst", "tokenizer"}} {
		r := core.MustTLC(core.TLCOpts{Spec: m.spec, Cfg: m.spec + "_ideal.cfg", Timeout: 5 * time.Minute})
		run.AddTLC(r.Stat(m.what + " instance, ideal machine: HistoryIndependence, CleanInPool, FreshAfterGet, FreshAfterReset, ConfigIsHolders"))
		p, err := core.RunTLC(core.TLCOpts{Spec: m.spec, Cfg: m.spec + "_pinned.cfg", Timeout: 2 * time.Minute})
		if err != nil || p.Violation == "" {
			core.Fatalf("%s_pinned.cfg: the pinned shape must violate an invariant (err %v)\n%s", m.spec, err, p.Output)
		}
		st := p.Stat("pinned shape (omitted resets): TLC must find the carry-over")
		st.ExpectViol = p.Violation
		run.AddTLC(st)
		cfg := m.spec + "_tour.cfg"
		if tier == "thorough" {
			cfg = m.spec + "_pairs.cfg"
		}
		e := core.MustTLC(core.TLCOpts{Spec: m.spec, Cfg: cfg, Timeout: 10 * time.Minute})
		run.AddTLC(e.Stat("transition tour: one history per transition, replayed on the real " + m.what))
		if len(e.Cases) == 0 {
			core.Fatalf("%s exported no histories", cfg)
		}
		n := 0
		for _, c := range e.Cases {
			var h []pstep
			if err := json.Unmarshal([]byte(c), &h); err != nil {
				core.Fatalf("bad history %q: %v", c, err)
			}
			if m.what == "parser" {
				replayParser(h)
			} else {
				replayTokenizer(h)
			}
			n++
		}
		run.Traces(int64(n))
		run.Extra[m.what+"_histories"] = n
	}
	run.Exhaustive = true
	run.Finish()
}

func replay(path string) {
	prepare()
	b, err := os.ReadFile(path)
	if err != nil {
		core.Fatalf("replay: %v", err)
	}
	var f struct {
		Violation struct {
			Case struct {
				Machine string  `json:"machine"`
				History []pstep `json:"history"`
			} `json:"case"`
		} `json:"violation"`
	}
	if err := json.Unmarshal(b, &f); err != nil {
		core.Fatalf("replay: %v", err)
	}
	if f.Violation.Case.Machine == "tokenizer" {
		replayTokenizer(f.Violation.Case.History)
	} else {
		replayParser(f.Violation.Case.History)
	}
}

// ---------------------------------------------------------------------------
// concretisation

var (
	sqlOf   = map[string]string{}
	toksOf  = map[string][]models.TokenWithSpan{}
	posLen  = map[string]int{} // length of the position mapping of each input
	tokSQL  = map[string]string{}
	comLen  = map[string]int{}
	drained = false
)

func mustTok(sql string) []models.TokenWithSpan {
	t, err := tokenizer.New()
	if err != nil {
		core.Fatalf("tokenizer.New: %v", err)
	}
	toks, err := t.Tokenize([]byte(sql))
	if err != nil {
		core.Fatalf("workload statement does not tokenize: %q: %v", sql, err)
	}
	return toks
}

func nested(d int) string {
	return "SELECT " + strings.Repeat("(", d) + "1" + strings.Repeat(")", d)
}

func prepare() {
	sqlOf["valid"] = "SELECT a FROM t WHERE a = 1"
	sqlOf["badA"] = "SELECT a,\n  b FROM t WHERE ) x"
	sqlOf["badB"] = "SELECT\n\n a FROM t JOIN\n  ,"
	sqlOf["semis"] = ";; SELECT 1 ;;"
	sqlOf["mylimit"] = "SELECT a FROM t LIMIT 10, 20"
	// deep: the largest parenthesis nesting a fresh parser accepts (calibrated, not hard-coded)
	lo := 1
	for d := 2; d <= 400; d++ {
		p := parser.NewParser()
		tree, err := p.ParseFromModelTokens(mustTok(nested(d)))
		if err != nil {
			break
		}
		ast.ReleaseAST(tree)
		lo = d
	}
	if lo < 5 || lo >= 400 {
		core.Fatalf("could not calibrate the nesting limit (largest accepted depth %d)", lo)
	}
	sqlOf["deep"] = nested(lo)
	run.Extra["calibrated_max_nesting_accepted"] = lo
	for k, s := range sqlOf {
		toksOf[k] = mustTok(s)
		p := parser.NewParser()
		_, _ = p.ParseFromModelTokensWithPositions(toksOf[k])
		posLen[k] = p.VerifState().PositionsLen
	}
	tokSQL["plain"] = "SELECT a FROM t WHERE a = 'x'"
	tokSQL["commented"] = "SELECT a -- first\nFROM t /* block\n comment */ WHERE\n a = 1 -- last"
	tokSQL["badml"] = "SELECT a -- c1\nFROM t\nWHERE a = 'unterminated"
	tokSQL["long"] = "SELECT " + strings.Repeat("a, ", 130) + "a FROM t"
	for k, s := range tokSQL {
		t, _ := tokenizer.New()
		_, _ = t.Tokenize([]byte(s))
		comLen[k] = len(t.Comments)
	}
}

// countingCtx turns done at the k-th call of Err (0-based).
type countingCtx struct {
	context.Context
	n    atomic.Int64
	fire int64
}

func (c *countingCtx) Err() error {
	i := c.n.Add(1) - 1
	if i >= c.fire {
		return context.Canceled
	}
	return nil
}
func (c *countingCtx) Done() <-chan struct{} {
	ch := make(chan struct{})
	if c.n.Load() > c.fire {
		close(ch)
	}
	return ch
}

func cancelledCtx() context.Context {
	c, cancel := context.WithCancel(context.Background())
	cancel()
	return c
}

// drainPools empties the sync.Pools (two GC cycles) so that a history starts from an empty pool; it
// is only needed when an earlier history has put an instance back.
var poolDirty = true

func drainPools() {
	if !poolDirty {
		return
	}
	runtime.GC()
	runtime.GC()
	poolDirty = false
}

// ---------------------------------------------------------------------------
// parser machine

func parserCall(p *parser.Parser, op, in string) (string, bool, string) {
	toks := toksOf[in]
	var tree *ast.AST
	var err error
	switch op {
	case "Parse":
		tree, err = p.ParseFromModelTokens(toks)
	case "ParsePos":
		tree, err = p.ParseFromModelTokensWithPositions(toks)
	case "ParseCtx":
		tree, err = p.ParseContextFromModelTokens(context.Background(), toks)
	case "CtxDone":
		tree, err = p.ParseContextFromModelTokens(cancelledCtx(), toks)
	case "CtxFire":
		tree, err = p.ParseContextFromModelTokens(&countingCtx{Context: context.Background(), fire: 1}, toks)
	case "Recovery":
		stmts, errs := p.ParseWithRecoveryFromModelTokens(toks)
		var es []string
		loc := "nil"
		for _, e := range errs {
			var pe *parser.ParseError
			if errors.As(e, &pe) {
				es = append(es, fmt.Sprintf("%d@%d:%d:%s", pe.TokenIdx, pe.Line, pe.Column, pe.Msg))
				if pe.Line != 0 || pe.Column != 0 {
					loc = "set"
				}
			} else {
				es = append(es, e.Error())
			}
		}
		return project.String(stmts) + "|" + strings.Join(es, ";"), len(errs) == 0, loc
	default:
		core.Fatalf("unknown parser op %q", op)
	}
	if err != nil {
		if tree != nil {
			return "tree-and-error", false, "nil"
		}
		ei := ops.Err(err)
		loc := "nil"
		if ei.Line != 0 || ei.Col != 0 {
			loc = "set"
		}
		return "err:" + ei.String() + "|" + err.Error(), false, loc
	}
	s := project.String(tree.Statements)
	ast.ReleaseAST(tree)
	return s, true, "nil"
}

func replayParser(h []pstep) {
	drainPools()
	var p *parser.Parser
	var put *parser.Parser
	reused := false
	nontrivial := false
	fail := func(i int, sig, clause string, obs, expect any) {
		run.Violate(core.Violation{Sig: sig, Clause: clause,
			Case:    map[string]any{"machine": "parser", "history": h[:i+1], "sql": sqlOf},
			Observe: obs, Expect: expect})
	}
	for i, s := range h {
		switch s.Op {
		case "New":
			var o []parser.ParserOption
			if s.Strict {
				o = append(o, parser.WithStrictMode())
			}
			if s.Dialect != "" {
				o = append(o, parser.WithDialect(s.Dialect))
			}
			p = parser.NewParser(o...)
		case "Get":
			p = parser.GetParser()
			if put != nil && p != put {
				// the pool dropped the instance: a fresh one is also allowed by the specification
				run.Extra["pool_identity_lost"] = true
			}
		case "Put":
			parser.PutParser(p)
			put = p
			poolDirty = true
		case "Apply":
			if s.Opt == "strict" {
				p.ApplyOptions(parser.WithStrictMode())
			} else {
				p.ApplyOptions(parser.WithDialect(s.Opt))
			}
		case "Reset":
			p.Reset()
		case "Release":
			p.Release()
		default:
			if reused {
				nontrivial = true
			}
			got, ok, loc := parserCall(p, s.Op, s.In)
			// oracle 1: the same call on a fresh instance with the holder's configuration
			var o []parser.ParserOption
			if s.St.HStrict {
				o = append(o, parser.WithStrictMode())
			}
			if s.St.HDialect != "" {
				o = append(o, parser.WithDialect(s.St.HDialect))
			}
			want, _, _ := parserCall(parser.NewParser(o...), s.Op, s.In)
			if got != want {
				fail(i, "result-differs-from-fresh|parser|"+s.Op+"|"+diffKind(got, want), "the outcome of a call depends only on its input and the holder's configuration", got, want)
			}
			// oracle 2: the specification's predicted outcome class
			if s.Exp != nil {
				el := s.Exp.Loc
				if el != "nil" && el != "cancelled" {
					el = "set"
				}
				gl := loc
				if s.Exp.Loc == "cancelled" {
					gl = "cancelled"
					if ok {
						gl = "not-cancelled"
					}
				}
				if ok != s.Exp.Ok || (!ok && gl != el) {
					fail(i, "outcome-class-differs-from-spec|parser|"+s.Op+"|"+s.In, "call outcome equals Res(op, input, holder configuration) of ParserInst.tla",
						map[string]any{"ok": ok, "loc": gl, "result": got}, s.Exp)
				}
			}
		}
		reused = true
		// conformance of the instance's fields with the specification state
		vs := p.VerifState()
		var bad []string
		if vs.TokensSet != s.St.Toks {
			bad = append(bad, "tokens")
		}
		if (s.St.Pos == "nil") != (!vs.PositionsSet || vs.PositionsLen == 0) {
			bad = append(bad, "positions")
		} else if s.St.Pos != "nil" && vs.PositionsLen != posLen[s.St.Pos] {
			bad = append(bad, "positions-of-other-input")
		}
		if vs.Strict != s.St.Strict {
			bad = append(bad, "strict")
		}
		if vs.Dialect != s.St.Dialect {
			bad = append(bad, "dialect")
		}
		if vs.Depth != 0 {
			bad = append(bad, "depth")
		}
		if vs.CtxSet {
			bad = append(bad, "ctx")
		}
		if len(bad) > 0 {
			fail(i, "state-differs-from-spec|parser|after-"+s.Op+"|"+strings.Join(bad, "+"), "instance fields at rest equal the specification state (CleanAtRest/CleanInPool)", vs, s.St)
		}
		run.Eval(1)
	}
	if nontrivial {
		run.Nontrivial("p" + core.JSON(h))
	}
	if len(h) >= 3 {
		run.Sample(map[string]any{"machine": "parser", "history": compact(h)})
	}
}

func compact(h []pstep) []string {
	var out []string
	for _, s := range h {
		x := s.Op
		if s.In != "" {
			x += "(" + s.In + ")"
		}
		if s.Opt != "" {
			x += "(" + s.Opt + ")"
		}
		if s.Op == "New" {
			x += fmt.Sprintf("(strict=%v,dialect=%q)", s.Strict, s.Dialect)
		}
		out = append(out, x)
	}
	return out
}

func diffKind(got, want string) string {
	ge, we := strings.HasPrefix(got, "err:"), strings.HasPrefix(want, "err:")
	switch {
	case ge != we:
		return "accept-vs-reject"
	case ge:
		g, _, _ := strings.Cut(got, "|")
		w, _, _ := strings.Cut(want, "|")
		gc, _, _ := strings.Cut(g, "@")
		wc, _, _ := strings.Cut(w, "@")
		if gc != wc {
			return "error-code"
		}
		return "error-location-or-message"
	}
	return "value"
}

// ---------------------------------------------------------------------------
// tokenizer machine

func tokCall(t *tokenizer.Tokenizer, op, in string) (res string, out string) {
	input := []byte(tokSQL[in])
	var toks []models.TokenWithSpan
	var err error
	switch op {
	case "Tokenize":
		toks, err = t.Tokenize(input)
	case "TokenizeCtx":
		toks, err = t.TokenizeContext(context.Background(), input)
	case "CtxDone":
		toks, err = t.TokenizeContext(cancelledCtx(), input)
	case "CtxFire":
		toks, err = t.TokenizeContext(&countingCtx{Context: context.Background(), fire: 2}, input)
	default:
		core.Fatalf("unknown tokenizer op %q", op)
	}
	dial := string(t.Dialect())
	if err != nil {
		out = "lexerror"
		if errors.Is(err, context.Canceled) {
			out = "cancelled"
		}
		// On a failed run the outcome is the error; Tokenizer.Comments is not part of it (an
		// already-cancelled call returns before the instance is touched at all).
		return "err:" + ops.Err(err).String() + "|" + err.Error() + "|" + dial, out
	}
	return ops.TokString(toks, true) + "|" + ops.CommentString(t.Comments) + "|" + dial, "tokens"
}

func newTok(d string) *tokenizer.Tokenizer {
	var t *tokenizer.Tokenizer
	var err error
	if d == "" || d == "postgresql" {
		t, err = tokenizer.New()
	} else {
		t, err = tokenizer.NewWithDialect(keywords.SQLDialect(d))
	}
	if err != nil {
		core.Fatalf("tokenizer.New: %v", err)
	}
	return t
}

func replayTokenizer(h []pstep) {
	drainPools()
	var t, put *tokenizer.Tokenizer
	reused, nontrivial := false, false
	fail := func(i int, sig, clause string, obs, expect any) {
		run.Violate(core.Violation{Sig: sig, Clause: clause,
			Case:    map[string]any{"machine": "tokenizer", "history": h[:i+1], "sql": tokSQL},
			Observe: obs, Expect: expect})
	}
	for i, s := range h {
		switch s.Op {
		case "New":
			t = newTok(s.Dialect)
		case "Get":
			t = tokenizer.GetTokenizer()
			if put != nil && t != put {
				run.Extra["pool_identity_lost"] = true
			}
		case "Put":
			tokenizer.PutTokenizer(t)
			put = t
			poolDirty = true
		case "SetDialect":
			t.SetDialect(keywords.SQLDialect(s.Dialect))
		case "Reset":
			t.Reset()
		default:
			if reused {
				nontrivial = true
			}
			got, out := tokCall(t, s.Op, s.In)
			want, _ := tokCall(newTok(s.St.HDialect), s.Op, s.In)
			if got != want {
				fail(i, "result-differs-from-fresh|tokenizer|"+s.Op+"|"+diffKind(got, want), "the outcome of a call depends only on its input and the holder's configuration", got, want)
			}
			if s.Exp != nil && out != s.Exp.Out {
				fail(i, "outcome-class-differs-from-spec|tokenizer|"+s.Op+"|"+s.In, "call outcome equals Res(op, input, holder dialect) of TokInst.tla", out, s.Exp)
			}
		}
		reused = true
		vs := t.VerifState()
		var bad []string
		if vs.InputSet != s.St.Inp {
			bad = append(bad, "input")
		}
		wantCom := 0
		if s.St.Com != "none" {
			wantCom = comLen[s.St.Com]
		}
		if vs.CommentsLen != wantCom {
			bad = append(bad, "comments")
		}
		if vs.Dialect != s.St.Dialect {
			bad = append(bad, "dialect")
		}
		if !s.St.Inp && (vs.PosIndex != 0 || vs.LineStartsLen != 1) {
			bad = append(bad, "cursor")
		}
		if len(bad) > 0 {
			fail(i, "state-differs-from-spec|tokenizer|after-"+s.Op+"|"+strings.Join(bad, "+"), "instance fields at rest equal the specification state (CleanAtRest/CleanInPool)", vs, s.St)
		}
		run.Eval(1)
	}
	if nontrivial {
		run.Nontrivial("t" + core.JSON(h))
	}
	if len(h) >= 3 {
		run.Sample(map[string]any{"machine": "tokenizer", "history": compact(h)})
	}
}
