// C08 — results never depend on what a reused or pooled object did before.
//
// ParserInst.tla / TokInst.tla model one instance, its pool and its holder's configuration.
// TLC checks HistoryIndependence, CleanInPool, FreshAfterGet/Reset, ConfigIsHolders on the ideal
// machine (and finds the carry-over in the "pinned" shape), and prints one history per transition of
// the complete state graph (transition tour; every pair of consecutive transitions in the thorough
// tier). Each history is stepped through a real instance: after every step the instance's internal
// fields (VerifState hook) must equal the specification state, and every call's complete result must
// equal the same call on a freshly constructed instance carrying the holder's configuration.
package main

import (
	"context"
	"encoding/json"
	"errors"
	"fmt"
	"os"
	"runtime"
	"sort"
	"strings"
	"sync/atomic"
	"time"

	"github.com/ajitpratap0/GoSQLX/pkg/models"
	"github.com/ajitpratap0/GoSQLX/pkg/sql/ast"
	"github.com/ajitpratap0/GoSQLX/pkg/sql/keywords"
	"github.com/ajitpratap0/GoSQLX/pkg/sql/parser"
	"github.com/ajitpratap0/GoSQLX/pkg/sql/tokenizer"

	"verif/internal/core"
	"verif/internal/ops"
	"verif/internal/project"
)

type pstate struct {
	Toks     bool   `json:"toks"`
	Pos      string `json:"pos"`
	Strict   bool   `json:"strict"`
	Dialect  string `json:"dialect"`
	Where    string `json:"where"`
	HStrict  bool   `json:"hstrict"`
	HDialect string `json:"hdialect"`
	// tokenizer machine
	Inp bool   `json:"inp"`
	Com string `json:"com"`
}

type exp struct {
	Ok      bool   `json:"ok"`
	Loc     string `json:"loc"`
	Out     string `json:"out"`
	Com     string `json:"com"`
	Dialect string `json:"dialect"`
}

type pstep struct {
	Op      string `json:"op"`
	In      string `json:"in,omitempty"`
	Opt     string `json:"opt,omitempty"`
	Strict  bool   `json:"strict,omitempty"`
	Dialect string `json:"dialect,omitempty"`
	Exp     *exp   `json:"exp,omitempty"`
	St      pstate `json:"st"`
}

var (
	run  *core.Run
	tier string
)

func main() {
	runtime.GOMAXPROCS(1)
	runtime.LockOSThread()
	tier = os.Getenv("VERIF_TIER")
	if tier == "" {
		tier = "quick"
	}
	run = core.NewRun("C08", tier, "model_checking")
	run.Rule = "one history per transition of the complete state graph of ParserInst.tla and TokInst.tla (quick) / per pair of consecutive transitions (thorough), each replayed on a real instance through the real pools; non-trivial = the history contains a call made after at least one earlier state-changing operation (reuse)"
	run.Assumptions = []string{
		"sync.Pool identity is pinned with GOMAXPROCS(1)+LockOSThread so that the instance put is the instance got (a dropped instance is treated as a fresh one, which the specification also allows)",
		"each abstract input class has several concrete spellings (failures inside every nesting construct, nesting at the calibrated limit of three constructs, leading blanks/tabs/newlines, comments); every history is replayed under several pseudo-randomly chosen concretisations (6 quick / 30 thorough), seeded by VERIF_SEED",
	}
	if len(os.Args) > 2 && os.Args[1] == "--replay" {
		replay(os.Args[2])
		run.Finish()
	}
	prepare()

	for _, m := range []struct{ spec, what string }{{"ParserInst", "parser"}, {"TokInst", "tokenizer"}} {
		r := core.MustTLC(core.TLCOpts{Spec: m.spec, Cfg: m.spec + "_ideal.cfg", Timeout: 5 * time.Minute})
		run.AddTLC(r.Stat(m.what + " instance, ideal machine: HistoryIndependence, CleanInPool, FreshAfterGet, FreshAfterReset, ConfigIsHolders"))
		p, err := core.RunTLC(core.TLCOpts{Spec: m.spec, Cfg: m.spec + "_pinned.cfg", Timeout: 2 * time.Minute})
		if err != nil || p.Violation == "" {
			core.Fatalf("%s_pinned.cfg: the pinned shape must violate an invariant (err %v)\n%s", m.spec, err, p.Output)
		}
		st := p.Stat("pinned shape (omitted resets): TLC must find the carry-over")
		st.ExpectViol = p.Violation
		run.AddTLC(st)
		cfg := m.spec + "_tour.cfg"
		if tier == "thorough" {
			cfg = m.spec + "_pairs.cfg"
		}
		e := core.MustTLC(core.TLCOpts{Spec: m.spec, Cfg: cfg, Timeout: 10 * time.Minute})
		run.AddTLC(e.Stat("transition tour: one history per transition, replayed on the real " + m.what))
		if len(e.Cases) == 0 {
			core.Fatalf("%s exported no histories", cfg)
		}
		n := 0
		for _, c := range e.Cases {
			var h []pstep
			if err := json.Unmarshal([]byte(c), &h); err != nil {
				core.Fatalf("bad history %q: %v", c, err)
			}
			for v := 0; v < variants; v++ {
				if m.what == "parser" {
					replayParser(h, v)
				} else {
					replayTokenizer(h, v)
				}
				n++
			}
		}
		// long random histories: TLC simulates the same machine (no bound on the length of a history) and every
		// behaviour it walks is replayed in full; the tour above covers every transition, these cover what only
		// shows after many operations on one instance
		num, depth := 150, 10
		if tier == "thorough" {
			num, depth = 2500, 18
		}
		sim := core.MustTLC(core.TLCOpts{Spec: m.spec, Cfg: m.spec + "_tour.cfg", Workers: 1, Simulate: fmt.Sprintf("num=%d", num), Depth: depth,
			Seed: 1000 + run.Seed, Timeout: 10 * time.Minute})
		ss := sim.Stat(fmt.Sprintf("random behaviours of the %s machine (%d of %d steps), replayed in full", m.what, num, depth))
		ss.Mode = "simulation"
		run.AddTLC(ss)
		long := 0
		for _, c := range sim.Cases {
			var h []pstep
			if err := json.Unmarshal([]byte(c), &h); err != nil {
				core.Fatalf("bad history %q: %v", c, err)
			}
			if len(h) < depth-1 {
				continue // a prefix of a longer behaviour that is printed as well
			}
			for v := 0; v < 2; v++ {
				if m.what == "parser" {
					replayParser(h, v+long)
				} else {
					replayTokenizer(h, v+long)
				}
			}
			long++
		}
		if long < num/2 {
			core.Fatalf("%s simulation produced only %d full-length histories", m.spec, long)
		}
		run.Traces(int64(n + long))
		run.Extra[m.what+"_histories"] = n
		run.Extra[m.what+"_long_random_histories"] = long
	}
	pairPass()
	run.Exhaustive = true
	run.Finish()
}

// pairPass concretises the abstract paths Call;Call, Call;Reset;Call, Call;Release;Call and
// Call;Put;Get;Call of the two specifications with EVERY ordered pair of spellings (the random
// concretisation of the tour only samples pairs): the second call must equal the call on a fresh instance.
func pairPass() {
	all := func(m map[string][]string, skip string) []string {
		seen := map[string]bool{}
		var out []string
		for c, l := range m {
			if c == skip {
				continue
			}
			for _, s := range l {
				if !seen[s] {
					seen[s] = true
					out = append(out, s)
				}
			}
		}
		sort.Strings(out)
		return out
	}
	n := 0
	// tokenizer
	ts := all(tokSpell, "")
	for _, a := range ts {
		for _, b := range ts {
			for _, sep := range []string{"none", "Reset", "PutGet"} {
				for _, op := range []string{"Tokenize", "TokenizeCtx"} {
					t := newTok("")
					_, _ = tokCall(t, op, a)
					switch sep {
					case "Reset":
						t.Reset()
					case "PutGet":
						tokenizer.PutTokenizer(t)
						t = tokenizer.GetTokenizer()
						poolDirty = true
					}
					got, _ := tokCall(t, op, b)
					want, _ := tokCall(newTok(""), op, b)
					run.Eval(1)
					n++
					run.Nontrivial("tp" + a + "\x00" + b + sep + op)
					if got != want {
						run.Violate(core.Violation{Sig: "result-differs-from-fresh|tokenizer|" + op + "|" + diffKind(got, want),
							Clause: "the outcome of a call depends only on its input and the holder's configuration",
							Case:   map[string]any{"machine": "tokenizer-pairs", "first": a, "separator": sep, "second": b, "op": op}, Observe: got, Expect: want})
					}
				}
			}
		}
	}
	// parser (default configuration, so the dialect-dependent class is an ordinary rejected input here)
	ps := all(parserSpell, "")
	ops1 := []string{"Parse", "ParsePos", "CtxFire"}
	ops2 := []string{"Parse", "ParsePos", "Recovery"}
	if tier != "thorough" {
		ops1 = []string{"Parse", "CtxFire"}
		ops2 = []string{"ParsePos", "Recovery"}
	}
	for _, a := range ps {
		for _, b := range ps {
			for _, sep := range []string{"none", "Reset", "Release", "PutGet"} {
				for i1, op1 := range ops1 {
					for _, op2 := range ops2 {
						p := parser.NewParser()
						_, _, _ = parserCall(p, op1, a, int64(1+i1+len(a)%5))
						switch sep {
						case "Reset":
							p.Reset()
						case "Release":
							p.Release()
						case "PutGet":
							parser.PutParser(p)
							p = parser.GetParser()
							poolDirty = true
						}
						if vs := p.VerifState(); vs.Depth != 0 || vs.CtxSet {
							run.Violate(core.Violation{Sig: "state-differs-from-spec|parser|after-" + op1 + "|depth-or-ctx",
								Clause: "instance fields at rest equal the specification state (CleanAtRest/CleanInPool)",
								Case:   map[string]any{"machine": "parser-pairs", "first": a, "op1": op1, "separator": sep}, Observe: vs})
						}
						got, _, _ := parserCall(p, op2, b, 1)
						want, _, _ := parserCall(parser.NewParser(), op2, b, 1)
						run.Eval(1)
						n++
						if got != want {
							run.Violate(core.Violation{Sig: "result-differs-from-fresh|parser|" + op2 + "|" + diffKind(got, want),
								Clause: "the outcome of a call depends only on its input and the holder's configuration",
								Case:   map[string]any{"machine": "parser-pairs", "first": a, "op1": op1, "separator": sep, "second": b, "op2": op2}, Observe: got, Expect: want})
						}
					}
				}
			}
			run.Nontrivial("pp" + a + "\x00" + b)
		}
	}
	run.Extra["spelling_pair_runs"] = n
}

func replay(path string) {
	prepare()
	b, err := os.ReadFile(path)
	if err != nil {
		core.Fatalf("replay: %v", err)
	}
	var f struct {
		Violation struct {
			Case struct {
				Machine string  `json:"machine"`
				Variant int     `json:"variant"`
				History []pstep `json:"history"`
			} `json:"case"`
		} `json:"violation"`
	}
	if err := json.Unmarshal(b, &f); err != nil {
		core.Fatalf("replay: %v", err)
	}
	if f.Violation.Case.Machine == "tokenizer" {
		replayTokenizer(f.Violation.Case.History, f.Violation.Case.Variant)
	} else {
		replayParser(f.Violation.Case.History, f.Violation.Case.Variant)
	}
}

// ---------------------------------------------------------------------------
// concretisation

// Every abstract input class has several concrete spellings; the spelling used at step i of a history in
// variant v is chosen pseudo-randomly from (seed, v, i), so that one abstract history is replayed under many
// concretisations and two occurrences of the same class in a history usually differ.
var (
	parserSpell = map[string][]string{}
	tokSpell    = map[string][]string{}
	toksOf      = map[string][]models.TokenWithSpan{} // by SQL text
	posLen      = map[string]int{}                    // by SQL text: length of the position mapping
	comLen      = map[string]int{}                    // by SQL text: number of comments
	variants    = 6
)

func mustTok(sql string) []models.TokenWithSpan {
	t, err := tokenizer.New()
	if err != nil {
		core.Fatalf("tokenizer.New: %v", err)
	}
	toks, err := t.Tokenize([]byte(sql))
	if err != nil {
		core.Fatalf("workload statement does not tokenize: %q: %v", sql, err)
	}
	return toks
}

func wrapN(pre, mid, post string, d int) string {
	return strings.Repeat(pre, d) + mid + strings.Repeat(post, d)
}

// calibrate returns the largest nesting depth of a construct that a fresh parser accepts.
func calibrate(name string, build func(d int) string) int {
	lo := 0
	for d := 1; d <= 400; d++ {
		p := parser.NewParser()
		tree, err := p.ParseFromModelTokens(mustTok(build(d)))
		if err != nil {
			break
		}
		ast.ReleaseAST(tree)
		lo = d
	}
	if lo < 3 || lo >= 400 {
		core.Fatalf("could not calibrate the nesting limit of %s (largest accepted depth %d)", name, lo)
	}
	return lo
}

func pick(list []string, v, i int, class string) string {
	h := uint64(run.Seed)*1000003 + uint64(v)*7919 + uint64(i)*104729
	for _, c := range class {
		h = h*31 + uint64(c)
	}
	h ^= h >> 17
	h *= 0x9E3779B97F4A7C15
	h ^= h >> 29
	return list[h%uint64(len(list))]
}

func prepare() {
	if tier == "thorough" {
		variants = 24
	}
	parens := func(d int) string { return "SELECT " + wrapN("(", "1", ")", d) }
	funcs := func(d int) string { return "SELECT " + wrapN("f(", "1", ")", d) + " FROM t" }
	subq := func(d int) string { return "SELECT " + wrapN("(SELECT ", "1", ")", d) }
	dp, df, ds := calibrate("parentheses", parens), calibrate("function calls", funcs), calibrate("scalar sub-queries", subq)
	run.Extra["calibrated_max_nesting_accepted"] = map[string]int{"parentheses": dp, "function_calls": df, "scalar_subqueries": ds}
	parserSpell["valid"] = []string{
		"SELECT a FROM t WHERE a = 1",
		"SELECT a, b FROM (SELECT a, b FROM u) s JOIN v ON s.a = v.a",
		"WITH c AS (SELECT id FROM t) SELECT id FROM c",
		"INSERT INTO t (a) VALUES (1)",
		// one statement per operator level and expression form: whatever a production counts while it runs (depth,
		// look-ahead) is back at rest when the call returns, whichever production returned last
		"SELECT a FROM t WHERE b BETWEEN 1 AND 10 OR c IS NULL",
		"SELECT a FROM t WHERE NOT (a = 1 AND b <> 2) OR c LIKE 'x%' OR d IN (1, 2)",
		"SELECT CASE WHEN a > 1 THEN 'x' ELSE 'y' END, CAST(b AS INT), c || d, -e + f * 2 FROM t",
		"SELECT f(a, g(b)), COUNT(*) FILTER (WHERE a > 1), SUM(a) OVER (PARTITION BY b ORDER BY c) FROM t GROUP BY a HAVING COUNT(*) > 1 OR a = 2",
		"SELECT a FROM t WHERE EXISTS (SELECT 1 FROM u WHERE u.a = t.a OR u.b = 1) ORDER BY a DESC LIMIT 3",
		"UPDATE t SET a = 1 WHERE b = 2 OR c = 3",
		"DELETE FROM t WHERE a = 1 OR b = 2",
		"SELECT a FROM t UNION SELECT b FROM u WHERE c = 1 OR d = 2",
		"MERGE INTO t USING s ON t.a = s.a OR t.b = s.b WHEN MATCHED THEN DELETE",
		"CREATE TABLE t (id INT PRIMARY KEY, a INT CHECK (a > 0 OR a IS NULL))",
	}
	// failing statements: the error sits inside each kind of nesting construct
	bad := []string{
		"SELECT a,\n  b FROM t WHERE ) x",
		"SELECT\n\n a FROM t JOIN\n  ,",
		"SELECT a FROM (SELECT b FROM u WHERE ) x) s",
		"SELECT a FROM t JOIN (SELECT b FROM WHERE) j ON j.b = t.a",
		"WITH c AS (SELECT FROM t) SELECT 1",
		"SELECT a FROM t WHERE a IN (SELECT b FROM)",
		"SELECT CASE WHEN a = THEN 1 END FROM t",
		"SELECT f(a, (b + ), c) FROM t",
		"SELECT a FROM t UNION SELECT FROM u",
		"INSERT INTO t SELECT FROM u",
		"SELECT a FROM (SELECT b FROM (SELECT c FROM (SELECT d FROM) x) y) z",
		"SELECT SUM(a) OVER (PARTITION BY ) FROM t",
		"SELECT a FROM t WHERE EXISTS (SELECT 1 FROM u WHERE (u.a = ))",
		"SELECT a FROM (SELECT b FROM u",
		"SELECT a FROM t WHERE b BETWEEN (SELECT 1 FROM) AND 2",
		"UPDATE t SET a = (SELECT FROM u) WHERE b = 1",
		"SELECT a FROM t WHERE a = 1 OR b IN (1, )",
		"SELECT a FROM t WHERE a = 1 OR f(b, )",
		"SELECT a FROM t WHERE x = 1 AND (y = 2 OR )",
		"SELECT a FROM t WHERE a + (b * ) > 1",
		"SELECT a FROM t ORDER BY a, (b + )",
		parens(dp + 1),
		funcs(df + 3),
		"SELECT a FROM " + wrapN("(SELECT a FROM ", "t WHERE )", ") s", 5),
	}
	parserSpell["badA"] = bad
	parserSpell["badB"] = bad
	parserSpell["semis"] = []string{";; SELECT 1 ;;", "; SELECT a FROM t;;", ";;; SELECT 1; ; SELECT 2"}
	parserSpell["mylimit"] = []string{"SELECT a FROM t LIMIT 10, 20", "SELECT a FROM (SELECT b FROM u LIMIT 1, 2) s"}
	parserSpell["deep"] = []string{parens(dp), funcs(df), subq(ds)}
	for _, l := range parserSpell {
		for _, s := range l {
			if _, ok := toksOf[s]; ok {
				continue
			}
			toksOf[s] = mustTok(s)
			p := parser.NewParser()
			_, _ = p.ParseFromModelTokensWithPositions(toksOf[s])
			posLen[s] = p.VerifState().PositionsLen
		}
	}
	// sanity of the concretisation (machinery, not verdicts): each spelling is in its class on a fresh parser
	for class, l := range parserSpell {
		for _, s := range l {
			tree, err := parser.NewParser().ParseFromModelTokens(toksOf[s])
			if tree != nil {
				ast.ReleaseAST(tree)
			}
			wantOK := class == "valid" || class == "deep" || class == "semis"
			if class != "mylimit" && (err == nil) != wantOK {
				core.Fatalf("spelling %q is not in class %s on a fresh parser (err=%v)", s, class, err)
			}
		}
	}
	tokSpell["plain"] = []string{
		"SELECT a FROM t WHERE a = 'x'",
		"x",
		"\tSELECT a, b FROM t",
		"\n    SELECT 1",
		"a\nb",
		"  \t SELECT 'x'",
		"\n\n\t\tSELECT\n\t a",
		"        SELECT 2",
		"SELECT '" + strings.Repeat("long string ", 400) + "' FROM t",
		"SELECT \"" + strings.Repeat("q", 5000) + "\" FROM t",
	}
	tokSpell["commented"] = []string{
		"SELECT a -- first\nFROM t /* block\n comment */ WHERE\n a = 1 -- last",
		"\t/* c */ SELECT 1",
		"-- only\n   SELECT 1 /* x */",
		"/* a */ /* b */ x",
		"SELECT /* " + strings.Repeat("long comment ", 400) + "*/ a FROM t",
		"-- " + strings.Repeat("long line comment ", 300) + "\nSELECT 1",
	}
	tokSpell["badml"] = []string{
		"SELECT a -- c1\nFROM t\nWHERE a = 'unterminated",
		"/* c */ a '",
		"\t\t-- c\n\t\t'abc",
		"-- c\n\n   \"open",
	}
	tokSpell["badlex"] = []string{
		"SELECT 'abc\\q' FROM t",
		"SELECT 'abc\\",
		"SELECT \"ident",
		"SELECT `tick",
		"SELECT a /* open",
		"SELECT $tag$ body",
		"SELECT 12e FROM t",
		"SELECT a ^^ \x01",
		"SELECT '''triple open",
		"SELECT 'it''s \\z",
	}
	tokSpell["literals"] = []string{
		"SELECT 'x', \"q\", `b`, $$d$$, $t$e$t$, 1.5e3, 'it''s', \"a\"\"b\" FROM t",
		"'x'",
		"\"q\" 'y'",
	}
	tokSpell["long"] = []string{
		"SELECT " + strings.Repeat("a, ", 130) + "a FROM t",
		"\t SELECT " + strings.Repeat("a,\n ", 120) + "a FROM t",
	}
	for class, l := range tokSpell {
		for _, s := range l {
			t, _ := tokenizer.New()
			_, err := t.Tokenize([]byte(s))
			comLen[s] = len(t.Comments)
			if (err != nil) != (class == "badml" || class == "badlex") || (len(t.Comments) > 0) != (class == "commented" || class == "badml") {
				core.Fatalf("tokenizer spelling %q is not in class %s (err=%v, comments=%d)", s, class, err, len(t.Comments))
			}
		}
	}
}

// countingCtx turns done at the k-th call of Err (0-based).
type countingCtx struct {
	context.Context
	n    atomic.Int64
	fire int64
}

func (c *countingCtx) Err() error {
	i := c.n.Add(1) - 1
	if i >= c.fire {
		return context.Canceled
	}
	return nil
}
func (c *countingCtx) Done() <-chan struct{} {
	ch := make(chan struct{})
	if c.n.Load() > c.fire {
		close(ch)
	}
	return ch
}

func cancelledCtx() context.Context {
	c, cancel := context.WithCancel(context.Background())
	cancel()
	return c
}

// drainPools empties the sync.Pools (two GC cycles) so that a history starts from an empty pool; it
// is only needed when an earlier history has put an instance back.
var poolDirty = true

func drainPools() {
	if !poolDirty {
		return
	}
	runtime.GC()
	runtime.GC()
	poolDirty = false
}

// ---------------------------------------------------------------------------
// parser machine

func parserCall(p *parser.Parser, op, sql string, fire int64) (string, bool, string) {
	toks := toksOf[sql]
	var tree *ast.AST
	var err error
	switch op {
	case "Parse":
		tree, err = p.ParseFromModelTokens(toks)
	case "ParsePos":
		tree, err = p.ParseFromModelTokensWithPositions(toks)
	case "ParseCtx":
		tree, err = p.ParseContextFromModelTokens(context.Background(), toks)
	case "CtxDone":
		tree, err = p.ParseContextFromModelTokens(cancelledCtx(), toks)
	case "CtxFire":
		tree, err = p.ParseContextFromModelTokens(&countingCtx{Context: context.Background(), fire: fire}, toks)
	case "Recovery":
		stmts, errs := p.ParseWithRecoveryFromModelTokens(toks)
		var es []string
		loc := "nil"
		for _, e := range errs {
			var pe *parser.ParseError
			if errors.As(e, &pe) {
				es = append(es, fmt.Sprintf("%d@%d:%d:%s", pe.TokenIdx, pe.Line, pe.Column, pe.Msg))
				if pe.Line != 0 || pe.Column != 0 {
					loc = "set"
				}
			} else {
				es = append(es, e.Error())
			}
		}
		return project.String(stmts) + "|" + strings.Join(es, ";"), len(errs) == 0, loc
	default:
		core.Fatalf("unknown parser op %q", op)
	}
	if err != nil {
		if tree != nil {
			return "tree-and-error", false, "nil"
		}
		ei := ops.Err(err)
		loc := "nil"
		if ei.Line != 0 || ei.Col != 0 {
			loc = "set"
		}
		return "err:" + ei.String() + "|" + err.Error(), false, loc
	}
	s := project.String(tree.Statements)
	ast.ReleaseAST(tree)
	return s, true, "nil"
}

func replayParser(h []pstep, v int) {
	if len(h) > 0 && h[0].Op == "Get" {
		drainPools() // only a history that starts by drawing from the pool needs it empty
	}
	var p *parser.Parser
	var put *parser.Parser
	reused := false
	nontrivial := false
	used := []string{}
	posSQL := "" // the input whose position mapping the instance should hold at rest
	fail := func(i int, sig, clause string, obs, expect any) {
		run.Violate(core.Violation{Sig: sig, Clause: clause,
			Case:    map[string]any{"machine": "parser", "variant": v, "history": h[:i+1], "sql": used},
			Observe: obs, Expect: expect})
	}
	for i, s := range h {
		switch s.Op {
		case "New":
			var o []parser.ParserOption
			if s.Strict {
				o = append(o, parser.WithStrictMode())
			}
			if s.Dialect != "" {
				o = append(o, parser.WithDialect(s.Dialect))
			}
			p = parser.NewParser(o...)
		case "Get":
			p = parser.GetParser()
			if put != nil && p != put {
				// the pool dropped the instance: a fresh one is also allowed by the specification
				run.Extra["pool_identity_lost"] = true
			}
		case "Put":
			parser.PutParser(p)
			put = p
			poolDirty = true
		case "Apply":
			if s.Opt == "strict" {
				p.ApplyOptions(parser.WithStrictMode())
			} else {
				p.ApplyOptions(parser.WithDialect(s.Opt))
			}
		case "Reset":
			p.Reset()
		case "Release":
			p.Release()
		default:
			if reused {
				nontrivial = true
			}
			sql := pick(parserSpell[s.In], v, i, s.In)
			used = append(used, sql)
			fire := int64(1 + (v+i)%4)
			if s.Op == "ParsePos" {
				posSQL = sql
			}
			got, ok, loc := parserCall(p, s.Op, sql, fire)
			// oracle 1: the same call on a fresh instance with the holder's configuration
			var o []parser.ParserOption
			if s.St.HStrict {
				o = append(o, parser.WithStrictMode())
			}
			if s.St.HDialect != "" {
				o = append(o, parser.WithDialect(s.St.HDialect))
			}
			want, _, _ := parserCall(parser.NewParser(o...), s.Op, sql, fire)
			if got != want {
				fail(i, "result-differs-from-fresh|parser|"+s.Op+"|"+diffKind(got, want), "the outcome of a call depends only on its input and the holder's configuration", got, want)
			}
			// oracle 2: the specification's predicted outcome class
			if s.Exp != nil {
				el := s.Exp.Loc
				if el != "nil" && el != "cancelled" {
					el = "set"
				}
				gl := loc
				if s.Exp.Loc == "cancelled" {
					gl = "cancelled"
					if ok {
						gl = "not-cancelled"
					}
				}
				// Not every error site attaches a location even when a mapping exists (that is C05/C13's
				// business): "set" in the specification only permits a location, "nil" forbids one.
				locOK := gl == el || (el == "set" && gl == "nil")
				// A context that fires at the k-th poll only cancels calls that poll at least k+1 times.
				if s.Op == "CtxFire" && !strings.Contains(want, "context canceled") {
					locOK, ok = true, s.Exp.Ok
				}
				if ok != s.Exp.Ok || (!ok && !locOK) {
					fail(i, "outcome-class-differs-from-spec|parser|"+s.Op+"|"+s.In, "call outcome equals Res(op, input, holder configuration) of ParserInst.tla",
						map[string]any{"ok": ok, "loc": gl, "result": got}, s.Exp)
				}
			}
		}
		reused = true
		// conformance of the instance's fields with the specification state
		vs := p.VerifState()
		var bad []string
		if vs.TokensSet != s.St.Toks {
			bad = append(bad, "tokens")
		}
		if (s.St.Pos == "nil") != (!vs.PositionsSet || vs.PositionsLen == 0) {
			bad = append(bad, "positions")
		} else if s.St.Pos != "nil" && vs.PositionsLen != posLen[posSQL] {
			bad = append(bad, "positions-of-other-input")
		}
		if vs.Strict != s.St.Strict {
			bad = append(bad, "strict")
		}
		if vs.Dialect != s.St.Dialect {
			bad = append(bad, "dialect")
		}
		if vs.Depth != 0 {
			bad = append(bad, "depth")
		}
		if vs.CtxSet {
			bad = append(bad, "ctx")
		}
		if len(bad) > 0 {
			fail(i, "state-differs-from-spec|parser|after-"+s.Op+"|"+strings.Join(bad, "+"), "instance fields at rest equal the specification state (CleanAtRest/CleanInPool)", vs, s.St)
		}
		run.Eval(1)
	}
	if nontrivial {
		run.Nontrivial(fmt.Sprintf("p%d%s", v, core.JSON(h)))
	}
	if len(h) >= 4 && v == 1 {
		run.Sample(map[string]any{"machine": "parser", "history": compact(h), "sql": used})
	}
}

func compact(h []pstep) []string {
	var out []string
	for _, s := range h {
		x := s.Op
		if s.In != "" {
			x += "(" + s.In + ")"
		}
		if s.Opt != "" {
			x += "(" + s.Opt + ")"
		}
		if s.Op == "New" {
			x += fmt.Sprintf("(strict=%v,dialect=%q)", s.Strict, s.Dialect)
		}
		out = append(out, x)
	}
	return out
}

func diffKind(got, want string) string {
	ge, we := strings.HasPrefix(got, "err:"), strings.HasPrefix(want, "err:")
	switch {
	case ge != we:
		return "accept-vs-reject"
	case ge:
		g, _, _ := strings.Cut(got, "|")
		w, _, _ := strings.Cut(want, "|")
		gc, _, _ := strings.Cut(g, "@")
		wc, _, _ := strings.Cut(w, "@")
		if gc != wc {
			return "error-code"
		}
		return "error-location-or-message"
	}
	return "value"
}

// ---------------------------------------------------------------------------
// tokenizer machine

func tokCall(t *tokenizer.Tokenizer, op, sql string) (res string, out string) {
	input := []byte(sql)
	var toks []models.TokenWithSpan
	var err error
	switch op {
	case "Tokenize":
		toks, err = t.Tokenize(input)
	case "TokenizeCtx":
		toks, err = t.TokenizeContext(context.Background(), input)
	case "CtxDone":
		toks, err = t.TokenizeContext(cancelledCtx(), input)
	case "CtxFire":
		toks, err = t.TokenizeContext(&countingCtx{Context: context.Background(), fire: 2}, input)
	default:
		core.Fatalf("unknown tokenizer op %q", op)
	}
	dial := string(t.Dialect())
	if err != nil {
		out = "lexerror"
		if errors.Is(err, context.Canceled) {
			out = "cancelled"
		}
		// On a failed run the outcome is the error; Tokenizer.Comments is not part of it (an
		// already-cancelled call returns before the instance is touched at all).
		return "err:" + ops.Err(err).String() + "|" + err.Error() + "|" + dial, out
	}
	return ops.TokString(toks, true) + "|" + ops.CommentString(t.Comments) + "|" + dial, "tokens"
}

func newTok(d string) *tokenizer.Tokenizer {
	var t *tokenizer.Tokenizer
	var err error
	if d == "" || d == "postgresql" {
		t, err = tokenizer.New()
	} else {
		t, err = tokenizer.NewWithDialect(keywords.SQLDialect(d))
	}
	if err != nil {
		core.Fatalf("tokenizer.New: %v", err)
	}
	return t
}

func replayTokenizer(h []pstep, v int) {
	if len(h) > 0 && h[0].Op == "Get" {
		drainPools()
	}
	var t, put *tokenizer.Tokenizer
	reused, nontrivial, partial := false, false, false
	used := []string{}
	comSQL := ""
	fail := func(i int, sig, clause string, obs, expect any) {
		run.Violate(core.Violation{Sig: sig, Clause: clause,
			Case:    map[string]any{"machine": "tokenizer", "variant": v, "history": h[:i+1], "sql": used},
			Observe: obs, Expect: expect})
	}
	for i, s := range h {
		switch s.Op {
		case "New":
			t = newTok(s.Dialect)
		case "Get":
			t = tokenizer.GetTokenizer()
			if put != nil && t != put {
				run.Extra["pool_identity_lost"] = true
			}
		case "Put":
			tokenizer.PutTokenizer(t)
			put = t
			poolDirty = true
		case "SetDialect":
			t.SetDialect(keywords.SQLDialect(s.Dialect))
		case "Reset":
			t.Reset()
		default:
			if reused {
				nontrivial = true
			}
			sql := pick(tokSpell[s.In], v, i, s.In)
			used = append(used, sql)
			if s.Op != "CtxDone" {
				comSQL = sql
			}
			got, out := tokCall(t, s.Op, sql)
			want, _ := tokCall(newTok(s.St.HDialect), s.Op, sql)
			if got != want {
				fail(i, "result-differs-from-fresh|tokenizer|"+s.Op+"|"+diffKind(got, want), "the outcome of a call depends only on its input and the holder's configuration", got, want)
			}
			// how many polls a run makes (and therefore whether a context firing at the k-th poll cancels it) is
			// not fixed by the property: for CtxFire the fresh instance decides
			if s.Exp != nil && out != s.Exp.Out && !(s.Op == "CtxFire" && got == want) {
				fail(i, "outcome-class-differs-from-spec|tokenizer|"+s.Op+"|"+s.In, "call outcome equals Res(op, input, holder dialect) of TokInst.tla", out, s.Exp)
			}
		}
		reused = true
		vs := t.VerifState()
		var bad []string
		if vs.InputSet != s.St.Inp {
			bad = append(bad, "input")
		}
		wantCom := 0
		if s.St.Com != "none" {
			wantCom = comLen[comSQL]
		}
		// a run cancelled half-way has captured a prefix of the comments, and keeps it until the next call that
		// tokenizes or clears
		switch s.Op {
		case "CtxFire":
			partial = true
		case "SetDialect", "CtxDone": // neither tokenizes nor clears (a context that is already done returns at once)
		default:
			partial = false
		}
		cancelledMidRun := partial && vs.CommentsLen <= wantCom
		if vs.CommentsLen != wantCom && !cancelledMidRun {
			bad = append(bad, "comments")
		}
		if vs.Dialect != s.St.Dialect {
			bad = append(bad, "dialect")
		}
		if !s.St.Inp && (vs.PosIndex != 0 || vs.LineStartsLen != 1) {
			bad = append(bad, "cursor")
		}
		if len(bad) > 0 {
			fail(i, "state-differs-from-spec|tokenizer|after-"+s.Op+"|"+strings.Join(bad, "+"), "instance fields at rest equal the specification state (CleanAtRest/CleanInPool)", vs, s.St)
		}
		run.Eval(1)
	}
	if nontrivial {
		run.Nontrivial(fmt.Sprintf("t%d%s", v, core.JSON(h)))
	}
	if len(h) >= 4 && v == 1 {
		run.Sample(map[string]any{"machine": "tokenizer", "history": compact(h), "sql": used})
	}
}
