// C20 — processing cost grows near-linearly with input size.
//
//	M  Cost.tla: work accounting for the stages whose cost per element is not constant by construction (offset
//	   to position conversion while tokenizing, text building while serialising) over four families; NearLinear
//	   bounds the total by K n (1 + log n); the pinned shapes (rescan per token, concatenation per node) violate it.
//	R  a catalogue of input families parameterised by n (one long line, many lines, comment lines, block comments,
//	   operator chains, wide lists, VALUES rows, CASE branches, many statements, long literals, joins, qualified
//	   names, blank runs, UNION chains) is run through every operation in child processes at sizes n, 2n, 4n on a
//	   ladder that starts where a call costs >= 15 ms of CPU: user CPU time (minimum of three runs) and bytes
//	   allocated are measured; growth by more than 11x in time or in allocation over the two doublings, with each doubling above 2.8x / 3x (linear
//	   = 4x, n log n = 4.4x, quadratic = 16x) is a violation.
package main

import (
	"encoding/json"
	"fmt"
	"hash/fnv"
	"os"
	"runtime"
	"sort"
	"strconv"
	"strings"
	"sync"
	"syscall"
	"time"

	clicmd "github.com/ajitpratap0/GoSQLX/cmd/gosqlx/cmd"
	"github.com/ajitpratap0/GoSQLX/pkg/gosqlx"
	"github.com/ajitpratap0/GoSQLX/pkg/sql/ast"
	"github.com/ajitpratap0/GoSQLX/pkg/sql/security"

	"verif/internal/core"
	"verif/internal/lexconc"
	"verif/internal/ops"
)

type family struct {
	name  string
	build func(n int) string
}

func join(n int, f func(i int) string, sep string) string {
	var b strings.Builder
	for i := 0; i < n; i++ {
		if i > 0 {
			b.WriteString(sep)
		}
		b.WriteString(f(i))
	}
	return b.String()
}

var families = []family{
	{"one-long-line", func(n int) string {
		return "SELECT " + join(n, func(i int) string { return fmt.Sprintf("c%d", i) }, ", ") + " FROM t"
	}},
	{"many-lines", func(n int) string {
		return "SELECT\n" + join(n, func(i int) string { return fmt.Sprintf("  c%d", i) }, ",\n") + "\nFROM t"
	}},
	{"comment-lines", func(n int) string {
		return join(n, func(i int) string { return fmt.Sprintf("-- comment number %d", i) }, "\n") + "\nSELECT 1"
	}},
	{"block-comments", func(n int) string { return "SELECT " + join(n, func(i int) string { return "/* c */" }, " ") + " 1" }},
	{"block-comment-lines", func(n int) string {
		return join(n, func(i int) string { return fmt.Sprintf("/* note %d */ SELECT %d;", i, i) }, "\n")
	}},
	// comments AFTER code on their line (the serialisers re-attach these differently from comments on a line of their own)
	{"trailing-line-comments", func(n int) string {
		return join(n, func(i int) string { return fmt.Sprintf("SELECT a FROM t%d; -- note %d", i, i) }, "\n")
	}},
	{"trailing-block-comments", func(n int) string {
		return join(n, func(i int) string { return fmt.Sprintf("SELECT %d; /* note */", i) }, "\n")
	}},
	{"inline-comments-in-list", func(n int) string {
		return "SELECT\n" + join(n, func(i int) string { return fmt.Sprintf("  c%d, -- column %d", i, i) }, "\n") + "\n  z\nFROM t"
	}},
	// n DISTINCT names of a kind (anything that looks a name up among those seen so far, or searches for the partner
	// of each, pays per distinct name)
	{"distinct-dollar-tags-unclosed", func(n int) string {
		return "SELECT " + join(n, func(i int) string { return fmt.Sprintf("$t%07d$ x", i) }, ", ")
	}},
	{"distinct-dollar-tags-closed", func(n int) string {
		return "SELECT " + join(n, func(i int) string { return fmt.Sprintf("$t%07d$ x $t%07d$", i, i) }, ", ")
	}},
	{"distinct-tables", func(n int) string {
		return "SELECT * FROM " + join(n, func(i int) string { return fmt.Sprintf("tab%d", i) }, ", ")
	}},
	{"distinct-functions", func(n int) string {
		return "SELECT " + join(n, func(i int) string { return fmt.Sprintf("fn%d(a)", i) }, ", ") + " FROM t"
	}},
	{"distinct-qualified-columns", func(n int) string {
		return "SELECT " + join(n, func(i int) string { return fmt.Sprintf("t%d.c%d", i, i) }, ", ") + " FROM t"
	}},
	{"comment-only-lines", func(n int) string { return join(n, func(i int) string { return "/* c */" }, "\n") + "\nSELECT 1" }},
	{"blanks-then-comments", func(n int) string {
		return strings.Repeat(" ", n*5) + join(n, func(i int) string { return "/*c*/" }, "") + " SELECT 1"
	}},
	{"indented-lines", func(n int) string {
		return "SELECT\n" + join(n, func(i int) string { return strings.Repeat(" ", 40) + fmt.Sprintf("c%d", i) }, ",\n") + "\nFROM t"
	}},
	{"or-chain", func(n int) string {
		return "SELECT a FROM t WHERE " + join(n, func(i int) string { return fmt.Sprintf("a = %d", i) }, " OR ")
	}},
	{"and-chain", func(n int) string {
		return "SELECT a FROM t WHERE " + join(n, func(i int) string { return fmt.Sprintf("c%d > %d", i, i) }, " AND ")
	}},
	{"plus-chain", func(n int) string {
		return "SELECT " + join(n, func(i int) string { return fmt.Sprintf("c%d", i) }, " + ") + " FROM t"
	}},
	{"concat-chain", func(n int) string {
		return "SELECT " + join(n, func(i int) string { return fmt.Sprintf("'s%d'", i) }, " || ") + " FROM t"
	}},
	{"in-list", func(n int) string {
		return "SELECT a FROM t WHERE a IN (" + join(n, func(i int) string { return strconv.Itoa(i) }, ", ") + ")"
	}},
	{"values-rows", func(n int) string {
		return "INSERT INTO t (a, b) VALUES " + join(n, func(i int) string { return fmt.Sprintf("(%d, 'v%d')", i, i) }, ", ")
	}},
	{"case-whens", func(n int) string {
		return "SELECT CASE " + join(n, func(i int) string { return fmt.Sprintf("WHEN a = %d THEN %d", i, i) }, " ") + " ELSE 0 END FROM t"
	}},
	{"many-statements", func(n int) string {
		return join(n, func(i int) string { return fmt.Sprintf("SELECT a, b FROM t%d WHERE a = %d", i, i) }, ";\n")
	}},
	{"many-bad-statements", func(n int) string {
		return join(n, func(i int) string { return fmt.Sprintf("SELECT a FROM t%d WHERE", i) }, ";\n")
	}},
	{"alternating-bad-statements", func(n int) string {
		return join(n, func(i int) string {
			if i%2 == 0 {
				return fmt.Sprintf("SELECT a FROM t%d", i)
			}
			return "SELECT FROM )"
		}, ";\n")
	}},
	{"long-literal", func(n int) string { return "SELECT '" + strings.Repeat("x", n*8) + "' FROM t" }},
	{"long-identifier", func(n int) string { return "SELECT " + strings.Repeat("y", n*8) + " FROM t" }},
	// the long-lexeme families with multi-byte content (a scan that is restarted at every multi-byte character)
	{"long-literal-multibyte", func(n int) string { return "SELECT '" + strings.Repeat("\u4f60\u597d \u00e9t\u00e9 ", n*2) + "' FROM t" }},
	{"long-quoted-identifier-multibyte", func(n int) string { return "SELECT \"" + strings.Repeat("\u00fc\u00f1\u00ef ", n*2) + "\" FROM t" }},
	{"long-comment-multibyte", func(n int) string { return "SELECT /* " + strings.Repeat("\u4e16\u754c \u00e0 ", n*2) + "*/ 1 -- " + strings.Repeat("\u00e9", n*4) }},
	{"long-dollar-body-multibyte", func(n int) string { return "SELECT $$" + strings.Repeat("\u4f60 \u00e9 ", n*2) + "$$" }},
	{"typographic-quoted-literals", func(n int) string {
		return "SELECT " + join(n, func(i int) string { return "\u2018v\u2019" }, ", ") + " FROM t"
	}},
	{"multibyte-literals", func(n int) string {
		return "SELECT " + join(n, func(i int) string { return "'\u00e9\u4f60'" }, ", ") + " FROM t"
	}},
	{"joins", func(n int) string {
		return "SELECT t0.a FROM t0 " + join(n/4+1, func(i int) string { return fmt.Sprintf("JOIN t%d ON t%d.k = t0.k", i+1, i+1) }, " ")
	}},
	{"qualified-names", func(n int) string {
		return "SELECT " + join(n, func(i int) string { return fmt.Sprintf("s.t.c%d", i) }, ", ") + " FROM s.t"
	}},
	{"blank-run", func(n int) string { return "SELECT" + strings.Repeat(" \t\n", n*3) + "1" }},
	{"function-args", func(n int) string {
		return "SELECT f(" + join(n, func(i int) string { return strconv.Itoa(i) }, ", ") + ") FROM t"
	}},
	{"union-chain", func(n int) string {
		return join(n/4+1, func(i int) string { return fmt.Sprintf("SELECT c%d FROM t%d", i, i) }, " UNION ALL ")
	}},
	{"order-by-list", func(n int) string {
		return "SELECT a FROM t ORDER BY " + join(n, func(i int) string { return fmt.Sprintf("c%d DESC", i) }, ", ")
	}},
}

// lexeme runs: n copies of ONE lexeme of the lexical grammar, blank-separated - every word the tokenizer treats
// specially (the words that can start a compound keyword make it look ahead) and one lexeme of every other kind.
// Most of these texts are not statements; the operations that read the whole text whatever it is must still be
// near-linear on them.
var runOps = map[string]bool{"tokenize": true, "lint": true, "scan-sql": true, "recovery": true}

func init() {
	lexemes := append([]string{}, lexconc.KeywordSpellings...)
	lexemes = append(lexemes, "abc", "12345", "1.5e3", "'abc'", "\"ab\"", "`ab`", "$$a$$", "$1", "->>", "||", "::", "(", ",", "JOIN", "BY")
	for _, l := range lexemes {
		l := l
		families = append(families, family{"run:" + l, func(n int) string { return join(n*2, func(int) string { return l }, " ") }})
	}
}

type operation struct {
	name string
	f    func(sql string)
}

var operations = []operation{
	{"tokenize", func(s string) { _ = ops.Tokenize(s) }},
	{"parse", func(s string) {
		if t, err := gosqlx.Parse(s); err == nil {
			ast.ReleaseAST(t)
		}
	}},
	{"validate", func(s string) { _ = gosqlx.Validate(s) }},
	{"format", func(s string) { _, _ = gosqlx.Format(s, gosqlx.DefaultFormatOptions()) }},
	{"ast-sql", func(s string) {
		if t, err := gosqlx.Parse(s); err == nil {
			_ = t.SQL()
			ast.ReleaseAST(t)
		}
	}},
	{"formatter-pkg", func(s string) { _ = ops.FormatPkg(s) }},
	{"cli-formatter", func(s string) {
		if t, err := gosqlx.Parse(s); err == nil {
			_, _ = clicmd.NewSQLFormatter(clicmd.FormatterOptions{Indent: "  ", UppercaseKw: true}).Format(t)
			ast.ReleaseAST(t)
		}
	}},
	{"scan-tree", func(s string) {
		if t, err := gosqlx.Parse(s); err == nil {
			_ = security.NewScanner().Scan(t)
			ast.ReleaseAST(t)
		}
	}},
	{"scan-sql", func(s string) { _ = security.NewScanner().ScanSQL(s) }},
	{"extract", func(s string) { _ = ops.Extract(s) }},
	{"lint", func(s string) { _ = ops.Lint(s) }},
	{"recovery", func(s string) { _, _ = gosqlx.ParseWithRecovery(s) }},
}

type point struct {
	N      int     `json:"n"`
	Bytes  int     `json:"bytes"`
	CPUms  float64 `json:"cpu_ms"`
	AllocB uint64  `json:"alloc_bytes"`
}
type measurement struct {
	Family string  `json:"family"`
	Op     string  `json:"op"`
	Points []point `json:"points"`
	Note   string  `json:"note,omitempty"`
}

func cpuNow() time.Duration {
	var ru syscall.Rusage
	_ = syscall.Getrusage(syscall.RUSAGE_SELF, &ru)
	return time.Duration(ru.Utime.Sec)*time.Second + time.Duration(ru.Utime.Usec)*time.Microsecond +
		time.Duration(ru.Stime.Sec)*time.Second + time.Duration(ru.Stime.Usec)*time.Microsecond
}

func measure(op operation, sql string, reps int) (float64, uint64) {
	best := time.Duration(1<<62 - 1)
	var alloc uint64
	for r := 0; r < reps; r++ {
		// two collections empty every sync.Pool (the second drops the victim cache): each repetition allocates
		// its buffers afresh, so the bytes allocated do not depend on what an earlier repetition left in a pool
		runtime.GC()
		runtime.GC()
		var m0, m1 runtime.MemStats
		runtime.ReadMemStats(&m0)
		t0 := cpuNow()
		op.f(sql)
		d := cpuNow() - t0
		runtime.ReadMemStats(&m1)
		if d < best {
			best = d
		}
		a := m1.TotalAlloc - m0.TotalAlloc
		if r == 0 || a < alloc {
			alloc = a
		}
		if d > 8*time.Second {
			break
		}
	}
	return float64(best.Microseconds()) / 1000, alloc
}

func child(fam, opn string, capBytes int, out string) {
	runtime.GOMAXPROCS(2)
	var f *family
	var op *operation
	for i := range families {
		if families[i].name == fam {
			f = &families[i]
		}
	}
	for i := range operations {
		if operations[i].name == opn {
			op = &operations[i]
		}
	}
	if f == nil || op == nil {
		core.Fatalf("unknown family/op %s/%s", fam, opn)
	}
	m := measurement{Family: fam, Op: opn}
	// warm up
	op.f(f.build(50))
	n := 500
	for {
		sql := f.build(n)
		ms, _ := measure(*op, sql, 1)
		if ms >= 15 || len(f.build(n*8)) > capBytes {
			break
		}
		n *= 2
	}
	ladder := []int{n, 2 * n, 4 * n}
	if os.Getenv("VERIF_TIER") == "thorough" {
		ladder = append(ladder, 8*n, 16*n) // towards the size limit: a super-linear term with a small constant shows later
	}
	for _, k := range ladder {
		sql := f.build(k)
		if len(sql) > capBytes {
			m.Note = "ladder cut at the size cap"
			break
		}
		ms, al := measure(*op, sql, 3)
		m.Points = append(m.Points, point{N: k, Bytes: len(sql), CPUms: ms, AllocB: al})
		if ms > 30000 {
			m.Note = "ladder cut: a single call took more than 30 s"
			break
		}
	}
	// quick tier: while the last doubling cost clearly more than twice as much and calls are still cheap, the ladder goes
	// on (up to two more doublings) - a super-linear term with a small constant (a search that is fast per byte but
	// repeated per element) only dominates on larger inputs
	growing := func() bool {
		p := m.Points
		return p[len(p)-1].CPUms < 2000 && p[len(p)-1].CPUms > 2.5*p[len(p)-2].CPUms
	}
	if os.Getenv("VERIF_TIER") != "thorough" && len(m.Points) == 3 {
		for k := 8 * n; k <= 16*n && growing(); k *= 2 {
			sql := f.build(k)
			if len(sql) > capBytes {
				break
			}
			ms, al := measure(*op, sql, 3)
			m.Points = append(m.Points, point{N: k, Bytes: len(sql), CPUms: ms, AllocB: al})
		}
	}
	b, _ := json.Marshal(m)
	if err := os.WriteFile(out, b, 0o644); err != nil {
		core.Fatalf("%v", err)
	}
}

var run *core.Run

func main() {
	if len(os.Args) > 1 && os.Args[1] == "--child" {
		capB, _ := strconv.Atoi(os.Args[4])
		child(os.Args[2], os.Args[3], capB, strings.TrimSuffix(os.Args[5], ".cov"))
		return
	}
	tier := os.Getenv("VERIF_TIER")
	if tier == "" {
		tier = "quick"
	}
	run = core.NewRun("C20", tier, "model_checking")
	run.Rule = "every family of the catalogue x every operation (quick: every family through tokenize/parse/format/scan-sql/lint, every comment family through the comment-preserving formatter, and every operation on four families) at sizes n, 2n, 4n, the ladder starting where a call costs >= 15 ms and capped at 2.5 MiB (quick) / 10 MiB (thorough); non-trivial = a (family, operation) pair with three measured sizes of which the smallest costs >= 15 ms"
	run.Assumptions = []string{
		"cost is observed as user+system CPU time of the calling process (getrusage, minimum of three runs) and as bytes allocated; growth over two doublings above 11x (with each doubling above 2.8x for time, 3x for allocation) is called super-linear: linear gives 4x, n log n 4.4x, quadratic 16x",
		"pairs whose calls stay below 15 ms at the size cap are judged on allocation only",
	}
	ok := core.MustTLC(core.TLCOpts{Spec: "Cost", Cfg: "Cost_ok.cfg", Workers: 4, Timeout: 5 * time.Minute})
	run.AddTLC(ok.Stat("work accounting with cached positions and a text builder: NearLinear for every n <= 64"))
	for _, c := range []struct{ cfg, what string }{{"Cost_rescan.cfg", "pinned position conversion (rescans line table and line prefix per token)"}, {"Cost_concat.cfg", "text built by concatenation per node of a left-deep chain"}} {
		r, err := core.RunTLC(core.TLCOpts{Spec: "Cost", Cfg: c.cfg, Workers: 4, Timeout: 5 * time.Minute})
		if err != nil || r.Violation != "NearLinear" {
			core.Fatalf("%s must violate NearLinear (got %q, %v)", c.cfg, r.Violation, err)
		}
		st := r.Stat(c.what + ": the bound is exceeded")
		st.ExpectViol = "NearLinear"
		run.AddTLC(st)
	}
	capBytes := 2560 << 10
	if tier == "thorough" {
		capBytes = 10 << 20
	}
	type job struct {
		fam, op string
		m       measurement
		failed  string
	}
	var jobs []*job
	quickOps := map[string]bool{"tokenize": true, "parse": true, "format": true, "scan-sql": true, "lint": true}
	quickFams := map[string]bool{"or-chain": true, "many-lines": true, "values-rows": true, "plus-chain": true}
	for _, f := range families {
		for _, o := range operations {
			if strings.HasPrefix(f.name, "run:") {
				if !runOps[o.name] {
					continue
				}
			} else if tier != "thorough" && !quickOps[o.name] && !quickFams[f.name] &&
				!(o.name == "formatter-pkg" && strings.Contains(f.name, "comment")) && // the serialiser that re-attaches comments, on every comment family
				!(o.name == "extract" && strings.HasPrefix(f.name, "distinct-")) && // the extractors de-duplicate names
				!(o.name == "recovery" && strings.Contains(f.name, "statements")) { // the recovery loop, on scripts
				continue
			}
			jobs = append(jobs, &job{fam: f.name, op: o.name})
		}
	}
	runJob := func(j *job) {
		h := fnv.New64a() // family names may hold characters that cannot stand in a file name
		h.Write([]byte(j.fam))
		out := fmt.Sprintf("%s/verif-c20-%d-%x-%s.json", os.TempDir(), os.Getpid(), h.Sum64(), j.op)
		r := run.RunChild([]string{"--child", j.fam, j.op, strconv.Itoa(capBytes)}, out+".cov", 15*time.Minute)
		j.failed = ""
		switch {
		case r.TimedOut:
			j.failed = "timeout"
		case r.Crashed:
			j.failed = "crash: " + core.CrashLine(r.Text)
		default:
			b, err := os.ReadFile(out)
			j.m = measurement{}
			if err != nil || json.Unmarshal(b, &j.m) != nil {
				core.Fatalf("child %s/%s left no result: %s", j.fam, j.op, r.Text)
			}
		}
		os.Remove(out)
	}
	// timeSuspect: CPU time grew like a quadratic over some window of three sizes
	timeSuspect := func(j *job) bool {
		p := j.m.Points
		for w := 0; w+2 < len(p); w++ {
			if p[w].CPUms >= 15 && p[w+2].CPUms/maxf(p[w].CPUms, 0.001) > 9 && p[w+1].CPUms/p[w].CPUms > 2.9 && p[w+2].CPUms/p[w+1].CPUms > 2.9 {
				return true
			}
		}
		return false
	}
	var wg sync.WaitGroup
	ch := make(chan *job, len(jobs))
	for _, j := range jobs {
		ch <- j
	}
	close(ch)
	for w := 0; w < 7; w++ { // seven children of two threads each: below the sixteen cores, so that they do not slow each other down
		wg.Add(1)
		go func() {
			defer wg.Done()
			for j := range ch {
				runJob(j)
			}
		}()
	}
	wg.Wait()
	// CPU time measured while nine other measurements (and whatever else the machine runs) compete for caches and
	// memory bandwidth is noisy; a suspected super-linear TIME growth is measured again, alone, up to twice: a real
	// quadratic shows every time, noise does not
	remeasured := 0
	for _, j := range jobs {
		// (a pair whose growth is a listed finding is not measured again: it is what it is)
		for try := 0; try < 2 && j.failed == "" && timeSuspect(j) && !run.IsKnown("superlinear-time|"+j.op+"|"+j.fam); try++ {
			remeasured++
			runJob(j)
		}
	}
	run.Extra["pairs_measured_again_alone"] = remeasured
	var table []string
	for _, j := range jobs {
		run.Eval(int64(len(j.m.Points)))
		cse := map[string]any{"kind": "cost", "family": j.fam, "operation": j.op, "points": j.m.Points, "note": j.m.Note}
		if j.failed != "" {
			if j.failed == "timeout" {
				run.Violate(core.Violation{Sig: "superlinear-time|" + j.op + "|" + j.fam, Clause: "no input within the size limit makes a single call take time quadratic in its length", Case: cse, Observe: "the size ladder did not finish in 15 minutes"})
				continue
			}
			core.Fatalf("measurement child %s/%s failed: %s", j.fam, j.op, j.failed)
		}
		p := j.m.Points
		if len(p) >= 2 && p[len(p)-1].CPUms > 30000 {
			run.Violate(core.Violation{Sig: "superlinear-time|" + j.op + "|" + j.fam, Clause: "no input within the size limit makes a single call take time quadratic in its length", Case: cse,
				Observe: fmt.Sprintf("%.0f ms at %d bytes", p[len(p)-1].CPUms, p[len(p)-1].Bytes)})
			continue
		}
		if len(p) < 3 {
			table = append(table, fmt.Sprintf("%s/%s: %d sizes measured (%s)", j.fam, j.op, len(p), j.m.Note))
			continue
		}
		// with more than three sizes every window of three consecutive sizes is judged: the worst one is kept
		if len(p) > 3 {
			best, bestTr := 0, 0.0
			for w := 0; w+2 < len(p); w++ {
				t := p[w+2].CPUms / maxf(p[w].CPUms, 0.001)
				if p[w].CPUms >= 15 && t > 9 && p[w+1].CPUms/p[w].CPUms > 2.9 && p[w+2].CPUms/p[w+1].CPUms > 2.9 {
					t += 1000 // a window that meets the rule below wins over one that merely has the larger quotient
				}
				if p[w].CPUms >= 15 && t > bestTr {
					best, bestTr = w, t
				}
			}
			p = p[best : best+3]
		}
		tr := p[2].CPUms / maxf(p[0].CPUms, 0.001)
		ar := float64(p[2].AllocB) / maxf(float64(p[0].AllocB), 1)
		table = append(table, fmt.Sprintf("%s/%s: n=%d %.1fms -> 4n %.1fms (x%.1f), alloc x%.1f", j.fam, j.op, p[0].N, p[0].CPUms, p[2].CPUms, tr, ar))
		if len(table)%17 == 3 {
			run.Sample(map[string]any{"family": j.fam, "operation": j.op, "points": p, "time_growth": tr, "allocation_growth": ar})
		}
		if p[0].CPUms >= 15 {
			run.Nontrivial(j.fam + "/" + j.op)
			if tr > 9 && p[1].CPUms/p[0].CPUms > 2.9 && p[2].CPUms/p[1].CPUms > 2.9 {
				run.Violate(core.Violation{Sig: "superlinear-time|" + j.op + "|" + j.fam, Clause: "doubling an input roughly doubles the cost", Case: cse,
					Observe: fmt.Sprintf("CPU time grew %.1fx over two doublings (%.0f ms -> %.0f ms)", tr, p[0].CPUms, p[2].CPUms), Expect: "about 4x (4.4x for n log n)"})
			}
		}
		if p[0].AllocB > 1<<20 && ar > 11 && float64(p[1].AllocB)/float64(p[0].AllocB) > 3 && float64(p[2].AllocB)/float64(p[1].AllocB) > 3 {
			run.Violate(core.Violation{Sig: "superlinear-allocation|" + j.op + "|" + j.fam, Clause: "doubling an input roughly doubles the cost", Case: cse,
				Observe: fmt.Sprintf("bytes allocated grew %.1fx over two doublings (%d -> %d)", ar, p[0].AllocB, p[2].AllocB), Expect: "about 4x"})
		}
	}
	sort.Strings(table)
	run.Extra["growth_table"] = table
	run.Exhaustive = false
	run.Finish()
}

func maxf(a, b float64) float64 {
	if a > b {
		return a
	}
	return b
}
