// C18 — language server never dies, answers each request once, mirrors the document.
//
//	M  Lsp.tla (conversation: requests of every kind, open/change/close/save, malformed frames; invariants
//	   OneResponsePerRequest, DiagnosticsOfCurrentText, ClearedOnClose, AlwaysAlive) and LspEdit.tla (the
//	   reference edit function over UTF-16 code units with clamping; laws Defined, Conserves, NoOp, Whole,
//	   ClampLine) are model checked by TLC.
//	R  every transition of Lsp.tla is reached by one history (transition tour); each history is serialised
//	   to JSON-RPC frames and written to a real lsp.Server; after every frame the frames the server wrote are
//	   parsed (exact Content-Length, valid JSON), responses are matched against the ids the specification says
//	   must / may be answered, the published diagnostics against the specification's, and the server's mirror
//	   (Documents().GetContent) against the specification's document. Every case of LspEdit.tla (all texts up
//	   to 2-3 code points x all ranges incl. negative, inverted, past-the-end x 5 insert texts) is applied to a
//	   real server through didOpen + didChange and the mirror compared with the allowed results.
package main

import (
	"bytes"
	"encoding/json"
	"fmt"
	"io"
	"os"
	"os/exec"
	"sort"
	"strconv"
	"strings"
	"sync"
	"time"

	"github.com/ajitpratap0/GoSQLX/pkg/gosqlx"
	"github.com/ajitpratap0/GoSQLX/pkg/lsp"

	"verif/internal/core"
)

var (
	run  *core.Run
	tier string
)

func main() {
	tier = os.Getenv("VERIF_TIER")
	if tier == "" {
		tier = "quick"
	}
	run = core.NewRun("C18", tier, "model_checking")
	run.Rule = "conversations: one history per transition of Lsp.tla's complete state graph, each replayed frame by frame on a fresh real server; " +
		"edits: every case of LspEdit.tla; non-trivial = a history containing a document change, a malformed frame or a request with an out-of-range/negative position, or an edit case whose range is not the whole document"
	run.Assumptions = []string{
		"fewer than 100 messages are sent to one server instance, so the rate limiter (which may drop messages by design) never interferes",
		"for negative or inverted ranges only survival is required; the resulting text is unconstrained",
		"statements are concretised so that the library reports exactly one recovery error per bad statement and none per good one (re-checked on every run)",
		"a frame with a malformed header carries no body (otherwise the byte stream has no defined framing afterwards)",
	}
	if len(os.Args) > 1 && os.Args[1] == "--child" {
		child(os.Args[2], os.Args[3:])
		return
	}
	if len(os.Args) > 2 && os.Args[1] == "--replay" {
		runChild("replay", os.Args[2])
		run.Finish()
	}
	// M + export
	cfg := "Lsp_quick.cfg"
	if tier == "thorough" {
		cfg = "Lsp_tour.cfg"
	}
	l := core.MustTLC(core.TLCOpts{Spec: "Lsp", Cfg: cfg, Timeout: 10 * time.Minute})
	run.AddTLC(l.Stat("conversation model: OneResponsePerRequest, DiagnosticsOfCurrentText, ClearedOnClose, AlwaysAlive; one history per transition"))
	ecfg := "LspEdit_2.cfg"
	if tier == "thorough" {
		ecfg = "LspEdit_3.cfg"
	}
	e := core.MustTLC(core.TLCOpts{Spec: "LspEdit", Cfg: ecfg, Timeout: 15 * time.Minute})
	run.AddTLC(e.Stat("reference edit function: Defined, Conserves, NoOp, Whole, ClampLine; one state per (text, range, insert) case"))
	if len(l.Cases) == 0 || len(e.Cases) == 0 {
		core.Fatalf("no cases exported (%d conversations, %d edits)", len(l.Cases), len(e.Cases))
	}
	dir, err := os.MkdirTemp("", "verif-c18-")
	if err != nil {
		core.Fatalf("%v", err)
	}
	core.RemoveAtExit(dir)
	defer os.RemoveAll(dir)
	// split the work over child processes (a fatal error in the server must not take the check down)
	workers := 12
	var wg sync.WaitGroup
	split := func(kind string, cases []string) {
		per := (len(cases) + workers - 1) / workers
		for w := 0; w < workers; w++ {
			lo, hi := w*per, (w+1)*per
			if lo >= len(cases) {
				break
			}
			if hi > len(cases) {
				hi = len(cases)
			}
			f := fmt.Sprintf("%s/%s-%d.jsonl", dir, kind, w)
			if err := os.WriteFile(f, []byte(strings.Join(cases[lo:hi], "\n")), 0o644); err != nil {
				core.Fatalf("%v", err)
			}
			wg.Add(1)
			go func(f string) {
				defer wg.Done()
				runChild(kind, f)
			}(f)
		}
	}
	// long random conversations (up to 30 messages, below the rate limiter's window together with the driver's
	// synchronisation requests), walked by TLC's simulator on the same model and replayed in full
	convs := l.Cases
	{
		num, depth := 120, 30
		if tier == "thorough" {
			num = 2000
		}
		sim := core.MustTLC(core.TLCOpts{Spec: "Lsp", Cfg: "Lsp_tour.cfg", Workers: 1, Simulate: fmt.Sprintf("num=%d", num), Depth: depth, Seed: 1000 + run.Seed, Timeout: 10 * time.Minute})
		ss := sim.Stat(fmt.Sprintf("random conversations (%d of up to %d messages), replayed in full", num, depth))
		ss.Mode = "simulation"
		run.AddTLC(ss)
		// every prefix of a behaviour is printed: keep a conversation only if the next line does not extend it
		long := 0
		for i, c := range sim.Cases {
			n := strings.Count(c, `"kind"`)
			if i+1 < len(sim.Cases) && strings.Count(sim.Cases[i+1], `"kind"`) == n+1 {
				continue
			}
			if n >= 8 {
				convs = append(convs, c)
				long++
			}
		}
		if long < num/2 {
			core.Fatalf("Lsp simulation produced only %d long conversations", long)
		}
		run.Extra["long_random_conversations"] = long
	}
	split("conv", convs)
	split("edit", e.Cases)
	wg.Wait()
	os.RemoveAll(dir)
	run.Exhaustive = true
	run.Finish()
}

var mergeMu sync.Mutex

func runChild(kind, file string) {
	self := os.Getenv("VERIF_SELF")
	if self == "" {
		self, _ = os.Executable()
	}
	out := file + ".out"
	cmd := exec.Command(self, "--child", kind, file, out)
	var stderr bytes.Buffer
	cmd.Stderr = &stderr
	cmd.Stdout = &stderr
	done := make(chan error, 1)
	if err := cmd.Start(); err != nil {
		core.Fatalf("start child: %v", err)
	}
	go func() { done <- cmd.Wait() }()
	var err error
	select {
	case err = <-done:
	case <-time.After(20 * time.Minute):
		_ = cmd.Process.Kill()
		<-done
		core.Fatalf("child %s %s did not finish in 20 minutes", kind, file)
	}
	mergeMu.Lock()
	defer mergeMu.Unlock()
	merged := run.Merge(out)
	os.Remove(out)
	if err != nil {
		text := stderr.String()
		if strings.Contains(text, "fatal error:") || strings.Contains(text, "panic:") {
			prog, _ := os.ReadFile(out + ".progress")
			run.Violate(core.Violation{Sig: "server-process-died|" + firstLine(text), Clause: "the server keeps running for any sequence of messages",
				Case: map[string]any{"kind": kind, "last_case": string(prog)}, Observe: firstN(text, 2000)})
			return
		}
		core.Fatalf("child %s failed: %v\n%s", kind, err, firstN(stderr.String(), 2000))
	}
	if !merged {
		core.Fatalf("child %s produced no result", kind)
	}
}

func firstLine(s string) string {
	for _, l := range strings.Split(s, "\n") {
		if strings.HasPrefix(l, "fatal error:") || strings.HasPrefix(l, "panic:") {
			return strings.ReplaceAll(firstN(l, 80), " ", "_")
		}
	}
	return "unknown"
}

func firstN(s string, n int) string {
	if len(s) > n {
		return s[:n]
	}
	return s
}

func child(kind string, args []string) {
	file, out := args[0], args[1]
	if kind == "replay" {
		b, err := os.ReadFile(file)
		if err != nil {
			core.Fatalf("replay: %v", err)
		}
		var f struct {
			Violation struct {
				Case struct {
					Kind string          `json:"kind"`
					Raw  json.RawMessage `json:"raw"`
				} `json:"case"`
			} `json:"violation"`
		}
		if err := json.Unmarshal(b, &f); err != nil {
			core.Fatalf("replay: %v", err)
		}
		prepare()
		if f.Violation.Case.Kind == "edit" {
			runEdit(string(f.Violation.Case.Raw))
		} else {
			runConversation(string(f.Violation.Case.Raw))
		}
		run.Export(out)
		return
	}
	b, err := os.ReadFile(file)
	if err != nil {
		core.Fatalf("%v", err)
	}
	prepare()
	for _, line := range strings.Split(string(b), "\n") {
		if line == "" {
			continue
		}
		_ = os.WriteFile(out+".progress", []byte(line), 0o644)
		if kind == "conv" {
			runConversation(line)
		} else {
			runEdit(line)
		}
	}
	if kind == "conv" {
		_ = os.WriteFile(out+".progress", []byte("runs of malformed frames"), 0o644)
		badRuns()
	}
	os.Remove(out + ".progress")
	run.Export(out)
}

// badRuns: AlwaysAlive of Lsp.tla over RUNS of malformed frames - the conversations of the model interleave malformed
// frames with good ones; here every malformed kind is sent n times in a row (and all kinds in rotation), after which the
// server must still apply a change and answer a request.
func badRuns() {
	kinds := []string{"headerZeroLength", "headerNonNumeric", "headerOversize", "headerNegative", "headerNoLength", "jsonArray", "jsonString", "emptyObject", "idNoMethod", "mixed"}
	all := kinds[:len(kinds)-1]
	for _, k := range kinds {
		for _, n := range []int{2, 5, 6, 13, 64} {
			h := newHarness()
			uri := "file:///runs.sql"
			fail := func(sig, obs string) {
				run.Violate(core.Violation{Sig: sig + "|" + k, Clause: "the server keeps running and answering for any sequence of messages, including bad headers",
					Case: map[string]any{"kind": "bad-run", "malformed": k, "run_length": n}, Observe: obs})
			}
			_, f := h.send(frame(`{"jsonrpc":"2.0","method":"textDocument/didOpen","params":{"textDocument":{"uri":`+q(uri)+`,"languageId":"sql","version":1,"text":"SELECT 1"}}}`), false)
			var bad []byte
			for i := 0; i < n; i++ {
				mk := k
				if k == "mixed" {
					mk = all[i%len(all)]
				}
				bad = append(bad, malformedFrame(mstep{M: mk, ID: 900 + i})...)
			}
			if f == "" {
				_, f = h.send(bad, false)
			}
			run.Eval(1)
			run.Nontrivial(fmt.Sprintf("badrun %s %d", k, n))
			if f != "" {
				fail("server-died|after-malformed-run", f)
				h.close()
				continue
			}
			msgs, f := h.send(append(frame(`{"jsonrpc":"2.0","method":"textDocument/didChange","params":{"textDocument":{"uri":`+q(uri)+`,"version":2},"contentChanges":[{"text":"SELECT 2"}]}}`),
				frame(`{"jsonrpc":"2.0","id":4242,"method":"textDocument/hover","params":{"textDocument":{"uri":`+q(uri)+`},"position":{"line":0,"character":1}}}`)...), false)
			if f != "" {
				fail("server-died|after-malformed-run", f)
				h.close()
				continue
			}
			answered := false
			for _, m := range msgs {
				if string(m.ID) == "4242" {
					answered = true
				}
			}
			if !answered {
				fail("request-unanswered|after-malformed-run", fmt.Sprintf("%d messages, none with id 4242", len(msgs)))
			}
			if got, ok := h.srv.Documents().GetContent(uri); !ok || got != "SELECT 2" {
				fail("mirror-differs|after-malformed-run", fmt.Sprintf("%q (open=%v)", got, ok))
			}
			h.close()
		}
	}
}

// ---------------------------------------------------------------------------
// a real server on pipes

type safeBuf struct {
	mu sync.Mutex
	b  bytes.Buffer
}

func (s *safeBuf) Write(p []byte) (int, error) { s.mu.Lock(); defer s.mu.Unlock(); return s.b.Write(p) }
func (s *safeBuf) take() []byte {
	s.mu.Lock()
	defer s.mu.Unlock()
	b := append([]byte(nil), s.b.Bytes()...)
	s.b.Reset()
	return b
}

type harness struct {
	srv     *lsp.Server
	in      *io.PipeWriter
	outb    *safeBuf
	died    chan any
	exited  chan error
	syncN   int
	pending []byte // unparsed output
	sent    int
}

func newHarness() *harness {
	pr, pw := io.Pipe()
	h := &harness{in: pw, outb: &safeBuf{}, died: make(chan any, 1), exited: make(chan error, 1)}
	h.srv = lsp.NewServer(pr, h.outb, nil)
	go func() {
		defer func() {
			if r := recover(); r != nil {
				h.died <- r
			}
		}()
		h.exited <- h.srv.Run()
	}()
	return h
}

func frame(body string) []byte {
	return []byte(fmt.Sprintf("Content-Length: %d\r\n\r\n%s", len(body), body))
}

type outMsg struct {
	ID     json.RawMessage `json:"id"`
	Method string          `json:"method"`
	Params json.RawMessage `json:"params"`
	Result json.RawMessage `json:"result"`
	Error  json.RawMessage `json:"error"`
}

// syncTimeouts counts sentinel requests that were never answered in this process.
var syncTimeouts int

// send writes raw bytes, then a sentinel request, and collects everything the server wrote until the
// sentinel's response. It returns the messages (without the sentinel's response) and a failure description.
func (h *harness) send(raw []byte, expectExit bool) ([]outMsg, string) {
	if syncTimeouts >= 3 {
		// a server that has stopped answering is reported once per conversation without waiting again
		return nil, "no response to a request within 5 s (server hung or dropped the request; seen before in this run)"
	}
	write := func(b []byte) string {
		done := make(chan error, 1)
		go func() { _, err := h.in.Write(b); done <- err }()
		select {
		case err := <-done:
			if err != nil {
				return "write: " + err.Error()
			}
		case r := <-h.died:
			return fmt.Sprintf("server panicked: %v", r)
		case err := <-h.exited:
			if expectExit {
				h.exited <- err // the exit notification was consumed and acted upon
				return ""
			}
			return "server loop returned"
		case <-time.After(20 * time.Second):
			return "server stopped reading (hang)"
		}
		return ""
	}
	if f := write(raw); f != "" {
		return nil, f
	}
	h.sent++
	if expectExit {
		select {
		case <-h.exited:
			msgs, f := h.parse()
			return msgs, f
		case r := <-h.died:
			return nil, fmt.Sprintf("server panicked: %v", r)
		case <-time.After(20 * time.Second):
			return nil, "server did not stop after the exit notification"
		}
	}
	h.syncN++
	sid := fmt.Sprintf("sync-%d", h.syncN)
	if f := write(frame(fmt.Sprintf(`{"jsonrpc":"2.0","id":%q,"method":"workspace/verifSync"}`, sid))); f != "" {
		return nil, f
	}
	h.sent++
	deadline := time.After(5 * time.Second)
	var all []outMsg
	for {
		msgs, f := h.parse()
		if f != "" {
			return all, f
		}
		for _, m := range msgs {
			if string(m.ID) == strconv.Quote(sid) {
				return all, ""
			}
			all = append(all, m)
		}
		select {
		case r := <-h.died:
			return all, fmt.Sprintf("server panicked: %v", r)
		case <-h.exited:
			return all, "server loop returned although no exit notification was sent"
		case <-deadline:
			syncTimeouts++
			return all, "no response to a request within 5 s (server hung or dropped the request)"
		case <-time.After(200 * time.Microsecond):
		}
	}
}

// parse consumes complete frames from the output; a framing defect is reported.
func (h *harness) parse() ([]outMsg, string) {
	h.pending = append(h.pending, h.outb.take()...)
	var msgs []outMsg
	for len(h.pending) > 0 {
		i := bytes.Index(h.pending, []byte("\r\n\r\n"))
		if i < 0 {
			if len(h.pending) > 200 {
				return msgs, "outgoing frame without header terminator: " + firstN(string(h.pending), 80)
			}
			return msgs, ""
		}
		head := string(h.pending[:i])
		n := -1
		for _, l := range strings.Split(head, "\r\n") {
			if v, ok := strings.CutPrefix(l, "Content-Length: "); ok {
				n, _ = strconv.Atoi(v)
			}
		}
		if n < 0 {
			return msgs, "outgoing frame without Content-Length: " + firstN(head, 80)
		}
		if len(h.pending) < i+4+n {
			return msgs, "" // body not complete yet
		}
		body := h.pending[i+4 : i+4+n]
		var m outMsg
		if err := json.Unmarshal(body, &m); err != nil {
			return msgs, fmt.Sprintf("outgoing frame body is not the announced %d bytes of JSON (%v): %s", n, err, firstN(string(body), 120))
		}
		h.pending = h.pending[i+4+n:]
		// the next frame must start right here
		if len(h.pending) > 0 && !bytes.HasPrefix(h.pending, []byte("Content-Length")[:min(len(h.pending), 14)]) {
			return msgs, "bytes after a frame do not start a new frame (wrong Content-Length): " + firstN(string(h.pending), 60)
		}
		msgs = append(msgs, m)
	}
	return msgs, ""
}

func (h *harness) close() {
	h.in.Close()
}

// ---------------------------------------------------------------------------
// concretisation of the conversation model

var (
	goodStmts = []string{"SELECT a FROM t", "SELECT id, name FROM users WHERE id = 1", "UPDATE t SET a = 1 WHERE b = 2"}
	badStmts  = []string{"SELECT FROM", "SELECT a FROM t WHERE", "INSERT INTO"}
)

func prepare() {
	for _, g := range goodStmts {
		if _, errs := gosqlx.ParseWithRecovery(g + ";\n"); len(errs) != 0 {
			core.Fatalf("good statement %q yields recovery errors", g)
		}
	}
	for _, b := range badStmts {
		if _, errs := gosqlx.ParseWithRecovery(b + ";\n"); len(errs) != 1 {
			core.Fatalf("bad statement %q yields %d recovery errors, want 1", b, len(errs))
		}
	}
}

func stmtText(kind string, salt int) string {
	if kind == "G" {
		return goodStmts[salt%len(goodStmts)] + ";\n"
	}
	return badStmts[salt%len(badStmts)] + ";\n"
}

func docText(lines []string, salt int) string {
	var b strings.Builder
	for i, l := range lines {
		b.WriteString(stmtText(l, salt+i))
	}
	return b.String()
}

type mdoc struct {
	Open  bool     `json:"open"`
	Known bool     `json:"known"`
	Lines []string `json:"lines"`
	Ver   int      `json:"ver"`
}

type mdiag struct {
	URI       string `json:"uri"`
	Ver       int    `json:"ver"`
	Lines     []int  `json:"lines"`
	StrictVer bool   `json:"strictver"`
}

type medit struct {
	Ek   string   `json:"ek"`
	K    int      `json:"k"`
	S    string   `json:"s"`
	Full []string `json:"full"`
}

type mstep struct {
	M        string   `json:"m"`
	Kind     string   `json:"kind"`
	ID       int      `json:"id"`
	URI      string   `json:"uri"`
	Pos      string   `json:"pos"`
	Params   string   `json:"params"`
	Lines    []string `json:"lines"`
	Ver      int      `json:"ver"`
	Edits    []medit  `json:"edits"`
	WithText bool     `json:"withText"`
	Out      struct {
		Must []int   `json:"must"`
		May  []int   `json:"may"`
		Diag []mdiag `json:"diag"`
	} `json:"out"`
	Docs map[string]mdoc `json:"docs"`
}

func q(s string) string { b, _ := json.Marshal(s); return string(b) }

func posJSON(kind string) string {
	switch kind {
	case "pastEnd":
		return `{"line":50,"character":500}`
	case "negative":
		return `{"line":-1,"character":-5}`
	}
	return `{"line":0,"character":3}`
}

func requestFrame(s mstep) []byte {
	var params string
	switch s.Params {
	case "wrongShape":
		params = `,"params":[1,"x",{"textDocument":7}]`
		if s.ID%2 == 0 {
			params = `,"params":{"textDocument":5,"position":"nowhere","range":[],"context":1}`
		}
	case "missing":
		params = ""
	case "wrongTypeLong":
		long := `"textDocument":{"uri":` + q("file:///"+strings.Repeat("very/long/path/", 24)+"q.sql") + `}`
		params = `,"params":{` + long + `,"position":{"line":1.5,"character":"x"},"options":{"tabSize":"two","insertSpaces":7},"range":"all","context":[]}`
		if s.ID%2 == 0 {
			params = `,"params":{` + long + `,"position":"` + strings.Repeat("nowhere ", 40) + `","processId":"one","capabilities":[]}`
		}
	default:
		td := `"textDocument":{"uri":` + q(s.URI) + `}`
		switch s.M {
		case "initialize":
			params = `,"params":{"processId":1,"rootUri":"file:///","capabilities":{}}`
		case "shutdown":
			params = ""
		case "textDocument/formatting":
			params = `,"params":{` + td + `,"options":{"tabSize":2,"insertSpaces":true}}`
		case "textDocument/documentSymbol":
			params = `,"params":{` + td + `}`
		case "textDocument/codeAction":
			params = `,"params":{` + td + `,"range":{"start":` + posJSON(s.Pos) + `,"end":` + posJSON(s.Pos) + `},"context":{"diagnostics":[{"range":{"start":` + posJSON(s.Pos) + `,"end":` + posJSON(s.Pos) + `},"message":"expected FROM, got x","severity":1}]}}`
		case "workspace/unknownMethod", "$/unknownRequest":
			params = `,"params":{"x":1}`
		default:
			params = `,"params":{` + td + `,"position":` + posJSON(s.Pos) + `}`
		}
	}
	return frame(fmt.Sprintf(`{"jsonrpc":"2.0","id":%d,"method":%s%s}`, s.ID, q(s.M), params))
}

func lineRange(sl, sc, el, ec int) string {
	return fmt.Sprintf(`{"start":{"line":%d,"character":%d},"end":{"line":%d,"character":%d}}`, sl, sc, el, ec)
}

func notificationFrame(s mstep, salt int, before mdoc) []byte {
	td := func(extra string) string { return `"textDocument":{"uri":` + q(s.URI) + extra + `}` }
	switch s.M {
	case "didOpen":
		return frame(`{"jsonrpc":"2.0","method":"textDocument/didOpen","params":{` + td(fmt.Sprintf(`,"languageId":"sql","version":%d,"text":%s`, s.Ver, q(docText(s.Lines, salt)))) + `}}`)
	case "didChange":
		var changes []string
		n := len(before.Lines)
		for _, e := range s.Edits {
			var change string
			switch e.Ek {
			case "full":
				change = `{"text":` + q(docText(e.Full, salt)) + `}`
				n = len(e.Full)
			case "replaceLine":
				change = `{"range":` + lineRange(e.K-1, 0, e.K, 0) + `,"text":` + q(stmtText(e.S, salt+e.K-1)) + `}`
			case "insertLine":
				change = `{"range":` + lineRange(e.K-1, 0, e.K-1, 0) + `,"text":` + q(stmtText(e.S, salt+e.K-1)) + `}`
				n++
			case "deleteLine":
				change = `{"range":` + lineRange(e.K-1, 0, e.K, 0) + `,"text":""}`
				n--
			case "appendPastEnd":
				change = `{"range":` + lineRange(n+40, 7, n+41, 900) + `,"text":` + q(stmtText(e.S, salt+n)) + `}`
				n++
			case "negativeRange":
				change = `{"range":` + lineRange(-1, -3, 0, 2) + `,"text":"x"}`
			case "invertedRange":
				change = `{"range":` + lineRange(1, 2, 0, 1) + `,"text":"y"}`
			}
			changes = append(changes, change)
		}
		return frame(`{"jsonrpc":"2.0","method":"textDocument/didChange","params":{` + td(fmt.Sprintf(`,"version":%d`, s.Ver)) + `,"contentChanges":[` + strings.Join(changes, ",") + `]}}`)
	case "didClose":
		return frame(`{"jsonrpc":"2.0","method":"textDocument/didClose","params":{` + td("") + `}}`)
	case "didSave":
		text := ""
		if s.WithText && before.Open && before.Known {
			text = `,"text":` + q(currentText[s.URI])
		}
		return frame(`{"jsonrpc":"2.0","method":"textDocument/didSave","params":{` + td("") + text + `}}`)
	case "exit":
		return frame(`{"jsonrpc":"2.0","method":"exit"}`)
	}
	core.Fatalf("unknown notification %q", s.M)
	return nil
}

func inertFrame(s mstep) []byte {
	params := ""
	switch s.Params {
	case "wrongShape":
		params = `,"params":{"textDocument":"not-an-object","contentChanges":{"a":1}}`
	case "wrongTypeLong":
		params = `,"params":{"textDocument":{"uri":` + q("file:///"+strings.Repeat("very/long/path/", 24)+"q.sql") + `,"version":"one","text":7},"contentChanges":"none"}`
	case "ok":
		params = `,"params":{}`
	}
	return frame(fmt.Sprintf(`{"jsonrpc":"2.0","method":%s%s}`, q(s.M), params))
}

func malformedFrame(s mstep) []byte {
	switch s.M {
	case "invalidJsonWithId":
		return frame(fmt.Sprintf(`{"jsonrpc":"2.0","id":%d,"method":"textDocument/hover","params":{"textDocument":{"uri":5}}}`, s.ID))
	case "invalidJson":
		return frame(`{"jsonrpc":"2.0","method":"textDocument/didOpen","params":{`)
	case "jsonArray":
		return frame(`[1,2,3]`)
	case "jsonString":
		return frame(`"hello"`)
	case "idNoMethod":
		return frame(fmt.Sprintf(`{"jsonrpc":"2.0","id":%d,"result":null}`, s.ID))
	case "idNullWithMethod":
		return frame(`{"jsonrpc":"2.0","id":null,"method":"textDocument/hover","params":{"textDocument":{"uri":"file:///u1.sql"},"position":{"line":0,"character":0}}}`)
	case "headerZeroLength":
		return []byte("Content-Length: 0\r\n\r\n")
	case "headerNonNumeric":
		return []byte("Content-Length: twelve\r\n\r\n")
	case "headerOversize":
		return []byte("Content-Length: 99999999999\r\n\r\n")
	case "headerNegative":
		return []byte("Content-Length: -5\r\n\r\n")
	case "headerNoLength":
		return []byte("Content-Type: application/vscode-jsonrpc; charset=utf-8\r\n\r\n")
	case "headerExtraField":
		body := fmt.Sprintf(`{"jsonrpc":"2.0","id":%d,"method":"shutdown"}`, s.ID)
		return []byte(fmt.Sprintf("Content-Type: application/vscode-jsonrpc; charset=utf-8\r\nContent-Length: %d\r\n\r\n%s", len(body), body))
	case "emptyObject":
		return frame(`{}`)
	}
	core.Fatalf("unknown malformed frame %q", s.M)
	return nil
}

var currentText = map[string]string{}

func runConversation(raw string) {
	var h []mstep
	if err := json.Unmarshal([]byte(raw), &h); err != nil {
		core.Fatalf("bad conversation %q: %v", firstN(raw, 200), err)
	}
	salt := int(run.Seed) + len(raw)
	srv := newHarness()
	defer srv.close()
	currentText = map[string]string{}
	nontrivial := false
	var names []string
	fail := func(i int, sig, clause string, obs, expect any) {
		run.Violate(core.Violation{Sig: sig, Clause: clause, Case: map[string]any{"kind": "conversation", "upto": i + 1, "messages": names, "raw": json.RawMessage(raw)},
			Observe: obs, Expect: expect})
	}
	prev := map[string]mdoc{}
	lastPub := map[string]*struct {
		Ver   int
		Lines []int
	}{}
	for i, s := range h {
		label := s.M
		for _, e := range s.Edits {
			label += ":" + e.Ek
		}
		if s.Pos != "" && s.Pos != "inrange" {
			label += "@" + s.Pos
		}
		names = append(names, label)
		var raw []byte
		switch s.Kind {
		case "request":
			raw = requestFrame(s)
			if s.Pos != "inrange" || s.Params != "ok" {
				nontrivial = true
			}
		case "notification":
			raw = notificationFrame(s, salt, prev[s.URI])
			if s.M == "didChange" {
				nontrivial = true
			}
		case "inert":
			raw = inertFrame(s)
		case "malformed":
			raw = malformedFrame(s)
			nontrivial = true
		}
		msgs, f := srv.send(raw, s.M == "exit")
		run.Eval(1)
		if f != "" {
			sig := "server-died|" + s.Kind + "|" + label
			if strings.Contains(f, "frame") {
				sig = "framing|" + label
			} else if strings.Contains(f, "no response") {
				sig = "request-not-answered|" + label
			}
			fail(i, sig, "the server keeps running, frames every message exactly and answers every request", f, nil)
			return
		}
		// responses
		got := map[string]int{}
		for _, m := range msgs {
			if m.Method == "" && len(m.ID) > 0 {
				got[string(m.ID)]++
			}
		}
		allowed := map[string]bool{}
		for _, id := range s.Out.Must {
			k := strconv.Itoa(id)
			allowed[k] = true
			if got[k] != 1 {
				fail(i, fmt.Sprintf("responses-%d-for-request|%s", got[k], label), "exactly one response carrying the request's id", got, s.Out)
			}
		}
		for _, id := range s.Out.May {
			k := strconv.Itoa(id)
			allowed[k] = true
			if got[k] > 1 {
				fail(i, "duplicate-response|"+label, "at most one response", got, s.Out)
			}
		}
		for k, n := range got {
			if !allowed[k] && n > 0 {
				fail(i, "unexpected-response|"+s.Kind+"|"+label, "no response is sent for notifications or unknown ids", got, s.Out)
			}
		}
		// mirror
		for u, d := range s.Docs {
			c, ok := srv.srv.Documents().GetContent(u)
			if d.Open != ok {
				fail(i, "mirror-open-state|"+label, "the server's copy of the document exists exactly while it is open", map[string]any{"uri": u, "present": ok}, d)
				continue
			}
			if d.Open && d.Known {
				// expected text: recompute from the model lines with the salts used when each line was sent
				want := expectedText(u, s, prev, salt)
				if c != want {
					fail(i, "mirror-differs|"+label, "the mirrored text equals the text obtained by applying the edits", c, want)
				}
				currentText[u] = want
			} else if d.Open {
				currentText[u] = c
			}
		}
		// diagnostics
		// what counts is the last publishDiagnostics per document over the whole conversation (a server
		// may skip re-sending an identical payload)
		for _, m := range msgs {
			if m.Method == "textDocument/publishDiagnostics" {
				var p struct {
					URI         string `json:"uri"`
					Version     int    `json:"version"`
					Diagnostics []struct {
						Range struct {
							Start struct{ Line, Character int } `json:"start"`
						} `json:"range"`
					} `json:"diagnostics"`
				}
				if err := json.Unmarshal(m.Params, &p); err != nil {
					fail(i, "diagnostics-malformed|"+label, "publishDiagnostics parameters are well-formed", string(m.Params), nil)
					continue
				}
				e := &struct {
					Ver   int
					Lines []int
				}{Ver: p.Version}
				for _, d := range p.Diagnostics {
					e.Lines = append(e.Lines, d.Range.Start.Line)
				}
				sort.Ints(e.Lines)
				lastPub[p.URI] = e
			}
		}
		for _, d := range s.Out.Diag {
			p := lastPub[d.URI]
			if p == nil {
				fail(i, "diagnostics-not-published|"+label, "diagnostics of the current text are published after open/change/save/close", nil, d)
				continue
			}
			want := append([]int{}, d.Lines...)
			sort.Ints(want)
			if fmt.Sprint(p.Lines) != fmt.Sprint(want) {
				sig := "diagnostics-wrong-lines|" + label
				if len(p.Lines) == len(want) {
					sig = "diagnostics-wrong-anchor|" + s.M
				}
				fail(i, sig, "each diagnostic is anchored on the line of the statement that caused it", p, d)
			}
			if p.Ver != d.Ver && (d.StrictVer || p.Ver != 0) {
				fail(i, "diagnostics-wrong-version|"+label, "diagnostics carry the version of the text they describe", p, d)
			}
		}
		for u, d := range s.Docs {
			prev[u] = d
		}
	}
	if nontrivial {
		run.Nontrivial("c" + strings.Join(names, ","))
	}
	if len(h) >= 3 {
		run.Sample(map[string]any{"kind": "conversation", "messages": names})
	}
	run.Traces(1)
}

// expectedText recomputes the concrete text of a known document after step s.
func expectedText(u string, s mstep, prev map[string]mdoc, salt int) string {
	if s.URI != u || (s.M != "didOpen" && s.M != "didChange") {
		return currentText[u]
	}
	if s.M == "didOpen" {
		return docText(s.Lines, salt)
	}
	old := currentText[u]
	lines := strings.SplitAfter(old, "\n")
	if len(lines) > 0 && lines[len(lines)-1] == "" {
		lines = lines[:len(lines)-1]
	}
	known := prev[u].Known
	for _, e := range s.Edits {
		if !known && e.Ek != "full" {
			continue
		}
		switch e.Ek {
		case "full":
			lines = strings.SplitAfter(docText(e.Full, salt), "\n")
			lines = lines[:len(lines)-1]
			known = true
		case "replaceLine":
			lines[e.K-1] = stmtText(e.S, salt+e.K-1)
		case "insertLine":
			lines = append(lines[:e.K-1], append([]string{stmtText(e.S, salt+e.K-1)}, lines[e.K-1:]...)...)
		case "deleteLine":
			lines = append(lines[:e.K-1], lines[e.K:]...)
		case "appendPastEnd":
			lines = append(lines, stmtText(e.S, salt+len(lines)))
		}
	}
	return strings.Join(lines, "")
}

// ---------------------------------------------------------------------------
// edit cases

type ecase struct {
	T   []string   `json:"t"`
	SL  int        `json:"sl"`
	SC  int        `json:"sc"`
	EL  int        `json:"el"`
	EC  int        `json:"ec"`
	New []string   `json:"new"`
	Any bool       `json:"any"`
	Rl  int        `json:"rl"`
	Res [][]string `json:"res"`
}

var unitText = map[string]string{"a": "a", "e": "é", "s": "😀", "n": "\n"}

func conc(us []string) string {
	var b strings.Builder
	for _, u := range us {
		b.WriteString(unitText[u])
	}
	return b.String()
}

var (
	editSrv   *harness
	editCount int
)

func runEdit(raw string) {
	if runEditOnce(raw, false) {
		runEditOnce(raw, true)
	}
}

// runEditOnce replays one case; it reports whether the case should be replayed again with rangeLength.
func runEditOnce(raw string, sendRl bool) (again bool) {
	var c ecase
	if err := json.Unmarshal([]byte(raw), &c); err != nil {
		core.Fatalf("bad edit case %q: %v", raw, err)
	}
	if editSrv == nil || editSrv.sent > 80 {
		if editSrv != nil {
			editSrv.close()
		}
		editSrv = newHarness()
	}
	editCount++
	uri := fmt.Sprintf("file:///e%d.sql", editCount)
	text, nw := conc(c.T), conc(c.New)
	open := frame(`{"jsonrpc":"2.0","method":"textDocument/didOpen","params":{"textDocument":{"uri":` + q(uri) + `,"languageId":"sql","version":1,"text":` + q(text) + `}}}`)
	// where the model defines the replaced span's UTF-16 length, every other case sends it as rangeLength (as many
	// clients do), and every case whose text is not ASCII does
	rlField, withRl := "", ""
	nonASCII := strings.ContainsAny(text, "é😀")
	again = !sendRl && !c.Any && c.Rl >= 0 && nonASCII
	if !c.Any && c.Rl >= 0 && (sendRl || !nonASCII && editCount%2 == 0) {
		rlField, withRl = fmt.Sprintf(`,"rangeLength":%d`, c.Rl), "|with-rangeLength"
	}
	change := frame(`{"jsonrpc":"2.0","method":"textDocument/didChange","params":{"textDocument":{"uri":` + q(uri) + `,"version":2},"contentChanges":[{"range":` + lineRange(c.SL, c.SC, c.EL, c.EC) + rlField + `,"text":` + q(nw) + `}]}}`)
	run.Eval(1)
	whole := c.SL == 0 && c.SC == 0 && c.EL >= 3
	if !whole {
		run.Nontrivial("e" + raw)
	}
	fail := func(sig, clause string, obs, expect any) {
		run.Violate(core.Violation{Sig: sig, Clause: clause, Case: map[string]any{"kind": "edit", "text": text, "range": []int{c.SL, c.SC, c.EL, c.EC}, "insert": nw, "raw": json.RawMessage(raw)},
			Observe: obs, Expect: expect})
	}
	kind := "wellformed"
	if c.Any {
		kind = "negative-or-inverted"
	}
	// didOpen and didChange in one write, one sentinel
	_, f := editSrv.send(append(open, change...), false)
	editSrv.sent++
	if f != "" {
		fail("server-died|didChange|"+kind+"-range", "the server keeps running for any positions and ranges", f, nil)
		editSrv.close()
		editSrv = nil
		return
	}
	got, ok := editSrv.srv.Documents().GetContent(uri)
	if !ok {
		fail("mirror-lost|"+kind, "the document stays open", nil, nil)
		return
	}
	if c.Any {
		return
	}
	var allowed []string
	for _, r := range c.Res {
		allowed = append(allowed, conc(r))
	}
	okRes := false
	for _, a := range allowed {
		if a == got {
			okRes = true
		}
	}
	if !okRes {
		class := "ascii"
		if strings.ContainsAny(text, "é😀") {
			class = "non-ascii"
		}
		where := "in-range"
		if c.SL >= 1+strings.Count(text, "\n") || c.EL >= 1+strings.Count(text, "\n") {
			where = "line-past-end"
		}
		fail("mirror-differs|edit|"+class+"|"+where+withRl, "after an incremental edit the mirror equals the text obtained under the protocol's position rules (UTF-16 columns, clamping)", got, allowed)
	}
	if editCount%5000 == 1 {
		run.Sample(map[string]any{"kind": "edit", "text": text, "range": []int{c.SL, c.SC, c.EL, c.EC}, "insert": nw, "allowed": allowed, "mirror": got})
	}
	// close to keep the server small
	_, _ = editSrv.send(frame(`{"jsonrpc":"2.0","method":"textDocument/didClose","params":{"textDocument":{"uri":`+q(uri)+`}}}`), false)
	editSrv.sent++
	return again
}
