// C01 — no input can crash, panic or hang any entry point.
//
//	M  Pipeline.tla (Totality: every entry point returns on every input class), TokenStream.tla (the low-level
//	   parser's cursor over ARBITRARY token slices - empty, without end marker, with type-less tokens: InBounds,
//	   CursorBounded, Terminates; the pinned "stale current token" shape runs away on a slice without end marker),
//	   Lexer.tla (every byte-class sequence up to the bound), the statement models (Grammar.tla, Select.tla).
//	R  every model input is executed by EVERY public operation in child processes under a watchdog:
//	     texts  - every Lexer.tla input spelled concretely, every model statement and every prefix of it at token
//	              boundaries, every single-token corruption of the statement pools, base statements with one byte
//	              replaced by NUL / invalid UTF-8 / a lone continuation byte at every position, the corpus and
//	              random cuts of it, long operator chains;
//	     token slices - every slice of TokenStream.tla spelled with real tokens, and every prefix of the real token
//	              list of every base statement WITHOUT the end marker, through every token-level entry point
//	              (token.Token and models.TokenWithSpan APIs, strict mode, dialects, recovery, context).
//	   A recovered panic, a process killed by a runtime fatal error, or a call that does not return within the
//	   watchdog is a violation; the child reports the item and operation it was working on.
package main

import (
	"bufio"
	"bytes"
	"context"
	"encoding/json"
	"fmt"
	"math/rand"
	"os"
	"os/exec"
	"path/filepath"
	"runtime/debug"
	"strconv"
	"strings"
	"sync"
	"time"

	clicmd "github.com/ajitpratap0/GoSQLX/cmd/gosqlx/cmd"
	"github.com/ajitpratap0/GoSQLX/pkg/gosqlx"
	"github.com/ajitpratap0/GoSQLX/pkg/metrics"
	"github.com/ajitpratap0/GoSQLX/pkg/models"
	textscan "github.com/ajitpratap0/GoSQLX/pkg/security"
	"github.com/ajitpratap0/GoSQLX/pkg/sql/ast"
	"github.com/ajitpratap0/GoSQLX/pkg/sql/keywords"
	"github.com/ajitpratap0/GoSQLX/pkg/sql/parser"
	"github.com/ajitpratap0/GoSQLX/pkg/sql/security"
	"github.com/ajitpratap0/GoSQLX/pkg/sql/token"
	"github.com/ajitpratap0/GoSQLX/pkg/sql/tokenizer"

	"verif/internal/core"
	"verif/internal/entry"
	"verif/internal/gram"
	"verif/internal/lexcheck"
	"verif/internal/lexconc"
	"verif/internal/ops"
	"verif/internal/stmts"
	"verif/internal/workload"
)

type item struct {
	Kind string `json:"k"` // "text" | "slice"
	Text string `json:"-"`
	// the text travels as bytes (base64 in JSON): a JSON string would turn every byte that is not valid UTF-8
	// into U+FFFD on its way to the child
	Raw    []byte   `json:"t,omitempty"`
	Kinds  []string `json:"s,omitempty"` // slice: abstract kinds (TokenStream) or "@<n>:<sql>" = first n real tokens of sql
	Origin string   `json:"o"`
}

var run *core.Run

// ---------------------------------------------------------------------------------------------------------
// operations

type op struct {
	name string
	f    func(it *item)
}

func textOps() []op {
	var out []op
	for _, k := range ops.Kinds {
		k := k
		out = append(out, op{"ops." + k, func(it *item) { _ = ops.Do(k, it.Text) }})
	}
	for _, p := range entry.All {
		p := p
		out = append(out, op{p.Name, func(it *item) { _ = p.Run(it.Text) }})
	}
	out = append(out,
		op{"AST.SQL+Format", func(it *item) {
			if tree, err := gosqlx.Parse(it.Text); err == nil {
				_ = tree.SQL()
				_ = tree.Format(ast.FormatOptions{})
				ast.ReleaseAST(tree)
			}
		}},
		op{"cli.SQLFormatter", func(it *item) {
			if tree, err := gosqlx.Parse(it.Text); err == nil {
				_, _ = clicmd.NewSQLFormatter(clicmd.FormatterOptions{Indent: "  ", UppercaseKw: true}).Format(tree)
				_, _ = clicmd.NewSQLFormatter(clicmd.FormatterOptions{Compact: true}).Format(tree)
				ast.ReleaseAST(tree)
			}
		}},
		op{"gosqlx.Extract*", func(it *item) {
			if tree, err := gosqlx.Parse(it.Text); err == nil {
				_ = gosqlx.ExtractTables(tree)
				_ = gosqlx.ExtractTablesQualified(tree)
				_ = gosqlx.ExtractColumns(tree)
				_ = gosqlx.ExtractColumnsQualified(tree)
				_ = gosqlx.ExtractFunctions(tree)
				_ = gosqlx.ExtractMetadata(tree)
				ast.ReleaseAST(tree)
			}
		}},
		op{"security.Scan(tree)", func(it *item) {
			if tree, err := gosqlx.Parse(it.Text); err == nil {
				_ = security.NewScanner().Scan(tree)
				ast.ReleaseAST(tree)
			}
		}},
		op{"lint.cli-rules", func(it *item) { _ = ops.CLILinter().LintString(it.Text, "x.sql") }},
		op{"lint.fix", func(it *item) { _, _ = ops.FixAll(it.Text) }},
		op{"textscan.Scan", func(it *item) { _ = textscan.NewScanner().Scan(it.Text) }},
		op{"TokenizeContext", func(it *item) {
			t := tokenizer.GetTokenizer()
			_, _ = t.TokenizeContext(context.Background(), []byte(it.Text))
			tokenizer.PutTokenizer(t)
		}},
		op{"parser.dialects", func(it *item) {
			for _, d := range []string{"mysql", "postgresql", "sqlserver", "oracle", "sqlite", "snowflake"} {
				if tree, err := parser.ParseWithDialect(it.Text, keywords.SQLDialect(d)); err == nil {
					ast.ReleaseAST(tree)
				}
			}
		}},
		op{"strict-mode", func(it *item) {
			t := tokenizer.GetTokenizer()
			toks, err := t.Tokenize([]byte(it.Text))
			tokenizer.PutTokenizer(t)
			if err != nil {
				return
			}
			p := parser.NewParser(parser.WithStrictMode())
			if tree, err := p.ParseFromModelTokens(toks); err == nil {
				ast.ReleaseAST(tree)
			}
			p.Release()
		}},
	)
	return out
}

var kindSpell = map[string]string{"select": "SELECT", "from": "FROM", "where": "WHERE", "ident": "abc", "number": "42", "string": "'s'",
	"comma": ",", "lparen": "(", "rparen": ")", "star": "*", "eq": "=", "semicolon": ";", "not": "NOT", "interval": "INTERVAL", "case": "CASE",
	"insert": "INSERT", "dot": ".", "minus": "-", "as": "AS", "join": "JOIN", "order": "ORDER", "with": "WITH"}

var spelled = map[string]models.TokenWithSpan{}

func modelToken(kind string) models.TokenWithSpan {
	if t, ok := spelled[kind]; ok {
		return t
	}
	var out models.TokenWithSpan
	switch kind {
	case "EOF":
		out = models.TokenWithSpan{Token: models.Token{Type: models.TokenTypeEOF}}
	case "typeless":
		out = models.TokenWithSpan{Token: models.Token{Value: "SELECT"}}
	default:
		t := tokenizer.GetTokenizer()
		toks, err := t.Tokenize([]byte(kindSpell[kind]))
		tokenizer.PutTokenizer(t)
		if err != nil || len(toks) < 1 {
			core.Fatalf("cannot spell kind %q", kind)
		}
		out = toks[0]
	}
	spelled[kind] = out
	return out
}

// sliceOf builds the token slice of an item: abstract kinds, or a prefix of a statement's real tokens.
func sliceOf(it *item) []models.TokenWithSpan {
	if len(it.Kinds) == 1 && strings.HasPrefix(it.Kinds[0], "@") {
		rest := it.Kinds[0][1:]
		i := strings.Index(rest, ":")
		n, _ := strconv.Atoi(rest[:i])
		t := tokenizer.GetTokenizer()
		toks, _ := t.Tokenize([]byte(rest[i+1:]))
		tokenizer.PutTokenizer(t)
		if n > len(toks) {
			n = len(toks)
		}
		return append([]models.TokenWithSpan{}, toks[:n]...)
	}
	out := make([]models.TokenWithSpan, 0, len(it.Kinds))
	for _, k := range it.Kinds {
		out = append(out, modelToken(k))
	}
	return out
}

func plain(ms []models.TokenWithSpan) []token.Token {
	out := make([]token.Token, len(ms))
	for i, m := range ms {
		out[i] = token.Token{Type: m.Token.Type, Literal: m.Token.Value}
	}
	return out
}

func sliceOps() []op {
	mk := func(name string, opts []parser.ParserOption, f func(p *parser.Parser, ms []models.TokenWithSpan)) op {
		return op{name, func(it *item) {
			ms := sliceOf(it)
			p := parser.NewParser(opts...)
			f(p, ms)
			p.Release()
		}}
	}
	var out []op
	for _, o := range []struct {
		n    string
		opts []parser.ParserOption
	}{{"default", nil}, {"strict", []parser.ParserOption{parser.WithStrictMode()}}, {"mysql", []parser.ParserOption{parser.WithDialect("mysql")}}, {"postgresql", []parser.ParserOption{parser.WithDialect("postgresql")}}} {
		o := o
		out = append(out,
			mk("Parser.Parse/"+o.n, o.opts, func(p *parser.Parser, ms []models.TokenWithSpan) {
				if t, err := p.Parse(plain(ms)); err == nil && t != nil {
					ast.ReleaseAST(t)
				}
			}),
			mk("Parser.ParseFromModelTokens/"+o.n, o.opts, func(p *parser.Parser, ms []models.TokenWithSpan) {
				if t, err := p.ParseFromModelTokens(ms); err == nil && t != nil {
					ast.ReleaseAST(t)
				}
			}),
			mk("Parser.ParseWithRecovery/"+o.n, o.opts, func(p *parser.Parser, ms []models.TokenWithSpan) { _, _ = p.ParseWithRecovery(plain(ms)) }),
		)
	}
	out = append(out,
		mk("Parser.ParseContext", nil, func(p *parser.Parser, ms []models.TokenWithSpan) {
			if t, err := p.ParseContext(context.Background(), plain(ms)); err == nil && t != nil {
				ast.ReleaseAST(t)
			}
		}),
		mk("Parser.ParseContextFromModelTokens", nil, func(p *parser.Parser, ms []models.TokenWithSpan) {
			if t, err := p.ParseContextFromModelTokens(context.Background(), ms); err == nil && t != nil {
				ast.ReleaseAST(t)
			}
		}),
		mk("Parser.ParseFromModelTokensWithPositions", nil, func(p *parser.Parser, ms []models.TokenWithSpan) {
			if t, err := p.ParseFromModelTokensWithPositions(ms); err == nil && t != nil {
				ast.ReleaseAST(t)
			}
		}),
		mk("Parser.ParseWithRecoveryFromModelTokens", nil, func(p *parser.Parser, ms []models.TokenWithSpan) { _, _ = p.ParseWithRecoveryFromModelTokens(ms) }),
		op{"parser.ParseMultiWithRecovery", func(it *item) { _ = parser.ParseMultiWithRecovery(plain(sliceOf(it))) }},
		op{"pooled-parser-reuse", func(it *item) {
			// a pooled parser that just parsed a normal statement, then the slice (stale current token)
			p := parser.GetParser()
			if t, err := p.ParseFromModelTokens(sliceOf(&item{Kinds: []string{"@99:SELECT a FROM t WHERE (a = 1)"}})); err == nil {
				ast.ReleaseAST(t)
			}
			if t, err := p.Parse(plain(sliceOf(it))); err == nil && t != nil {
				ast.ReleaseAST(t)
			}
			parser.PutParser(p)
		}},
	)
	return out
}

// ---------------------------------------------------------------------------------------------------------
// child

const watchdog = 20 * time.Second

// operations whose behaviour depends on the raw text beyond tokenizing it
var rawOps = map[string]bool{"ops.tokenize": true, "ops.parse": true, "ops.scan": true, "ops.lint": true, "ops.format": true, "ops.recovery": true,
	"TokenizeContext": true, "ops.errtext": true, "ops.formatpkg": true, "lint.cli-rules": true, "lint.fix": true, "textscan.Scan": true}

func child(workFile string, shard, shards, from int, out string) {
	debug.SetMaxStack(1 << 30)

	run = core.NewRun("C01", os.Getenv("VERIF_TIER"), "model_checking")
	f, err := os.Open(workFile)
	if err != nil {
		core.Fatalf("%v", err)
	}
	defer f.Close()
	w := bufio.NewWriter(os.Stdout)
	sc := bufio.NewScanner(f)
	sc.Buffer(make([]byte, 1<<20), 64<<20)
	tops, sops := textOps(), sliceOps()
	idx := -1
	for sc.Scan() {
		idx++
		if idx%shards != shard || idx < from {
			continue
		}
		var it item
		if err := json.Unmarshal(sc.Bytes(), &it); err != nil {
			core.Fatalf("bad work item %d: %v", idx, err)
		}
		it.Text = string(it.Raw)
		// every second item of a child runs with metrics collection switched on (the documented production set-up):
		// recording a call is part of the call
		if (idx/shards)%2 == 1 {
			metrics.Enable()
		} else {
			metrics.Disable()
		}
		list := tops
		if it.Kind == "slice" {
			list = sops
		}
		for oi, o := range list {
			if it.Origin == "Lexer.tla-narrow" && os.Getenv("VERIF_TIER") != "thorough" && !rawOps[o.name] {
				continue // the quick tier runs these through the operations that read the raw text
			}
			fmt.Fprintf(w, "P %d %d\n", idx, oi)
			w.Flush()
			done := make(chan any, 1)
			go func() {
				defer func() { done <- recover() }()
				o.f(&it)
			}()
			select {
			case p := <-done:
				run.Eval(1)
				if p != nil {
					run.Violate(core.Violation{Sig: "panic|" + o.name + "|" + sigOf(fmt.Sprint(p)), Clause: "no panic escapes", Case: caseOf(&it, o.name), Observe: firstN(fmt.Sprint(p), 300)})
				}
			case <-time.After(watchdog + time.Duration(len(it.Text)/4000)*time.Second):
				run.Violate(core.Violation{Sig: "hang|" + o.name, Clause: "the call completes", Case: caseOf(&it, o.name), Observe: fmt.Sprintf("no return within %s", watchdog+time.Duration(len(it.Text)/4000)*time.Second)})
				fmt.Fprintf(w, "H %d %d\n", idx, oi)
				w.Flush()
				run.Export(out)
				os.Exit(3) // the stuck goroutine cannot be stopped: the parent restarts after this item
			}
		}
	}
	fmt.Fprintf(w, "D\n")
	w.Flush()
	run.Export(out)
}

func sigOf(s string) string {
	s = firstN(s, 60)
	return strings.Map(func(r rune) rune {
		if r == ' ' {
			return '_'
		}
		if r >= '0' && r <= '9' {
			return '#'
		}
		return r
	}, s)
}

func caseOf(it *item, opn string) map[string]any {
	c := map[string]any{"operation": opn, "origin": it.Origin}
	if it.Kind == "slice" {
		c["token_slice"] = it.Kinds
	} else {
		c["text"] = firstN(it.Text, 400)
		c["text_len"] = len(it.Text)
		c["text_hex_prefix"] = fmt.Sprintf("%x", firstN(it.Text, 64))
	}
	return c
}

func firstN(s string, n int) string {
	if len(s) > n {
		return s[:n]
	}
	return s
}

// ---------------------------------------------------------------------------------------------------------
// parent

func main() {
	if len(os.Args) > 1 && os.Args[1] == "--child" {
		shard, _ := strconv.Atoi(os.Args[3])
		shards, _ := strconv.Atoi(os.Args[4])
		from, _ := strconv.Atoi(os.Args[5])
		child(os.Args[2], shard, shards, from, os.Args[6])
		return
	}
	tier := os.Getenv("VERIF_TIER")
	if tier == "" {
		tier = "quick"
	}
	run = core.NewRun("C01", tier, "model_checking")
	run.Rule = "every text and token slice generated from the models (see the header) x every public operation (13 operation kinds, 15 parsing/validating entry points, serialisers incl. the command-line formatter, extractors, context tokenizer, 6 dialects, strict mode; 17 token-level entry points for slices); non-trivial = an (item, operation) pair whose item is rejected input, a prefix, a corrupted byte sequence or a token slice without end marker"
	run.Assumptions = []string{
		"a call that does not return within 20 s + 1 s per 4,000 bytes of input counts as not completing (how the cost grows with the input is property C20's business)",
		"fatal runtime errors are observed as the death of the child process; the operation is the last one the child announced",
	}
	items := build(tier)
	dir, err := os.MkdirTemp("", "verif-c01-")
	if err != nil {
		core.Fatalf("%v", err)
	}
	core.RemoveAtExit(dir)
	defer os.RemoveAll(dir)
	workFile := filepath.Join(dir, "work.ndjson")
	{
		var b bytes.Buffer
		for _, it := range items {
			it.Raw = []byte(it.Text)
			j, _ := json.Marshal(it)
			b.Write(j)
			b.WriteByte('\n')
		}
		if err := os.WriteFile(workFile, b.Bytes(), 0o644); err != nil {
			core.Fatalf("%v", err)
		}
	}
	run.Extra["work_items"] = len(items)
	byOrigin := map[string]int{}
	for _, it := range items {
		byOrigin[strings.SplitN(it.Origin, ":", 2)[0]]++
		if it.Origin != "model-statement" && it.Origin != "corpus" {
			run.Nontrivial(it.Origin + "\x00" + it.Text + strings.Join(it.Kinds, ","))
		}
	}
	run.Extra["work_items_by_origin"] = byOrigin
	for k := 0; k < 6 && k < len(items); k++ {
		it := items[(k*7919+13)%len(items)]
		run.Sample(map[string]any{"kind": it.Kind, "origin": it.Origin, "text": firstN(it.Text, 120), "token_slice": it.Kinds})
	}
	tops, sops := textOps(), sliceOps()
	run.Extra["operations_text"], run.Extra["operations_slice"] = len(tops), len(sops)
	const shards = 16
	var wg sync.WaitGroup
	var mu sync.Mutex
	restarts := 0
	var aborted []string
	for s := 0; s < shards; s++ {
		wg.Add(1)
		go func(s int) {
			defer wg.Done()
			from := 0
			shardRestarts := 0
			for {
				out := filepath.Join(dir, fmt.Sprintf("out-%d-%d.json", s, from))
				lastIdx, lastOp, state, stderr := runShard(workFile, s, shards, from, out)
				mu.Lock()
				merged := run.Merge(out)
				mu.Unlock()
				if state == "done" {
					if !merged {
						core.Fatalf("shard %d finished without exporting", s)
					}
					return
				}
				mu.Lock()
				restarts++
				mu.Unlock()
				shardRestarts++
				if lastIdx < 0 {
					core.Fatalf("shard %d died before its first item:\n%s", s, firstN(stderr, 3000))
				}
				it := items[lastIdx]
				list := tops
				if it.Kind == "slice" {
					list = sops
				}
				opn := "?"
				if lastOp >= 0 && lastOp < len(list) {
					opn = list[lastOp].name
				}
				switch state {
				case "crash":
					run.Violate(core.Violation{Sig: "fatal|" + opn + "|" + core.CrashLine(stderr), Clause: "the process is never killed by a runtime fatal error", Case: caseOf(&it, opn), Observe: firstN(stderr, 600)})
				case "hang":
					// the child already recorded the violation
				case "timeout":
					run.Violate(core.Violation{Sig: "hang|" + opn, Clause: "the call completes", Case: caseOf(&it, opn), Observe: "child killed by the parent's watchdog"})
				}
				from = lastIdx + 1
				if shardRestarts >= 6 {
					// the same defect keeps killing or hanging the child: what was found is reported, the rest of
					// this shard is not run (every hang costs a full watchdog period)
					mu.Lock()
					aborted = append(aborted, fmt.Sprintf("shard %d stopped at item %d after %d crashes/hangs", s, lastIdx, shardRestarts))
					mu.Unlock()
					return
				}
			}
		}(s)
	}
	wg.Wait()
	run.Extra["child_restarts"] = restarts
	if len(aborted) > 0 {
		run.Extra["shards_stopped_early"] = aborted
		if run.NumNew() == 0 {
			core.Fatalf("shards stopped early without a new violation: %v", aborted)
		}
	}
	run.Exhaustive = true
	run.Finish()
}

// runShard runs one child; returns the last announced item/op and how it ended: done | crash | hang | timeout.
func runShard(workFile string, shard, shards, from int, out string) (int, int, string, string) {
	self := os.Getenv("VERIF_SELF")
	if self == "" {
		self, _ = os.Executable()
	}
	cmd := exec.Command(self, "--child", workFile, strconv.Itoa(shard), strconv.Itoa(shards), strconv.Itoa(from), out)
	stdout, err := cmd.StdoutPipe()
	if err != nil {
		core.Fatalf("%v", err)
	}
	var stderr bytes.Buffer
	cmd.Stderr = &stderr
	if err := cmd.Start(); err != nil {
		core.Fatalf("%v", err)
	}
	lastIdx, lastOp := -1, -1
	state := ""
	lines := make(chan string, 4096)
	go func() {
		sc := bufio.NewScanner(stdout)
		for sc.Scan() {
			lines <- sc.Text()
		}
		close(lines)
	}()
	timer := time.NewTimer(3*watchdog + 300*time.Second)
loop:
	for {
		select {
		case l, ok := <-lines:
			if !ok {
				break loop
			}
			if !timer.Stop() {
				select {
				case <-timer.C:
				default:
				}
			}
			timer.Reset(3*watchdog + 300*time.Second)
			switch {
			case strings.HasPrefix(l, "P "):
				fmt.Sscanf(l, "P %d %d", &lastIdx, &lastOp)
			case strings.HasPrefix(l, "H "):
				state = "hang"
			case l == "D":
				state = "done"
			}
		case <-timer.C:
			_ = cmd.Process.Kill()
			state = "timeout"
			break loop
		}
	}
	werr := cmd.Wait()
	if state == "" {
		if werr != nil && (strings.Contains(stderr.String(), "fatal error:") || strings.Contains(stderr.String(), "panic:") || strings.Contains(stderr.String(), "goroutine ")) {
			state = "crash"
		} else {
			core.Fatalf("child shard %d ended unexpectedly (%v):\n%s", shard, werr, firstN(stderr.String(), 3000))
		}
	}
	return lastIdx, lastOp, state, stderr.String()
}

// ---------------------------------------------------------------------------------------------------------
// work items

func build(tier string) []item {
	var items []item
	add := func(it item) { items = append(items, it) }
	rng := rand.New(rand.NewSource(run.Seed))

	pl := core.MustTLC(core.TLCOpts{Spec: "Pipeline", Cfg: "Pipeline_q.cfg", Timeout: 10 * time.Minute})
	run.AddTLC(pl.Stat("every entry point as a stage pipeline: Totality (liveness), EntryAgreement, FamilyOfCode"))

	// token slices
	tcfg := "TokenStream_q.cfg"
	if tier == "thorough" {
		tcfg = "TokenStream_t.cfg"
	}
	for _, cfg := range []string{tcfg} {
		ts := core.MustTLC(core.TLCOpts{Spec: "TokenStream", Cfg: cfg, Timeout: 20 * time.Minute})
		run.AddTLC(ts.Stat("cursor over arbitrary token slices (empty, no end marker, type-less tokens): InBounds, CursorBounded, Terminates"))
		seen := map[string]bool{}
		for _, line := range ts.Cases {
			if seen[line] {
				continue
			}
			seen[line] = true
			var c struct {
				Toks []string `json:"toks"`
			}
			if err := json.Unmarshal([]byte(line), &c); err != nil {
				core.Fatalf("bad slice %q", line)
			}
			// quick tier: every slice of length <= 2, a random third of length 3
			if tier != "thorough" && len(c.Toks) == 3 && rng.Intn(3) != 0 {
				continue
			}
			add(item{Kind: "slice", Kinds: c.Toks, Origin: "TokenStream.tla"})
		}
	}
	st, err := core.RunTLC(core.TLCOpts{Spec: "TokenStream", Cfg: "TokenStream_stale.cfg", Workers: 2, Timeout: 2 * time.Minute})
	if err != nil || st.Violation != "CursorBounded" {
		core.Fatalf("TokenStream_stale.cfg must violate CursorBounded (got %q, %v)", st.Violation, err)
	}
	ss := st.Stat("pinned shape (the cached current token stays stale past the end): the cursor runs away on a slice without end marker")
	ss.ExpectViol = "CursorBounded"
	run.AddTLC(ss)
	for _, b := range stmts.Base {
		t := tokenizer.GetTokenizer()
		toks, err := t.Tokenize([]byte(b))
		tokenizer.PutTokenizer(t)
		if err != nil {
			continue
		}
		for n := 0; n < len(toks); n++ { // n == len(toks)-1 drops exactly the end marker
			add(item{Kind: "slice", Kinds: []string{fmt.Sprintf("@%d:%s", n, b)}, Origin: "prefix-without-end-marker"})
		}
	}

	// texts: lexer model
	lexCfgs := []string{"Lexer_full3.cfg"}
	if tier == "thorough" {
		lexCfgs = append(lexCfgs, "Lexer_str6.cfg", "Lexer_num6.cfg", "Lexer_com6.cfg", "Lexer_dol6.cfg")
	}
	seenText := map[string]bool{}
	for _, cfg := range lexCfgs {
		r := core.MustTLC(core.TLCOpts{Spec: "Lexer", Cfg: cfg, Timeout: 30 * time.Minute})
		run.AddTLC(r.Stat("reference lexer (source of byte-class sequences)"))
		for li, line := range r.Cases {
			var cs lexcheck.Case
			if json.Unmarshal([]byte(line), &cs) != nil {
				continue
			}
			if tier != "thorough" && len(cs.Inp) == 3 && li%4 != 0 && cs.Err.E == "" {
				continue
			}
			t := lexconc.Concretise(cs.Inp, li%3).S
			if !seenText[t] {
				seenText[t] = true
				add(item{Kind: "text", Text: t, Origin: "Lexer.tla"})
			}
		}
	}
	// texts: long inputs over narrow alphabets (quoting, comment and dollar-tag machinery needs length, not breadth)
	for _, cfg := range []string{"Lexer_dol3_10.cfg", "Lexer_sq2_11.cfg", "Lexer_dq3_8.cfg", "Lexer_com3_9.cfg", "Lexer_blk3_9.cfg", "Lexer_bs3_8.cfg", "Lexer_bt3_8.cfg", "Lexer_inv5_7.cfg"} {
		r := core.MustTLC(core.TLCOpts{Spec: "Lexer", Cfg: cfg, Timeout: 30 * time.Minute})
		run.AddTLC(r.Stat("reference lexer over a narrow alphabet to greater length (source of byte-class sequences)"))
		for li, line := range r.Cases {
			var cs lexcheck.Case
			if json.Unmarshal([]byte(line), &cs) != nil {
				continue
			}
			vs := []int{li % 2}
			if cfg == "Lexer_inv5_7.cfg" {
				vs = []int{0, 1, 5} // the character no token starts with spelled as an invalid byte, a control character, NUL
			}
			for _, v := range vs {
				t := lexconc.Concretise(cs.Inp, v).S
				if !seenText[t] {
					seenText[t] = true
					add(item{Kind: "text", Text: t, Origin: "Lexer.tla-narrow"})
				}
			}
			// the same class sequence with the word spelled as a keyword that opens a clause and the character no
			// token starts with spelled as a byte sequence whose length changes under case mapping (invalid UTF-8
			// becomes U+FFFD, some letters have a longer or shorter capital): keyword-triggered code that works on
			// a case-folded copy of the text must still use offsets of the text it slices
			if cfg == "Lexer_inv5_7.cfg" && (len(cs.Inp) <= 5 || tier == "thorough" && len(cs.Inp) <= 6) {
				for _, kw := range []string{"select", "ORDER", "union", "WITH", "Or", "like"} {
					for _, bad := range []string{"\xff", "\u0250", "\u017f"} {
						var b strings.Builder
						for _, c := range cs.Inp {
							switch c {
							case "L":
								b.WriteString(kw)
							case "^":
								b.WriteString(bad)
							default:
								b.WriteString(lexconc.Spell(c, 0))
							}
						}
						if t := b.String(); !seenText[t] {
							seenText[t] = true
							add(item{Kind: "text", Text: t, Origin: "Lexer.tla-narrow"})
						}
					}
				}
			}
		}
	}
	// texts: statements, prefixes, corruptions
	ins := gram.Inputs(run, tier)
	step := 4
	if tier == "thorough" {
		step = 1
	}
	for i, in := range ins {
		if in.Desc == "corpus" {
			add(item{Kind: "text", Text: in.Text, Origin: "corpus"})
			for k := 0; k < 6; k++ {
				if len(in.Text) > 2 {
					add(item{Kind: "text", Text: in.Text[:rng.Intn(len(in.Text))], Origin: "corpus-cut"})
				}
			}
			continue
		}
		// every model statement; the prefixes of every fourth one in the quick tier
		add(item{Kind: "text", Text: in.Text, Origin: "model-statement"})
		if i%step != 0 {
			continue
		}
		fs := strings.Fields(in.Text)
		for n := 1; n < len(fs); n++ {
			p := strings.Join(fs[:n], " ")
			if !seenText[p] {
				seenText[p] = true
				add(item{Kind: "text", Text: p, Origin: "statement-prefix"})
			}
		}
	}
	good, bad := stmts.Pools()
	for _, b := range bad {
		add(item{Kind: "text", Text: b.SQL, Origin: "single-token-corruption"})
	}
	// byte corruption of base statements and of one statement per payload of Injection.tla (the scanners' matching
	// code only runs on text that carries a payload)
	payloadStmts := []string{
		"SELECT a FROM t WHERE b = 'x' OR 1=1",
		"SELECT a FROM t WHERE b = 'x' OR 'a'='a'",
		"SELECT a FROM t WHERE b = 'x' OR b = b",
		"SELECT a FROM t WHERE b = 1 AND SLEEP(5)",
		"SELECT a FROM t WHERE b = 1 OR pg_sleep(5) IS NULL",
		"SELECT BENCHMARK(1000000, MD5('x')) FROM t",
		"SELECT LOAD_FILE('/etc/passwd')",
		"SELECT a FROM t; EXEC xp_cmdshell('dir')",
		"SELECT a, b FROM t UNION SELECT NULL, NULL",
		"SELECT a FROM t UNION ALL SELECT table_name FROM information_schema.tables",
		"SELECT a FROM t WHERE b LIKE '%' || c || '%' OR true",
		"SELECT a FROM t WHERE b = '' OR ''='' -- x",
	}
	for bi, b := range append(append([]string{}, stmts.Base...), payloadStmts...) {
		for pos := 0; pos < len(b); pos++ {
			for vi, v := range []string{"\x00", "\xff", "\x80", "\xc3", "\xe2\x80", "\xf0\x9f"} {
				if tier != "thorough" && (pos+bi+vi)%3 != 0 {
					continue
				}
				add(item{Kind: "text", Text: b[:pos] + v + b[pos+1:], Origin: "byte-corruption"})
			}
		}
	}
	_ = good
	for _, s := range workload.Invalid {
		add(item{Kind: "text", Text: s, Origin: "workload-invalid"})
	}
	// shapes named by the property and long chains
	for _, s := range []string{"SELECT INTERVAL 3", "SELECT INTERVAL", "SELECT CAST(", "SELECT a FROM t WHERE a BETWEEN", "SELECT CASE", "SELECT a[", "SELECT ARRAY[", "INSERT INTO t VALUES (", "WITH", "WITH c AS", "SELECT * FROM t JOIN", "SELECT a FROM t ORDER BY", "SELECT a FROM t FETCH FIRST", "SELECT f(", "SELECT f(a) OVER (", "SELECT a FROM t WINDOW w AS (", "MERGE INTO t USING", "CREATE TABLE t (", "ALTER TABLE t ADD", "SELECT a::", "SELECT a ->", "SELECT EXISTS (", "SELECT a IN (", "", " ", ";", ";;;", "\n", "\t"} {
		add(item{Kind: "text", Text: s, Origin: "named-shape"})
	}
	// long runs before a lexical or grammatical problem: where columns and byte offsets drift apart (a tab counts as
	// several columns, a multi-byte character as one), any code that slices the text with a column - or reports a column
	// from an offset - meets its boundary cases only on long lines
	for _, filler := range []string{"\t", "\t\t\t a,", "é", "日本", " ", "\r", "/**/", "𝔘"} {
		for _, n := range []int{30, 100, 400} {
			run := strings.Repeat(filler, n)
			for _, tail := range []string{"'unterminated", "^", "/* open", "'bad \\q'", "12e", "\"open", "FROM FROM", ")", "$tag$ open", ""} {
				add(item{Kind: "text", Text: "SELECT a, " + run + " b " + tail, Origin: "long-run-before-problem"})
				add(item{Kind: "text", Text: "SELECT '" + run + "' " + tail, Origin: "long-run-before-problem"})
			}
		}
	}
	// nesting well below the documented limit, with a sibling at every level (a join, a second FROM item, a conjunct, a
	// set-operation arm): an operation that reaches a nested query along two paths - through a field and through a copy
	// of it - takes 2^depth steps, which at depth 40 is a hang
	for name, ctx := range map[string]string{
		"derived-join":       "SELECT a FROM (%s) x JOIN t ON x.a = t.a",
		"derived-list-join":  "SELECT a FROM (%s) x, u JOIN t ON u.a = t.a",
		"join-derived-right": "SELECT a FROM t JOIN (%s) y ON t.a = y.a",
		"in-subquery":        "SELECT a FROM t WHERE a IN (%s) AND b = 1",
		"scalar":             "SELECT (%s) AS s, b FROM t",
		"cte":                "WITH c AS (%s) SELECT a FROM c JOIN t ON c.a = t.a",
		"union-left":         "SELECT a FROM (%s) x UNION SELECT a FROM t",
		"exists":             "SELECT a FROM t WHERE EXISTS (%s) OR b = 2",
		"case-in":            "SELECT CASE WHEN a IN (%s) THEN 1 ELSE 2 END FROM t",
	} {
		for _, d := range []int{12, 24, 40} {
			q := "SELECT a FROM t0"
			for i := 0; i < d; i++ {
				q = strings.Replace(ctx, "%s", q, 1)
			}
			add(item{Kind: "text", Text: q, Origin: "nested-with-siblings:" + name})
		}
	}
	n := 20000
	if tier == "thorough" {
		n = 60000
	}
	var ob strings.Builder
	ob.WriteString("SELECT a FROM t WHERE a = 0")
	for i := 1; i < n; i++ {
		fmt.Fprintf(&ob, " OR a = %d", i)
	}
	add(item{Kind: "text", Text: ob.String(), Origin: "long-or-chain"})
	add(item{Kind: "text", Text: "SELECT " + strings.Repeat("a + ", n) + "1 FROM t", Origin: "long-plus-chain"})
	add(item{Kind: "text", Text: "SELECT a FROM t WHERE " + strings.Repeat("NOT ", 300) + "a", Origin: "not-chain"})
	add(item{Kind: "text", Text: "SELECT " + strings.Repeat("(", 300) + "a" + strings.Repeat(")", 300), Origin: "paren-chain"})
	if len(items) < 20000 {
		core.Fatalf("only %d work items", len(items))
	}
	return items
}
