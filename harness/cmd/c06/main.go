// C06 — serialising a tree and re-parsing gives the same tree; formatting is stable.
//
//	M  Grammar.tla RoundTrip (the reference parser inverts the reference serialiser under every parenthesisation),
//	   Select.tla (statement forms), FormatOpts.tla (the option lattices of the five serialisers;
//	   OptionsCannotChangeTokens).
//	R  every model statement (expression trees in slots, statement forms) and the repository's SQL corpus is
//	   parsed, serialised by AST.SQL, AST.Format, gosqlx.Format, formatter.Format and the CLI's SQLFormatter under
//	   option sets of the lattice, and re-parsed: the output must be accepted and its whole projected tree must
//	   equal the original's up to the letter case of operator words; serialising the re-parsed tree again must
//	   reproduce the same text (idempotence).
//	T  for expression cases the real serialiser's output is tokenized and handed back to TLC, where the
//	   specification's reference parser must read it as the model tree (GrammarTrace.tla) - so a serialiser
//	   and a parser that are wrong in compensating ways cannot hide each other.
package main

import (
	"encoding/json"
	"fmt"
	"os"
	"reflect"
	"regexp"
	"sort"
	"strconv"
	"strings"
	"sync"
	"time"

	clicmd "github.com/ajitpratap0/GoSQLX/cmd/gosqlx/cmd"
	"github.com/ajitpratap0/GoSQLX/pkg/formatter"
	"github.com/ajitpratap0/GoSQLX/pkg/gosqlx"
	"github.com/ajitpratap0/GoSQLX/pkg/models"
	"github.com/ajitpratap0/GoSQLX/pkg/sql/ast"
	"github.com/ajitpratap0/GoSQLX/pkg/sql/tokenizer"

	"verif/internal/core"
	"verif/internal/gram"
	"verif/internal/project"
	"verif/internal/workload"
)

type opt map[string]any

func (o opt) s(k string) string { v, _ := o[k].(string); return v }
func (o opt) b(k string) bool   { v, _ := o[k].(bool); return v }
func (o opt) i(k string) int    { v, _ := o[k].(float64); return int(v) }

// serialise applies one serialiser under one option set to SQL text (it parses the text itself); a panic of the
// serialiser is reported as an error that starts with "PANIC".
func serialise(o opt, text string) (out string, err error) {
	defer func() {
		if r := recover(); r != nil {
			out, err = "", fmt.Errorf("PANIC: %v", r)
		}
	}()
	return serialise1(o, text)
}

func serialise1(o opt, text string) (string, error) {
	switch o.s("ser") {
	case "gosqlx.Format":
		return gosqlx.Format(text, gosqlx.FormatOptions{IndentSize: o.i("indent"), UppercaseKeywords: o.b("upper"), AddSemicolon: o.b("semicolon"), SingleLineLimit: o.i("limit")})
	case "formatter.Format":
		return formatter.New(formatter.Options{IndentSize: o.i("indent"), Uppercase: o.b("upper"), Compact: o.b("compact")}).Format(text)
	}
	tree, err := gosqlx.Parse(text)
	if err != nil {
		return "", err
	}
	defer ast.ReleaseAST(tree)
	switch o.s("ser") {
	case "AST.SQL":
		return tree.SQL(), nil
	case "AST.Format":
		kc := ast.KeywordPreserve
		switch o.s("case") {
		case "upper":
			kc = ast.KeywordUpper
		case "lower":
			kc = ast.KeywordLower
		}
		is := ast.IndentSpaces
		if o.b("tabs") {
			is = ast.IndentTabs
		}
		return tree.Format(ast.FormatOptions{IndentStyle: is, IndentWidth: o.i("width"), KeywordCase: kc, LineWidth: o.i("lineWidth"),
			NewlinePerClause: o.b("perClause"), AddSemicolon: o.b("semicolon")}), nil
	case "cli.SQLFormatter":
		return clicmd.NewSQLFormatter(clicmd.FormatterOptions{Indent: o.s("indent"), Compact: o.b("compact"), UppercaseKw: o.b("upper"), AlignColumns: o.b("align")}).Format(tree)
	}
	core.Fatalf("unknown serialiser %v", o)
	return "", nil
}

func projOf(text string) (any, error) {
	tree, err := gosqlx.Parse(text)
	if err != nil {
		return nil, err
	}
	defer ast.ReleaseAST(tree)
	return gram.FoldWords(gram.Norm(project.Value(tree.Statements))), nil
}

var run *core.Run

type exprOut struct {
	Tree map[string]any `json:"tree"`
	Toks []string       `json:"toks"`
	Ser  string         `json:"ser"`
	Text string         `json:"text"`
}

var (
	exprMu   sync.Mutex
	exprOuts []exprOut
)

func main() {
	tier := os.Getenv("VERIF_TIER")
	if tier == "" {
		tier = "quick"
	}
	run = core.NewRun("C06", tier, "model_checking")
	run.Rule = "accepted inputs (model expression trees in slots, model statement forms, the repository's .sql corpus) x serialisers x option sets of the lattice (a rotating subset per input in the quick tier); non-trivial = an input with at least two operator nodes or two optional clauses, or a corpus file"
	run.Assumptions = []string{
		"tree equality is the equality of the whole projected trees (every exported field, zero values omitted) up to the letter case of operator words and type names",
		"inputs that the parser itself rejects are C03's business and are skipped here",
	}
	fo := core.MustTLC(core.TLCOpts{Spec: "FormatOpts", Cfg: "FormatOpts.cfg", Workers: 2, Timeout: 2 * time.Minute})
	run.AddTLC(fo.Stat("option lattices of the five serialisers: OptionsCannotChangeTokens"))
	var opts []opt
	for _, l := range fo.Cases {
		var o opt
		if err := json.Unmarshal([]byte(l), &o); err != nil {
			core.Fatalf("bad option set: %v", err)
		}
		opts = append(opts, o)
	}
	sort.Slice(opts, func(i, j int) bool { return fmt.Sprint(opts[i]) < fmt.Sprint(opts[j]) })
	if len(os.Args) > 2 && os.Args[1] == "--replay" {
		b, _ := os.ReadFile(os.Args[2])
		var f struct {
			Violation struct {
				Case struct {
					Text string `json:"text"`
					Opts opt    `json:"options"`
				} `json:"case"`
			} `json:"violation"`
		}
		_ = json.Unmarshal(b, &f)
		oneInput(f.Violation.Case.Text, []opt{f.Violation.Case.Opts}, "replay", nil)
		run.Finish()
	}
	slots := gram.Slots(run)
	// inputs
	type input struct {
		text string
		desc string
		tree map[string]any // model expression tree (nil for statements / corpus)
		toks []string
	}
	var inputs []input
	cfgs := []string{"Grammar_1.cfg", "Grammar_2.cfg", "Grammar_1s.cfg", "Grammar_2s.cfg", "Grammar_1r.cfg", "Grammar_2r.cfg"}
	for ci, cfg := range cfgs {
		if ci >= 2 {
			ci -= 2 // the rich-operand configurations rotate slots like their plain counterparts
		}
		r := core.MustTLC(core.TLCOpts{Spec: "Grammar", Cfg: cfg, Timeout: 30 * time.Minute})
		run.AddTLC(r.Stat(fmt.Sprintf("expression trees with %d operator node(s): RoundTrip, ParenOnlyAdds", ci+1)))
		for li, line := range r.Cases {
			var c gram.Case
			if err := json.Unmarshal([]byte(line), &c); err != nil {
				core.Fatalf("bad case: %v", err)
			}
			// the select-item slot always, one further slot by rotation
			for si, sl := range slots {
				if sl.Name != "select-item" && !(ci == 0 || si == li%len(slots)) {
					continue
				}
				toks := append(append(append([]string{}, sl.Pre...), c.Min...), sl.Post...)
				in := input{text: gram.Layouts(toks, 0), desc: gram.Describe(c.Tree)}
				if sl.Name == "select-item" {
					in.tree, in.toks = c.Tree, c.Min
				}
				inputs = append(inputs, in)
			}
		}
	}
	sr := core.MustTLC(core.TLCOpts{Spec: "Select", Cfg: "Select.cfg", Timeout: 10 * time.Minute})
	run.AddTLC(sr.Stat("statement forms: clause combinations, set operations, CTEs, sub-queries, DML; ClauseIffField"))
	for i, line := range sr.Cases {
		var c struct {
			Name string   `json:"name"`
			Toks []string `json:"toks"`
		}
		_ = json.Unmarshal([]byte(line), &c)
		if tier != "thorough" && c.Name == "select" && i%5 != 0 {
			continue
		}
		inputs = append(inputs, input{text: gram.Layouts(c.Toks, 0), desc: "stmt:" + c.Name})
	}
	for _, s := range workload.Corpus(core.RepoDir, 400) {
		inputs = append(inputs, input{text: s, desc: "corpus"})
	}
	for _, s := range workload.Valid {
		inputs = append(inputs, input{text: s, desc: "workload"})
	}
	var wg sync.WaitGroup
	work := make(chan int, 256)
	for w := 0; w < 16; w++ {
		wg.Add(1)
		go func() {
			defer wg.Done()
			for i := range work {
				in := inputs[i]
				// AST.SQL always; the other serialisers under rotating option sets (all sets in the thorough tier for statement forms)
				var sel []opt
				for oi, o := range opts {
					if o.s("ser") == "AST.SQL" || (tier == "thorough" && !strings.HasPrefix(in.desc, "stmt:select") && in.desc != "corpus") || (oi+i)%23 == 0 {
						sel = append(sel, o)
					}
				}
				// make sure each serialiser appears at least once per input
				seen := map[string]bool{}
				for _, o := range sel {
					seen[o.s("ser")] = true
				}
				for oi := range opts {
					o := opts[(oi+i*7)%len(opts)]
					if !seen[o.s("ser")] {
						seen[o.s("ser")] = true
						sel = append(sel, o)
					}
				}
				oneInput(in.text, sel, in.desc, in.tree)
			}
		}()
	}
	for i := range inputs {
		work <- i
	}
	close(work)
	wg.Wait()
	validateAgainstSpec()
	run.Exhaustive = false
	run.Finish()
}

func oneInput(text string, sel []opt, desc string, modelTree map[string]any) {
	p0, err := projOf(text)
	if err != nil {
		return // not an accepted input
	}
	nontrivial := desc == "corpus" || strings.Contains(desc, ":") || strings.Contains(desc, ",")
	for _, o := range sel {
		run.Eval(1)
		if nontrivial {
			run.Nontrivial(text + fmt.Sprint(o))
		}
		ser := o.s("ser")
		s1, err := serialise(o, text)
		fail := func(sig, clause string, obs, exp any) {
			t := text
			if len(t) > 1500 {
				t = t[:1500]
			}
			run.Violate(core.Violation{Sig: sig, Clause: clause, Case: map[string]any{"text": t, "options": o, "input": desc}, Observe: obs, Expect: exp})
		}
		if err != nil {
			sig := "serialiser-fails|"
			if strings.HasPrefix(err.Error(), "PANIC") {
				sig = "serialiser-panics|"
			}
			fail(sig+ser+"|"+kindOf(desc)+"|"+strings.ReplaceAll(firstN(err.Error(), 70), " ", "_"), "every accepted input can be serialised", err.Error(), nil)
			continue
		}
		p1, err := projOf(s1)
		if err != nil {
			fail("output-rejected|"+ser+"|"+kindOf(desc)+"|"+causeOf(err), "the text produced from a tree is itself accepted", map[string]any{"output": firstN(s1, 600), "error": firstN(err.Error(), 200)}, nil)
			continue
		}
		if !reflect.DeepEqual(p0, p1) {
			d := project.Equal(p1, p0)
			path := d
			if i := strings.Index(d, ":"); i > 0 {
				path = d[:i]
			}
			parts := strings.Split(path, ".")
			fail("reparse-differs|"+ser+"|"+kindOf(desc)+"|"+parts[len(parts)-1], "the output parses to a tree equal to the original", map[string]any{"output": firstN(s1, 600), "diff": firstN(d, 300)}, nil)
			continue
		}
		s2, err := serialise(o, s1)
		if err != nil || s2 != s1 {
			fail("not-idempotent|"+ser+"|"+kindOf(desc), "formatting already formatted output returns it unchanged", map[string]any{"first": firstN(s1, 400), "second": firstN(s2, 400)}, nil)
		}
		if modelTree != nil && ser != "cli.SQLFormatter" && len(exprOuts) < 40000 {
			if toks, ok := modelTokens(s1); ok {
				exprMu.Lock()
				exprOuts = append(exprOuts, exprOut{Tree: modelTree, Toks: toks, Ser: ser, Text: s1})
				exprMu.Unlock()
			}
		}
	}
	if desc != "corpus" && len(text) < 100 && len(text)%13 == 5 {
		run.Sample(map[string]any{"input": text, "serialisers": len(sel)})
	}
}

var reCause = regexp.MustCompile(`Error (E\d+)[^:]*: ([^\n]*)`)

// causeOf condenses a parse error to its code and first line (spaces replaced), so that different reasons for
// rejecting a serialiser's output have different signatures.
func causeOf(err error) string {
	m := reCause.FindStringSubmatch(err.Error())
	if m == nil {
		return "unstructured"
	}
	return m[1] + ":" + strings.ReplaceAll(firstN(m[2], 60), " ", "_")
}

// kindOf keeps the stable part of an input description for signatures.
func kindOf(desc string) string {
	if strings.HasPrefix(desc, "stmt:") || desc == "corpus" || desc == "workload" || desc == "replay" {
		return desc
	}
	return "expr:" + desc
}

// modelTokens tokenizes "SELECT <expr>" output with the real tokenizer and maps it to Grammar.tla's token language.
func modelTokens(s string) ([]string, bool) {
	tk, err := tokenizer.New()
	if err != nil {
		return nil, false
	}
	toks, err := tk.Tokenize([]byte(s))
	if err != nil || len(toks) < 2 || !strings.EqualFold(toks[0].Token.Value, "SELECT") {
		return nil, false
	}
	var out []string
	for _, t := range toks[1:] {
		switch {
		case t.Token.Type == models.TokenTypeEOF:
		case t.Token.Type == models.TokenTypeSemicolon:
		case t.Token.Type == models.TokenTypeSingleQuotedString:
			out = append(out, "'"+t.Token.Value+"'")
		case t.Token.Word != nil && isModelKeyword(t.Token.Value):
			out = append(out, strings.ToUpper(t.Token.Value))
		default:
			out = append(out, t.Token.Value)
		}
	}
	return out, true
}

func isModelKeyword(v string) bool {
	switch strings.ToUpper(v) {
	case "OR", "AND", "NOT", "IS", "NULL", "BETWEEN", "IN", "LIKE", "CASE", "WHEN", "THEN", "ELSE", "END", "CAST", "AS":
		return true
	}
	return false
}

// validateAgainstSpec hands the real serialisers' expression outputs to TLC: RefParse(tokens) must be the model tree.
func validateAgainstSpec() {
	if len(exprOuts) == 0 {
		return
	}
	var b strings.Builder
	for _, e := range exprOuts {
		l, _ := json.Marshal(map[string]any{"tree": e.Tree, "toks": e.Toks})
		b.Write(l)
		b.WriteByte('\n')
	}
	r, err := core.RunTLC(core.TLCOpts{Spec: "GrammarTrace", Cfg: "GrammarTrace.cfg", Workers: 1, Timeout: 20 * time.Minute, KeepOut: true,
		ExtraFile: map[string][]byte{"outputs.ndjson": []byte(b.String())}})
	if err != nil {
		core.Fatalf("GrammarTrace: %v", err)
	}
	st := r.Stat(fmt.Sprintf("the real serialisers' output for %d expression cases read by the specification's reference parser", len(exprOuts)))
	st.Mode = "trace-validation"
	run.AddTLC(st)
	re := regexp.MustCompile(`MISREAD", (\d+)`)
	ms := re.FindAllStringSubmatch(r.Output, -1)
	if !r.OK {
		core.Fatalf("GrammarTrace did not complete:\n%s", tailOf(r.Output, 2000))
	}
	seen := map[int]bool{}
	for _, m := range ms {
		idx, _ := strconv.Atoi(m[1])
		if idx < 1 || idx > len(exprOuts) || seen[idx] {
			continue
		}
		seen[idx] = true
		eo := exprOuts[idx-1]
		run.Violate(core.Violation{Sig: "spec-reads-output-differently|" + eo.Ser + "|" + gram.Describe(eo.Tree), Clause: "the serialised text denotes the original tree under the reference grammar",
			Case: map[string]any{"text": eo.Text, "options": map[string]any{"ser": eo.Ser}}, Observe: eo.Toks, Expect: eo.Tree})
	}
	run.Traces(int64(len(exprOuts) - len(seen)))
}

func firstN(s string, n int) string {
	if len(s) > n {
		return s[:n]
	}
	return s
}

func tailOf(s string, n int) string {
	if len(s) > n {
		return s[len(s)-n:]
	}
	return s
}
