package main

// Pooled-object sharing: Sharing.tla gives the pattern (an operation preempted between its pool events while
// another goroutine runs a whole operation on the same pools) and the invariants; here every operation kind is
// preempted at EVERY one of its real pool events (gates in the tokenizer, parser and tree-container pools) while
// every other operation kind runs to completion, on one P so that the second goroutine draws the very objects
// the first one just returned. The preempted operation's result must be the result it gives alone.

import (
	"encoding/json"
	"fmt"
	"runtime"
	"sync/atomic"
	"time"

	"github.com/ajitpratap0/GoSQLX/pkg/sql/ast"
	"github.com/ajitpratap0/GoSQLX/pkg/sql/parser"
	"github.com/ajitpratap0/GoSQLX/pkg/sql/tokenizer"

	"verif/internal/core"
	"verif/internal/ops"
)

var (
	shG1      atomic.Int64 // goroutine id of the operation under test (0: none)
	shCount   atomic.Int64 // pool events of g1 so far
	shParkAt  atomic.Int64 // park g1 at this event number (-1: never)
	shParked  = make(chan string, 1)
	shResume  = make(chan struct{})
	shPointOf string
)

func poolGate(point string) {
	if shG1.Load() == 0 || goid() != shG1.Load() {
		return
	}
	n := shCount.Add(1)
	if n == shParkAt.Load() {
		shParked <- point
		<-shResume
	}
}

var sharingInputs = map[string][2]string{
	// (input of the operation under test, input of the intruder): different statements, both with comments
	"a": {"SELECT a, b -- first\nFROM t /* own */ WHERE a = 1 AND b IN (1, 2);\n-- tail own\nSELECT 2", "SELECT x /* other */ FROM u -- other\nWHERE y = 'z' ORDER BY x; -- other tail\nINSERT INTO u (x) VALUES (1)"},
	"b": {"UPDATE t SET a = 1 /* own */ WHERE b = 2", "SELECT FROM -- other broken\nWHERE"},
}

func sharing(run *core.Run, tier string) {
	ok := core.MustTLC(core.TLCOpts{Spec: "Sharing", Cfg: "Sharing_copy.cfg", Workers: 2, Timeout: 2 * time.Minute})
	run.AddTLC(ok.Stat("pooled object shared by two goroutines, results copied before Put: Exclusive, ResultIsOwn on every interleaving"))
	bad, err := core.RunTLC(core.TLCOpts{Spec: "Sharing", Cfg: "Sharing_alias.cfg", Workers: 2, Timeout: 2 * time.Minute})
	if err != nil || bad.Violation != "ResultIsOwn" {
		core.Fatalf("Sharing_alias.cfg must violate ResultIsOwn (got %q, %v)", bad.Violation, err)
	}
	st := bad.Stat("result still points into the pooled object after Put: another goroutine's data is read")
	st.ExpectViol = "ResultIsOwn"
	run.AddTLC(st)
	for _, c := range ok.Cases {
		var s struct {
			Sched [][]any `json:"sched"`
		}
		if json.Unmarshal([]byte(c), &s) != nil || len(s.Sched) == 0 {
			core.Fatalf("bad schedule %q", c)
		}
	}

	tokenizer.VerifPoolGate, parser.VerifPoolGate, ast.VerifPoolGate = poolGate, poolGate, poolGate
	defer func() { tokenizer.VerifPoolGate, parser.VerifPoolGate, ast.VerifPoolGate = nil, nil, nil }()
	old := runtime.GOMAXPROCS(1)
	defer runtime.GOMAXPROCS(old)

	kinds := ops.Kinds
	preemptions, events := 0, 0
	for _, pair := range []string{"a", "b"} {
		own, other := sharingInputs[pair][0], sharingInputs[pair][1]
		for _, k1 := range kinds {
			// alone: result and number of pool events
			shParkAt.Store(-1)
			alone, n := runG1(k1, own, nil)
			events += n
			for _, k2 := range kinds {
				if tier != "thorough" && (len(k1)+len(k2))%2 == 1 && k1 != "formatpkg" && k2 != "formatpkg" {
					continue // quick tier: half of the operation pairs, every pair involving the comment-carrying formatter
				}
				for at := 1; at <= n; at++ {
					shParkAt.Store(int64(at))
					got, _ := runG1(k1, own, func() { _ = ops.Do(k2, other); _ = ops.Do(k2, other) })
					preemptions++
					run.Eval(1)
					run.Nontrivial(fmt.Sprintf("%s/%s/%d/%s", k1, k2, at, pair))
					if got != alone {
						run.Violate(core.Violation{Sig: "preempted-result-differs|" + k1 + "|" + shPointOf, Clause: "every call returns what it returns when run alone",
							Case:    map[string]any{"kind": "sharing", "operation": k1, "input": own, "preempted_at_pool_event": at, "gate": shPointOf, "intruder": k2, "intruder_input": other},
							Observe: firstN(got, 400), Expect: firstN(alone, 400)})
					}
				}
			}
		}
	}
	run.Extra["sharing_pool_events_of_operations"] = events
	run.Extra["sharing_preemptions_replayed"] = preemptions
	if preemptions < 100 {
		core.Fatalf("only %d preemption points found: the pool gates no longer bind", preemptions)
	}
}

// runG1 runs ops.Do(kind, sql) on its own goroutine; when it parks at the configured pool event, intruder runs
// on the calling goroutine and the operation is resumed. Returns the result and the number of pool events seen.
func runG1(kind, sql string, intruder func()) (string, int) {
	res := make(chan string, 1)
	shCount.Store(0)
	go func() {
		shG1.Store(goid())
		defer shG1.Store(0)
		res <- ops.Do(kind, sql)
	}()
	for {
		select {
		case p := <-shParked:
			shPointOf = p
			if intruder != nil {
				intruder()
			}
			shResume <- struct{}{}
		case r := <-res:
			return r, int(shCount.Load())
		case <-time.After(30 * time.Second):
			core.Fatalf("sharing replay stuck (operation %s)", kind)
		}
	}
}
