package main

import (
	"encoding/json"
	"errors"
	"fmt"
	"runtime"
	"sync"
	"sync/atomic"
	"time"

	"github.com/ajitpratap0/GoSQLX/pkg/metrics"

	"verif/internal/core"
)

// errorBursts binds ErrorMap.tla: TLC checks Exact for the shape of the code (one step under the write lock) and
// for the double-checked shape over all interleavings, and must find the lost count in the check-then-act shape.
// Every assignment of messages to recorders that TLC prints is then run as bursts on the real table: the recorders
// are released together against messages nobody has recorded yet (the only moment a look-up can miss), many
// rounds, through RecordTokenization and RecordParse alternately, and the per-message counts and their sum are
// compared with the number of failing calls.  The schedules are whatever the scheduler produces - this part is
// statistical, unlike the gate-forced schedules of Metrics.tla.
func errorBursts(run *core.Run, tier string) {
	m := core.MustTLC(core.TLCOpts{Spec: "ErrorMap", Cfg: "ErrorMap_mutex.cfg", Workers: 2, Timeout: 2 * time.Minute})
	run.AddTLC(m.Stat("error breakdown table, update under one lock (the code's shape): Exact over all interleavings of 3 recorders x 2 messages"))
	d := core.MustTLC(core.TLCOpts{Spec: "ErrorMap", Cfg: "ErrorMap_doublechecked.cfg", Workers: 2, Timeout: 2 * time.Minute})
	run.AddTLC(d.Stat("error breakdown table, double-checked insertion: Exact"))
	c, err := core.RunTLC(core.TLCOpts{Spec: "ErrorMap", Cfg: "ErrorMap_checkthenact.cfg", Workers: 2, Timeout: 2 * time.Minute})
	if err != nil || c.Violation != "Exact" {
		core.Fatalf("ErrorMap_checkthenact.cfg must violate Exact (got %q, %v)", c.Violation, err)
	}
	st := c.Stat("check-then-act insertion: a second recorder's insert replaces the first one's counter")
	st.ExpectViol = "Exact"
	run.AddTLC(st)

	type assign struct {
		Keys []string `json:"keys"` // recorder i fails with message Keys[i]
	}
	seen := map[string]bool{}
	var cases []assign
	for _, line := range m.Cases {
		if seen[line] {
			continue
		}
		seen[line] = true
		var a assign
		if err := json.Unmarshal([]byte(line), &a); err != nil {
			core.Fatalf("bad assignment %q: %v", line, err)
		}
		cases = append(cases, a)
	}
	if len(cases) < 4 {
		core.Fatalf("ErrorMap printed only %d assignments", len(cases))
	}
	rounds := 1200
	if tier == "thorough" {
		rounds = 4000
	}
	old := runtime.GOMAXPROCS(16)
	defer runtime.GOMAXPROCS(old)
	metrics.Reset()
	metrics.Enable()
	defer metrics.Disable()
	const per = 4 // goroutines per model recorder
	for ci, a := range cases {
		recs := a.Keys
		lost := 0
		var firstLoss map[string]any
		for r := 0; r < rounds; r++ {
			if r%256 == 0 {
				metrics.Reset()
			}
			want := map[string]int64{}
			var ready, start atomic.Int32
			var wg sync.WaitGroup
			n := len(recs) * per
			for g := 0; g < n; g++ {
				msg := fmt.Sprintf("burst %d/%d: %s", ci, r, recs[g%len(recs)])
				if g%2 == 0 {
					want[msg]++
				} else {
					want["parse:"+msg]++ // RecordParse files its errors under "parse:" + message
				}
				wg.Add(1)
				go func(g int, msg string) {
					defer wg.Done()
					e := errors.New(msg)
					ready.Add(1)
					for start.Load() == 0 {
						runtime.Gosched()
					}
					if g%2 == 0 {
						metrics.RecordTokenization(time.Microsecond, 10, e)
					} else {
						metrics.RecordParse(time.Microsecond, 1, e)
					}
				}(g, msg)
			}
			for int(ready.Load()) < n {
				runtime.Gosched()
			}
			start.Store(1)
			wg.Wait()
			got := metrics.GetStats().ErrorsByType
			run.Eval(1)
			for msg, w := range want {
				if got[msg] != w {
					lost++
					if firstLoss == nil {
						firstLoss = map[string]any{"message": msg, "failing_calls": w, "counted": got[msg], "round": r}
					}
				}
			}
		}
		run.Nontrivial("errormap" + core.JSON(a.Keys))
		if lost > 0 {
			run.Violate(core.Violation{Sig: "metrics-total-wrong|errorsByType|first-occurrence", Clause: "metrics totals equal the true values at quiescence",
				Case: map[string]any{"kind": "error-burst", "assignment": a.Keys, "goroutines": len(recs) * per, "rounds": rounds}, Observe: map[string]any{"rounds_with_a_lost_count": lost, "first": firstLoss}})
		}
	}
	run.Sample(map[string]any{"kind": "error-burst", "assignments": len(cases), "rounds_each": rounds, "goroutines_per_round": 3 * per})
}
