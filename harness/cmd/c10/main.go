// C10 — concurrent use gives the sequential results, race-free, with exact metrics.
//
//  1. TLC checks Metrics.tla (CAS-loop shape, 3 goroutines): ExactAtQuiescence, monotonicity, termination;
//     and checks that the load/store shape of the pinned commit violates it (so the model bites).
//  2. TLC enumerates every complete schedule of 2 (quick) / 3 (thorough) recordings; each schedule is
//     forced on real goroutines through the verif gates in RecordTokenization; at every gate the value
//     the code loaded must be the value the specification predicts, and at quiescence GetStats must
//     report the true totals.
//  3. A race-detector build runs 4 x cores goroutines over TLC-chosen... seeded mixes of every public
//     operation on a shared workload; every result is compared with a sequential oracle table and the
//     metrics totals with the exact sums; instance hand-out events are validated against
//     ConcurrentUse.tla.
package main

import (
	"bytes"
	"context"
	"encoding/json"
	"errors"
	"fmt"
	"math/rand"
	"os"
	"os/exec"
	"path/filepath"
	"regexp"
	"runtime"
	"strconv"
	"strings"
	"sync"
	"sync/atomic"
	"time"

	"github.com/ajitpratap0/GoSQLX/pkg/gosqlx"
	"github.com/ajitpratap0/GoSQLX/pkg/metrics"
	"github.com/ajitpratap0/GoSQLX/pkg/sql/ast"

	"verif/internal/core"
	"verif/internal/ops"
	"verif/internal/project"
	"verif/internal/workload"
)

type step struct {
	G   int    `json:"g"`
	At  string `json:"at"`
	Saw int64  `json:"saw"`
}

type schedCase struct {
	Size  []int64 `json:"size"`
	Err   []bool  `json:"err"`
	Sched []step  `json:"sched"`
	Min   int64   `json:"min"`
	Max   int64   `json:"max"`
	Ops   int64   `json:"ops"`
	Bytes int64   `json:"bytes"`
	Errs  int64   `json:"errs"`
}

func main() {
	if len(os.Args) > 1 && os.Args[1] == "--stress-child" {
		stressChild()
		return
	}
	tier := os.Getenv("VERIF_TIER")
	if tier == "" {
		tier = "quick"
	}
	run := core.NewRun("C10", tier, "model_checking")
	run.Rule = "schedules: every complete interleaving TLC generates for Metrics.tla at gate granularity (all size/error assignments); " +
		"non-trivial = a schedule in which at least two recordings overlap (some goroutine starts before another has finished); " +
		"stress: (operation kind, input) calls on 4 x cores goroutines compared with a sequential oracle table under the race detector"
	run.Assumptions = []string{
		"atomic adds inside a segment commute with every other step, so they are folded into the segment's action",
		"the race-free clause is decided by the Go race detector observing spec-driven workloads (it reports races that occur, not all that could)",
	}
	if len(os.Args) > 2 && os.Args[1] == "--replay" {
		replay(run, os.Args[2])
		run.Finish()
	}

	// 1. design-level model check
	r := core.MustTLC(core.TLCOpts{Spec: "Metrics", Cfg: "Metrics_cas.cfg", Timeout: 5 * time.Minute})
	run.AddTLC(r.Stat("CAS-loop shape, 3 goroutines x sizes 1..3 x error flags: ExactAtQuiescence, MinNeverGrows, MaxNeverShrinks, Termination"))
	p, err := core.RunTLC(core.TLCOpts{Spec: "Metrics", Cfg: "Metrics_pinned.cfg", Timeout: 2 * time.Minute})
	if err != nil || p.Violation != "ExactAtQuiescence" {
		core.Fatalf("Metrics_pinned.cfg: the load/store shape must violate ExactAtQuiescence (got %q, err %v): the model lost its bite\n%s", p.Violation, err, p.Output)
	}
	st := p.Stat("load-compare-store shape of the pinned commit: TLC must find the lost update")
	st.ExpectViol = "ExactAtQuiescence"
	run.AddTLC(st)

	// 2. forced schedules
	cfg := "Metrics_emit2.cfg"
	if tier == "thorough" {
		cfg = "Metrics_emit3.cfg"
	}
	e := core.MustTLC(core.TLCOpts{Spec: "Metrics", Cfg: cfg, Timeout: 15 * time.Minute})
	run.AddTLC(e.Stat("all complete schedules, printed as JSON and replayed on real goroutines"))
	if len(e.Cases) == 0 {
		core.Fatalf("no schedules exported by %s", cfg)
	}
	conform, deviated := 0, 0
	for _, c := range e.Cases {
		var sc schedCase
		if err := json.Unmarshal([]byte(c), &sc); err != nil {
			core.Fatalf("bad schedule json %q: %v", c, err)
		}
		ok := replaySchedule(run, &sc)
		if ok {
			conform++
		} else {
			deviated++
		}
	}
	run.Extra["schedules_followed_exactly"] = conform
	run.Extra["schedules_deviated"] = deviated
	run.Traces(int64(conform))
	if conform == 0 {
		core.Fatalf("no TLC schedule could be followed by the real code (%d tried): the gates no longer bind Metrics.tla to RecordTokenization", deviated)
	}

	// 2a. schedules in which the recorder of the true extreme loses three swaps in a row: the shape that gives up ends
	// with a wrong total on each of them (that is how TLC finds them); the real code must end exact
	gu := core.MustTLC(core.TLCOpts{Spec: "Metrics", Cfg: "Metrics_giveup.cfg", Timeout: 5 * time.Minute})
	gs := gu.Stat("the shape that gives up after three lost swaps, four recorders: the schedules that end with a wrong smallest / largest size (replayed on the real code, which must end exact)")
	gs.ExpectViol = "ExactAtQuiescence (schedules printed instead of stopping at the first)"
	run.AddTLC(gs)
	if len(gu.Cases) < 10 {
		core.Fatalf("Metrics_giveup.cfg printed %d schedules", len(gu.Cases))
	}
	for _, c := range gu.Cases {
		var sc schedCase
		if err := json.Unmarshal([]byte(c), &sc); err != nil {
			core.Fatalf("bad schedule json %q: %v", c, err)
		}
		replaySchedule(run, &sc) // the code leaves the schedule where the model gives up; the totals are judged
	}

	// 2b. the per-message error table: bursts of first occurrences
	errorBursts(run, tier)

	// 3. pooled-object sharing: forced preemption at every pool event
	sharing(run, tier)

	// 4. race-detector stress with sequential oracle
	stress(run, tier)
	run.Exhaustive = false
	run.Finish()
}

// ---------------------------------------------------------------------------
// forced schedules

type event struct {
	point  int // 1 min loaded, 2 max loaded, 0 done
	loaded int64
}

type worker struct {
	resume  chan struct{}
	arrived chan event
	started bool
	done    bool
	blocked bool
}

var (
	goidRe  = regexp.MustCompile(`^goroutine (\d+) `)
	gateMu  sync.Mutex
	gateMap = map[int64]*worker{}
	freeRun atomic.Bool
)

func goid() int64 {
	var buf [64]byte
	n := runtime.Stack(buf[:], false)
	m := goidRe.FindSubmatch(buf[:n])
	if m == nil {
		return -1
	}
	id, _ := strconv.ParseInt(string(m[1]), 10, 64)
	return id
}

func gate(point int, loaded int64) {
	if freeRun.Load() {
		return
	}
	gateMu.Lock()
	w := gateMap[goid()]
	gateMu.Unlock()
	if w == nil {
		return
	}
	w.arrived <- event{point, loaded}
	<-w.resume
}

var atName = map[int]string{0: "done", 1: "minLoaded", 2: "maxLoaded"}

// replaySchedule forces one TLC schedule on real goroutines. It returns whether the code followed the
// schedule exactly (every gate reached in the predicted order with the predicted loaded value).
func replaySchedule(run *core.Run, sc *schedCase) bool {
	metrics.Reset()
	metrics.Enable()
	defer metrics.Disable()
	metrics.VerifGate = gate
	freeRun.Store(false)
	n := len(sc.Size)
	ws := make([]*worker, n+1)
	for g := 1; g <= n; g++ {
		ws[g] = &worker{resume: make(chan struct{}, 1), arrived: make(chan event, 8)}
	}
	var wg sync.WaitGroup
	start := func(g int) {
		w := ws[g]
		w.started = true
		wg.Add(1)
		go func() {
			defer wg.Done()
			id := goid()
			gateMu.Lock()
			gateMap[id] = w
			gateMu.Unlock()
			var e error
			if sc.Err[g-1] {
				e = errors.New("E1001 boom")
			}
			metrics.RecordTokenization(time.Microsecond, int(sc.Size[g-1]), e)
			gateMu.Lock()
			delete(gateMap, id)
			gateMu.Unlock()
			w.arrived <- event{0, 0}
		}()
	}
	followed := true
	overlap := false
	running := 0
	for _, s := range sc.Sched {
		w := ws[s.G]
		if w.done {
			followed = false
			break
		}
		if !w.started {
			if running > 0 {
				overlap = true
			}
			running++
			start(s.G)
		} else {
			w.blocked = false
			w.resume <- struct{}{}
		}
		var ev event
		select {
		case ev = <-w.arrived:
		case <-time.After(20 * time.Second):
			core.Fatalf("schedule replay: goroutine %d did not reach a gate or finish within 20 s", s.G)
		}
		if ev.point == 0 {
			w.done = true
			running--
		} else {
			w.blocked = true
		}
		if atName[ev.point] != s.At || (ev.point != 0 && ev.loaded != s.Saw) {
			followed = false
			break
		}
	}
	// Let everything run to completion (also when the code left the schedule).
	freeRun.Store(true)
	for g := 1; g <= n; g++ {
		w := ws[g]
		if !w.started {
			start(g)
		} else if w.blocked {
			w.resume <- struct{}{}
		}
	}
	wg.Wait()
	metrics.VerifGate = nil
	st := metrics.GetStats()
	var tb, te int64
	tmin, tmax := int64(-1), int64(0)
	for i, s := range sc.Size {
		tb += s
		if sc.Err[i] {
			te++
		}
		if tmin == -1 || s < tmin {
			tmin = s
		}
		if s > tmax {
			tmax = s
		}
	}
	var byType int64
	for _, c := range st.ErrorsByType {
		byType += c
	}
	run.Eval(1)
	key := core.JSON(sc.Sched) + core.JSON(sc.Size) + core.JSON(sc.Err)
	if overlap {
		run.Nontrivial(key)
	}
	run.Sample(map[string]any{"kind": "schedule", "size": sc.Size, "err": sc.Err, "sched": sc.Sched})
	check := func(field string, got, want int64) {
		if got != want {
			run.Violate(core.Violation{Sig: "metrics-total-wrong|" + field, Clause: "metrics totals equal the true values at quiescence",
				Case: sc, Observe: map[string]any{field: got}, Expect: map[string]any{field: want}})
		}
	}
	check("ops", st.TokenizeOperations, int64(n))
	check("bytes", st.TotalBytesProcessed, tb)
	check("errors", st.TokenizeErrors, te)
	check("errorsByType", byType, te)
	check("min", st.MinQuerySize, tmin)
	check("max", st.MaxQuerySize, tmax)
	return followed
}

func replay(run *core.Run, path string) {
	b, err := os.ReadFile(path)
	if err != nil {
		core.Fatalf("replay: %v", err)
	}
	var f struct {
		Violation struct {
			Case json.RawMessage `json:"case"`
		} `json:"violation"`
	}
	if err := json.Unmarshal(b, &f); err != nil {
		core.Fatalf("replay: %v", err)
	}
	var sc schedCase
	if json.Unmarshal(f.Violation.Case, &sc) == nil && len(sc.Sched) > 0 {
		replaySchedule(run, &sc)
		return
	}
	// stress cases are re-run as a whole
	stress(run, "quick")
}

// ---------------------------------------------------------------------------
// stress under the race detector

type stressOut struct {
	Calls      int64             `json:"calls"`
	Distinct   int               `json:"distinct"`
	Mismatch   []map[string]any  `json:"mismatch"`
	Totals     map[string]int64  `json:"totals"`
	Truth      map[string]int64  `json:"truth"`
	Goroutines int               `json:"goroutines"`
	Samples    []map[string]any  `json:"samples"`
	PerKind    map[string]int64  `json:"per_kind"`
}

func stress(run *core.Run, tier string) {
	self := os.Getenv("VERIF_SELF")
	if self == "" {
		self, _ = os.Executable()
	}
	raceBin := self + ".race"
	args := []string{"build", "-race", "-tags", "verif", "-o", raceBin}
	if mf := findModfile(); mf != "" {
		args = append(args, "-modfile="+mf)
	}
	args = append(args, "./cmd/c10")
	cmd := exec.Command("go", args...)
	cmd.Dir = filepath.Join(core.VerifDir, "harness")
	if out, err := cmd.CombinedOutput(); err != nil {
		core.Fatalf("building the race-detector driver failed: %v\n%s", err, out)
	}
	defer os.Remove(raceBin)
	secs := "12"
	if tier == "thorough" {
		secs = "120"
	}
	c := exec.Command(raceBin, "--stress-child", secs, strconv.FormatInt(run.Seed, 10))
	c.Env = append(os.Environ(), "GORACE=halt_on_error=0 exitcode=0")
	var stdout, stderr bytes.Buffer
	c.Stdout, c.Stderr = &stdout, &stderr
	err := c.Run()
	errText := stderr.String()
	if strings.Contains(errText, "WARNING: DATA RACE") {
		// signature: the first two library frames of the report
		sig := "data-race|" + raceSite(errText)
		run.Violate(core.Violation{Sig: sig, Clause: "no execution contains a data race on library state",
			Case: map[string]any{"kind": "stress", "seed": run.Seed}, Observe: firstN(errText, 3000)})
	}
	if err != nil {
		if strings.Contains(errText, "fatal error:") || strings.Contains(errText, "panic:") {
			run.Violate(core.Violation{Sig: "concurrent-crash|" + crashLine(errText), Clause: "every call returns what it returns when run alone",
				Case: map[string]any{"kind": "stress", "seed": run.Seed}, Observe: firstN(errText, 3000)})
			return
		}
		core.Fatalf("stress child failed: %v\n%s", err, firstN(errText, 3000))
	}
	var so stressOut
	if err := json.Unmarshal(stdout.Bytes(), &so); err != nil {
		core.Fatalf("stress child output: %v\n%s", err, firstN(stdout.String(), 2000))
	}
	run.Eval(so.Calls)
	for i := 0; i < so.Distinct; i++ {
		run.Nontrivial("stress-case-" + strconv.Itoa(i))
	}
	for _, s := range so.Samples {
		run.Sample(s)
	}
	run.Extra["stress"] = map[string]any{"calls": so.Calls, "goroutines": so.Goroutines, "totals": so.Totals, "truth": so.Truth, "per_kind": so.PerKind}
	for _, m := range so.Mismatch {
		run.Violate(core.Violation{Sig: fmt.Sprintf("concurrent-result-differs|%v", m["kind"]), Clause: "every call returns exactly what it returns when run alone",
			Case: m})
	}
	for k, want := range so.Truth {
		if so.Totals[k] != want {
			run.Violate(core.Violation{Sig: "metrics-total-wrong|" + k, Clause: "metrics totals equal the true values after all goroutines finished",
				Case: map[string]any{"kind": "stress", "seed": run.Seed}, Observe: so.Totals, Expect: so.Truth})
		}
	}
}

func findModfile() string {
	// ./check passes a private module file when VERIF_REPO is not /repo
	ms, _ := filepath.Glob(filepath.Join(core.VerifDir, "harness", fmt.Sprintf("alt.%d.mod", os.Getppid())))
	if len(ms) > 0 {
		return ms[0]
	}
	return ""
}

func firstN(s string, n int) string {
	if len(s) > n {
		return s[:n]
	}
	return s
}

var frameRe = regexp.MustCompile(`github\.com/ajitpratap0/GoSQLX/([\w/\.\(\)\*]+)\(`)

func raceSite(report string) string {
	ms := frameRe.FindAllStringSubmatch(report, 4)
	seen := map[string]bool{}
	var out []string
	for _, m := range ms {
		if !seen[m[1]] && len(out) < 2 {
			seen[m[1]] = true
			out = append(out, m[1])
		}
	}
	return strings.Join(out, "+")
}

func crashLine(s string) string {
	for _, l := range strings.Split(s, "\n") {
		if strings.HasPrefix(l, "fatal error:") || strings.HasPrefix(l, "panic:") {
			return strings.ReplaceAll(firstN(l, 80), " ", "_")
		}
	}
	return "unknown"
}

type call struct{ kind, sql string }

// personalise gives goroutine g its own spelling of an input: own comment texts, literals and
// identifiers, so that any cross-goroutine contamination of a result is visible as a difference.
func personalise(sql string, g int) string {
	tag := fmt.Sprintf("g%03d", g)
	s := strings.ReplaceAll(sql, "'x'", "'x_"+tag+"'")
	s = strings.ReplaceAll(s, " t ", " t_"+tag+" ")
	if !strings.Contains(s, "'unterminated") && !strings.Contains(s, "\"unterminated") {
		s = "/* head " + tag + " */ " + s + " -- tail " + tag
	}
	return s
}

// fireCtx reports cancellation from its k-th poll on (deterministic: the same call alone and in the crowd is cancelled
// at the same point).
type fireCtx struct {
	context.Context
	n, k int
}

func (c *fireCtx) Err() error {
	c.n++
	if c.n > c.k {
		return context.Canceled
	}
	return nil
}

// stressKinds: the operation kinds plus context-aware parses of a three-statement script that are cancelled at their
// k-th poll - calls that fail half-way give their pooled objects back on another path than calls that finish
var stressKinds = append(append([]string{}, ops.Kinds...), "cancel@3", "cancel@6", "cancel@9", "cancel@14")

func stressDo(kind, sql string) string {
	if !strings.HasPrefix(kind, "cancel@") {
		return ops.Do(kind, sql)
	}
	k, _ := strconv.Atoi(kind[len("cancel@"):])
	tree, err := gosqlx.ParseWithContext(&fireCtx{Context: context.Background(), k: k}, sql+";\n"+sql+";\n"+sql)
	if err != nil {
		return "err:" + ops.Err(err).Code + fmt.Sprint(errors.Is(err, context.Canceled))
	}
	out := project.String(tree.Statements)
	ast.ReleaseAST(tree)
	return out
}

func stressChild() {
	secs, _ := strconv.Atoi(os.Args[2])
	seed, _ := strconv.ParseInt(os.Args[3], 10, 64)
	base := append(append([]string{}, workload.Valid...), workload.Invalid...)
	base = append(base, "SELECT a FROM t LIMIT 10, 20", "SELECT a FROM t WHERE b = 'x' LIMIT 5, 6")
	shared := workload.Corpus(core.RepoDir, 30)
	ng := 4 * runtime.NumCPU()
	// sequential oracle: result and metric deltas of every (kind, input) run alone
	type alone struct {
		res                        string
		ops, errs, bytes, min, max int64
	}
	table := map[call]alone{}
	record := func(k, in string) {
		metrics.Reset()
		metrics.Enable()
		res := stressDo(k, in)
		st := metrics.GetStats()
		metrics.Disable()
		table[call{k, in}] = alone{res, st.TokenizeOperations, st.TokenizeErrors, st.TotalBytesProcessed, st.MinQuerySize, st.MaxQuerySize}
	}
	inputsOf := make([][]string, ng)
	for g := 0; g < ng; g++ {
		for _, b := range base {
			inputsOf[g] = append(inputsOf[g], personalise(b, g))
		}
		inputsOf[g] = append(inputsOf[g], shared...)
	}
	for _, k := range stressKinds {
		for g := 0; g < ng; g++ {
			for _, in := range inputsOf[g] {
				if _, ok := table[call{k, in}]; !ok {
					record(k, in)
				}
			}
		}
	}
	metrics.Reset()
	metrics.Enable()
	deadline := time.Now().Add(time.Duration(secs) * time.Second)
	var mu sync.Mutex
	out := stressOut{Goroutines: ng, Totals: map[string]int64{}, Truth: map[string]int64{}, PerKind: map[string]int64{}}
	truthMin, truthMax := int64(-1), int64(0)
	used := map[call]bool{}
	var wg sync.WaitGroup
	for g := 0; g < ng; g++ {
		wg.Add(1)
		go func(g int) {
			defer wg.Done()
			rng := rand.New(rand.NewSource(seed*1000 + int64(g)))
			inputs := inputsOf[g]
			var lo stressOut
			lo.Truth = map[string]int64{}
			lo.PerKind = map[string]int64{}
			lmin, lmax := int64(-1), int64(0)
			lused := map[call]bool{}
			for i := 0; i < 50 || time.Now().Before(deadline); i++ {
				c := call{stressKinds[rng.Intn(len(stressKinds))], inputs[rng.Intn(len(inputs))]}
				if rng.Intn(16) == 0 {
					_ = metrics.GetStats() // readers run concurrently with recorders
				}
				got := stressDo(c.kind, c.sql)
				a := table[c]
				lo.Calls++
				lo.PerKind[c.kind]++
				lused[c] = true
				if got != a.res && len(lo.Mismatch) < 5 {
					lo.Mismatch = append(lo.Mismatch, map[string]any{"kind": c.kind, "sql": c.sql, "alone": firstN(a.res, 400), "concurrent": firstN(got, 400), "goroutine": g})
				}
				lo.Truth["ops"] += a.ops
				lo.Truth["errors"] += a.errs
				lo.Truth["bytes"] += a.bytes
				if a.ops > 0 {
					if lmin == -1 || a.min < lmin {
						lmin = a.min
					}
					if a.max > lmax {
						lmax = a.max
					}
				}
			}
			mu.Lock()
			out.Calls += lo.Calls
			out.Mismatch = append(out.Mismatch, lo.Mismatch...)
			for k, v := range lo.Truth {
				out.Truth[k] += v
			}
			for k, v := range lo.PerKind {
				out.PerKind[k] += v
			}
			for c := range lused {
				used[c] = true
			}
			if lmin != -1 && (truthMin == -1 || lmin < truthMin) {
				truthMin = lmin
			}
			if lmax > truthMax {
				truthMax = lmax
			}
			mu.Unlock()
		}(g)
	}
	wg.Wait()
	st := metrics.GetStats()
	out.Totals["ops"] = st.TokenizeOperations
	out.Totals["errors"] = st.TokenizeErrors
	out.Totals["bytes"] = st.TotalBytesProcessed
	out.Totals["min"] = st.MinQuerySize
	out.Totals["max"] = st.MaxQuerySize
	var byType int64
	for _, c := range st.ErrorsByType {
		byType += c
	}
	out.Totals["errorsByType"] = byType
	out.Truth["errorsByType"] = out.Truth["errors"]
	out.Truth["min"] = truthMin
	out.Truth["max"] = truthMax
	out.Distinct = len(used)
	if len(out.Mismatch) > 20 {
		out.Mismatch = out.Mismatch[:20]
	}
	n := 0
	for c := range used {
		if n >= 3 {
			break
		}
		out.Samples = append(out.Samples, map[string]any{"kind": "stress-call", "op": c.kind, "sql": firstN(c.sql, 120)})
		n++
	}
	b, _ := json.Marshal(out)
	os.Stdout.Write(b)
}
