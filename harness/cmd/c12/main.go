// C12 — recovery parsing terminates, agrees with strict parsing, loses no good statement.
//
//	M  StmtLoop.tla: the statement loop in strict and recovery mode over abstract token streams with an abstract,
//	   nondeterministic parseStatement; TLC checks Progress (cursor strictly advances), Termination, NoLoss,
//	   OneErrorPerBadSegment, ErrorInsideOwnSegment, StrictVerdict, StrictFirstError for all inputs of up to
//	   4 (quick) / 6 (thorough) segments with stray semicolons, and prints every input with the outcome.
//	R  every abstract input is concretised several times from pools of well-formed statements and their
//	   single-token corruptions (delete / duplicate / replace / truncate; classified by strict parsing) and fed
//	   to gosqlx.ParseWithRecovery and gosqlx.Parse: the statements returned must be exactly the strict trees of
//	   the well-formed segments in order, the errors one per malformed segment, each located on its own segment's
//	   line, and errors non-empty exactly when strict parsing fails. Token soup (lexeme shuffles of the pools)
//	   is run for termination and the iff-clause. All real calls run in a child process under a watchdog.
package main

import (
	"encoding/json"
	"errors"
	"fmt"
	"math/rand"
	"os"
	"strings"
	"time"

	"github.com/ajitpratap0/GoSQLX/pkg/gosqlx"
	"github.com/ajitpratap0/GoSQLX/pkg/sql/ast"
	"github.com/ajitpratap0/GoSQLX/pkg/sql/parser"

	"verif/internal/core"
	"verif/internal/gram"
	"verif/internal/project"
	"verif/internal/stmts"
)

type acase struct {
	Segs []struct {
		Good bool `json:"good"`
		Len  int  `json:"len"`
		Kw   bool `json:"kw"`
	} `json:"segs"`
	Lead    int    `json:"lead"`
	Dbl     bool   `json:"dbl"`
	Trail   int    `json:"trail"`
	Mode    string `json:"mode"`
	Stmts   []int  `json:"stmts"`
	ErrSegs []int  `json:"errsegs"`
	Status  string `json:"status"`
}

var (
	run  *core.Run
	tier string
)

func main() {
	tier = os.Getenv("VERIF_TIER")
	if tier == "" {
		tier = "quick"
	}
	run = core.NewRun("C12", tier, "model_checking")
	run.Rule = "every input of StmtLoop.tla (segment lists with stray/doubled/trailing semicolons) concretised from pools of well-formed statements and single-token corruptions; non-trivial = an input with at least one malformed segment and at least two segments; plus lexeme-shuffle token soup for termination and the iff-clause"
	run.Assumptions = []string{
		"a segment is 'well-formed' exactly when strict parsing of it alone returns one statement (the property's own definition); corruptions that still parse are used as well-formed segments",
		"segments respect the property's side condition: no statement-starting keyword after the first token",
		"error placement is checked through the error's line (each segment is on its own line); token indices are only checked to be increasing",
	}
	if len(os.Args) > 1 && os.Args[1] == "--child" {
		child(os.Args[2], os.Args[3])
		return
	}
	cfg := "StmtLoop_q.cfg"
	if tier == "thorough" {
		cfg = "StmtLoop_t.cfg"
	}
	m := core.MustTLC(core.TLCOpts{Spec: "StmtLoop", Cfg: cfg, Timeout: 15 * time.Minute})
	run.AddTLC(m.Stat("statement loop, strict and recovery mode: Progress, Termination, NoLoss, OneErrorPerBadSegment, ErrorInsideOwnSegment, StrictVerdict, StrictFirstError"))
	// distinct cases
	seen := map[string]bool{}
	var cases []string
	for _, c := range m.Cases {
		if !seen[c] {
			seen[c] = true
			cases = append(cases, c)
		}
	}
	if len(cases) == 0 {
		core.Fatalf("StmtLoop printed no cases")
	}
	dir, err := os.MkdirTemp("", "verif-c12-")
	if err != nil {
		core.Fatalf("%v", err)
	}
	core.RemoveAtExit(dir)
	defer os.RemoveAll(dir)
	in := dir + "/cases.jsonl"
	if len(os.Args) > 2 && os.Args[1] == "--replay" {
		b, _ := os.ReadFile(os.Args[2])
		var f struct {
			Violation struct {
				Case struct {
					Text string `json:"text"`
				} `json:"case"`
			} `json:"violation"`
		}
		_ = json.Unmarshal(b, &f)
		in = dir + "/replay.txt"
		_ = os.WriteFile(in, []byte(f.Violation.Case.Text), 0o644)
	} else if err := os.WriteFile(in, []byte(strings.Join(cases, "\n")), 0o644); err != nil {
		core.Fatalf("%v", err)
	}
	// the pools also hold a sample of Select.tla's statement forms
	run.Extra["model_statements_in_pools"] = gram.ExportForms(run)
	res := run.RunChild([]string{"--child", in}, dir+"/out.json", 20*time.Minute)
	if res.TimedOut {
		run.Violate(core.Violation{Sig: "recovery-hang", Clause: "recovery-mode parsing terminates on every input", Case: map[string]any{"text": res.Progress}})
	} else if res.Crashed {
		run.Violate(core.Violation{Sig: "recovery-crash|" + core.CrashLine(res.Text), Clause: "recovery-mode parsing terminates on every input", Case: map[string]any{"text": res.Progress}, Observe: res.Text})
	} else if !res.Merged {
		core.Fatalf("child produced no result:\n%s", res.Text)
	}
	run.Exhaustive = true
	run.Finish()
}

// pick draws a segment of the requested class (well-formed or not; starting with a resynchronisation keyword or not).
func pick(good, bad []stmts.Stmt, wantGood, wantKw bool, rng *rand.Rand) stmts.Stmt {
	pool := bad
	if wantGood {
		pool = good
	}
	for tries := 0; tries < 10000; tries++ {
		st := pool[rng.Intn(len(pool))]
		if st.KwStart == wantKw {
			return st
		}
	}
	core.Fatalf("no segment of class good=%v kw=%v in the pools", wantGood, wantKw)
	return stmts.Stmt{}
}

func recover1(text string) ([]string, []*parser.ParseError, []error) {
	st, errs := gosqlx.ParseWithRecovery(text)
	var trees []string
	for _, s := range st {
		trees = append(trees, project.String(s))
	}
	var pes []*parser.ParseError
	for _, e := range errs {
		var pe *parser.ParseError
		if errors.As(e, &pe) {
			pes = append(pes, pe)
		}
	}
	return trees, pes, errs
}

func strictFails(text string) bool {
	tree, err := gosqlx.Parse(text)
	if err == nil {
		ast.ReleaseAST(tree)
	}
	return err != nil
}

func child(in, out string) {
	b, err := os.ReadFile(in)
	if err != nil {
		core.Fatalf("%v", err)
	}
	progress := func(s string) { _ = os.WriteFile(out+".progress", []byte(s), 0o644) }
	if strings.HasSuffix(in, "replay.txt") {
		progress(string(b))
		checkSoup(string(b))
		run.Export(out)
		return
	}
	good, bad := stmts.Pools()
	if len(good) < 10 || len(bad) < 30 {
		core.Fatalf("statement pools too small: %d well-formed, %d malformed", len(good), len(bad))
	}
	run.Extra["pool_wellformed"] = len(good)
	run.Extra["pool_malformed"] = len(bad)
	variants := 3
	if tier == "thorough" {
		variants = 8
	}
	rng := rand.New(rand.NewSource(run.Seed))
	for _, line := range strings.Split(string(b), "\n") {
		if line == "" {
			continue
		}
		var c acase
		if err := json.Unmarshal([]byte(line), &c); err != nil {
			core.Fatalf("bad case %q: %v", line, err)
		}
		if c.Mode != "recovery" {
			continue // the strict half of the model is exercised through the iff-clause below (and by C07)
		}
		for v := 0; v < variants; v++ {
			// concretise
			var segs []stmts.Stmt
			var sb strings.Builder
			sb.WriteString(strings.Repeat(";\n", c.Lead))
			segLine := make([]int, len(c.Segs))
			lineNo := 1 + c.Lead
			for i, s := range c.Segs {
				var st stmts.Stmt
				st = pick(good, bad, s.Good, s.Kw, rng)
				segs = append(segs, st)
				segLine[i] = lineNo
				sb.WriteString(st.SQL)
				if i < len(c.Segs)-1 {
					if c.Dbl {
						sb.WriteString(";;\n")
					} else {
						sb.WriteString(";\n")
					}
					lineNo++
				} else {
					sb.WriteString(strings.Repeat(";", c.Trail))
				}
			}
			text := sb.String()
			progress(text)
			trees, pes, errs := recover1(text)
			run.Eval(1)
			nbad := len(c.ErrSegs)
			if nbad > 0 && len(c.Segs) > 1 {
				run.Nontrivial(line + fmt.Sprint(v))
			}
			if v == 0 && len(c.Segs) == 3 && nbad == 1 {
				run.Sample(map[string]any{"abstract": json.RawMessage(line), "text": text})
			}
			fail := func(sig, clause string, obs, exp any) {
				var origins []string
				for _, s := range segs {
					origins = append(origins, s.Origin)
				}
				run.Violate(core.Violation{Sig: sig, Clause: clause, Case: map[string]any{"abstract": json.RawMessage(line), "text": text, "origins": origins}, Observe: obs, Expect: exp})
			}
			// statements: exactly the strict trees of the well-formed segments, in order
			var want []string
			for _, i := range c.Stmts {
				want = append(want, segs[i-1].Tree)
			}
			if len(trees) != len(want) {
				kind := "extra"
				if len(trees) < len(want) {
					kind = "lost"
				}
				fail("recovery-statement-"+kind, "recovery returns precisely the trees of the well-formed statements", len(trees), len(want))
			} else {
				for i := range want {
					if trees[i] != want[i] {
						fail("recovery-tree-differs-from-strict", "recovery returns the trees strict parsing gives for the well-formed statements, in order", trees[i], want[i])
						break
					}
				}
			}
			// errors: one per malformed segment, on its own line
			if len(errs) != nbad {
				kind := "more"
				if len(errs) < nbad {
					kind = "fewer"
				}
				fail("recovery-"+kind+"-errors-than-malformed", "one error per malformed statement", fmt.Sprint(errs), nbad)
			} else {
				last := -1
				for i, pe := range pes {
					wantLine := segLine[c.ErrSegs[i]-1]
					if pe.Line != wantLine {
						fail("recovery-error-outside-its-statement", "each error names a token inside its own statement", map[string]any{"line": pe.Line, "col": pe.Column, "msg": pe.Msg}, wantLine)
						break
					}
					if pe.TokenIdx <= last {
						fail("recovery-error-order", "errors are reported in statement order", pe.TokenIdx, last)
					}
					last = pe.TokenIdx
				}
				if len(pes) != len(errs) {
					fail("recovery-error-untyped", "every recovery error is a ParseError", fmt.Sprint(errs), nil)
				}
			}
			// iff
			if len(c.Segs) > 0 {
				sf := strictFails(text)
				if sf != (len(errs) > 0) {
					fail("recovery-iff-strict", "recovery reports an error exactly when strict parsing fails", map[string]any{"strict_fails": sf, "recovery_errors": len(errs)}, nil)
				}
			}
		}
	}
	afterEveryMalformed(append(append([]stmts.Stmt{}, bad...), tailMalformed()...), progress)
	// token soup: termination and the iff-clause on arbitrary lexeme sequences
	var lex []string
	for _, s := range append(append([]stmts.Stmt{}, good[:10]...), bad[:20]...) {
		lex = append(lex, stmts.Lexemes(s.SQL)...)
	}
	lex = append(lex, ";", ";", ";", "(", ")", ",", "SELECT", "FROM", "WHERE", "]", "[", "::", "NOT", "CASE", "END")
	n := 3000
	if tier == "thorough" {
		n = 40000
	}
	for i := 0; i < n; i++ {
		k := 1 + rng.Intn(14)
		parts := make([]string, k)
		for j := range parts {
			parts[j] = lex[rng.Intn(len(lex))]
		}
		text := strings.Join(parts, " ")
		progress(text)
		checkSoup(text)
	}
	os.Remove(out + ".progress")
	run.Export(out)
}

func checkSoup(text string) {
	_, _, errs := recover1(text)
	run.Eval(1)
	onlySemis := strings.Trim(text, "; \n\t") == ""
	if !onlySemis {
		sf := strictFails(text)
		if sf != (len(errs) > 0) {
			run.Violate(core.Violation{Sig: "recovery-iff-strict|soup", Clause: "recovery reports an error exactly when strict parsing fails",
				Case: map[string]any{"text": text}, Observe: map[string]any{"strict_fails": sf, "recovery_errors": fmt.Sprint(errs)}})
		}
	}
}

// afterEveryMalformed: the two-segment inputs <<malformed, well-formed>> of StmtLoop.tla, not drawn but enumerated over
// the whole malformed pool - whatever a failed statement left behind in the parser (a clause parsed and not yet
// attached, a counter, a mode) must not reach the statement after it.  The second segment is one statement of each
// kind that has its own entry into the parser.
func afterEveryMalformed(bad []stmts.Stmt, progress func(string)) {
	probes := []string{
		"SELECT pa FROM pt WHERE pb = 1",
		"SELECT pa FROM pt UNION SELECT pb FROM pu",
		"INSERT INTO pt (pa) VALUES (1)",
		"UPDATE pt SET pa = 1 WHERE pb = 2",
		"DELETE FROM pt WHERE pa = 1",
		"WITH pc AS (SELECT pa FROM pt) SELECT pa FROM pc",
	}
	var want []string
	for _, p := range probes {
		tree, err := gosqlx.Parse(p)
		if err != nil || len(tree.Statements) != 1 {
			core.Fatalf("probe statement rejected: %s: %v", p, err)
		}
		want = append(want, project.String(tree.Statements[0]))
		ast.ReleaseAST(tree)
	}
	per := 3
	if tier == "thorough" {
		per = len(probes)
	}
	for bi, b := range bad {
		for j := 0; j < per; j++ {
			pi := (bi + j) % len(probes)
			text := b.SQL + ";\n" + probes[pi]
			progress(text)
			trees, _, errs := recover1(text)
			run.Eval(1)
			run.Nontrivial("aem\x00" + text)
			if len(trees) != 1 || len(errs) != 1 || trees[0] != want[pi] {
				sig := "recovery-tree-differs-from-strict|after-malformed"
				if len(trees) != 1 {
					sig = "recovery-statement-count|after-malformed"
				} else if len(errs) != 1 {
					sig = "recovery-error-count|after-malformed"
				}
				var got any = trees
				if len(trees) == 1 {
					got = trees[0]
				}
				run.Violate(core.Violation{Sig: sig, Clause: "recovery returns precisely the trees strict parsing gives for the well-formed statements",
					Case: map[string]any{"text": text, "origins": []string{b.Origin, "probe"}}, Observe: map[string]any{"trees": got, "errors": fmt.Sprint(errs)}, Expect: want[pi]})
			}
		}
	}
	run.Extra["after_every_malformed_scripts"] = len(bad) * per
}

// tailMalformed: malformed statements that CONTAIN statement keywords (a WITH clause, INSERT ... SELECT, a view, a set
// operation, sub-queries - the pools exclude them because resynchronisation may stop at an inner keyword).  Such a
// statement is a usable first segment when it breaks after its last inner keyword: a parser that reads left to right
// cannot fail before the first lexeme that differs from a well-formed statement, so nothing but the separator is left
// to resynchronise on.
func tailMalformed() []stmts.Stmt {
	bases := []string{
		"WITH c AS (SELECT a FROM t) SELECT a FROM c WHERE a = 1",
		"WITH c AS (SELECT 1), d AS (SELECT 2) SELECT a FROM c",
		"WITH c (x) AS (SELECT 1) INSERT INTO t (a) VALUES (1)",
		"WITH c AS (SELECT 1) UPDATE t SET a = 1 WHERE b = 2",
		"WITH c AS (SELECT 1) DELETE FROM t WHERE a = 1",
		"WITH RECURSIVE c AS (SELECT 1 UNION ALL SELECT 2) SELECT a FROM c",
		"INSERT INTO t (a) SELECT a FROM u WHERE a = 1",
		"CREATE VIEW v AS SELECT a FROM t WHERE a = 1",
		"SELECT a FROM t UNION SELECT b FROM u ORDER BY 1",
		"SELECT a FROM (SELECT b FROM u) s WHERE a = 1",
		"SELECT a FROM t WHERE b IN (SELECT c FROM u) AND d = 1",
		"SELECT a, (SELECT MAX(b) FROM u) AS m FROM t",
		"MERGE INTO t USING u ON t.a = u.a WHEN MATCHED THEN UPDATE SET a = 1",
		"INSERT INTO t (a) VALUES (1) ON CONFLICT (a) DO UPDATE SET a = 2",
	}
	poison := []string{")", ",", "x", "42", "FROM", "="}
	seen := map[string]bool{}
	var out []stmts.Stmt
	// k: the first lexeme that differs from the well-formed statement (a parser that reads left to right cannot fail
	// before it)
	add := func(lex []string, k int, origin string) {
		sql := strings.Join(lex, " ")
		if len(lex) == 0 || seen[sql] {
			return
		}
		seen[sql] = true
		for i := k; i < len(lex); i++ {
			if i > 0 && stmts.IsStartKeyword(lex[i]) {
				return
			}
		}
		tree, err := gosqlx.Parse(sql + " ;")
		if err == nil {
			ast.ReleaseAST(tree)
			return
		}
		out = append(out, stmts.Stmt{SQL: sql, Origin: "tail:" + origin, NTok: len(lex)})
	}
	for _, b := range bases {
		tree, err := gosqlx.Parse(b)
		if err != nil {
			core.Fatalf("base statement rejected: %s: %v", b, err)
		}
		ast.ReleaseAST(tree)
		lex := stmts.Lexemes(b)
		for k := 1; k < len(lex); k++ {
			add(lex[:k], k, "truncate@"+fmt.Sprint(k))
			add(append(append([]string{}, lex[:k]...), lex[k+1:]...), k, "delete@"+fmt.Sprint(k))
			for _, p := range poison {
				add(append(append(append([]string{}, lex[:k]...), p), lex[k+1:]...), k, "replace@"+fmt.Sprint(k))
			}
		}
	}
	if len(out) < 100 {
		core.Fatalf("only %d tail-malformed segments", len(out))
	}
	run.Extra["tail_malformed_segments"] = len(out)
	return out
}
