package main

// DepthGuard.tla on the real parser: the nesting limit holds for every statement whatever the parser rejected before.
// Every history of the model (four statements by nesting depth) is concretised by each hand-written pump - "at the
// limit" being the largest depth a fresh parser accepts for that pump - and replayed on ONE parser instance and as ONE
// script through the recovery parser; every statement must get the verdict a fresh parser gives it.

import (
	"encoding/json"
	"fmt"
	"strings"
	"sync"
	"time"

	"github.com/ajitpratap0/GoSQLX/pkg/gosqlx"
	"github.com/ajitpratap0/GoSQLX/pkg/sql/ast"
	"github.com/ajitpratap0/GoSQLX/pkg/sql/parser"
	"github.com/ajitpratap0/GoSQLX/pkg/sql/tokenizer"

	"verif/internal/core"
)

func acceptsFresh(sql string) bool {
	t := tokenizer.GetTokenizer()
	toks, err := t.Tokenize([]byte(sql))
	tokenizer.PutTokenizer(t)
	if err != nil {
		return false
	}
	p := parser.NewParser()
	tree, err := p.ParseFromModelTokens(toks)
	if tree != nil {
		ast.ReleaseAST(tree)
	}
	return err == nil
}

func depthGuard(tier string) {
	r := core.MustTLC(core.TLCOpts{Spec: "DepthGuard", Cfg: "DepthGuard.cfg", Timeout: 5 * time.Minute})
	run.AddTLC(r.Stat("the depth counter across the statements of one parser: RejectedIffTooDeep, ZeroAtRest; every history of four statements"))
	pin, err := core.RunTLC(core.TLCOpts{Spec: "DepthGuard", Cfg: "DepthGuard_double.cfg", Timeout: 5 * time.Minute})
	if err != nil || pin.Violation != "RejectedIffTooDeep" {
		core.Fatalf("DepthGuard_double.cfg must violate RejectedIffTooDeep (got %q, %v)", pin.Violation, err)
	}
	ps := pin.Stat("double-release shape (the rejecting level is released by the production and by its deferred release): after k rejections the limit is k levels higher")
	ps.ExpectViol = "RejectedIffTooDeep"
	run.AddTLC(ps)
	judged := 0
	for pi, p := range pumps {
		if p.Tokens == 0 || !acceptsFresh(p.Build(3)) {
			continue
		}
		// the largest depth a fresh parser accepts
		top := 0
		for d := 1; d <= depthLimit+5; d++ {
			if acceptsFresh(p.Build(d)) {
				top = d
			} else {
				break
			}
		}
		if top < 10 || top > depthLimit {
			continue // the limit itself is judged by the pump ladder
		}
		real := map[int]int{3: 3, 10: top, 11: top + 1, 12: top + 2, 25: top + 40}
		for hi, line := range r.Cases {
			if tier != "thorough" && (hi+pi)%12 != int(run.Seed)%12 {
				continue
			}
			var c struct {
				Depths []int `json:"depths"`
			}
			if err := json.Unmarshal([]byte(line), &c); err != nil {
				core.Fatalf("bad case: %v", err)
			}
			var sqls []string
			var want []bool
			for _, a := range c.Depths {
				sqls = append(sqls, p.Build(real[a]))
				want = append(want, a <= 10)
			}
			// one parser instance across the statements
			inst := parser.NewParser()
			for i, s := range sqls {
				t := tokenizer.GetTokenizer()
				toks, terr := t.Tokenize([]byte(s))
				tokenizer.PutTokenizer(t)
				if terr != nil {
					core.Fatalf("pump %s does not tokenize: %v", p.Name, terr)
				}
				tree, perr := inst.ParseFromModelTokens(toks)
				if tree != nil {
					ast.ReleaseAST(tree)
				}
				run.Eval(1)
				if (perr == nil) != want[i] {
					run.Violate(core.Violation{Sig: "limit-depends-on-parser-history|kept-instance|" + p.Name, Clause: "nesting beyond the documented depth limit is rejected with an error (and nesting within it is not), whatever the parser did before",
						Case:    map[string]any{"kind": "depth-guard", "pump": p.Name, "largest_depth_a_fresh_parser_accepts": top, "depths_of_the_statements_before": c.Depths[:i], "depth": real[c.Depths[i]]},
						Observe: fmt.Sprintf("accepted=%v", perr == nil), Expect: fmt.Sprintf("accepted=%v", want[i])})
					break
				}
			}
			// one script through the recovery parser - for pumps without a statement keyword inside (the recovery loop
			// resynchronises on those, and what it does with the rest of a rejected statement is C12's business)
			if innerKeyword(p.Build(3)) {
				judged++
				continue
			}
			stmts, errs := gosqlx.ParseWithRecovery(strings.Join(sqls, ";\n"))
			run.Eval(1)
			nrej := 0
			for _, w := range want {
				if !w {
					nrej++
				}
			}
			if len(stmts) != len(want)-nrej || (len(errs) == 0) != (nrej == 0) {
				run.Violate(core.Violation{Sig: "limit-depends-on-parser-history|recovery-script|" + p.Name, Clause: "nesting beyond the documented depth limit is rejected with an error (and nesting within it is not), whatever the parser did before",
					Case:    map[string]any{"kind": "depth-guard", "pump": p.Name, "largest_depth_a_fresh_parser_accepts": top, "depths_of_the_statements": c.Depths},
					Observe: fmt.Sprintf("%d statements, %d errors", len(stmts), len(errs)), Expect: fmt.Sprintf("%d statements, errors: %v", len(want)-nrej, nrej > 0)})
			}
			judged++
			run.Nontrivial(fmt.Sprintf("guard%s%d", p.Name, hi))
		}
	}
	run.Extra["depth_guard_histories_judged"] = judged
	if judged < 150 {
		core.Fatalf("only %d depth-guard histories judged", judged)
	}
}

func innerKeyword(sql string) bool {
	for i, w := range strings.Fields(strings.NewReplacer("(", " ", ")", " ", ",", " ").Replace(sql)) {
		switch strings.ToUpper(w) {
		case "SELECT", "INSERT", "UPDATE", "DELETE", "CREATE", "ALTER", "DROP", "WITH", "MERGE", "REFRESH", "TRUNCATE", "GRANT", "REVOKE", "SET",
			"BEGIN", "COMMIT", "ROLLBACK", "SHOW", "DESCRIBE", "EXPLAIN", "REPLACE":
			if i > 0 {
				return true
			}
		}
	}
	return false
}

// chainStacks: the chain contexts of Pumps.tla (a context repeated without delimiters).  A chain the parser accepts at
// two lengths must not cost stack in proportion to its length: it is read by iteration, or it is guarded.
func chainStacks() {
	const d1, d2 = 2000, 16000
	type res struct {
		name   string
		a, b   *job
	}
	var all []res
	var wg sync.WaitGroup
	sem := make(chan struct{}, 8)
	for i := range chains {
		r := res{name: chains[i].Name, a: &job{mode: "chain", pump: chains[i].Name, depth: d1}, b: &job{mode: "chain", pump: chains[i].Name, depth: d2}}
		all = append(all, r)
		for _, j := range []*job{r.a, r.b} {
			wg.Add(1)
			sem <- struct{}{}
			go func(j *job) {
				defer wg.Done()
				defer func() { <-sem }()
				runJob(j)
			}(j)
		}
	}
	wg.Wait()
	judged := 0
	report := map[string]any{}
	for _, r := range all {
		run.Eval(2)
		cse := map[string]any{"kind": "chain", "chain": r.name, "sql_at_3": chainSQL(r.name, 3), "lengths": []int{d1, d2}}
		for _, j := range []*job{r.a, r.b} {
			if j.timed {
				core.Fatalf("chain %s length %d did not finish", r.name, j.depth)
			}
			if j.crash != "" {
				run.Violate(core.Violation{Sig: "stack-overflow|" + r.name, Clause: "no input overflows the stack", Case: cse, Observe: firstN(core.CrashLine(j.crash), 200)})
			}
		}
		if r.a.crash != "" || r.b.crash != "" {
			continue
		}
		if !r.a.res.Accepted || !r.b.res.Accepted {
			report[r.name] = "not judged: not accepted at both lengths"
			continue
		}
		judged++
		run.Nontrivial("chain\x00" + r.name)
		grow := int64(r.b.res.StackKB) - int64(r.a.res.StackKB)
		report[r.name] = map[string]any{"stack_kb": []uint64{r.a.res.StackKB, r.b.res.StackKB}}
		if grow > 1536 { // 14,000 more elements: a recursion costs megabytes, an iteration nothing
			run.Violate(core.Violation{Sig: "stack-grows-with-chain-length|" + r.name, Clause: "stack use is bounded independently of input length",
				Case: cse, Observe: map[string]any{"stack_kb_after_parse": []uint64{r.a.res.StackKB, r.b.res.StackKB}}, Expect: "no growth: the chain is read by iteration, or rejected beyond the nesting limit"})
		}
	}
	run.Extra["chains"] = report
	run.Extra["chains_judged"] = judged
	if judged < 8 {
		core.Fatalf("only %d chains are accepted at both lengths", judged)
	}
}

func chainSQL(name string, d int) string {
	for i := range chains {
		if chains[i].Name == name {
			return chains[i].Build(d)
		}
	}
	return ""
}
