// C02 — size, token and nesting limits hold for every construct.
//
//	X  the static call graph of the parser and tokenizer packages and the set of functions that carry the depth
//	   guard are extracted from the working tree on every run (c02gen -> spec/gen/ParserCalls.tla).
//	M  CallGraph.tla: machine "cycles" finds every function that lies on a cycle of calls which never enters a
//	   guarded function (NoUnguardedCycle; the enumeration configuration prints them); machine "stack" shows on a
//	   miniature graph that without such a cycle the stack is bounded by (Limit+1) x |functions| and that with one
//	   it is not; machine "trace" validates call stacks recorded from the real parser as paths of the graph.
//	   Limits.tla: the size check and the per-token count with symbolic limits.
//	R  every self-embedding construct of a catalogue ("pump") is parsed by the real parser in child processes at
//	   depths 1..the largest the token limit allows: beyond the documented depth it must be rejected with a
//	   structured error, never accepted, never crash. For every pump the goroutine's call stack is recorded at a
//	   context poll deep inside the nesting (depth 4 and 8): TLC checks it is a path of the extracted graph, the
//	   functions whose frame count grows with the depth are the pump's cycle, and the model's prediction (guarded
//	   or not) is compared with what the parser did. Limits.tla's cases are replayed with the real limits.
package main

import (
	"context"
	"encoding/json"
	"fmt"
	"hash/fnv"
	"os"
	"runtime"
	"runtime/debug"
	"sort"
	"strconv"
	"strings"
	"sync"
	"time"

	"github.com/ajitpratap0/GoSQLX/pkg/gosqlx"
	"github.com/ajitpratap0/GoSQLX/pkg/sql/tokenizer"

	"verif/internal/core"
	"verif/internal/ops"
)

const depthLimit = 100 // documented: parser.MaxRecursionDepth

type pump struct {
	Name   string
	Tokens int // tokens per level (to stay below the token limit)
	Build  func(d int) string
}

func rep(s string, n int) string { return strings.Repeat(s, n) }

var pumps = []pump{
	{"parens", 2, func(d int) string { return "SELECT " + rep("(", d) + "a" + rep(")", d) + " FROM t" }},
	{"function-calls", 3, func(d int) string { return "SELECT " + rep("f(", d) + "a" + rep(")", d) + " FROM t" }},
	{"case", 8, func(d int) string {
		return "SELECT " + rep("CASE WHEN a = 1 THEN ", d) + "(0)" + rep(" ELSE 0 END", d) + " FROM t"
	}},
	{"case-operand", 8, func(d int) string {
		return "SELECT " + rep("CASE ", d) + "(a)" + rep(" WHEN 1 THEN 2 ELSE 0 END", d) + " FROM t"
	}},
	{"subquery-in-where", 9, func(d int) string {
		return "SELECT a FROM t WHERE a IN " + rep("(SELECT a FROM t WHERE a IN ", d) + "((1))" + rep(")", d)
	}},
	{"subquery-in-select-list", 3, func(d int) string { return "SELECT " + rep("(SELECT ", d) + "(1)" + rep(")", d) }},
	{"exists", 9, func(d int) string {
		return "SELECT a FROM t WHERE " + rep("EXISTS (SELECT 1 FROM t WHERE ", d) + "(a = 1)" + rep(")", d)
	}},
	{"derived-table", 7, func(d int) string {
		return rep("SELECT * FROM (", d) + "SELECT (a) FROM t" + rep(") x", d)
	}},
	{"join-derived-table", 14, func(d int) string {
		return rep("SELECT * FROM t JOIN (", d) + "SELECT (a) FROM t" + rep(") x ON (1 = 1)", d)
	}},
	{"cte", 12, func(d int) string {
		return rep("WITH c AS (", d) + "SELECT (1)" + rep(") SELECT * FROM c", d)
	}},
	{"not-chain", 1, func(d int) string { return "SELECT a FROM t WHERE " + rep("NOT ", d) + "(a = 1)" }},
	{"unary-minus-chain", 1, func(d int) string { return "SELECT " + rep("- ", d) + "(a) FROM t" }},
	{"unary-plus-chain", 1, func(d int) string { return "SELECT " + rep("+ ", d) + "(a) FROM t" }},
	{"cast-function", 5, func(d int) string { return "SELECT " + rep("CAST(", d) + "(a)" + rep(" AS INT)", d) + " FROM t" }},
	{"array-constructor", 3, func(d int) string { return "SELECT " + rep("ARRAY[", d) + "(1)" + rep("]", d) }},
	{"array-subscript", 3, func(d int) string { return "SELECT " + rep("a[", d) + "(1)" + rep("]", d) + " FROM t" }},
	{"in-list-nested", 5, func(d int) string { return "SELECT a FROM t WHERE " + rep("a IN ((", d) + "(1)" + rep("))", d) }},
	{"between-nested", 6, func(d int) string {
		return "SELECT a FROM t WHERE a BETWEEN " + rep("(a BETWEEN ", d) + "(1)" + rep(" AND 2)", d) + " AND 3"
	}},
	{"window-partition", 10, func(d int) string {
		return "SELECT " + rep("SUM(a) OVER (PARTITION BY ", d) + "(a)" + rep(")", d) + " FROM t"
	}},
	{"filter", 9, func(d int) string {
		return "SELECT " + rep("COUNT(*) FILTER (WHERE ", d) + "(a > 0)" + rep(" > 0)", d) + " FROM t"
	}},
	{"tuple", 4, func(d int) string {
		return "SELECT a FROM t WHERE (a, b) IN (" + rep("(1, ", d) + "(2)" + rep(")", d) + ")"
	}},
	{"interval-arith", 4, func(d int) string { return "SELECT " + rep("(a + ", d) + "(1)" + rep(")", d) + " FROM t" }},
	{"lateral", 8, func(d int) string {
		return rep("SELECT * FROM LATERAL (", d) + "SELECT (a) FROM t" + rep(") x", d)
	}},
	{"insert-select-derived", 7, func(d int) string {
		return "INSERT INTO t " + rep("SELECT * FROM (", d) + "SELECT (a) FROM t" + rep(") x", d)
	}},
	{"update-subquery", 9, func(d int) string {
		return "UPDATE t SET a = 1 WHERE a IN " + rep("(SELECT a FROM t WHERE a IN ", d) + "((1))" + rep(")", d)
	}},
	{"match-against", 7, func(d int) string {
		return "SELECT a FROM t WHERE " + rep("MATCH (a) AGAINST (", d) + "('x')" + rep(")", d)
	}},
	{"cte-derived-alternating", 19, func(d int) string {
		return rep("WITH c AS (SELECT * FROM (", d) + "SELECT (1)" + rep(") x) SELECT * FROM c", d)
	}},
	{"derived-with-union", 10, func(d int) string {
		return rep("SELECT 1 UNION SELECT * FROM (", d) + "SELECT (a) FROM t" + rep(") x", d)
	}},
	{"create-view-derived", 7, func(d int) string {
		return "CREATE VIEW v AS " + rep("SELECT * FROM (", d) + "SELECT (a) FROM t" + rep(") x", d)
	}},
	{"delete-subquery", 9, func(d int) string {
		return "DELETE FROM t WHERE a IN " + rep("(SELECT a FROM t WHERE a IN ", d) + "((1))" + rep(")", d)
	}},
	{"not-exists", 10, func(d int) string {
		return "SELECT a FROM t WHERE " + rep("NOT EXISTS (SELECT 1 FROM t WHERE ", d) + "(a = 1)" + rep(")", d)
	}},
	{"like-chain-rhs", 2, func(d int) string { return "SELECT a FROM t WHERE a LIKE " + rep("- ", d) + "(b)" }},
	{"any-subquery", 10, func(d int) string {
		return "SELECT a FROM t WHERE a = ANY " + rep("(SELECT a FROM t WHERE a = ANY ", d) + "(SELECT (1))" + rep(")", d)
	}},
	{"parenthesised-select", 2, func(d int) string { return rep("(", d) + "SELECT (1)" + rep(")", d) }},
	{"union-nested", 5, func(d int) string { return rep("SELECT 1 UNION (", d) + "SELECT (1)" + rep(")", d) }},
	{"intersect-nested", 5, func(d int) string { return rep("SELECT 1 INTERSECT (", d) + "SELECT (1)" + rep(")", d) }},
	{"explain", 1, func(d int) string { return rep("EXPLAIN ", d) + "SELECT (1)" }},
	{"extract", 5, func(d int) string { return "SELECT " + rep("EXTRACT(YEAR FROM ", d) + "(a)" + rep(")", d) + " FROM t" }},
	{"substring", 6, func(d int) string { return "SELECT " + rep("SUBSTRING(", d) + "(a)" + rep(" FROM 1)", d) + " FROM t" }},
	{"paren-join", 6, func(d int) string { return "SELECT * FROM " + rep("(t JOIN ", d) + "u" + rep(" ON (1 = 1))", d) }},
	{"comment-chain", 0, func(d int) string { return "SELECT " + rep("/**/", d) + " 1" }},
	{"line-comment-chain", 0, func(d int) string { return "SELECT " + rep("--\n", d) + " 1" }},
}

// modelPumps adds the contexts of Pumps.tla (one per operand position) to the catalogue. The parent writes them
// to a file whose name the children get through the environment.
type modelCtx struct {
	Name  string   `json:"name"`
	Level string   `json:"level"`
	Pre   []string `json:"pre"`
	Post  []string `json:"post"`
	Bare  bool     `json:"bare"`
}

// chains: contexts of level "chain" (repeated without delimiters), judged by stack growth, not by the depth limit
var chains []pump

func addModelPumps(cs []modelCtx) {
	for _, c := range cs {
		c := c
		pre, post := strings.Join(c.Pre, " ")+" ", " "+strings.Join(c.Post, " ")
		if c.Level == "chain" {
			chains = append(chains, pump{Name: "model:" + c.Name, Tokens: len(c.Pre) + len(c.Post),
				Build: func(d int) string { return "SELECT " + rep(pre, d) + "a" + rep(post, d) + " FROM t" }})
			continue
		}
		build := func(d int) string { return "SELECT " + rep(pre, d) + "a" + rep(post, d) + " FROM t" }
		if c.Level == "statement" {
			build = func(d int) string { return rep(pre, d) + "SELECT (1)" + rep(post, d) }
		}
		pumps = append(pumps, pump{Name: "model:" + c.Name, Tokens: len(c.Pre) + len(c.Post), Build: build})
		if c.Bare && c.Level == "expression" {
			// the same context without the parentheses around its hole: every level passes the productions of this
			// operand position and nothing else
			bpre, bpost := strings.Join(c.Pre[:len(c.Pre)-1], " ")+" ", " "+strings.Join(c.Post[1:], " ")
			pumps = append(pumps, pump{Name: "model-bare:" + c.Name, Tokens: len(c.Pre) + len(c.Post) - 2,
				Build: func(d int) string { return "SELECT " + rep(bpre, d) + "a" + rep(bpost, d) + " FROM t" }})
		}
	}
}

func loadModelPumps(path string) {
	b, err := os.ReadFile(path)
	if err != nil {
		core.Fatalf("model pumps: %v", err)
	}
	var cs []modelCtx
	if err := json.Unmarshal(b, &cs); err != nil {
		core.Fatalf("model pumps: %v", err)
	}
	addModelPumps(cs)
}

type outcome struct {
	Accepted bool     `json:"accepted"`
	Code     string   `json:"code"`
	Msg      string   `json:"msg"`
	Ms       int64    `json:"ms"`
	Frames   []string `json:"frames,omitempty"`
	StackKB  uint64   `json:"stack_kb,omitempty"` // mode "chain": stack memory in use right after the parse
}

// ---------------------------------------------------------------------------------------------------------
// child side

type stackCtx struct {
	context.Context
	best []string
}

func (c *stackCtx) Err() error {
	pcs := make([]uintptr, 4096)
	n := runtime.Callers(2, pcs)
	if n > len(c.best) {
		fr := runtime.CallersFrames(pcs[:n])
		var names []string
		for {
			f, more := fr.Next()
			names = append(names, f.Function)
			if !more {
				break
			}
		}
		if len(names) > len(c.best) {
			c.best = names
		}
	}
	return nil
}

func child(args []string) {
	// args: mode pump depth outfile
	if f := os.Getenv("VERIF_C02_PUMPS"); f != "" {
		loadModelPumps(f)
	}
	mode, name, out := args[0], args[1], args[3]
	d, _ := strconv.Atoi(args[2])
	var p *pump
	for i := range pumps {
		if pumps[i].Name == name {
			p = &pumps[i]
		}
	}
	if mode == "chain" {
		for i := range chains {
			if chains[i].Name == name {
				p = &chains[i]
			}
		}
	}
	if p == nil {
		core.Fatalf("no pump %q", name)
	}
	debug.SetMaxStack(1 << 30)
	sql := p.Build(d)
	var o outcome
	start := time.Now()
	done := make(chan struct{})
	go func() {
		defer close(done)
		if mode == "stack" {
			ctx := &stackCtx{Context: context.Background()}
			tree, err := gosqlx.ParseWithContext(ctx, sql)
			o.Accepted = err == nil
			if err != nil {
				o.Code, o.Msg = ops.Err(err).Code, firstN(err.Error(), 160)
			}
			_ = tree
			// outermost first, parser package only
			for i := len(ctx.best) - 1; i >= 0; i-- {
				o.Frames = append(o.Frames, ctx.best[i])
			}
			return
		}
		tree, err := gosqlx.Parse(sql)
		if mode == "chain" {
			// the goroutine's stack has grown to what the parse needed and is not shrunk before the next collection
			var m runtime.MemStats
			runtime.ReadMemStats(&m)
			o.StackKB = m.StackInuse >> 10
		}
		o.Accepted = err == nil
		if err != nil {
			o.Code, o.Msg = ops.Err(err).Code, firstN(err.Error(), 160)
		}
		_ = tree
	}()
	<-done
	o.Ms = time.Since(start).Milliseconds()
	b, _ := json.Marshal(o)
	if err := os.WriteFile(out, b, 0o644); err != nil {
		core.Fatalf("%v", err)
	}
}

func firstN(s string, n int) string {
	if len(s) > n {
		return s[:n]
	}
	return s
}

// ---------------------------------------------------------------------------------------------------------
// parent side

var run *core.Run

type job struct {
	mode  string
	pump  string
	depth int
	res   outcome
	crash string
	timed bool
}

func runJob(j *job) {
	// pump names may hold characters that cannot stand in a file name: the name is hashed
	h := fnv.New64a()
	h.Write([]byte(j.pump))
	out := fmt.Sprintf("%s/verif-c02-%d-%s-%x-%d.json", os.TempDir(), os.Getpid(), j.mode, h.Sum64(), j.depth)
	r := run.RunChild([]string{"--child", j.mode, j.pump, strconv.Itoa(j.depth)}, out+".cov", 240*time.Second)
	if r.TimedOut {
		j.timed = true
		os.Remove(out)
		return
	}
	if r.Crashed {
		j.crash = r.Text
		os.Remove(out)
		return
	}
	b, err := os.ReadFile(out)
	if err != nil {
		core.Fatalf("child %s/%s/%d left no result: %s", j.mode, j.pump, j.depth, r.Text)
	}
	os.Remove(out)
	if err := json.Unmarshal(b, &j.res); err != nil {
		core.Fatalf("bad child result: %v", err)
	}
}

func main() {
	if len(os.Args) > 1 && os.Args[1] == "--child" {
		// --child mode pump depth covfile : the result goes to the file named after covfile without ".cov"
		a := os.Args[2:]
		a[3] = strings.TrimSuffix(a[3], ".cov")
		child(a)
		return
	}
	tier := os.Getenv("VERIF_TIER")
	if tier == "" {
		tier = "quick"
	}
	run = core.NewRun("C02", tier, "model_checking")
	run.Rule = "every pump of the catalogue (self-embedding constructs of the grammar, two tokenizer chains) x depths 1,2,3,10,50,99,100,101,102,120,200,1000,10^4,10^5 and the largest depth the token limit allows (thorough: more depths); every size/token case of Limits.tla at the real limits; non-trivial = a run beyond the documented depth, or at/above a size or token limit"
	run.Assumptions = []string{
		"one nesting level of a pump passes the pump's call cycle once; a guarded function on the cycle therefore counts every level",
		"the Go runtime's default maximum stack (1 GB) is the stack that must not overflow",
		"token counts include the end-of-input marker; when exactly MaxTokens tokens precede the marker either verdict is accepted",
	}
	model()
	nesting(tier)
	limits(tier)
	run.Exhaustive = false
	run.Finish()
}

var (
	unguardedCyclic = map[string]bool{}
	guardedFuncs    = map[string]bool{}
)

func model() {
	for _, pk := range []struct{ cfg, what string }{{"CallGraph_cycles.cfg", "parser"}, {"CallGraph_tcycles.cfg", "tokenizer"}} {
		r := core.MustTLC(core.TLCOpts{Spec: "CallGraph", Cfg: pk.cfg, Timeout: 10 * time.Minute})
		run.AddTLC(r.Stat("unguarded call cycles of the " + pk.what + " package over the extracted call graph (enumeration)"))
		var cyc []string
		for _, line := range r.Cases {
			var c struct {
				Cycle []string `json:"cycle"`
			}
			if json.Unmarshal([]byte(line), &c) == nil && len(c.Cycle) > 0 {
				unguardedCyclic[c.Cycle[0]] = true
				cyc = append(cyc, strings.Join(c.Cycle, ">"))
			}
		}
		sort.Strings(cyc)
		run.Extra["unguarded_cycles_"+pk.what] = cyc
	}
	// the invariant form: holds iff the enumeration is empty
	inv, err := core.RunTLC(core.TLCOpts{Spec: "CallGraph", Cfg: "CallGraph_inv.cfg", Timeout: 10 * time.Minute})
	if err != nil || inv.TimedOut {
		core.Fatalf("CallGraph_inv: %v", err)
	}
	st := inv.Stat("NoUnguardedCycle on the extracted parser call graph (model-level prediction; the verdict comes from the pumps)")
	if inv.Violation != "" {
		st.ExpectViol = inv.Violation
	} else if !inv.OK {
		core.Fatalf("CallGraph_inv did not finish: %s", inv.ErrorText)
	}
	run.AddTLC(st)
	run.Extra["model_predicts_unbounded_stack"] = inv.Violation != ""
	// miniature graphs: the bounded-stack theorem and its failure
	mini := func(guardSelect bool) []byte {
		g := `{"parseExpression"}`
		if guardSelect {
			g = `{"parseExpression", "parseSelect"}`
		}
		return []byte("---- MODULE ParserCalls ----\nEXTENDS TLC\nPFuncs == {\"parseStatement\", \"parseSelect\", \"parseFrom\", \"parseExpression\", \"parsePrimary\"}\nPGuarded == " + g +
			"\nPCalls == (\"parseStatement\" :> {\"parseSelect\"} @@ \"parseSelect\" :> {\"parseFrom\", \"parseExpression\"} @@ \"parseFrom\" :> {\"parseSelect\"} @@ \"parseExpression\" :> {\"parsePrimary\"} @@ \"parsePrimary\" :> {\"parseExpression\", \"parseSelect\"})\nTFuncs == {}\nTGuarded == {}\nTCalls == (\"none\" :> {})\n====\n")
	}
	ok := core.MustTLC(core.TLCOpts{Spec: "CallGraph", Cfg: "CallGraph_stack.cfg", Timeout: 5 * time.Minute, ExtraFile: map[string][]byte{"ParserCalls.tla": mini(true)}})
	run.AddTLC(ok.Stat("stack machine on a miniature graph whose every cycle is guarded: BoundedStack, CounterCountsGuarded"))
	bad, err := core.RunTLC(core.TLCOpts{Spec: "CallGraph", Cfg: "CallGraph_stack.cfg", Timeout: 5 * time.Minute, ExtraFile: map[string][]byte{"ParserCalls.tla": mini(false)}})
	if err != nil || bad.Violation != "BoundedStack" {
		core.Fatalf("the miniature graph with an unguarded cycle must violate BoundedStack (got %q, %v)", bad.Violation, err)
	}
	bs := bad.Stat("stack machine on the miniature graph with the select<->from cycle unguarded (the pinned shape): the stack is unbounded")
	bs.ExpectViol = "BoundedStack"
	run.AddTLC(bs)
	// guarded set from the generated module
	b, err := os.ReadFile(core.SpecDir() + "/gen/ParserCalls.tla")
	if err != nil {
		core.Fatalf("%v", err)
	}
	if i := strings.Index(string(b), "PGuarded == {"); i >= 0 {
		rest := string(b)[i+len("PGuarded == {"):]
		if j := strings.Index(rest, "}"); j >= 0 {
			for _, f := range strings.Split(rest[:j], ",") {
				if f = strings.Trim(strings.TrimSpace(f), "\""); f != "" {
					guardedFuncs[f] = true
				}
			}
		}
	}
	if len(guardedFuncs) == 0 {
		run.Extra["note_guarded"] = "no guarded function found by extraction"
	}
}

func parserFrames(frames []string) []string {
	var out []string
	for _, f := range frames {
		i := strings.Index(f, "/pkg/sql/parser.")
		if i < 0 {
			continue
		}
		n := f[i+len("/pkg/sql/parser."):]
		n = strings.TrimPrefix(n, "(*Parser).")
		if j := strings.Index(n, "."); j >= 0 { // closure: parseX.func1 -> parseX
			n = n[:j]
		}
		if len(out) > 0 && out[len(out)-1] == n && strings.Contains(f, ".func") {
			continue
		}
		out = append(out, n)
	}
	return out
}

func nesting(tier string) {
	depths := []int{1, 2, 3, 10, 50, 99, 100, 101, 102, 120, 200, 1000, 10000, 100000}
	if tier == "thorough" {
		depths = append(depths, 5, 20, 80, 98, 105, 150, 300, 500, 2000, 5000, 30000, 300000)
	}
	// the contexts of Pumps.tla join the catalogue
	{
		r := core.MustTLC(core.TLCOpts{Spec: "Pumps", Cfg: "Pumps.cfg", Workers: 2, Timeout: 5 * time.Minute})
		run.AddTLC(r.Stat("self-embedding contexts, one per operand position: WellFormed, UniqueNames"))
		var cs []modelCtx
		for _, line := range r.Cases {
			var c modelCtx
			if err := json.Unmarshal([]byte(line), &c); err != nil {
				core.Fatalf("bad context %q: %v", line, err)
			}
			cs = append(cs, c)
		}
		if len(cs) < 50 {
			core.Fatalf("Pumps.tla printed only %d contexts", len(cs))
		}
		sort.Slice(cs, func(i, j int) bool { return cs[i].Name < cs[j].Name })
		f, err := os.CreateTemp("", "verif-c02-pumps-*.json")
		if err != nil {
			core.Fatalf("%v", err)
		}
		core.RemoveAtExit(f.Name())
		b, _ := json.Marshal(cs)
		f.Write(b)
		f.Close()
		os.Setenv("VERIF_C02_PUMPS", f.Name())
		addModelPumps(cs)
		run.Extra["model_contexts"] = len(cs)
	}
	var jobs []*job
	for _, p := range pumps {
		max := 990000
		if p.Tokens > 0 {
			max = 990000 / p.Tokens
		} else {
			max = 2000000 // comments produce no tokens: bounded by the input size only
		}
		ds := append([]int{}, depths...)
		if strings.HasPrefix(p.Name, "model") && tier != "thorough" { // a context of Pumps.tla
			ds = []int{1, 2, 3, 50, 99, 101, 120, 1000, 20000}
		}
		ds = append(ds, max)
		seen := map[int]bool{}
		for _, d := range ds {
			if d <= max && !seen[d] {
				seen[d] = true
				jobs = append(jobs, &job{mode: "parse", pump: p.Name, depth: d})
			}
		}
		jobs = append(jobs, &job{mode: "stack", pump: p.Name, depth: 4}, &job{mode: "stack", pump: p.Name, depth: 8})
	}
	// deepest runs may each take a gigabyte of stack: at most four at a time
	var wg sync.WaitGroup
	small := make(chan *job, len(jobs))
	big := make(chan *job, len(jobs))
	for _, j := range jobs {
		if j.depth >= 50000 {
			big <- j
		} else {
			small <- j
		}
	}
	close(small)
	close(big)
	for w := 0; w < 12; w++ {
		wg.Add(1)
		go func() {
			defer wg.Done()
			for j := range small {
				runJob(j)
			}
		}()
	}
	for w := 0; w < 4; w++ {
		wg.Add(1)
		go func() {
			defer wg.Done()
			for j := range big {
				runJob(j)
			}
		}()
	}
	wg.Wait()

	byPump := map[string][]*job{}
	for _, j := range jobs {
		byPump[j.pump] = append(byPump[j.pump], j)
	}
	var traceLines []string
	report := map[string]any{}
	usable := 0
	for _, p := range pumps {
		js := byPump[p.Name]
		// is the construct part of the accepted language at all?
		okSmall := 0
		for _, j := range js {
			if j.mode == "parse" && j.depth <= 3 && j.res.Accepted {
				okSmall++
			}
		}
		if okSmall < 3 {
			report[p.Name] = "not judged: the construct is not accepted at depths 1..3"
			continue
		}
		usable++
		// the pump's cycle: functions whose frame count grows with the depth
		var s4, s8 []string
		for _, j := range js {
			if j.mode == "stack" && j.depth == 4 {
				s4 = parserFrames(j.res.Frames)
			}
			if j.mode == "stack" && j.depth == 8 {
				s8 = parserFrames(j.res.Frames)
			}
		}
		cnt := func(fs []string) map[string]int {
			m := map[string]int{}
			for _, f := range fs {
				m[f]++
			}
			return m
		}
		c4, c8 := cnt(s4), cnt(s8)
		var cycle []string
		guarded := false
		for f, n := range c8 {
			if n-c4[f] >= 3 {
				cycle = append(cycle, f)
				if guardedFuncs[f] {
					guarded = true
				}
			}
		}
		sort.Strings(cycle)
		if len(s8) > 0 {
			b, _ := json.Marshal(map[string]any{"pump": p.Name, "frames": s8})
			traceLines = append(traceLines, string(b))
		}
		smallestRejected, largestAccepted := -1, -1
		for _, j := range js {
			if j.mode != "parse" {
				continue
			}
			run.Eval(1)
			if j.depth > depthLimit {
				run.Nontrivial(fmt.Sprintf("%s/%d", p.Name, j.depth))
			}
			cse := map[string]any{"kind": "pump", "pump": p.Name, "depth": j.depth, "sql_prefix": firstN(p.Build(3), 200), "cycle": cycle, "model_says_guarded": guarded}
			switch {
			case j.timed:
				core.Fatalf("pump %s depth %d did not finish in 240 s", p.Name, j.depth)
			case j.crash != "":
				run.Violate(core.Violation{Sig: "stack-overflow|" + p.Name, Clause: "no input overflows the stack", Case: cse, Observe: firstN(core.CrashLine(j.crash), 200)})
			case j.res.Accepted:
				if j.depth > largestAccepted {
					largestAccepted = j.depth
				}
				if j.depth > depthLimit && p.Tokens > 0 { // token-free chains (comments) are sequences, not nesting
					run.Violate(core.Violation{Sig: "nesting-accepted-beyond-limit|" + p.Name, Clause: "nesting beyond the documented depth limit is rejected with an error",
						Case: cse, Observe: fmt.Sprintf("accepted at depth %d", j.depth), Expect: fmt.Sprintf("rejected beyond depth %d", depthLimit)})
				}
			default:
				if smallestRejected < 0 || j.depth < smallestRejected {
					smallestRejected = j.depth
				}
				if j.res.Code == "" {
					run.Violate(core.Violation{Sig: "nesting-rejected-without-structured-error|" + p.Name, Clause: "rejected with an error", Case: cse, Observe: j.res.Msg})
				}
				if j.depth <= 10 {
					run.Violate(core.Violation{Sig: "shallow-nesting-rejected|" + p.Name, Clause: "nesting within the documented depth limit is not rejected for its depth", Case: cse, Observe: j.res.Code + " " + j.res.Msg})
				}
			}
		}
		if usable%6 == 1 {
			run.Sample(map[string]any{"pump": p.Name, "sql_at_depth_3": p.Build(3), "cycle": cycle, "model_says_guarded": guarded, "smallest_rejected_depth": smallestRejected, "largest_accepted_depth": largestAccepted})
		}
		report[p.Name] = map[string]any{"cycle": cycle, "model_says_guarded": guarded, "smallest_rejected_depth": smallestRejected, "largest_accepted_depth": largestAccepted}
		for _, f := range cycle {
			delete(unguardedCyclic, f)
		}
	}
	run.Extra["pumps"] = report
	run.Extra["pumps_usable"] = usable
	var left []string
	for f := range unguardedCyclic {
		left = append(left, f)
	}
	sort.Strings(left)
	run.Extra["unguarded_cyclic_functions_without_a_pump"] = left
	if usable < 20 {
		core.Fatalf("only %d pumps are accepted by the parser at small depths", usable)
	}
	chainStacks()
	depthGuard(tier)
	// recorded stacks must be paths of the extracted call graph
	if len(traceLines) > 0 {
		r, err := core.RunTLC(core.TLCOpts{Spec: "CallGraphTrace", Cfg: "CallGraphTrace.cfg", Workers: 1, Timeout: 5 * time.Minute,
			ExtraFile: map[string][]byte{"stacks.ndjson": []byte(strings.Join(traceLines, "\n") + "\n")}})
		if err != nil || r.TimedOut {
			core.Fatalf("CallGraphTrace: %v", err)
		}
		st := r.Stat("recorded call stacks of the real parser validated as paths of the extracted call graph")
		st.Mode = "trace-validation"
		run.AddTLC(st)
		run.Traces(int64(len(traceLines)))
		if !r.OK {
			core.Fatalf("a recorded call stack is not a path of the extracted call graph (extraction or frame normalisation is wrong):\n%s\n%s", r.ErrorText, firstN(r.Output, 1500))
		}
	}
}

func limits(tier string) {
	r := core.MustTLC(core.TLCOpts{Spec: "Limits", Cfg: "Limits.cfg", Workers: 2, Timeout: 2 * time.Minute})
	run.AddTLC(r.Stat("size check and per-token count with symbolic limits: AtLimitAccepted, OverLimitRejected, SizeBeforeTokens, Terminates"))
	maxIn, maxTok := tokenizer.MaxInputSize, tokenizer.MaxTokens
	// a valid statement with exactly n tokens before the end marker, padded with blanks to exactly size bytes
	build := func(n, size int) string {
		var b strings.Builder
		b.Grow(size + 16)
		b.WriteString("SELECT 1")
		have := 2
		if n%2 == 1 {
			b.WriteString(" x")
			have = 3
		}
		for have < n {
			b.WriteString(",1")
			have += 2
		}
		if b.Len() > size {
			core.Fatalf("cannot fit %d tokens in %d bytes", n, size)
		}
		b.WriteString(strings.Repeat(" ", size-b.Len()))
		return b.String()
	}
	type lim struct{ Len, Tokens, Verdict string }
	seen := map[lim]bool{}
	for _, line := range r.Cases {
		var c lim
		if err := json.Unmarshal([]byte(line), &c); err != nil {
			core.Fatalf("bad limits case")
		}
		if seen[c] {
			continue
		}
		seen[c] = true
		sizes := map[string][]int{"below": {maxIn - 1, maxIn / 2}, "at": {maxIn}, "above": {maxIn + 1, maxIn + 4096}}[c.Len]
		// token counts INCLUDING the end marker
		toks := map[string][]int{"below": {maxTok - 1, 1000}, "at": {maxTok}, "above": {maxTok + 2, maxTok + 37, maxTok + 130, maxTok + 5000}}[c.Tokens]
		if tier != "thorough" {
			sizes = sizes[:1]
			if len(toks) > 2 {
				toks = toks[:2]
			} else {
				toks = toks[:1]
			}
		}
		for _, sz := range sizes {
			for _, tk := range toks {
				sql := build(tk-1, sz)
				run.Eval(5)
				run.Nontrivial(fmt.Sprintf("limits/%d/%d", sz, tk))
				tkz := tokenizer.GetTokenizer()
				toksOut, terr := tkz.Tokenize([]byte(sql))
				tokenizer.PutTokenizer(tkz)
				_, perr := gosqlx.Parse(sql)
				tkz2 := tokenizer.GetTokenizer()
				_, tcerr := tkz2.TokenizeContext(context.Background(), []byte(sql))
				tokenizer.PutTokenizer(tkz2)
				_, pcerr := gosqlx.ParseWithContext(context.Background(), sql)
				verr := gosqlx.Validate(sql)
				want := map[string]string{"accepted": "", "too-large": "E1006", "too-many-tokens": "E1007"}[c.Verdict]
				cse := map[string]any{"kind": "limits", "bytes": sz, "tokens_with_end_marker": tk, "len_class": c.Len, "token_class": c.Tokens}
				for name, e := range map[string]error{"Tokenize": terr, "Parse": perr, "TokenizeContext": tcerr, "ParseWithContext": pcerr, "Validate": verr} {
					got := ""
					if e != nil {
						got = ops.Err(e).Code
						if got == "" {
							got = "unstructured:" + firstN(e.Error(), 80)
						}
					}
					if got != want {
						run.Violate(core.Violation{Sig: "limit-verdict|" + name + "|" + c.Len + "|" + c.Tokens + "|" + got, Clause: "input beyond a limit is rejected with the dedicated limit error, input exactly at a limit is not rejected for that reason",
							Case: cse, Observe: got, Expect: want})
					}
				}
				if terr == nil && len(toksOut) != tk {
					core.Fatalf("limits input has %d tokens, wanted %d", len(toksOut), tk)
				}
			}
		}
	}
}
