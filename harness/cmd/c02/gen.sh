#!/bin/sh
# usage: gen.sh <repo> <verif dir> [modflag]
set -e
REPO="$1"; V="$2"
go run ./cmd/c02gen "$REPO" "$V/spec/gen/ParserCalls.tla"
