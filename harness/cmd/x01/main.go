// X01 - beyond the listed properties: the rewrite rules of pkg/transform behave as Rules.tla says.
//
//	M  Rules.tla: one SELECT statement as clause lists, one action per rule (what the code does, including what it does
//	   on purpose: RemoveColumn fails when nothing matches, ReplaceColumn drops the alias, SetLimit rejects negatives);
//	   TLC checks LimitsNonNegative, FailureChangesNothing, RenamedIsGone over every rule sequence of three steps.
//	R  TLC's simulator prints random rule sequences with the statement after every step; each is applied to a real
//	   tree with the real rules; after every step the rule's verdict (error or not) must be the model's and the tree
//	   must stand for the model's statement (compared through the serialiser with a fresh parse of the rendered model
//	   statement).
//
// This check is not registered for a property; it exits 0/1 like the others and writes evidence_extra/X01.json.
package main

import (
	"encoding/json"
	"fmt"
	"os"
	"strconv"
	"strings"
	"time"

	"github.com/ajitpratap0/GoSQLX/pkg/gosqlx"
	"github.com/ajitpratap0/GoSQLX/pkg/sql/ast"
	"github.com/ajitpratap0/GoSQLX/pkg/transform"

	"verif/internal/core"
)

type col struct{ Name, Alias, Table string }
type join struct{ Type, Table, Alias string }
type cond struct{ C, Table string }
type ord struct {
	Col   string
	Desc  bool
	Table string
}
type stmt struct {
	Cols      []col
	From      string
	FromAlias string
	Joins     []join
	Where     []cond
	Order     []ord
	Limit     int
	Offset    int
}
type rule struct{ R, A, B string }
type step struct {
	Rule rule
	Ok   bool
	Stmt stmt
}
type behaviour struct {
	Init  stmt
	Trail []step
}

var condValue = map[string]string{"p": "1", "q": "2"}

func qual(t, n string) string {
	if t == "" {
		return n
	}
	return t + "." + n
}

func render(s stmt) string {
	var b strings.Builder
	b.WriteString("SELECT ")
	for i, c := range s.Cols {
		if i > 0 {
			b.WriteString(", ")
		}
		b.WriteString(qual(c.Table, c.Name))
		if c.Alias != "" {
			b.WriteString(" AS " + c.Alias)
		}
	}
	b.WriteString(" FROM " + s.From)
	if s.FromAlias != "" {
		b.WriteString(" " + s.FromAlias)
	}
	for _, j := range s.Joins {
		fmt.Fprintf(&b, " %s JOIN %s ON %s.k = 1", j.Type, j.Table, j.Table)
	}
	for i, c := range s.Where {
		if i == 0 {
			b.WriteString(" WHERE ")
		} else {
			b.WriteString(" AND ")
		}
		b.WriteString(qual(c.Table, c.C) + " = " + condValue[c.C])
	}
	for i, o := range s.Order {
		if i == 0 {
			b.WriteString(" ORDER BY ")
		} else {
			b.WriteString(", ")
		}
		b.WriteString(qual(o.Table, o.Col))
		if o.Desc {
			b.WriteString(" DESC")
		}
	}
	if s.Limit >= 0 {
		fmt.Fprintf(&b, " LIMIT %d", s.Limit)
	}
	if s.Offset >= 0 {
		fmt.Fprintf(&b, " OFFSET %d", s.Offset)
	}
	return b.String()
}

func realRule(r rule) transform.Rule {
	n, _ := strconv.Atoi(r.A)
	switch r.R {
	case "AddColumn":
		return transform.AddColumn(&ast.Identifier{Name: r.A})
	case "RemoveColumn":
		return transform.RemoveColumn(r.A)
	case "ReplaceColumn":
		return transform.ReplaceColumn(r.A, r.B)
	case "AddWhereFromSQL":
		return transform.AddWhereFromSQL(r.A + " = " + condValue[r.A])
	case "RemoveWhere":
		return transform.RemoveWhere()
	case "AddJoin":
		return transform.AddJoin(r.A, r.B, &ast.BinaryExpression{Left: &ast.Identifier{Table: r.B, Name: "k"}, Operator: "=", Right: &ast.LiteralValue{Value: "1", Type: "int"}})
	case "RemoveJoin":
		return transform.RemoveJoin(r.A)
	case "SetLimit":
		return transform.SetLimit(n)
	case "SetOffset":
		return transform.SetOffset(n)
	case "RemoveLimit":
		return transform.RemoveLimit()
	case "RemoveOffset":
		return transform.RemoveOffset()
	case "AddOrderBy":
		return transform.AddOrderBy(r.A, r.B == "desc")
	case "RemoveOrderBy":
		return transform.RemoveOrderBy()
	case "AddTableAlias":
		return transform.AddTableAlias(r.A, r.B)
	case "ReplaceTable":
		return transform.ReplaceTable(r.A, r.B)
	case "QualifyColumns":
		return transform.QualifyColumns(r.A)
	}
	core.Fatalf("no real rule for %q", r.R)
	return nil
}

func main() {
	tier := os.Getenv("VERIF_TIER")
	if tier == "" {
		tier = "quick"
	}
	run := core.NewRun("X01", tier, "model_checking")
	run.Rule = "rule sequences of Rules.tla (every sequence of three rules checked by TLC; random sequences of twelve printed by TLC's simulator) applied to real trees with the real rules of pkg/transform; non-trivial = a step after which the statement differs from the one before, or a failing rule"
	run.Assumptions = []string{"a tree is compared through the serialiser (what it stands for), not field by field: rules build nodes by hand that a parse of the same text represents differently (a literal's type tag, a join's copy of its left side)"}
	ex := core.MustTLC(core.TLCOpts{Spec: "Rules", Cfg: "Rules_3.cfg", Timeout: 20 * time.Minute})
	run.AddTLC(ex.Stat("every rule sequence of three steps from twelve statements: LimitsNonNegative, FailureChangesNothing, RenamedIsGone"))
	num := 400
	if tier == "thorough" {
		num = 6000
	}
	sim := core.MustTLC(core.TLCOpts{Spec: "Rules", Cfg: "Rules_sim.cfg", Workers: 1, Simulate: fmt.Sprintf("num=%d", num), Depth: 14, Seed: 4000 + run.Seed, Timeout: 20 * time.Minute})
	ss := sim.Stat(fmt.Sprintf("%d random rule sequences of up to twelve steps, replayed in full", num))
	ss.Mode = "simulation"
	run.AddTLC(ss)
	if len(sim.Cases) < num/2 {
		core.Fatalf("only %d behaviours printed", len(sim.Cases))
	}
	rulesSeen := map[string]bool{}
	for bi, line := range sim.Cases {
		var bh behaviour
		if err := json.Unmarshal([]byte(line), &bh); err != nil {
			core.Fatalf("bad behaviour: %v", err)
		}
		init := stmt{Cols: bh.Init.Cols, From: "t", Joins: bh.Init.Joins, Where: bh.Init.Where, Limit: -1, Offset: -1}
		text := render(init)
		tree, err := gosqlx.Parse(text)
		if err != nil || len(tree.Statements) != 1 {
			core.Fatalf("initial statement rejected: %q: %v", text, err)
		}
		var trail []string
		prev := text
		for si, st := range bh.Trail {
			r := realRule(st.Rule)
			err := r.Apply(tree.Statements[0])
			run.Eval(1)
			rulesSeen[st.Rule.R] = true
			trail = append(trail, fmt.Sprintf("%s(%s,%s)", st.Rule.R, st.Rule.A, st.Rule.B))
			cse := map[string]any{"kind": "rules", "initial": text, "rules": trail}
			if (err == nil) != st.Ok {
				run.Violate(core.Violation{Sig: "rule-verdict|" + st.Rule.R, Clause: "a rule fails exactly when the specification says it does", Case: cse, Observe: fmt.Sprint(err), Expect: st.Ok})
				break
			}
			want := render(st.Stmt)
			if want != prev || !st.Ok {
				run.Nontrivial(fmt.Sprintf("%d/%d", bi, si))
			}
			prev = want
			wtree, perr := gosqlx.Parse(want)
			if perr != nil || len(wtree.Statements) != 1 {
				core.Fatalf("model statement rejected: %q: %v", want, perr)
			}
			got, exp := transform.FormatSQL(tree.Statements[0]), transform.FormatSQL(wtree.Statements[0])
			ast.ReleaseAST(wtree)
			if got != exp {
				run.Violate(core.Violation{Sig: "statement-differs|after-" + st.Rule.R, Clause: "after every rule the tree stands for the statement of the specification", Case: cse, Observe: got, Expect: exp})
				break
			}
		}
		if bi%97 == 5 {
			run.Sample(map[string]any{"initial": text, "rules": trail, "final": prev})
		}
		// the tree is not released: rules graft hand-built nodes into it, which the pools never handed out
	}
	if len(rulesSeen) < 16 {
		core.Fatalf("only %d of 16 rules exercised", len(rulesSeen))
	}
	run.Traces(int64(len(sim.Cases)))
	run.Exhaustive = false
	run.Finish()
}
