package main

import (
	"fmt"
	"os"
	"sort"

	"github.com/ajitpratap0/GoSQLX/pkg/gosqlx"
)

func main() {
	for _, s := range os.Args[1:] {
		t, err := gosqlx.Parse(s)
		if err != nil {
			fmt.Printf("%s\n   ERR %.100v\n", s, err)
			continue
		}
		tb := gosqlx.ExtractTables(t)
		sort.Strings(tb)
		var tq, cq []string
		for _, q := range gosqlx.ExtractTablesQualified(t) {
			tq = append(tq, fmt.Sprintf("%s|%s|%s", q.Schema, q.Table, q.Name))
		}
		c := gosqlx.ExtractColumns(t)
		sort.Strings(c)
		for _, q := range gosqlx.ExtractColumnsQualified(t) {
			cq = append(cq, fmt.Sprintf("%s|%s|%s", q.Schema, q.Table, q.Name))
		}
		f := gosqlx.ExtractFunctions(t)
		sort.Strings(f)
		sort.Strings(tq)
		sort.Strings(cq)
		fmt.Printf("%s\n   T=%v TQ=%v\n   C=%v CQ=%v F=%v\n", s, tb, tq, c, cq, f)
	}
}
