package main

import (
	"encoding/json"
	"time"

	"verif/internal/core"
	"verif/internal/gram"
)

type stmtCase struct {
	Name string         `json:"name"`
	Toks []string       `json:"toks"`
	Tree map[string]any `json:"tree"`
}

func init() {
	statements = func(run *core.Run, tier string) {
		r := core.MustTLC(core.TLCOpts{Spec: "Select", Cfg: "Select.cfg", Timeout: 10 * time.Minute})
		run.AddTLC(r.Stat("statement forms: every combination of the optional SELECT clauses, set operations, CTEs, sub-queries, INSERT/UPDATE/DELETE; ClauseIffField"))
		if len(r.Cases) == 0 {
			core.Fatalf("Select.cfg printed no cases")
		}
		for i, line := range r.Cases {
			var c stmtCase
			if err := json.Unmarshal([]byte(line), &c); err != nil {
				core.Fatalf("bad statement case: %v", err)
			}
			want := gram.EmptyAsNil(gram.Norm(c.Tree)).(map[string]any)
			lays := []int{i % 4}
			if tier == "thorough" || c.Name != "select" {
				lays = []int{0, 1, 2, 3}
			}
			for _, lay := range lays {
				text := gram.Layouts(c.Toks, lay)
				run.Nontrivial(text)
				checkText(run, text, want, "statement:"+c.Name, nil)
			}
			if i%3000 == 7 {
				run.Sample(map[string]any{"form": c.Name, "text": gram.Layouts(c.Toks, 0)})
			}
		}
	}
}
