package main

import (
	"encoding/json"
	"fmt"
	"reflect"
	"strings"
	"time"

	"github.com/ajitpratap0/GoSQLX/pkg/gosqlx"
	"github.com/ajitpratap0/GoSQLX/pkg/sql/ast"

	"verif/internal/core"
	"verif/internal/gram"
	"verif/internal/ops"
	"verif/internal/project"
)

type stmtCase struct {
	Name string         `json:"name"`
	Toks []string       `json:"toks"`
	Tree map[string]any `json:"tree"`
}

func init() {
	statements = func(run *core.Run, tier string) {
		r := core.MustTLC(core.TLCOpts{Spec: "Select", Cfg: "Select.cfg", Timeout: 10 * time.Minute})
		run.AddTLC(r.Stat("statement forms: every combination of the optional SELECT clauses, set operations, CTEs, sub-queries, INSERT/UPDATE/DELETE; ClauseIffField"))
		if len(r.Cases) == 0 {
			core.Fatalf("Select.cfg printed no cases")
		}
		for i, line := range r.Cases {
			var c stmtCase
			if err := json.Unmarshal([]byte(line), &c); err != nil {
				core.Fatalf("bad statement case: %v", err)
			}
			if c.Name == "script" {
				checkScript(run, &c, i)
				continue
			}
			want := gram.EmptyAsNil(gram.Norm(c.Tree)).(map[string]any)
			lays := []int{i % 4}
			if tier == "thorough" || c.Name != "select" {
				lays = []int{0, 1, 2, 3}
			}
			for _, lay := range lays {
				text := gram.Layouts(c.Toks, lay)
				run.Nontrivial(text)
				checkText(run, text, want, "statement:"+c.Name, nil)
			}
			if i%3000 == 7 {
				run.Sample(map[string]any{"form": c.Name, "text": gram.Layouts(c.Toks, 0)})
			}
		}
	}
}

// checkScript: a two-statement script parses to the two statements' own trees, in order.
func checkScript(run *core.Run, c *stmtCase, i int) {
	wants, _ := gram.EmptyAsNil(gram.Norm(c.Tree["Statements"])).([]any)
	text := gram.Layouts(c.Toks, i%4)
	run.Nontrivial(text)
	tree, err := gosqlx.Parse(text)
	run.Eval(1)
	cse := map[string]any{"text": text, "slot": "script"}
	if err != nil {
		run.Violate(core.Violation{Sig: "script-rejected|" + ops.Err(err).Code, Clause: "a statement of the documented surface is never rejected", Case: cse, Observe: firstN(err.Error(), 200)})
		return
	}
	defer ast.ReleaseAST(tree)
	if len(tree.Statements) != len(wants) {
		run.Violate(core.Violation{Sig: "script-statement-count", Clause: "the returned tree is exactly the one the grammar prescribes", Case: cse, Observe: len(tree.Statements), Expect: len(wants)})
		return
	}
	for k, st := range tree.Statements {
		got := gram.FoldWords(gram.Norm(project.Value(st)))
		want := gram.FoldWords(wants[k])
		if !reflect.DeepEqual(got, want) {
			d := project.Equal(got, want)
			path := d
			if j := strings.Index(d, ":"); j > 0 {
				path = d[:j]
			}
			parts := strings.Split(path, ".")
			run.Violate(core.Violation{Sig: fmt.Sprintf("script-tree-differs|statement-%d|%s", k+1, parts[len(parts)-1]), Clause: "every clause, modifier, alias, name and literal written appears with its written value and nothing unwritten appears",
				Case: cse, Observe: map[string]any{"diff": d}})
		}
	}
}
