// C03 — the parsed tree is the tree the SQL grammar prescribes.
//
//	M  Grammar.tla: model trees over the operator ladder, a reference serialiser (minimal, full and each single
//	   redundant parenthesisation) and a reference precedence parser; TLC checks RoundTrip and ParenOnlyAdds on
//	   every tree with exactly 1, 2 (all operator classes) and 3 (core classes, thorough) operator nodes and prints
//	   each tree with its renderings. Select.tla enumerates clause combinations of whole statements.
//	R  every rendering of every tree is placed in the expression slots of the slot table (select item, WHERE,
//	   HAVING, JOIN ON, GROUP BY, ORDER BY, function argument, CASE arm, IN list, UPDATE SET, DELETE WHERE, INSERT
//	   value), laid out in four ways (tight, one token per line, lower-case keywords with double blanks, a comment
//	   between every two tokens) and parsed by the real gosqlx.Parse; the projection of the WHOLE returned tree
//	   (every exported field, zero values omitted) must equal the specification's statement tree.
package main

import (
	"encoding/json"
	"fmt"
	"os"
	"reflect"
	"strings"
	"sync"
	"time"

	"github.com/ajitpratap0/GoSQLX/pkg/gosqlx"
	"github.com/ajitpratap0/GoSQLX/pkg/sql/ast"

	"verif/internal/core"
	"verif/internal/gram"
	"verif/internal/ops"
	"verif/internal/project"
)

func main() {
	tier := os.Getenv("VERIF_TIER")
	if tier == "" {
		tier = "quick"
	}
	run := core.NewRun("C03", tier, "model_checking")
	run.Rule = "every model tree of Grammar.tla x every parenthesisation the reference serialiser offers x expression slots x layouts; statement forms of Select.tla x clause subsets; non-trivial = a case with at least two operator nodes or at least two optional clauses"
	run.Assumptions = []string{
		"the model grammar is a subset of the accepted language; only its own derivations are asserted",
		"the projection compares every exported field of the returned tree with zero values omitted, so a field the model does not mention must be zero",
	}
	slots := gram.Slots(run)
	// the "r" configurations use rich operands: sub-query, EXISTS, array subscript and interval atoms
	cfgs := []string{"Grammar_1.cfg", "Grammar_2.cfg", "Grammar_1s.cfg", "Grammar_2s.cfg", "Grammar_1r.cfg", "Grammar_2r.cfg"}
	if tier == "thorough" {
		cfgs = append(cfgs, "Grammar_3.cfg")
	}
	if len(os.Args) > 2 && os.Args[1] == "--replay" {
		b, _ := os.ReadFile(os.Args[2])
		var f struct {
			Violation struct {
				Case struct {
					Text string         `json:"text"`
					Want map[string]any `json:"want"`
				} `json:"case"`
			} `json:"violation"`
		}
		_ = json.Unmarshal(b, &f)
		checkText(run, f.Violation.Case.Text, f.Violation.Case.Want, "replay", nil)
		run.Finish()
	}
	for ci, cfg := range cfgs {
		r := core.MustTLC(core.TLCOpts{Spec: "Grammar", Cfg: cfg, Timeout: 30 * time.Minute})
		run.AddTLC(r.Stat(fmt.Sprintf("expression trees (%s): RoundTrip (reference parser inverts the reference serialiser under every parenthesisation), ParenOnlyAdds", cfg)))
		_ = ci
		if len(r.Cases) == 0 {
			core.Fatalf("%s printed no trees", cfg)
		}
		var wg sync.WaitGroup
		work := make(chan string, 256)
		for w := 0; w < 16; w++ {
			wg.Add(1)
			go func() {
				defer wg.Done()
				for line := range work {
					var c gram.Case
					if err := json.Unmarshal([]byte(line), &c); err != nil {
						core.Fatalf("bad case: %v", err)
					}
					oneTree(run, &c, slots, ci+1, tier)
				}
			}()
		}
		for _, line := range r.Cases {
			work <- line
		}
		close(work)
		wg.Wait()
	}
	statements(run, tier)
	run.Exhaustive = true
	run.Finish()
}

func hashOf(s string) int {
	h := 0
	for _, c := range s {
		h = h*31 + int(c)
		h &= 0x7fffffff
	}
	return h
}

func oneTree(run *core.Run, c *gram.Case, slots []gram.Slot, nops int, tier string) {
	renderings := [][]string{c.Min, c.Full, c.Atoms}
	renderings = append(renderings, c.One...)
	h := hashOf(strings.Join(c.Min, " "))
	for si, sl := range slots {
		// all slots for single-operator trees (and in the thorough tier for two); otherwise three slots per tree
		if !(nops == 1 || (tier == "thorough" && nops == 2) || si == h%len(slots) || si == (h/7)%len(slots) || si == (h/53)%len(slots)) {
			continue
		}
		want := gram.Norm(gram.Subst(sl.Tree, c.Tree)).(map[string]any)
		for ri, rd := range renderings {
			toks := append(append(append([]string{}, sl.Pre...), rd...), sl.Post...)
			for lay := 0; lay < 4; lay++ {
				if nops >= 2 && tier != "thorough" && lay != (h+ri+si)%4 {
					continue
				}
				text := gram.Layouts(toks, lay)
				if nops >= 2 {
					run.Nontrivial(text)
				}
				checkText(run, text, want, sl.Name, c.Tree)
			}
		}
	}
	if nops == 2 && h%400 == 0 {
		run.Sample(map[string]any{"tree": c.Tree, "min": strings.Join(c.Min, " "), "full": strings.Join(c.Full, " ")})
	}
}

func checkText(run *core.Run, text string, want map[string]any, slot string, expr map[string]any) {
	tree, err := gosqlx.Parse(text)
	run.Eval(1)
	desc := ""
	if expr != nil {
		desc = gram.Describe(expr)
	}
	if err != nil {
		run.Violate(core.Violation{Sig: "rejected|" + desc + "|" + ops.Err(err).Code, Clause: "a statement of the documented surface is never rejected",
			Case: map[string]any{"text": text, "slot": slot, "want": want}, Observe: firstN(err.Error(), 200)})
		return
	}
	if len(tree.Statements) != 1 {
		run.Violate(core.Violation{Sig: "statement-count|" + desc, Clause: "the returned tree is exactly the one the grammar prescribes",
			Case: map[string]any{"text": text, "slot": slot, "want": want}, Observe: len(tree.Statements)})
		ast.ReleaseAST(tree)
		return
	}
	// operator words and type names are compared up to letter case ("and" is the operator AND)
	got := gram.FoldWords(gram.Norm(project.Value(tree.Statements[0])))
	ast.ReleaseAST(tree)
	want = gram.FoldWords(want).(map[string]any)
	if !reflect.DeepEqual(got, any(want)) {
		d := project.Equal(got, any(want))
		path := d
		if i := strings.Index(d, ":"); i > 0 {
			path = d[:i]
		}
		// the signature keeps the operators involved and the last field of the differing path
		parts := strings.Split(path, ".")
		// statement forms are named in the signature (expression cases by their operators)
		who := desc
		if who == "" && strings.HasPrefix(slot, "statement:") && slot != "statement:select" {
			who = "stmt:" + strings.TrimPrefix(slot, "statement:")
		}
		run.Violate(core.Violation{Sig: "tree-differs|" + who + "|" + parts[len(parts)-1], Clause: "operators bind by standard precedence and associate to the left; every clause, modifier, alias, name and literal written appears with its written value and nothing unwritten appears",
			Case: map[string]any{"text": text, "slot": slot, "want": want}, Observe: map[string]any{"diff": d, "got": got}})
	}
}

func firstN(s string, n int) string {
	if len(s) > n {
		return s[:n]
	}
	return s
}

// statements is filled in by the statement-level specification (Select.tla); see select.go.
var statements = func(run *core.Run, tier string) {}
