module verif

go 1.21

require (
	github.com/ajitpratap0/GoSQLX v0.0.0
	pgregory.net/rapid v1.3.0
)

replace github.com/ajitpratap0/GoSQLX => /repo
