// Package lexcheck replays the inputs of Lexer.tla on the real tokenizer. With prop "C04" it judges kinds,
// decoded values, comments and the end-of-input marker; with prop "C05" the source positions.
package lexcheck

import (
	"context"
	"encoding/json"
	"fmt"
	"os"
	"strings"
	"sync"
	"time"

	"github.com/ajitpratap0/GoSQLX/pkg/models"
	"github.com/ajitpratap0/GoSQLX/pkg/sql/ast"
	"github.com/ajitpratap0/GoSQLX/pkg/sql/parser"
	"github.com/ajitpratap0/GoSQLX/pkg/sql/tokenizer"

	"verif/internal/core"
	"verif/internal/gram"
	"verif/internal/lexconc"
	"verif/internal/ops"
	"verif/internal/stmts"
)

type stok struct {
	K  string         `json:"k"`
	Lo int            `json:"lo"`
	Hi int            `json:"hi"`
	V  []lexconc.Item `json:"v"`
}

type scom struct {
	Style  string `json:"style"`
	Lo     int    `json:"lo"`
	Hi     int    `json:"hi"`
	Inline bool   `json:"inline"`
}

// Case is one line printed by Lexer.tla.
type Case struct {
	Inp  []string `json:"inp"`
	Toks []stok   `json:"toks"`
	Coms []scom   `json:"coms"`
	Err  struct {
		E  string `json:"e"`
		At int    `json:"at"`
	} `json:"err"`
}

// Configs of a tier: (cfg for emission, description).
type Config struct{ Cfg, What string }

var errCode = map[string]string{"unterminated": "E1002", "badnumber": "E1003", "badchar": "E1001"}

// Main is the driver's entry point.
func Main(prop string) {
	tier := os.Getenv("VERIF_TIER")
	if tier == "" {
		tier = "quick"
	}
	run := core.NewRun(prop, tier, "model_checking")
	if prop == "C04" {
		run.Rule = "every input of Lexer.tla (all sequences over the character classes up to the bound, plus sub-alphabet configurations to greater length) spelled concretely in several variants and tokenized with Tokenize and TokenizeContext; non-trivial = an input with at least two tokens or comments, or a rejected input with at least one token before the error"
	} else {
		run.Rule = "every input of Lexer.tla spelled concretely; each token's and comment's start/end and each error's location compared with the position of the specification's index range (exact line always; exact column on ASCII, tab-free line prefixes); non-trivial = an input with a newline, a comment or a multi-character literal before some token"
	}
	run.Assumptions = []string{
		"class symbols are spelled by a fixed table (several spellings per class, one spelling per class within an input); words are spelled from letters that are checked only to be word tokens with the exact text (keyword or identifier)",
		"columns are asserted exactly only where the property asserts them (ASCII, tab-free line prefix); elsewhere only the line",
	}
	cfgs := []Config{{"Lexer_full3.cfg", "all inputs of length <= 3 over the full alphabet of 40 classes"},
		{"Lexer_str6.cfg", "strings and escapes: length <= 6 over {sq, L, bs, N, nl, sp}"},
		{"Lexer_num6.cfg", "numbers: length <= 6 over {D, ., E, +, -, L, sp}"},
		{"Lexer_com6.cfg", "comments: length <= 6 over {-, /, *, nl, L, sp, sq}"},
		{"Lexer_dol6.cfg", "dollar quoting and placeholders: length <= 6 over {$, L, D, sp}"},
		{"Lexer_uq5.cfg", "plain and typographic quotes mixed (delimiters and doubled-quote pairs of different byte widths): length <= 5 over {sq, usq, dq, udq, L}"}}
	if tier == "thorough" {
		cfgs = []Config{{"Lexer_full3.cfg", "all inputs of length <= 3 over the full alphabet of 40 classes"},
			{"Lexer_mid4.cfg", "all inputs of length <= 4 over a 22-class alphabet (every ladder start and continuation)"},
			{"Lexer_str7.cfg", "strings and escapes: length <= 7 over {sq, usq, L, bs, N, nl, sp}"},
			{"Lexer_num7.cfg", "numbers: length <= 7 over {D, ., E, +, -, L, sp}"},
			{"Lexer_com7.cfg", "comments: length <= 7 over {-, /, *, nl, cr, L, sp, sq}"},
			{"Lexer_dol7.cfg", "dollar quoting and placeholders: length <= 7 over {$, L, D, sp, nl}"},
			{"Lexer_qid6.cfg", "quoted identifiers: length <= 6 over {dq, udq, bt, L, nl, sp, sq}"},
			{"Lexer_uq7.cfg", "plain and typographic quotes mixed: length <= 7 over {sq, usq, dq, udq, L}"}}
	}
	live := core.MustTLC(core.TLCOpts{Spec: "Lexer", Cfg: "Lexer_live.cfg", Timeout: 10 * time.Minute})
	run.AddTLC(live.Stat("reference lexer: Progress (cursor strictly advances) and Termination on all inputs of length <= 3 over 14 classes"))
	variants := 2
	if tier == "thorough" {
		variants = 4
	}
	seen := map[string]bool{}
	for _, c := range cfgs {
		r := core.MustTLC(core.TLCOpts{Spec: "Lexer", Cfg: c.Cfg, Timeout: 30 * time.Minute})
		run.AddTLC(r.Stat(c.What + ": ExactlyOneEOF, NoTokensWithError, SourceOrder, CommentOrder, NothingDropped"))
		if len(r.Cases) == 0 {
			core.Fatalf("%s printed no cases", c.Cfg)
		}
		var wg sync.WaitGroup
		work := make(chan string, 1024)
		for w := 0; w < 16; w++ {
			wg.Add(1)
			go func() {
				defer wg.Done()
				for line := range work {
					var cs Case
					if err := json.Unmarshal([]byte(line), &cs); err != nil {
						core.Fatalf("bad case %q: %v", line, err)
					}
					for v := 0; v < variants; v++ {
						check(run, prop, &cs, int(run.Seed)+v)
					}
					// keyword variant: every letter spelled as a whole (compound-)keyword-like word
					for _, c := range cs.Inp {
						if c == "L" {
							check(run, prop, &cs, 100+(len(line)+int(run.Seed))%len(lexconc.KeywordSpellings))
							break
						}
					}
				}
			}()
		}
		for _, line := range r.Cases {
			if seen[line] {
				continue
			}
			seen[line] = true
			work <- line
		}
		close(work)
		wg.Wait()
	}
	run.Traces(int64(len(seen)))
	if prop == "C04" {
		layout(run, variants)
		keywordCase(run)
		compoundLayout(run)
		keywordNeighbours(run)
	}
	if prop == "C05" {
		parserErrorLocations(run)
	}
	run.Exhaustive = true
	run.Finish()
}

type layoutCase struct {
	Lx   [][]string `json:"lx"`
	Sp   [][]string `json:"sp"`
	Same bool       `json:"same"`
}

// layout replays LexLayout.tla: all separator choices of one lexeme list must give the same (kind, value) sequence.
func layout(run *core.Run, variants int) {
	r := core.MustTLC(core.TLCOpts{Spec: "LexLayout", Cfg: "LexLayout_2.cfg", Timeout: 20 * time.Minute})
	run.AddTLC(r.Stat("layout independence on the reference lexer: WellFormedLexemes, LayoutIndependence, SeparableIsEnough over all pairs of 67 lexemes x 9 separators"))
	if len(r.Cases) == 0 {
		core.Fatalf("LexLayout printed no cases")
	}
	ref := map[string]string{} // lexeme list -> reference stream (from the single-space variant)
	type pending struct {
		c      layoutCase
		key    string
		stream string
		text   string
	}
	for v := 0; v < variants; v++ {
		var all []pending
		for _, line := range r.Cases {
			var c layoutCase
			if err := json.Unmarshal([]byte(line), &c); err != nil {
				core.Fatalf("bad layout case: %v", err)
			}
			if !c.Same {
				continue // an empty separator between a pair that is not separable: nothing is claimed
			}
			var classes []string
			for i, l := range c.Lx {
				classes = append(classes, l...)
				if i < len(c.Sp) {
					classes = append(classes, c.Sp[i]...)
				}
			}
			txt := lexconc.Concretise(classes, int(run.Seed)+v)
			tk, _ := tokenizer.New()
			toks, err := tk.Tokenize([]byte(txt.S))
			run.Eval(1)
			stream := "ERR:" + fmt.Sprint(err)
			if err == nil {
				stream = ops.TokString(toks, false)
			}
			key := fmt.Sprint(c.Lx, v)
			if len(c.Sp) == 1 && len(c.Sp[0]) == 1 && c.Sp[0][0] == "sp" {
				ref[key] = stream
			}
			run.Nontrivial("layout" + line + fmt.Sprint(v))
			all = append(all, pending{c, key, stream, txt.S})
		}
		// Expected of LexLayout.tla: the stream is the lexemes' own tokens in order, each as it is tokenized alone
		alone := map[string]string{}
		own := func(l []string) string {
			k := fmt.Sprint(l)
			if s, ok := alone[k]; ok {
				return s
			}
			tk, _ := tokenizer.New()
			toks, err := tk.Tokenize([]byte(lexconc.Concretise(l, int(run.Seed)+v).S))
			s := "ERR:" + fmt.Sprint(err)
			if err == nil && len(toks) > 0 {
				s = ops.TokString(toks[:len(toks)-1], false)
			}
			alone[k] = s
			return s
		}
		for _, p := range all {
			if len(p.c.Sp) == 1 && len(p.c.Sp[0]) == 1 && p.c.Sp[0][0] == "sp" && !strings.HasPrefix(p.stream, "ERR:") {
				exp := ""
				for _, l := range p.c.Lx {
					exp += own(l)
				}
				exp += ops.TokString([]models.TokenWithSpan{{}}, false) // the end marker
				if p.stream != exp {
					run.Violate(core.Violation{Sig: "token-depends-on-neighbours", Clause: "each element is read as it is read alone: kinds and values do not depend on the elements before it",
						Case: map[string]any{"lexemes": p.c.Lx, "text": p.text}, Observe: p.stream, Expect: exp})
				}
			}
		}
		for _, p := range all {
			want, ok := ref[p.key]
			if !ok {
				core.Fatalf("no single-space reference for %v", p.c.Lx)
			}
			if p.stream != want {
				sepKind := "blank"
				for _, sp := range p.c.Sp {
					if len(sp) == 0 {
						sepKind = "none"
					} else if len(sp) > 1 && (sp[0] == "/" || sp[1] == "-") {
						sepKind = "comment"
					}
				}
				run.Violate(core.Violation{Sig: "layout-changes-tokens|" + sepKind + "-separator", Clause: "changing only the whitespace or comments between elements never changes the sequence of kinds and values",
					Case: map[string]any{"lexemes": p.c.Lx, "separators": p.c.Sp, "text": p.text}, Observe: p.stream, Expect: want})
			}
		}
	}
}

// compoundLayout: the words of a compound keyword (the tokenizer reads ORDER BY, LEFT OUTER JOIN, GROUPING SETS ... as
// one element) separated by every blank separator of LexLayout.tla give the element they give with one blank - same kind,
// same value; with a comment between the words the same words come out, fused or not.
func compoundLayout(run *core.Run) {
	compounds := []string{"GROUP BY", "ORDER BY", "LEFT JOIN", "RIGHT JOIN", "INNER JOIN", "OUTER JOIN", "FULL JOIN", "CROSS JOIN",
		"LEFT OUTER JOIN", "RIGHT OUTER JOIN", "FULL OUTER JOIN", "GROUPING SETS", "group by", "Cross Join", "grouping sets", "full outer join"}
	blanks := map[string]string{"two-blanks": "  ", "tab": "\t", "newline": "\n", "crlf": "\r\n", "blank-newline-blank": " \n ", "newline-indent": "\n    ", "many": " \t \n\t "}
	comments := map[string]string{"line-comment": " -- c\n", "block-comment": "/* c */", "block-comment-with-quote": " /* ' \n */ "}
	toks := func(s string) (string, []string, error) {
		tk, _ := tokenizer.New()
		ts, err := tk.Tokenize([]byte(s))
		if err != nil {
			return "", nil, err
		}
		var words []string
		for _, t := range ts {
			words = append(words, strings.Fields(strings.ToUpper(t.Token.Value))...)
		}
		return ops.TokString(ts, false), words, nil
	}
	for _, c := range compounds {
		ws := strings.Fields(c)
		for _, frame := range []string{"a %s b", "%s", "x.y %s (1)"} {
			ref, refWords, err := toks(fmt.Sprintf(frame, strings.Join(ws, " ")))
			if err != nil {
				core.Fatalf("compound keyword %q does not tokenize: %v", c, err)
			}
			for name, sep := range blanks {
				text := fmt.Sprintf(frame, strings.Join(ws, sep))
				got, _, err := toks(text)
				run.Eval(1)
				run.Nontrivial("compound" + c + name + frame)
				if err != nil || got != ref {
					run.Violate(core.Violation{Sig: "layout-changes-tokens|compound-keyword|" + name, Clause: "changing only the whitespace or comments between elements never changes the sequence of kinds and values",
						Case: map[string]any{"compound_keyword": c, "separator": name, "text": text}, Observe: fmt.Sprint(got, err), Expect: ref})
				}
			}
			for name, sep := range comments {
				text := fmt.Sprintf(frame, strings.Join(ws, sep))
				_, words, err := toks(text)
				run.Eval(1)
				if err != nil || strings.Join(words, " ") != strings.Join(refWords, " ") {
					run.Violate(core.Violation{Sig: "layout-changes-tokens|compound-keyword|" + name, Clause: "changing only the whitespace or comments between elements never changes the sequence of kinds and values",
						Case: map[string]any{"compound_keyword": c, "separator": name, "text": text}, Observe: fmt.Sprint(words, err), Expect: refWords})
				}
			}
		}
	}
}

// keywordNeighbours: the word lexemes of LexLayout.tla concretised to every keyword spelling, next to an element of
// every other kind, with every separator - among them comments whose own text ends in a character that means
// something outside a comment (a full stop, a quote, a parenthesis).  The stream with one blank is the reference.
func keywordNeighbours(run *core.Run) {
	others := []string{".", "(", ")", ",", ";", "=", "*", "::", "x", "t.c", "1", "'s'", "\"q\""}
	seps := map[string]string{"tab": "\t", "newline": "\n", "crlf": "\r\n", "newline-indent": "\n    ",
		"line-comment": " -- c\n", "line-comment-ending-in-dot": " -- the c.\n  ", "line-comment-ending-in-quote": " -- it's\n", "line-comment-ending-in-paren": " -- f(\n",
		"block-comment": "/* c */", "block-comment-tight-after-dot": "/*.*/", "block-comment-ending-in-dot": " /* c. */ ", "empty-block-comment": "/**/"}
	tok := func(s string) string {
		tk, _ := tokenizer.New()
		ts, err := tk.Tokenize([]byte(s))
		if err != nil {
			return "ERR:" + err.Error()
		}
		return ops.TokString(ts, false)
	}
	for _, kw := range lexconc.KeywordSpellings {
		for _, o := range others {
			for _, pair := range [][2]string{{o, kw}, {kw, o}} {
				ref := tok(pair[0] + " " + pair[1])
				for name, sep := range seps {
					text := pair[0] + sep + pair[1]
					got := tok(text)
					run.Eval(1)
					run.Nontrivial("kwn" + text)
					if got != ref {
						where := "before"
						if pair[0] == kw {
							where = "after"
						}
						run.Violate(core.Violation{Sig: "layout-changes-tokens|keyword-neighbour|" + name, Clause: "changing only the whitespace or comments between elements never changes the sequence of kinds and values",
							Case: map[string]any{"keyword": kw, "neighbour": o, "neighbour_is": where, "separator": name, "text": text}, Observe: got, Expect: ref})
					}
				}
			}
		}
	}
}

// keywordCase: the letter case of a keyword never changes its kind (compound keywords included).
func keywordCase(run *core.Run) {
	words := []string{"select", "from", "where", "group by", "order by", "left join", "inner join", "full outer join", "insert", "into", "values",
		"update", "set", "delete", "create", "table", "and", "or", "not", "null", "is", "in", "between", "like", "case", "when", "then", "else", "end",
		"union", "all", "distinct", "as", "on", "join", "having", "limit", "offset", "with", "recursive", "exists", "asc", "desc", "true", "false",
		"primary", "key", "references", "merge", "using", "matched", "over", "partition", "rows", "range", "preceding", "following", "current", "row",
		"interval", "cast", "returning", "grouping sets", "rollup", "cube", "lateral", "natural", "cross join", "fetch", "first", "next", "only"}
	mixed := func(s string) string {
		b := []byte(s)
		for i := range b {
			if i%2 == 0 && b[i] >= 'a' && b[i] <= 'z' {
				b[i] -= 32
			}
		}
		return string(b)
	}
	for _, w := range words {
		variants := []string{w, strings.ToUpper(w), mixed(w)}
		var ref string
		for i, sp := range variants {
			tk, _ := tokenizer.New()
			toks, err := tk.Tokenize([]byte("x " + sp + " y"))
			run.Eval(1)
			run.Nontrivial("kwcase" + sp)
			var kinds []string
			if err != nil {
				kinds = []string{"ERR"}
			}
			for _, t := range toks {
				kinds = append(kinds, fmt.Sprintf("%d:%s", int(t.Token.Type), strings.ToUpper(t.Token.Value)))
			}
			got := strings.Join(kinds, " ")
			if i == 0 {
				ref = got
			} else if got != ref {
				run.Violate(core.Violation{Sig: "keyword-case-changes-kind|" + strings.ToUpper(w), Clause: "the letter case of keywords never changes the sequence of kinds",
					Case: map[string]any{"text": "x " + sp + " y"}, Observe: got, Expect: ref})
			}
		}
	}
}

// parserErrorLocations: every single-token "poison" corruption of the well-formed base statements (token k
// replaced by "]", which no production accepts outside an array context - THEN in statements that have one; or the statement truncated after k
// tokens) is parsed with position tracking; a located error must point at the offending token - the poison,
// or the end of input for a truncation.
func parserErrorLocations(run *core.Run) {
	located, unlocated := 0, 0
	// hand-written base statements and a sample of Select.tla's statement forms
	bases := append(append([]string{}, stmts.Base...), gram.FormTexts(run)...)
	run.Extra["parser_error_base_statements"] = len(bases)
	for _, base := range bases {
		lex := stmts.Lexemes(base)
		if len(lex) < 2 {
			continue
		}
		// the poison must be a token no production of this statement accepts anywhere: "]" unless the statement has an
		// array context, else THEN unless it has a CASE or WHEN
		poison := "]"
		has := func(w string) bool {
			for _, l := range lex {
				if strings.EqualFold(l, w) {
					return true
				}
			}
			return false
		}
		if has("AGAINST") {
			continue // the mode words of MATCH ... AGAINST (...) are read up to the closing parenthesis, whatever they are
		}
		if has("[") {
			poison = "THEN"
			if has("CASE") || has("WHEN") {
				continue
			}
		}
		for _, layout := range []string{" ", "\n", "\n  "} {
			for k := 1; k <= len(lex); k++ {
				var parts []string
				var want string
				if k < len(lex) {
					parts = append(append(append([]string{}, lex[:k]...), poison), lex[k+1:]...)
					want = "poison"
				} else {
					parts = lex[:len(lex)-1] // truncated: the offending token is the end of input
					want = "eof"
				}
				text := strings.Join(parts, layout)
				tk, _ := tokenizer.New()
				toks, err := tk.Tokenize([]byte(text))
				if err != nil {
					continue
				}
				p := parser.NewParser()
				tree, perr := p.ParseFromModelTokensWithPositions(toks)
				run.Eval(1)
				if perr == nil {
					ast.ReleaseAST(tree)
					continue // the corruption still parses (e.g. a trailing optional clause was cut)
				}
				e := ops.Err(perr)
				if !e.Struct || e.Line == 0 {
					unlocated++
					if e.Code == "E2002" {
						run.Violate(core.Violation{Sig: "parser-error-unlocated|E2002", Clause: "a syntax error is located at the offending token",
							Case: map[string]any{"text": text}, Observe: e})
					}
					continue
				}
				located++
				run.Nontrivial("perr" + text)
				// the offending token
				var target models.TokenWithSpan
				if want == "poison" {
					target = toks[k]
				} else {
					target = toks[len(toks)-1]
				}
				nl := 1 + strings.Count(text, "\n")
				if e.Line < 1 || e.Line > nl {
					run.Violate(core.Violation{Sig: "parser-error-outside-input", Clause: "an error's location lies inside the input", Case: map[string]any{"text": text}, Observe: e})
					continue
				}
				// The parser may legitimately give up one token later than the poison when the poison is read as part of a
				// still-viable prefix; it may never point before the poison or at an unrelated line.
				if e.Line != target.Start.Line || e.Col != target.Start.Column {
					// accept the token right after the poison too
					okNext := false
					if want == "poison" && k+1 < len(toks) {
						n := toks[k+1]
						okNext = e.Line == n.Start.Line && e.Col == n.Start.Column
					}
					// ... and the token right before it: with one token of look-ahead the parser blames the
					// word that needed a particular successor ("a NOT ]": NOT is not followed by IN/LIKE/BETWEEN)
					if want == "poison" && k >= 1 {
						n := toks[k-1]
						okNext = okNext || (e.Line == n.Start.Line && e.Col == n.Start.Column)
					}
					if !okNext {
						run.Violate(core.Violation{Sig: "parser-error-not-at-offending-token|" + want + "|" + e.Code, Clause: "a syntax error is located at the offending token",
							Case:    map[string]any{"text": text, "corrupted_token_index": k},
							Observe: map[string]any{"line": e.Line, "col": e.Col, "msg": e.Msg}, Expect: map[string]any{"line": target.Start.Line, "col": target.Start.Column}})
					}
				}
			}
		}
	}
	run.Extra["parser_errors_located"] = located
	run.Extra["parser_errors_unlocated"] = unlocated
}

func quotedKind(k string) bool { return k == "qident" || k == "string" } // the backtick reader copies bytes verbatim

func check(run *core.Run, prop string, cs *Case, v int) {
	txt := lexconc.Concretise(cs.Inp, v)
	tk, err := tokenizer.New()
	if err != nil {
		core.Fatalf("tokenizer.New: %v", err)
	}
	toks, terr := tk.Tokenize([]byte(txt.S))
	comments := append([]models.Comment(nil), tk.Comments...)
	run.Eval(1)
	fail := func(sig, clause string, obs, exp any) {
		run.Violate(core.Violation{Sig: sig, Clause: clause,
			Case:    map[string]any{"classes": cs.Inp, "text": txt.S, "variant": v},
			Observe: obs, Expect: exp})
	}
	specFails := cs.Err.E != ""
	if prop == "C04" {
		if len(cs.Toks)+len(cs.Coms) >= 3 || (specFails && len(cs.Toks) > 0) {
			run.Nontrivial(strings.Join(cs.Inp, " ") + fmt.Sprint(v))
		}
	} else {
		for i, c := range cs.Inp {
			if (c == "nl" || c == "-" || c == "/" || c == "sq") && i < len(cs.Inp)-1 {
				run.Nontrivial(strings.Join(cs.Inp, " ") + fmt.Sprint(v))
				break
			}
		}
	}
	if len(cs.Inp) == 3 && len(cs.Toks) == 3 && v%2 == 0 {
		run.Sample(map[string]any{"classes": cs.Inp, "text": txt.S, "spec_tokens": cs.Toks})
	}
	// accept / reject
	if (terr != nil) != specFails {
		if prop == "C04" {
			kind := "accepted-but-spec-rejects|" + cs.Err.E
			if terr != nil {
				kind = "rejected-but-spec-accepts|" + ops.Err(terr).Code
			}
			fail("lex-verdict|"+kind+"|"+shape(cs), "tokenizing yields exactly the lexical elements of the input (or rejects malformed lexemes)", fmt.Sprint(terr), cs.Err)
		}
		return
	}
	if specFails {
		if prop == "C05" {
			e := ops.Err(terr)
			wl, wc, exact := txt.Loc(max(cs.Err.At, 1))
			if !e.Struct {
				return
			}
			nl := 1 + strings.Count(txt.S, "\n")
			if e.Line != 0 && (e.Line < 1 || e.Line > nl) {
				fail("error-location-outside-input|"+cs.Err.E, "an error's location lies inside the input", map[string]int{"line": e.Line, "col": e.Col}, nl)
			} else if e.Line != wl {
				fail("error-location-wrong-line|"+cs.Err.E, "a tokenizer error is located on the line of the offending element", map[string]int{"line": e.Line, "col": e.Col}, wl)
			} else if exact && e.Line != 0 && e.Col != wc {
				fail("error-location-wrong-column|"+cs.Err.E, "a tokenizer error is located at the column where the offending element begins", map[string]int{"line": e.Line, "col": e.Col}, map[string]int{"line": wl, "col": wc})
			}
		} else if want := errCode[cs.Err.E]; want != "" && ops.Err(terr).Code != want {
			// the code family is property C13's business; here only a sanity note in the evidence
			_ = want
		}
		return
	}
	// context variant must agree
	tk2, _ := tokenizer.New()
	toks2, terr2 := tk2.TokenizeContext(context.Background(), []byte(txt.S))
	if prop == "C04" && (terr2 != nil || ops.TokString(toks2, true) != ops.TokString(toks, true) || ops.CommentString(tk2.Comments) != ops.CommentString(comments)) {
		fail("tokenize-context-differs|"+shape(cs), "TokenizeContext with a context that never fires equals Tokenize", ops.TokString(toks2, true), ops.TokString(toks, true))
	}
	if prop == "C04" {
		// kinds and values
		if len(toks) != len(cs.Toks) {
			neof := 0
			for _, t := range toks {
				if t.Token.Type == models.TokenTypeEOF {
					neof++
				}
			}
			sig := "token-count|" + shape(cs)
			if neof != 1 {
				sig = fmt.Sprintf("eof-count-%d|%s", neof, shape(cs))
			}
			fail(sig, "exactly the lexical elements of the input followed by exactly one end-of-input marker", ops.TokString(toks, false), cs.Toks)
			return
		}
		for i, st := range cs.Toks {
			got := toks[i].Token
			text := txt.S[txt.Off[min(st.Lo, len(txt.Off))-1]:txt.Off[min(st.Hi, len(txt.Off)-1)]]
			wantVal := txt.Value(st.V, quotedKind(st.K))
			bad := ""
			switch st.K {
			case "eof":
				if got.Type != models.TokenTypeEOF {
					bad = "kind"
				}
			case "word":
				if got.Word == nil || got.Type == models.TokenTypeNumber || got.Type == models.TokenTypeEOF {
					bad = "kind"
				} else if got.Value != wantVal {
					bad = "value"
				}
			case "number":
				if got.Type != models.TokenTypeNumber {
					bad = "kind"
				} else if got.Value != wantVal {
					bad = "value"
				}
			case "qident":
				if got.Type != models.TokenTypeDoubleQuotedString || got.Quote != '"' {
					bad = "kind"
				} else if got.Value != wantVal {
					bad = "value"
				}
			case "btident":
				if got.Type != models.TokenTypeIdentifier {
					bad = "kind"
				} else if got.Value != wantVal {
					bad = "value"
				}
			case "string":
				if got.Type != models.TokenTypeSingleQuotedString {
					bad = "kind"
				} else if got.Value != wantVal {
					bad = "value"
				}
			case "triple":
				if got.Type != models.TokenTypeTripleSingleQuotedString {
					bad = "kind"
				} else if got.Value != wantVal {
					bad = "value"
				}
			case "dollar":
				if got.Type != models.TokenTypeDollarQuotedString {
					bad = "kind"
				} else if got.Value != wantVal {
					bad = "value"
				}
			case "placeholder":
				if got.Type != models.TokenTypePlaceholder {
					bad = "kind"
				} else if got.Value != text {
					bad = "value"
				}
			case "op":
				if wt, ok := lexconc.OpType[text]; !ok {
					core.Fatalf("no token type known for operator %q", text)
				} else if got.Type != wt {
					bad = "kind"
				} else if got.Value != text {
					bad = "value"
				}
			}
			if bad != "" {
				fail("token-"+bad+"|"+st.K+"|"+shape(cs), "each element has its kind and decoded value",
					map[string]any{"index": i, "type": got.Type.String(), "value": got.Value}, map[string]any{"kind": st.K, "value": wantVal, "text": text})
				return
			}
		}
		// comments
		if len(comments) != len(cs.Coms) {
			fail("comment-count|"+shape(cs), "each comment is captured separately", ops.CommentString(comments), cs.Coms)
			return
		}
		for i, sc := range cs.Coms {
			want := txt.S[txt.Off[sc.Lo-1]:txt.Off[sc.Hi]]
			g := comments[i]
			if g.Text != want || (g.Style == models.LineComment) != (sc.Style == "line") {
				fail("comment-text|"+sc.Style, "each comment is captured with its exact text", g.Text, want)
			} else if g.Inline != sc.Inline {
				fail("comment-inline-flag|"+sc.Style, "a comment is inline exactly when code precedes it on its line", g.Inline, sc.Inline)
			}
		}
		return
	}
	// C05: positions
	if len(toks) != len(cs.Toks) || len(comments) != len(cs.Coms) {
		return // C04's business
	}
	prevEnd := models.Location{Line: 1, Column: 1}
	nl := 1 + strings.Count(txt.S, "\n")
	for i, st := range cs.Toks {
		g := toks[i]
		sl, sc, sx := txt.Loc(st.Lo)
		el, ec, ex := txt.Loc(st.Hi + 1)
		if st.K == "eof" {
			el, ec, ex = sl, sc, sx
		}
		where := "after-plain"
		if i > 0 || len(cs.Coms) > 0 {
			for _, c := range cs.Coms {
				if c.Hi < st.Lo && (i == 0 || cs.Toks[i-1].Hi < c.Lo) {
					where = "after-comment"
				}
			}
			if where == "after-plain" && i > 0 && strings.Contains(txt.S[txt.Off[cs.Toks[i-1].Lo-1]:txt.Off[cs.Toks[i-1].Hi]], "\n") {
				where = "after-multiline-literal"
			}
		}
		if g.Start.Line != sl || (sx && g.Start.Column != sc) {
			fail("token-start|"+st.K+"|"+where, "each token's start identifies the line and column at which it begins", g.Start, [2]int{sl, sc})
			return
		}
		if g.End.Line != el || (ex && g.End.Column != ec) {
			fail("token-end|"+st.K+"|"+where, "each token's end identifies the position right after its last character", g.End, [2]int{el, ec})
			return
		}
		if g.Start.Line < 1 || g.Start.Column < 1 || g.End.Line > nl {
			fail("token-position-range|"+st.K, "positions are 1-based and inside the input", g, nl)
		}
		if before(g.Start, prevEnd) || before(g.End, g.Start) {
			fail("token-position-order|"+st.K, "positions never decrease along the stream; the end of one element is never after the start of the next", g, prevEnd)
		}
		prevEnd = g.End
	}
	for i, scm := range cs.Coms {
		g := comments[i]
		sl, sc, sx := txt.Loc(scm.Lo)
		el, ec, ex := txt.Loc(scm.Hi + 1)
		if g.Start.Line != sl || (sx && g.Start.Column != sc) {
			fail("comment-start|"+scm.Style, "each comment's span identifies where it begins", g.Start, [2]int{sl, sc})
		} else if g.End.Line != el || (ex && g.End.Column != ec) {
			fail("comment-end|"+scm.Style, "each comment's span identifies where it ends", g.End, [2]int{el, ec})
		}
	}
}

func before(a, b models.Location) bool {
	return a.Line < b.Line || (a.Line == b.Line && a.Column < b.Column)
}

// shape abstracts an input to the kinds of its tokens (a stable, coarse signature component).
func shape(cs *Case) string {
	var ks []string
	for _, t := range cs.Toks {
		if t.K != "eof" {
			ks = append(ks, t.K)
		}
	}
	if len(cs.Coms) > 0 {
		ks = append(ks, fmt.Sprintf("+%dcomments", len(cs.Coms)))
	}
	if len(ks) > 3 {
		ks = ks[:3]
	}
	return strings.Join(ks, ",")
}
