// Package entry adapts every public parsing / validating entry point to one signature so that drivers
// can run the same input through all of them and compare verdict, tree and error code.
package entry

import (
	"context"
	"errors"
	"strings"
	"time"

	"github.com/ajitpratap0/GoSQLX/pkg/gosqlx"
	"github.com/ajitpratap0/GoSQLX/pkg/models"
	"github.com/ajitpratap0/GoSQLX/pkg/sql/ast"
	"github.com/ajitpratap0/GoSQLX/pkg/sql/keywords"
	"github.com/ajitpratap0/GoSQLX/pkg/sql/parser"
	"github.com/ajitpratap0/GoSQLX/pkg/sql/tokenizer"

	"verif/internal/ops"
	"verif/internal/project"
)

// Outcome of one entry point on one input.
type Outcome struct {
	Accept  bool   `json:"accept"`
	HasTree bool   `json:"has_tree"` // the entry point returns trees at all
	Tree    string `json:"tree,omitempty"`
	Code    string `json:"code,omitempty"`
	Struct  bool   `json:"structured,omitempty"`
	Err     string `json:"err,omitempty"`
	Line    int    `json:"line,omitempty"`
	Col     int    `json:"col,omitempty"`
	Msg     string `json:"msg,omitempty"`
	Raw     error  `json:"-"` // the error value itself (what the caller holds)
}

// Refresh reads the held error value again.
func (o Outcome) Refresh() Outcome {
	if o.Raw == nil {
		return o
	}
	n := fromAnyErr(o.Raw)
	n.HasTree = o.HasTree
	return n
}

// fromAnyErr reads an error value the way the entry point that returned it does: a recovery error reports the
// structured cause's code and message at the ParseError's own location.
func fromAnyErr(err error) Outcome {
	o := fromErr(err)
	var pe *parser.ParseError
	if errors.As(err, &pe) && pe.Cause != nil {
		o = fromErr(pe.Cause)
		o.Line, o.Col = pe.Line, pe.Column
		o.Raw = err
	}
	return o
}

// Point is one entry point.
type Point struct {
	Name string
	Run  func(sql string) Outcome
}

func fromTree(tree *ast.AST, err error) Outcome {
	if err != nil {
		o := fromErr(err)
		o.HasTree = true
		if tree != nil {
			o.Tree = "tree-and-error"
		}
		return o
	}
	o := Outcome{Accept: true, HasTree: true}
	if tree != nil {
		o.Tree = project.String(tree.Statements)
		ast.ReleaseAST(tree)
	}
	return o
}

func fromErr(err error) Outcome {
	if err == nil {
		return Outcome{Accept: true}
	}
	e := ops.Err(err)
	return Outcome{Code: e.Code, Struct: e.Struct, Err: err.Error(), Line: e.Line, Col: e.Col, Msg: e.Msg, Raw: err}
}

func tokens(sql string) ([]models.TokenWithSpan, error) {
	t := tokenizer.GetTokenizer()
	defer tokenizer.PutTokenizer(t)
	return t.Tokenize([]byte(sql))
}

// All lists the entry points of property C07 in a fixed order.
var All = []Point{
	{"gosqlx.Parse", func(s string) Outcome { return fromTree(gosqlx.Parse(s)) }},
	{"gosqlx.ParseBytes", func(s string) Outcome { return fromTree(gosqlx.ParseBytes([]byte(s))) }},
	{"gosqlx.ParseWithContext", func(s string) Outcome { return fromTree(gosqlx.ParseWithContext(context.Background(), s)) }},
	{"gosqlx.ParseWithTimeout", func(s string) Outcome { return fromTree(gosqlx.ParseWithTimeout(s, time.Minute)) }},
	{"gosqlx.ParseMultiple", func(s string) Outcome {
		trees, err := gosqlx.ParseMultiple([]string{s})
		if err != nil {
			o := fromErr(err)
			o.HasTree = true
			return o
		}
		return fromTree(trees[0], nil)
	}},
	{"gosqlx.Validate", func(s string) Outcome { return fromErr(gosqlx.Validate(s)) }},
	{"gosqlx.ValidateMultiple", func(s string) Outcome { return fromErr(gosqlx.ValidateMultiple([]string{s})) }},
	{"gosqlx.ParseWithRecovery", func(s string) Outcome {
		stmts, errs := gosqlx.ParseWithRecovery(s)
		if len(errs) > 0 {
			o := fromAnyErr(errs[0])
			o.HasTree = true
			return o
		}
		return Outcome{Accept: true, HasTree: true, Tree: project.String(stmts)}
	}},
	{"parser.ParseBytes", func(s string) Outcome { return fromTree(parser.ParseBytes([]byte(s))) }},
	{"parser.Validate", func(s string) Outcome { return fromErr(parser.Validate(s)) }},
	{"parser.ParseBytesWithTokens", func(s string) Outcome {
		tree, _, err := parser.ParseBytesWithTokens([]byte(s))
		return fromTree(tree, err)
	}},
	{"parser.ParseWithDialect", func(s string) Outcome { return fromTree(parser.ParseWithDialect(s, keywords.DialectPostgreSQL)) }},
	{"Parser.Parse", func(s string) Outcome {
		toks, err := tokens(s)
		if err != nil {
			o := fromErr(err)
			o.HasTree = true
			return o
		}
		p := parser.NewParser()
		defer p.Release()
		return fromTree(p.ParseFromModelTokens(toks))
	}},
	{"Parser.ParseContext", func(s string) Outcome {
		toks, err := tokens(s)
		if err != nil {
			o := fromErr(err)
			o.HasTree = true
			return o
		}
		p := parser.NewParser()
		defer p.Release()
		return fromTree(p.ParseContextFromModelTokens(context.Background(), toks))
	}},
	{"Parser.ParseWithPositions", func(s string) Outcome {
		toks, err := tokens(s)
		if err != nil {
			o := fromErr(err)
			o.HasTree = true
			return o
		}
		p := parser.NewParser()
		defer p.Release()
		return fromTree(p.ParseFromModelTokensWithPositions(toks))
	}},
}

// Family classifies an error code: "tokenizer" (E1001-E1005, E1008), "limit" (E1006, E1007, E2007 and the
// nesting codes), "parser" (E2xxx), "other".
func Family(code string) string {
	switch code {
	case "E1006", "E1007":
		return "limit"
	case "E2007":
		return "limit"
	}
	switch {
	case strings.HasPrefix(code, "E1"):
		return "tokenizer"
	case strings.HasPrefix(code, "E2"):
		return "parser"
	case code == "":
		return "none"
	}
	return "other"
}
