// Package ops wraps the public operations of GoSQLX so that every driver sees
// the same canonical, comparable rendering of their results.
package ops

import (
	"errors"
	"fmt"
	"sort"
	"strings"

	gerrors "github.com/ajitpratap0/GoSQLX/pkg/errors"
	"github.com/ajitpratap0/GoSQLX/pkg/formatter"
	"github.com/ajitpratap0/GoSQLX/pkg/gosqlx"
	"github.com/ajitpratap0/GoSQLX/pkg/linter"
	"github.com/ajitpratap0/GoSQLX/pkg/linter/rules/keywords"
	"github.com/ajitpratap0/GoSQLX/pkg/linter/rules/style"
	"github.com/ajitpratap0/GoSQLX/pkg/linter/rules/whitespace"
	"github.com/ajitpratap0/GoSQLX/pkg/models"
	"github.com/ajitpratap0/GoSQLX/pkg/sql/ast"
	sqlkw "github.com/ajitpratap0/GoSQLX/pkg/sql/keywords"
	"github.com/ajitpratap0/GoSQLX/pkg/sql/parser"
	"github.com/ajitpratap0/GoSQLX/pkg/sql/security"
	"github.com/ajitpratap0/GoSQLX/pkg/sql/tokenizer"

	"verif/internal/project"
)

// ErrInfo is the structured view of an error.
type ErrInfo struct {
	Nil      bool   `json:"nil,omitempty"`
	Code     string `json:"code,omitempty"`
	Msg      string `json:"msg,omitempty"`
	Line     int    `json:"line,omitempty"`
	Col      int    `json:"col,omitempty"`
	Struct   bool   `json:"structured,omitempty"`
	FullText string `json:"text,omitempty"`
}

// Err extracts code/message/location through standard unwrapping.
func Err(err error) ErrInfo {
	if err == nil {
		return ErrInfo{Nil: true}
	}
	var e *gerrors.Error
	if errors.As(err, &e) && e != nil {
		return ErrInfo{Code: string(e.Code), Msg: e.Message, Line: e.Location.Line, Col: e.Location.Column, Struct: true, FullText: err.Error()}
	}
	return ErrInfo{FullText: err.Error()}
}

func (e ErrInfo) String() string {
	if e.Nil {
		return "ok"
	}
	if !e.Struct {
		return "unstructured:" + e.FullText
	}
	return fmt.Sprintf("%s@%d:%d:%s", e.Code, e.Line, e.Col, e.Msg)
}

// TokString renders a token list (type, value, span).
func TokString(toks []models.TokenWithSpan, withPos bool) string {
	var b strings.Builder
	for _, t := range toks {
		if withPos {
			fmt.Fprintf(&b, "%d:%q@%d:%d-%d:%d ", int(t.Token.Type), t.Token.Value, t.Start.Line, t.Start.Column, t.End.Line, t.End.Column)
		} else {
			fmt.Fprintf(&b, "%d:%q ", int(t.Token.Type), t.Token.Value)
		}
	}
	return b.String()
}

func CommentString(cs []models.Comment) string {
	var b strings.Builder
	for _, c := range cs {
		fmt.Fprintf(&b, "%d:%q@%d:%d-%d:%d/%v ", int(c.Style), c.Text, c.Start.Line, c.Start.Column, c.End.Line, c.End.Column, c.Inline)
	}
	return b.String()
}

// Tokenize runs a pooled tokenizer.
func Tokenize(sql string) string {
	tkz := tokenizer.GetTokenizer()
	defer tokenizer.PutTokenizer(tkz)
	toks, err := tkz.Tokenize([]byte(sql))
	if err != nil {
		return "err:" + Err(err).String()
	}
	return TokString(toks, true) + "|" + CommentString(tkz.Comments)
}

// Parse runs gosqlx.Parse and renders the tree.
func Parse(sql string) string {
	tree, err := gosqlx.Parse(sql)
	if err != nil {
		return "err:" + Err(err).String()
	}
	defer ast.ReleaseAST(tree)
	return project.String(tree.Statements)
}

func Validate(sql string) string { return Err(gosqlx.Validate(sql)).String() }

func Format(sql string) string {
	o := gosqlx.DefaultFormatOptions()
	o.UppercaseKeywords = true
	s, err := gosqlx.Format(sql, o)
	if err != nil {
		return "err:" + Err(err).String()
	}
	return s
}

func Extract(sql string) string {
	tree, err := gosqlx.Parse(sql)
	if err != nil {
		return "err:" + Err(err).String()
	}
	defer ast.ReleaseAST(tree)
	t := gosqlx.ExtractTables(tree)
	c := gosqlx.ExtractColumns(tree)
	f := gosqlx.ExtractFunctions(tree)
	sort.Strings(t)
	sort.Strings(c)
	sort.Strings(f)
	return fmt.Sprintf("T%v C%v F%v", t, c, f)
}

func Scan(sql string) string {
	r := security.NewScanner().ScanSQL(sql)
	var fs []string
	for _, f := range r.Findings {
		fs = append(fs, fmt.Sprintf("%s/%s", f.Pattern, f.Severity))
	}
	sort.Strings(fs)
	return fmt.Sprintf("%v %d/%d/%d/%d/%d", fs, r.TotalCount, r.CriticalCount, r.HighCount, r.MediumCount, r.LowCount)
}

// NewLinter builds a linter with the text-level rule set.
func NewLinter() *linter.Linter {
	return linter.New(
		whitespace.NewTrailingWhitespaceRule(),
		whitespace.NewMixedIndentationRule(),
		whitespace.NewConsecutiveBlankLinesRule(1),
		whitespace.NewLongLinesRule(100),
		whitespace.NewRedundantWhitespaceRule(),
		keywords.NewKeywordCaseRule(keywords.CaseUpper),
	)
}

// CLILinter mirrors the rule set of `gosqlx lint` (cmd/gosqlx/cmd/lint.go createLinter).
func CLILinter() *linter.Linter {
	return linter.New(
		whitespace.NewTrailingWhitespaceRule(),
		whitespace.NewMixedIndentationRule(),
		whitespace.NewConsecutiveBlankLinesRule(1),
		whitespace.NewIndentationDepthRule(4, 4),
		whitespace.NewLongLinesRule(100),
		whitespace.NewRedundantWhitespaceRule(),
		style.NewColumnAlignmentRule(),
		style.NewCommaPlacementRule(style.CommaTrailing),
		style.NewAliasingConsistencyRule(true),
		keywords.NewKeywordCaseRule(keywords.CaseUpper),
	)
}

// FixAll applies every auto-fix of the CLI rule set the way `gosqlx lint --auto-fix` does: lint once, hand the
// violations to each rule's Fix in turn.
func FixAll(sql string) (string, error) {
	l := CLILinter()
	vs := l.LintString(sql, "x.sql").Violations
	var first error
	for _, r := range l.Rules() {
		if !r.CanAutoFix() {
			continue
		}
		out, err := r.Fix(sql, vs)
		if err != nil {
			if first == nil {
				first = err
			}
			continue
		}
		sql = out
	}
	return sql, first
}

// LintCounts returns the number of error- and warning-level findings of the CLI rule set.
func LintCounts(sql string) (errs, warns int) {
	r := CLILinter().LintString(sql, "x.sql")
	for _, v := range r.Violations {
		switch v.Severity {
		case linter.SeverityError:
			errs++
		case linter.SeverityWarning:
			warns++
		}
	}
	return
}

func Lint(sql string) string {
	r := NewLinter().LintString(sql, "x.sql")
	var vs []string
	for _, v := range r.Violations {
		vs = append(vs, fmt.Sprintf("%s@%d:%d", v.Rule, v.Location.Line, v.Location.Column))
	}
	sort.Strings(vs)
	return fmt.Sprintf("%v err=%v", vs, r.Error != nil)
}

func Recovery(sql string) string {
	stmts, errs := gosqlx.ParseWithRecovery(sql)
	var es []string
	for _, e := range errs {
		es = append(es, Err(e).String())
	}
	return project.String(stmts) + "|" + strings.Join(es, ";")
}

// FormatPkg runs pkg/formatter (keeps comments).
func FormatPkg(sql string) string {
	s, err := formatter.New(formatter.Options{Uppercase: true}).Format(sql)
	if err != nil {
		return "err:" + Err(err).String()
	}
	return s
}

// ParserValidate / ParserParseBytes use the pooled-parser entry points of pkg/sql/parser.
func ParserValidate(sql string) string { return Err(parser.ValidateBytes([]byte(sql))).String() }

func ParserParseBytes(sql string) string {
	tree, err := parser.ParseBytes([]byte(sql))
	if err != nil {
		return "err:" + Err(err).String()
	}
	defer ast.ReleaseAST(tree)
	return project.String(tree.Statements)
}

// ParseMySQL parses with the MySQL dialect (a differently configured instance).
func ParseMySQL(sql string) string {
	tree, err := parser.ParseWithDialect(sql, sqlkw.DialectMySQL)
	if err != nil {
		return "err:" + Err(err).String()
	}
	defer ast.ReleaseAST(tree)
	return project.String(tree.Statements)
}

// ErrText renders the full text of the error (code, context, hint: exercises the suggestion cache).
func ErrText(sql string) string {
	_, err := gosqlx.Parse(sql)
	if err == nil {
		return "ok"
	}
	return err.Error()
}

// Kinds lists the operation kinds of property C10 in a fixed order.
var Kinds = []string{"tokenize", "parse", "validate", "format", "extract", "scan", "lint", "recovery",
	"formatpkg", "pvalidate", "pparsebytes", "parsemysql", "errtext"}

// Do dispatches by kind.
func Do(kind, sql string) string {
	switch kind {
	case "tokenize":
		return Tokenize(sql)
	case "parse":
		return Parse(sql)
	case "validate":
		return Validate(sql)
	case "format":
		return Format(sql)
	case "extract":
		return Extract(sql)
	case "scan":
		return Scan(sql)
	case "lint":
		return Lint(sql)
	case "recovery":
		return Recovery(sql)
	case "formatpkg":
		return FormatPkg(sql)
	case "pvalidate":
		return ParserValidate(sql)
	case "pparsebytes":
		return ParserParseBytes(sql)
	case "parsemysql":
		return ParseMySQL(sql)
	case "errtext":
		return ErrText(sql)
	}
	panic("unknown op " + kind)
}
