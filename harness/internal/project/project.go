// Package project turns real values (AST nodes, tokens, results) into a
// canonical tree of plain values with zero fields omitted, so that an
// implementation value can be compared with the abstract value a TLA+
// specification predicts, and two implementation values with each other.
package project

import (
	"encoding/json"
	"fmt"
	"reflect"
	"sort"
	"strings"
)

// Value dumps v: structs become map[string]any with key "T" = type name and one
// key per exported non-zero field; pointers and interfaces are followed; nil
// pointers, nil interfaces, empty slices, empty strings, false and 0 are omitted.
func Value(v any) any {
	return dump(reflect.ValueOf(v), 0)
}

// String is the canonical JSON rendering of Value(v) (map keys sorted).
func String(v any) string {
	b, err := json.Marshal(Value(v))
	if err != nil {
		return "!" + err.Error()
	}
	return string(b)
}

// Enums maps the name of an integer type to the names of its constants: values of such a type are rendered by
// constant name, so that a reference tree does not depend on the numbering (package astnames registers the
// enumerations of pkg/sql/ast).
var Enums = map[string]map[int64]string{}

const maxDepth = 4000

func dump(v reflect.Value, depth int) any {
	if depth > maxDepth {
		return "<too deep>"
	}
	if !v.IsValid() {
		return nil
	}
	switch v.Kind() {
	case reflect.Interface, reflect.Ptr:
		if v.IsNil() {
			return nil
		}
		return dump(v.Elem(), depth+1)
	case reflect.Struct:
		t := v.Type()
		m := map[string]any{"T": t.Name()}
		for i := 0; i < t.NumField(); i++ {
			f := t.Field(i)
			if !f.IsExported() {
				continue
			}
			fv := v.Field(i)
			if isEmpty(fv) {
				continue
			}
			d := dump(fv, depth+1)
			if d == nil {
				continue
			}
			m[f.Name] = d
		}
		return m
	case reflect.Slice, reflect.Array:
		if v.Kind() == reflect.Slice && v.Type().Elem().Kind() == reflect.Uint8 {
			return string(v.Bytes())
		}
		if v.Len() == 0 {
			return nil
		}
		out := make([]any, v.Len())
		for i := range out {
			out[i] = dump(v.Index(i), depth+1)
		}
		return out
	case reflect.Map:
		if v.Len() == 0 {
			return nil
		}
		keys := v.MapKeys()
		m := map[string]any{}
		for _, k := range keys {
			m[fmt.Sprint(k.Interface())] = dump(v.MapIndex(k), depth+1)
		}
		return m
	case reflect.String:
		return v.String()
	case reflect.Bool:
		return v.Bool()
	case reflect.Int, reflect.Int8, reflect.Int16, reflect.Int32, reflect.Int64:
		if names, ok := Enums[v.Type().Name()]; ok {
			if n, ok := names[v.Int()]; ok {
				return n
			}
		}
		return v.Int()
	case reflect.Uint, reflect.Uint8, reflect.Uint16, reflect.Uint32, reflect.Uint64:
		return v.Uint()
	case reflect.Float32, reflect.Float64:
		return v.Float()
	case reflect.Func, reflect.Chan, reflect.UnsafePointer:
		return nil
	}
	return fmt.Sprint(v.Interface())
}

func isEmpty(v reflect.Value) bool {
	switch v.Kind() {
	case reflect.Interface, reflect.Ptr:
		if v.IsNil() {
			return true
		}
		// typed nil inside an interface
		if v.Kind() == reflect.Interface {
			e := v.Elem()
			if e.Kind() == reflect.Ptr && e.IsNil() {
				return true
			}
		}
		return false
	case reflect.Slice, reflect.Map:
		return v.Len() == 0
	case reflect.Func, reflect.Chan:
		return true
	}
	return v.IsZero()
}

// Equal compares two projected values, returning a human readable path of the
// first difference ("" when equal).
func Equal(a, b any) string { return diff("", a, b) }

func diff(path string, a, b any) string {
	switch x := a.(type) {
	case map[string]any:
		y, ok := b.(map[string]any)
		if !ok {
			return fmt.Sprintf("%s: %s vs %s", path, short(a), short(b))
		}
		keys := map[string]bool{}
		for k := range x {
			keys[k] = true
		}
		for k := range y {
			keys[k] = true
		}
		ks := make([]string, 0, len(keys))
		for k := range keys {
			ks = append(ks, k)
		}
		sort.Strings(ks)
		for _, k := range ks {
			xv, xo := x[k]
			yv, yo := y[k]
			if !xo || !yo {
				return fmt.Sprintf("%s.%s: %s vs %s", path, k, short(xv), short(yv))
			}
			if d := diff(path+"."+k, xv, yv); d != "" {
				return d
			}
		}
		return ""
	case []any:
		y, ok := b.([]any)
		if !ok || len(x) != len(y) {
			return fmt.Sprintf("%s: %s vs %s", path, short(a), short(b))
		}
		for i := range x {
			if d := diff(fmt.Sprintf("%s[%d]", path, i), x[i], y[i]); d != "" {
				return d
			}
		}
		return ""
	}
	if !reflect.DeepEqual(norm(a), norm(b)) {
		return fmt.Sprintf("%s: %s vs %s", path, short(a), short(b))
	}
	return ""
}

func norm(a any) any {
	switch x := a.(type) {
	case int:
		return float64(x)
	case int64:
		return float64(x)
	case uint64:
		return float64(x)
	case float32:
		return float64(x)
	}
	return a
}

func short(a any) string {
	b, _ := json.Marshal(a)
	s := string(b)
	if len(s) > 160 {
		s = s[:160] + "…"
	}
	return s
}

// FoldCase lower-cases every string leaf whose key is in keys (used for "equal up
// to the letter case of keywords and operator words").
func FoldCase(v any, keys map[string]bool) any {
	switch x := v.(type) {
	case map[string]any:
		out := make(map[string]any, len(x))
		for k, e := range x {
			if s, ok := e.(string); ok && keys[k] {
				out[k] = strings.ToLower(s)
			} else {
				out[k] = FoldCase(e, keys)
			}
		}
		return out
	case []any:
		out := make([]any, len(x))
		for i, e := range x {
			out[i] = FoldCase(e, keys)
		}
		return out
	}
	return v
}
