// Package workload provides the concrete SQL inputs shared by the drivers: a
// fixed list covering the statement kinds of the documented surface, invalid
// and multi-statement inputs, plus the repository's own .sql corpus.
package workload

import (
	"os"
	"path/filepath"
	"sort"
	"strings"
)

// Valid are statements every entry point must accept.
var Valid = []string{
	"SELECT 1",
	"SELECT a, b FROM t WHERE a = 1 AND b <> 'x'",
	"SELECT * FROM users u JOIN orders o ON u.id = o.user_id WHERE o.total > 100 ORDER BY o.total DESC LIMIT 10",
	"SELECT dept, COUNT(*) AS n FROM emp GROUP BY dept HAVING COUNT(*) > 5",
	"WITH c AS (SELECT id FROM t) SELECT id FROM c",
	"SELECT a FROM t UNION SELECT b FROM u",
	"SELECT name, ROW_NUMBER() OVER (PARTITION BY dept ORDER BY salary DESC) FROM emp",
	"INSERT INTO t (a, b) VALUES (1, 'x'), (2, 'y')",
	"UPDATE t SET a = 1, b = 'z' WHERE id = 3",
	"DELETE FROM t WHERE id IN (1, 2, 3)",
	"CREATE TABLE t (id INT PRIMARY KEY, name VARCHAR(20) NOT NULL)",
	"SELECT CASE WHEN a > 1 THEN 'x' ELSE 'y' END FROM t",
	"SELECT a FROM t WHERE b BETWEEN 1 AND 10 OR c IS NULL",
	"SELECT a FROM (SELECT a FROM t) s",
	"SELECT x FROM t WHERE EXISTS (SELECT 1 FROM u WHERE u.id = t.id)",
	"SELECT a -- trailing comment\nFROM t /* block */ WHERE a = 1",
	"SELECT a FROM t; SELECT b FROM u",
	"SELECT COALESCE(a, 'n/a'), UPPER(b) FROM t WHERE c LIKE '%x%'",
	"SELECT * FROM users WHERE id = 1 OR 1 = 1",
	"SELECT * FROM t WHERE name = 'a' UNION SELECT NULL, NULL FROM information_schema.tables",
	"MERGE INTO tgt t USING src s ON t.id = s.id WHEN MATCHED THEN UPDATE SET v = s.v WHEN NOT MATCHED THEN INSERT (id, v) VALUES (s.id, s.v)",
	"select   a,b  from  t \n\n\n where  x=1   ",
}

// Invalid are inputs every parsing entry point must reject.
var Invalid = []string{
	"SELECT FROM",
	"SELECT a FROM t WHERE",
	"SELECT 'unterminated",
	"INSERT INTO",
	"SELECT a FROM t WHERE (a = 1",
	"SELECT a FROM t ORDER",
	"UPDATE SET a = 1",
	"SELECT a b c d FROM",
	"SELECT \"unterminated FROM t",
	"SELECT a FROM t; SELECT FROM",
	"SELECT ^ FROM t",
	"DELETE t WHERE",
}

// Corpus returns up to max .sql files of the repository (sorted by path).
func Corpus(repo string, max int) []string {
	var files []string
	_ = filepath.Walk(filepath.Join(repo, "testdata"), func(p string, info os.FileInfo, err error) error {
		if err == nil && !info.IsDir() && strings.HasSuffix(p, ".sql") && info.Size() < 64<<10 {
			files = append(files, p)
		}
		return nil
	})
	sort.Strings(files)
	var out []string
	for _, f := range files {
		if len(out) >= max {
			break
		}
		b, err := os.ReadFile(f)
		if err == nil && len(b) > 0 {
			out = append(out, string(b))
		}
	}
	return out
}
