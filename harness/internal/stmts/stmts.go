// Package stmts builds pools of concrete statements: well-formed ones and single-token corruptions of
// them, classified by strict parsing, for the drivers that concretise abstract statement sequences.
package stmts

import (
	"os"
	"sort"
	"strings"

	"github.com/ajitpratap0/GoSQLX/pkg/gosqlx"
	"github.com/ajitpratap0/GoSQLX/pkg/models"
	"github.com/ajitpratap0/GoSQLX/pkg/sql/ast"
	"github.com/ajitpratap0/GoSQLX/pkg/sql/tokenizer"

	"verif/internal/project"
)

// Base are single-line, single statements without a statement-starting keyword after their first token
// (the side condition of property C12: recovery synchronises on such keywords).
var Base = []string{
	"SELECT a, b FROM t WHERE a = 1 AND b <> 'x'",
	"SELECT * FROM users u JOIN orders o ON u.id = o.user_id ORDER BY o.total DESC LIMIT 10",
	"SELECT dept, COUNT(*) FROM emp GROUP BY dept HAVING COUNT(*) > 5",
	"INSERT INTO t (a, b) VALUES (1, 'x'), (2, 'y')",
	"DELETE FROM t WHERE id IN (1, 2, 3)",
	"SELECT CASE WHEN a > 1 THEN 'x' ELSE 'y' END FROM t",
	"SELECT a FROM t WHERE b BETWEEN 1 AND 10 OR c IS NULL",
	"DROP TABLE t",
	"CREATE TABLE t (id INT PRIMARY KEY, name VARCHAR(20) NOT NULL)",
	"TRUNCATE TABLE t",
	"SELECT f(a, b + 1) FROM t",
	"SELECT name, ROW_NUMBER() OVER (PARTITION BY dept ORDER BY salary DESC) FROM emp",
	"SELECT a FROM t LEFT JOIN u ON t.a = u.a WHERE u.b LIKE 'x%'",
	"SELECT DISTINCT a FROM t ORDER BY a",
	"SELECT 1",
	// the statements the recovery loop did not resynchronise on at the pinned commit
	"SHOW TABLES",
	"DESCRIBE t",
	"SHOW COLUMNS FROM t",
	"REPLACE INTO t (a) VALUES (1)",
	"EXPLAIN t",
}

var startKeywords = map[string]bool{"SELECT": true, "INSERT": true, "UPDATE": true, "DELETE": true, "CREATE": true, "ALTER": true,
	"DROP": true, "WITH": true, "MERGE": true, "REFRESH": true, "TRUNCATE": true, "GRANT": true, "REVOKE": true, "SET": true,
	"BEGIN": true, "COMMIT": true, "ROLLBACK": true, "SHOW": true, "DESCRIBE": true, "EXPLAIN": true, "REPLACE": true}

// Stmt is one concrete segment.
type Stmt struct {
	SQL    string
	Good   bool   // strict parsing of the segment alone succeeds
	Tree   string // projection of the single statement's tree when Good
	Origin string // base statement and corruption that produced it
	NTok   int
	// KwStart: the first token is a keyword the recovery loop resynchronises on
	KwStart bool
}

// Lexemes splits a single-line ASCII statement into its lexemes using the real tokenizer's spans.
func Lexemes(sql string) []string {
	t, err := tokenizer.New()
	if err != nil {
		return nil
	}
	toks, err := t.Tokenize([]byte(sql))
	if err != nil {
		return nil
	}
	var out []string
	for _, tk := range toks {
		if tk.Token.Type == models.TokenTypeEOF {
			continue
		}
		s, e := tk.Start.Column-1, tk.End.Column-1
		if tk.Start.Line != 1 || tk.End.Line != 1 || s < 0 || e > len(sql) || s >= e {
			return nil
		}
		out = append(out, sql[s:e])
	}
	return out
}

// IsStartKeyword: the word starts a statement (recovery resynchronises on it).
func IsStartKeyword(l string) bool { return startKeywords[strings.ToUpper(l)] }

func classify(sql, origin string) (Stmt, bool) {
	lex := Lexemes(sql)
	if len(lex) == 0 {
		return Stmt{}, false
	}
	for i, l := range lex {
		if i > 0 && startKeywords[strings.ToUpper(l)] {
			return Stmt{}, false // violates the side condition
		}
	}
	if lex[0] == ";" {
		return Stmt{}, false
	}
	st := Stmt{SQL: sql, Origin: origin, NTok: len(lex), KwStart: startKeywords[strings.ToUpper(lex[0])]}
	tree, err := gosqlx.Parse(sql)
	if err == nil && len(tree.Statements) == 1 {
		st.Good = true
		st.Tree = project.String(tree.Statements[0])
		ast.ReleaseAST(tree)
	} else if err == nil {
		ast.ReleaseAST(tree)
		return Stmt{}, false // parses as several statements: not a single segment
	}
	// A usable segment means the same thing whether or not a separator follows it: strict parsing of
	// "seg", "seg;" and "seg; SELECT 1" must agree on it. (Some dialect statements take the semicolon as
	// an operand - "SHOW;" - which is a grammar defect, not a property of the statement loop.)
	t2, err2 := gosqlx.Parse(sql + ";")
	t3, err3 := gosqlx.Parse(sql + ";\nSELECT 1")
	ok := (err2 == nil) == st.Good && (err3 == nil) == st.Good
	if ok && st.Good {
		ok = len(t2.Statements) == 1 && project.String(t2.Statements[0]) == st.Tree &&
			len(t3.Statements) == 2 && project.String(t3.Statements[0]) == st.Tree
	}
	if t2 != nil {
		ast.ReleaseAST(t2)
	}
	if t3 != nil {
		ast.ReleaseAST(t3)
	}
	if !ok {
		Excluded++
		return Stmt{}, false
	}
	return st, true
}

// extra returns the model statements a driver supplied through the file named by VERIF_EXTRA_STMTS (one per
// line; written by gram.ExportForms), restricted to those that satisfy Base's side condition: no
// statement-starting keyword after the first token.
func extra() []string {
	path := os.Getenv("VERIF_EXTRA_STMTS")
	if path == "" {
		return nil
	}
	b, err := os.ReadFile(path)
	if err != nil {
		return nil
	}
	var out []string
	for _, l := range strings.Split(string(b), "\n") {
		l = strings.TrimSpace(l)
		if l == "" {
			continue
		}
		ok := true
		for i, w := range strings.Fields(l) {
			if i > 0 && startKeywords[strings.ToUpper(strings.Trim(w, "(),;"))] {
				ok = false
			}
		}
		if ok {
			out = append(out, l)
		}
	}
	return out
}

// Excluded counts candidate segments dropped because their strict parse depends on the separator.
var Excluded int

// Pools returns the well-formed and the malformed segments (deterministic order).
func Pools() (good, bad []Stmt) {
	seen := map[string]bool{}
	add := func(sql, origin string) {
		if seen[sql] {
			return
		}
		seen[sql] = true
		if st, ok := classify(sql, origin); ok {
			if st.Good {
				good = append(good, st)
			} else {
				bad = append(bad, st)
			}
		}
	}
	// replacements: a token of another lexical class (a third of them per position, by rotation) ...
	poison := []string{"]", ")", "FROM", ",", "=", "'lit'", "42", "x", "NULL", "(", "2.5", "*"}
	// ... and, where an integer stands, the other forms a number token can take
	numberForms := []string{"2.5", "1e3", "99999999999999999999", "0x1F"}
	isInt := func(t string) bool {
		for _, c := range t {
			if c < '0' || c > '9' {
				return false
			}
		}
		return t != ""
	}
	for _, b := range append(append([]string{}, Base...), extra()...) {
		add(b, "base")
		lex := Lexemes(b)
		// corruptions of the first token: the statement no longer starts with a keyword
		if len(lex) > 1 {
			add(strings.Join(lex[1:], " "), "delete@0")
			add("x "+strings.Join(lex[1:], " "), "replace@0")
			add("42 "+strings.Join(lex[1:], " "), "replace@0")
		}
		for k := 1; k < len(lex); k++ {
			del := append(append([]string{}, lex[:k]...), lex[k+1:]...)
			add(strings.Join(del, " "), "delete@"+itoa(k))
			dup := append(append(append([]string{}, lex[:k+1]...), lex[k]), lex[k+1:]...)
			add(strings.Join(dup, " "), "duplicate@"+itoa(k))
			for pi, p := range poison {
				if (k+pi)%3 != 0 {
					continue
				}
				rep := append(append(append([]string{}, lex[:k]...), p), lex[k+1:]...)
				add(strings.Join(rep, " "), "replace@"+itoa(k))
			}
			if isInt(lex[k]) {
				for _, p := range numberForms {
					rep := append(append(append([]string{}, lex[:k]...), p), lex[k+1:]...)
					add(strings.Join(rep, " "), "number-form@"+itoa(k))
				}
			}
			add(strings.Join(lex[:k], " "), "truncate@"+itoa(k))
		}
	}
	sort.SliceStable(good, func(i, j int) bool { return good[i].SQL < good[j].SQL })
	sort.SliceStable(bad, func(i, j int) bool { return bad[i].SQL < bad[j].SQL })
	return
}

func itoa(i int) string {
	if i == 0 {
		return "0"
	}
	s := ""
	for i > 0 {
		s = string(rune('0'+i%10)) + s
		i /= 10
	}
	return s
}
