// Package lexconc concretises the character-class inputs of Lexer.tla into real text and converts the
// specification's index-based token stream into what the real tokenizer must return.
package lexconc

import (
	"strings"
	"unicode/utf8"

	"github.com/ajitpratap0/GoSQLX/pkg/models"
)

// spellings of each class; variant v picks spellings[v % len] for EVERY occurrence of the class.
var spellings = map[string][]string{
	"L": {"q", "z", "_", "x", "Q"}, "E": {"e", "E"}, "N": {"n", "r", "t"}, "U": {"é", "日", "ñ"}, "D": {"7", "0", "3"},
	"sp": {" "}, "tab": {"\t"}, "nl": {"\n"}, "cr": {"\r"},
	"sq": {"'"}, "dq": {"\""}, "bt": {"`"}, "bs": {"\\"}, "usq": {"‘", "’", "«", "»"}, "udq": {"“", "”"},
	// no token starts with these: punctuation outside the grammar, a byte that is not valid UTF-8, control characters
	"^": {"^", "\xff", "}", "\x01", "{", "\x00"},
}

// KeywordSpellings are used for the letter class in the keyword variants (v >= 100): a whole word per letter,
// among them every word that starts a compound keyword (the tokenizer looks ahead after those).
var KeywordSpellings = []string{"GROUP", "ORDER", "LEFT", "RIGHT", "INNER", "OUTER", "CROSS", "NATURAL", "FULL", "GROUPING",
	"select", "NOT", "Is", "NULLS", "WITH", "union", "INTERVAL", "CASE", "BETWEEN", "primary", "FOR"}

// Spell returns the concrete spelling of a class in a variant.
func Spell(class string, v int) string {
	if v >= 100 && class == "L" {
		return KeywordSpellings[(v-100)%len(KeywordSpellings)]
	}
	if l, ok := spellings[class]; ok {
		// vary classes independently
		h := v
		for _, c := range class {
			h = h*7 + int(c)
		}
		if h < 0 {
			h = -h
		}
		return l[(v+h%3)%len(l)]
	}
	return class // punctuation classes spell themselves
}

// Text is a concretised input.
type Text struct {
	S   string
	Off []int // byte offset of element i (0-based index i-1); Off[len] = len(S)
}

// Concretise spells the abstract input.
func Concretise(inp []string, v int) Text {
	var b strings.Builder
	off := make([]int, 0, len(inp)+1)
	for _, c := range inp {
		off = append(off, b.Len())
		b.WriteString(Spell(c, v))
	}
	off = append(off, b.Len())
	return Text{S: b.String(), Off: off}
}

// Loc converts a 1-based element index (len+1 = end of input) to line / column by the documented rule: lines
// are separated by \n, the column is 1 + the number of characters before it on its line. exact reports whether
// the property asserts the column (the line prefix is ASCII and tab-free).
func (t Text) Loc(idx int) (line, col int, exact bool) {
	o := t.Off[idx-1]
	line, col, exact = 1, 1, true
	for i := 0; i < o; {
		r, sz := utf8.DecodeRuneInString(t.S[i:])
		if r == '\n' {
			line++
			col = 1
			exact = true
		} else {
			col++
			if r >= 0x80 || r == '\t' {
				exact = false
			}
		}
		i += sz
	}
	return
}

// Item of a decoded value.
type Item struct {
	T string `json:"t"`
	I int    `json:"i"`
	S string `json:"s"`
}

func normalizeQuote(r rune) rune {
	switch r {
	case '‘', '’', '«', '»':
		return '\''
	case '“', '”':
		return '"'
	}
	return r
}

// Value builds the decoded value the tokenizer must report. quoted: characters are normalised
// (typographic quotes inside quoted text).
func (t Text) Value(items []Item, quoted bool) string {
	var b strings.Builder
	for _, it := range items {
		switch it.T {
		case "c":
			s := t.S[t.Off[it.I-1]:t.Off[it.I]]
			if quoted {
				for _, r := range s { // a class may be spelled by several characters (keyword variants)
					b.WriteRune(normalizeQuote(r))
				}
			} else {
				b.WriteString(s)
			}
		case "r":
			b.WriteString(t.S[t.Off[it.I-1]:t.Off[it.I]])
		case "e":
			switch s := t.S[t.Off[it.I-1]:t.Off[it.I]]; s {
			case "n":
				b.WriteByte('\n')
			case "r":
				b.WriteByte('\r')
			case "t":
				b.WriteByte('\t')
			default:
				b.WriteString(s)
			}
		case "s":
			b.WriteString(it.S)
		}
	}
	return b.String()
}

// OpType maps the text of an operator / punctuation token to its documented token type.
var OpType = map[string]models.TokenType{
	"(": models.TokenTypeLeftParen, ")": models.TokenTypeRightParen, "[": models.TokenTypeLBracket, "]": models.TokenTypeRBracket,
	",": models.TokenTypeComma, ";": models.TokenTypeSemicolon, ".": models.TokenTypeDot, "+": models.TokenTypePlus,
	"*": models.TokenTypeMul, "%": models.TokenTypeMod, "-": models.TokenTypeMinus, "->": models.TokenTypeArrow,
	"->>": models.TokenTypeLongArrow, "/": models.TokenTypeDiv, "=": models.TokenTypeEq, "=>": models.TokenTypeRArrow,
	"<": models.TokenTypeLt, "<=": models.TokenTypeLtEq, "<>": models.TokenTypeNeq, "<@": models.TokenTypeArrowAt,
	">": models.TokenTypeGt, ">=": models.TokenTypeGtEq, "!": models.TokenTypeExclamationMark, "!=": models.TokenTypeNeq,
	"!~": models.TokenTypeExclamationMarkTilde, "!~*": models.TokenTypeExclamationMarkTildeAsterisk,
	":": models.TokenTypeColon, "::": models.TokenTypeDoubleColon, "|": models.TokenTypePipe, "||": models.TokenTypeStringConcat,
	"&": models.TokenTypeAmpersand, "&&": models.TokenTypeOverlap, "@": models.TokenTypeAtSign, "@>": models.TokenTypeAtArrow,
	"@@": models.TokenTypeAtAt, "#": models.TokenTypeSharp, "#>": models.TokenTypeHashArrow, "#>>": models.TokenTypeHashLongArrow,
	"#-": models.TokenTypeHashMinus, "?": models.TokenTypeQuestion, "?|": models.TokenTypeQuestionPipe, "?&": models.TokenTypeQuestionAnd,
	"~": models.TokenTypeTilde, "~*": models.TokenTypeTildeAsterisk,
}
