// Package astnames registers the integer enumerations of pkg/sql/ast with package project, so that projected
// trees show constant names instead of numbers. Import it for its side effect.
package astnames

import (
	"github.com/ajitpratap0/GoSQLX/pkg/sql/ast"

	"verif/internal/project"
)

func init() {
	project.Enums["AlterTableOpType"] = map[int64]string{
		int64(ast.AddConstraint): "AddConstraint", int64(ast.AddColumn): "AddColumn", int64(ast.AddProjection): "AddProjection",
		int64(ast.AlterColumn): "AlterColumn", int64(ast.ChangeColumn): "ChangeColumn", int64(ast.ClearProjection): "ClearProjection",
		int64(ast.DropColumn): "DropColumn", int64(ast.DropConstraint): "DropConstraint", int64(ast.DropPartition): "DropPartition",
		int64(ast.DropProjection): "DropProjection", int64(ast.MaterializeProjection): "MaterializeProjection",
		int64(ast.ModifyColumn): "ModifyColumn", int64(ast.RenameColumn): "RenameColumn", int64(ast.RenameConstraint): "RenameConstraint",
		int64(ast.RenamePartitions): "RenamePartitions", int64(ast.RenameTable): "RenameTable",
	}
	project.Enums["UnaryOperator"] = map[int64]string{
		int64(ast.Plus): "Plus", int64(ast.Minus): "Minus", int64(ast.Not): "Not", int64(ast.PGBitwiseNot): "PGBitwiseNot",
		int64(ast.PGSquareRoot): "PGSquareRoot", int64(ast.PGCubeRoot): "PGCubeRoot", int64(ast.PGPostfixFactorial): "PGPostfixFactorial",
		int64(ast.PGPrefixFactorial): "PGPrefixFactorial", int64(ast.PGAbs): "PGAbs", int64(ast.BangNot): "BangNot",
	}
	project.Enums["AlterType"] = map[int64]string{
		int64(ast.AlterTypeTable): "AlterTypeTable", int64(ast.AlterTypeRole): "AlterTypeRole", int64(ast.AlterTypePolicy): "AlterTypePolicy",
		int64(ast.AlterTypeConnector): "AlterTypeConnector",
	}
}
