// Package gram holds what the Grammar.tla drivers share: reading the specification's cases (model trees with
// their renderings), the slot table, substitution of a tree into a slot, and comparison with real trees.
package gram

import (
	"encoding/json"
	"fmt"
	"sort"
	"strings"
	"time"

	_ "verif/internal/astnames" // enumerations by constant name in projected trees
	"verif/internal/core"
)

// Case is one tree printed by Grammar.tla with its renderings.
type Case struct {
	Tree  map[string]any `json:"tree"`
	Min   []string       `json:"min"`
	Full  []string       `json:"full"`
	Atoms []string       `json:"atoms"`
	One   [][]string     `json:"one"`
}

// Slot is a place in a statement where an expression can stand.
type Slot struct {
	Name string
	Pre  []string       `json:"pre"`
	Post []string       `json:"post"`
	Tree map[string]any `json:"tree"`
}

// Slots runs the slot specification and returns the table sorted by name.
func Slots(run *core.Run) []Slot {
	r := core.MustTLC(core.TLCOpts{Spec: "Grammar", Cfg: "Grammar_slots.cfg", Workers: 1, Timeout: 2 * time.Minute})
	if len(r.Cases) != 1 {
		core.Fatalf("Grammar_slots.cfg printed %d lines", len(r.Cases))
	}
	var t struct {
		Slots map[string]Slot `json:"slots"`
	}
	if err := json.Unmarshal([]byte(r.Cases[0]), &t); err != nil {
		core.Fatalf("slot table: %v", err)
	}
	var out []Slot
	for n, s := range t.Slots {
		s.Name = n
		out = append(out, s)
	}
	sort.Slice(out, func(i, j int) bool { return out[i].Name < out[j].Name })
	return out
}

// Subst returns the slot's statement tree with the marker identifier replaced by e.
func Subst(v any, e map[string]any) any {
	switch x := v.(type) {
	case map[string]any:
		if x["T"] == "Identifier" && x["Name"] == "<<E>>" {
			return e
		}
		out := make(map[string]any, len(x))
		for k, c := range x {
			out[k] = Subst(c, e)
		}
		return out
	case []any:
		out := make([]any, len(x))
		for i, c := range x {
			out[i] = Subst(c, e)
		}
		return out
	}
	return v
}

// Norm passes a value through JSON so that numbers and containers have uniform Go types.
func Norm(v any) any {
	b, err := json.Marshal(v)
	if err != nil {
		return nil
	}
	var out any
	_ = json.Unmarshal(b, &out)
	return out
}

// EmptyAsNil turns empty lists into nil (the model writes <<>> where the implementation has a nil slice inside
// a list, e.g. the empty set of GROUPING SETS).
func EmptyAsNil(v any) any {
	switch x := v.(type) {
	case map[string]any:
		for k, c := range x {
			x[k] = EmptyAsNil(c)
		}
		return x
	case []any:
		if len(x) == 0 {
			return nil
		}
		for i, c := range x {
			x[i] = EmptyAsNil(c)
		}
		return x
	}
	return v
}

// Layouts joins tokens in several ways that must not matter.
func Layouts(toks []string, which int) string {
	switch which % 4 {
	case 1:
		return strings.Join(toks, "\n")
	case 2:
		// keywords in lower case, double spaces
		out := make([]string, len(toks))
		for i, t := range toks {
			if isKeyword(t) {
				out[i] = strings.ToLower(t)
			} else {
				out[i] = t
			}
		}
		return strings.Join(out, "  ")
	case 3:
		// a comment between every two tokens
		return strings.Join(toks, " /* c */ ")
	}
	// tight: no blank next to punctuation where that is lexically safe
	var b strings.Builder
	for i, t := range toks {
		if i > 0 && !(t == ")" || t == "," || toks[i-1] == "(") {
			b.WriteByte(' ')
		}
		b.WriteString(t)
	}
	return b.String()
}

// keywords whose letter case the layouts may change (function and type names are identifiers: their written
// spelling is part of the tree)
var keywords = map[string]bool{}

func init() {
	for _, k := range strings.Fields(`SELECT DISTINCT FROM WHERE GROUP BY HAVING ORDER ASC DESC NULLS FIRST LAST LIMIT OFFSET AS ON JOIN INNER LEFT RIGHT
		FULL OUTER CROSS UNION ALL INTERSECT EXCEPT WITH RECURSIVE INSERT INTO VALUES UPDATE SET DELETE RETURNING AND OR NOT IS NULL IN BETWEEN
		LIKE CASE WHEN THEN ELSE END EXISTS FOR OVER PARTITION USING MERGE MATCHED
		ANY ILIKE ESCAPE ROWS RANGE PRECEDING FOLLOWING UNBOUNDED CURRENT ROW FILTER LATERAL NATURAL FETCH NEXT ONLY TIES
		NOWAIT CONFLICT DO NOTHING ROLLUP CUBE GROUPING SETS WINDOW TRUNCATE CREATE DROP ALTER TABLE VIEW INDEX ADD COLUMN
		PRIMARY KEY REFERENCES UNIQUE CHECK CONSTRAINT FOREIGN DEFAULT TEMPORARY CASCADE MATERIALIZED`) {
		keywords[k] = true
	}
}

func isKeyword(t string) bool {
	if keywords[t] {
		return true
	}
	// compound spellings such as "LEFT JOIN"
	ws := strings.Fields(t)
	if len(ws) < 2 {
		return false
	}
	for _, w := range ws {
		if !keywords[w] {
			return false
		}
	}
	return true
}

// Describe names the operator at the root of a model tree and of its non-atomic children (signature material).
func Describe(t map[string]any) string {
	root := opName(t)
	var parts []string
	for _, k := range []string{"Left", "Right", "Expr", "Lower", "Upper"} {
		if c, ok := t[k].(map[string]any); ok {
			if n := opName(c); n != "" {
				parts = append(parts, k+":"+n)
			}
		}
	}
	return root + "(" + strings.Join(parts, ",") + ")"
}

func opName(t map[string]any) string {
	switch t["T"] {
	case "BinaryExpression":
		op := fmt.Sprint(t["Operator"])
		if t["Not"] == true {
			return "NOT " + op
		}
		return op
	case "UnaryExpression":
		if o := strings.ToUpper(fmt.Sprint(t["Operator"])); o == "NOT" || o == "2" {
			return "NOT"
		}
		return "NEG"
	case "BetweenExpression":
		return "BETWEEN"
	case "InExpression":
		return "IN"
	case "CastExpression":
		return "::"
	case "FunctionCall":
		return "f()"
	case "CaseExpression":
		return "CASE"
	}
	return ""
}

// fields whose string value is a keyword or keyword phrase
var keywordField = map[string]bool{"Operator": true, "LockType": true, "FetchType": true, "ObjectType": true, "CascadeType": true, "ShowType": true,
	"WithOption": true, "ActionType": true, "OnDelete": true, "OnUpdate": true, "Direction": true}

// node types whose Type field is a keyword or keyword phrase
var keywordTypeOf = map[string]bool{"CastExpression": true, "JoinClause": true, "WindowFrame": true, "WindowFrameBound": true, "ColumnDef": true,
	"ColumnConstraint": true, "TableConstraint": true, "PartitionBy": true, "MergeWhenClause": true}

// FoldWords upper-cases the string values of the fields that hold operator words and type names, which the
// properties compare "up to the letter case of keywords and operator words".
func FoldWords(v any) any {
	switch x := v.(type) {
	case map[string]any:
		out := make(map[string]any, len(x))
		for k, c := range x {
			if s, ok := c.(string); ok && (keywordField[k] || (k == "Type" && keywordTypeOf[fmt.Sprint(x["T"])]) ||
				// a keyword phrase kept as text (the mode words of MATCH ... AGAINST), TRUE / FALSE
				(k == "Value" && x["T"] == "LiteralValue" && (x["Type"] == "STRING" || x["Type"] == "bool"))) {
				out[k] = strings.ToUpper(s)
			} else {
				out[k] = FoldWords(c)
			}
		}
		return out
	case []any:
		out := make([]any, len(x))
		for i, c := range x {
			out[i] = FoldWords(c)
		}
		return out
	}
	return v
}
