package gram

import (
	"encoding/json"
	"fmt"
	"os"
	"time"

	"verif/internal/core"
	"verif/internal/workload"
)

// Input is one accepted statement text with a short description of where it comes from.
type Input struct {
	Text string
	Desc string
}

// Inputs returns the statements the specifications generate - every expression tree of Grammar.tla with one and
// two operator nodes placed in the slots (each tree in the select-item slot and one further slot by rotation),
// every statement form of Select.tla (every fifth clause combination in the quick tier) - followed by the
// repository's .sql corpus and the workload list. The TLC runs are recorded in the run's evidence.
func Inputs(run *core.Run, tier string) []Input {
	slots := Slots(run)
	var inputs []Input
	for ci, cfg := range []string{"Grammar_1.cfg", "Grammar_2.cfg"} {
		r := core.MustTLC(core.TLCOpts{Spec: "Grammar", Cfg: cfg, Timeout: 30 * time.Minute})
		run.AddTLC(r.Stat(fmt.Sprintf("expression trees with %d operator node(s) (source of statements)", ci+1)))
		for li, line := range r.Cases {
			var c Case
			if err := json.Unmarshal([]byte(line), &c); err != nil {
				core.Fatalf("bad case: %v", err)
			}
			for si, sl := range slots {
				if sl.Name != "select-item" && !(ci == 0 || si == li%len(slots)) {
					continue
				}
				toks := append(append(append([]string{}, sl.Pre...), c.Min...), sl.Post...)
				inputs = append(inputs, Input{Text: Layouts(toks, 0), Desc: "expr:" + sl.Name + ":" + Describe(c.Tree)})
			}
		}
	}
	sr := core.MustTLC(core.TLCOpts{Spec: "Select", Cfg: "Select.cfg", Timeout: 10 * time.Minute})
	run.AddTLC(sr.Stat("statement forms: clause combinations, ORDER BY lists, tails, set operations, CTEs, sub-queries, DML (source of statements)"))
	for i, line := range sr.Cases {
		var c struct {
			Name string   `json:"name"`
			Toks []string `json:"toks"`
		}
		_ = json.Unmarshal([]byte(line), &c)
		if tier != "thorough" && c.Name == "select" && i%5 != 0 {
			continue
		}
		inputs = append(inputs, Input{Text: Layouts(c.Toks, 0), Desc: "stmt:" + c.Name})
	}
	for _, s := range workload.Corpus(core.RepoDir, 400) {
		inputs = append(inputs, Input{Text: s, Desc: "corpus"})
	}
	for _, s := range workload.Valid {
		inputs = append(inputs, Input{Text: s, Desc: "workload"})
	}
	return inputs
}

// ExportForms writes a sample of Select.tla's statement forms (every named form once, every 97th clause
// combination, every 41st ORDER BY list / tail / window form) to a temporary file and points VERIF_EXTRA_STMTS
// at it, so that the statement pools of package stmts (in this process and in child processes) include model
// statements. It returns the number of statements written.
func ExportForms(run *core.Run) int {
	out := FormTexts(run)
	f, err := os.CreateTemp("", "verif-forms-*.txt")
	if err != nil {
		core.Fatalf("%v", err)
	}
	for _, s := range out {
		fmt.Fprintln(f, s)
	}
	f.Close()
	os.Setenv("VERIF_EXTRA_STMTS", f.Name())
	core.RemoveAtExit(f.Name())
	return len(out)
}

// FormTexts returns the sample of Select.tla's statement forms described at ExportForms.
func FormTexts(run *core.Run) []string {
	sr := core.MustTLC(core.TLCOpts{Spec: "Select", Cfg: "Select.cfg", Timeout: 10 * time.Minute})
	run.AddTLC(sr.Stat("statement forms (source of base statements for the pools)"))
	seen := map[string]int{}
	var out []string
	for _, line := range sr.Cases {
		var c struct {
			Name string   `json:"name"`
			Toks []string `json:"toks"`
		}
		_ = json.Unmarshal([]byte(line), &c)
		seen[c.Name]++
		n := seen[c.Name]
		switch {
		case c.Name == "select":
			if n%97 != 1 {
				continue
			}
		case len(c.Name) > 5 && (c.Name[:5] == "order" || c.Name == "tail" || c.Name == "window-spec"):
			if n%41 != 1 {
				continue
			}
		default:
			if n > 1 {
				continue
			}
		}
		out = append(out, Layouts(c.Toks, 0))
	}
	return out
}
