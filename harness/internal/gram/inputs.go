package gram

import (
	"encoding/json"
	"fmt"
	"time"

	"verif/internal/core"
	"verif/internal/workload"
)

// Input is one accepted statement text with a short description of where it comes from.
type Input struct {
	Text string
	Desc string
}

// Inputs returns the statements the specifications generate - every expression tree of Grammar.tla with one and
// two operator nodes placed in the slots (each tree in the select-item slot and one further slot by rotation),
// every statement form of Select.tla (every fifth clause combination in the quick tier) - followed by the
// repository's .sql corpus and the workload list. The TLC runs are recorded in the run's evidence.
func Inputs(run *core.Run, tier string) []Input {
	slots := Slots(run)
	var inputs []Input
	for ci, cfg := range []string{"Grammar_1.cfg", "Grammar_2.cfg"} {
		r := core.MustTLC(core.TLCOpts{Spec: "Grammar", Cfg: cfg, Timeout: 30 * time.Minute})
		run.AddTLC(r.Stat(fmt.Sprintf("expression trees with %d operator node(s) (source of statements)", ci+1)))
		for li, line := range r.Cases {
			var c Case
			if err := json.Unmarshal([]byte(line), &c); err != nil {
				core.Fatalf("bad case: %v", err)
			}
			for si, sl := range slots {
				if sl.Name != "select-item" && !(ci == 0 || si == li%len(slots)) {
					continue
				}
				toks := append(append(append([]string{}, sl.Pre...), c.Min...), sl.Post...)
				inputs = append(inputs, Input{Text: Layouts(toks, 0), Desc: "expr:" + sl.Name + ":" + Describe(c.Tree)})
			}
		}
	}
	sr := core.MustTLC(core.TLCOpts{Spec: "Select", Cfg: "Select.cfg", Timeout: 10 * time.Minute})
	run.AddTLC(sr.Stat("statement forms: clause combinations, ORDER BY lists, tails, set operations, CTEs, sub-queries, DML (source of statements)"))
	for i, line := range sr.Cases {
		var c struct {
			Name string   `json:"name"`
			Toks []string `json:"toks"`
		}
		_ = json.Unmarshal([]byte(line), &c)
		if tier != "thorough" && c.Name == "select" && i%5 != 0 {
			continue
		}
		inputs = append(inputs, Input{Text: Layouts(c.Toks, 0), Desc: "stmt:" + c.Name})
	}
	for _, s := range workload.Corpus(core.RepoDir, 400) {
		inputs = append(inputs, Input{Text: s, Desc: "corpus"})
	}
	for _, s := range workload.Valid {
		inputs = append(inputs, Input{Text: s, Desc: "workload"})
	}
	return inputs
}
