// Package core holds the machinery shared by every property check: running
// TLC in a private scratch directory, collecting its statistics and the JSON
// cases a specification prints, writing evidence files, matching known
// findings and reporting verdicts.
package core

import (
	"bufio"
	"bytes"
	"encoding/json"
	"fmt"
	"os"
	"os/exec"
	"path/filepath"
	"regexp"
	"runtime"
	"sort"
	"strconv"
	"strings"
	"time"
)

// VerifDir is the root of the verification tree (directory that holds spec/).
var VerifDir = func() string {
	if d := os.Getenv("VERIF_DIR"); d != "" {
		return d
	}
	return "/verif"
}()

// RepoDir is the GoSQLX working tree under verification.
var RepoDir = func() string {
	if d := os.Getenv("VERIF_REPO"); d != "" {
		return d
	}
	return "/repo"
}()

// TLCOpts describes one TLC run.
type TLCOpts struct {
	Spec      string            // module name, e.g. "Metrics" (spec/Metrics.tla)
	Cfg       string            // config file name inside spec/, e.g. "Metrics_mc.cfg"
	Workers   int               // 0 = all cores
	Timeout   time.Duration     // 0 = 10 minutes
	Simulate  string            // e.g. "num=1000" -> -simulate num=1000
	Depth     int               // -depth for simulation
	Seed      int64             // -seed
	Extra     []string          // extra arguments
	ExtraFile map[string][]byte // files to drop next to the spec (generated constants, traces)
	Deadlock  bool              // true = keep deadlock checking on
	Coverage  bool              // -coverage 1
	DumpDot   bool              // -dump dot,actionlabels graph
	DFS       bool              // depth-first queue (trace validation)
	KeepOut   bool              // keep complete stdout in Result.Output
}

// TLCResult is what a TLC run produced.
type TLCResult struct {
	Spec, Cfg   string
	Generated   int64 // states generated (== transitions examined + initial states)
	Distinct    int64
	Depth       int
	WallS       float64
	ExitCode    int
	OK          bool     // finished with "No error has been found"
	Violation   string   // name of violated invariant / property, if any
	ErrorText   string   // first TLC error block
	Cases       []string // JSON lines printed by the spec with PrintT(ToJson(..)) (sorted)
	Output      string
	Dot         string         // graph dump when requested
	ActionCount map[string]int // per-action distinct-state counts when Coverage
	TimedOut    bool
	Cmd         string
}

var (
	reStates  = regexp.MustCompile(`(\d+) states generated, (\d+) distinct states found`)
	reDepth   = regexp.MustCompile(`The depth of the complete state graph search is (\d+)`)
	reInv     = regexp.MustCompile(`Invariant (\S+) is violated`)
	reProp    = regexp.MustCompile(`(?:Temporal properties were violated|Action property (\S+) is violated|property (\S+) (?:is|was) violated)`)
	reCov     = regexp.MustCompile(`^<(\w+) line \d+, col \d+ to line \d+, col \d+ of module (\w+)>: (\d+):(\d+)`)
	rePostCnd = regexp.MustCompile(`(?i)postcondition .*(violated|false)`)
)

// SpecDir returns the directory holding the hand written specifications.
func SpecDir() string { return filepath.Join(VerifDir, "spec") }

// RunTLC runs TLC on a copy of the spec directory in a scratch directory that
// is removed afterwards.
func RunTLC(o TLCOpts) (*TLCResult, error) {
	scratch, err := os.MkdirTemp("", "verif-tlc-")
	if err != nil {
		return nil, err
	}
	defer os.RemoveAll(scratch)
	ents, err := os.ReadDir(SpecDir())
	if err != nil {
		return nil, err
	}
	for _, e := range ents {
		if e.IsDir() {
			continue
		}
		n := e.Name()
		if strings.HasSuffix(n, ".tla") || n == o.Cfg {
			b, err := os.ReadFile(filepath.Join(SpecDir(), n))
			if err != nil {
				return nil, err
			}
			if err := os.WriteFile(filepath.Join(scratch, n), b, 0o644); err != nil {
				return nil, err
			}
		}
	}
	// generated constant modules (extracted from the working tree by the driver's gen step)
	if gens, err := os.ReadDir(filepath.Join(SpecDir(), "gen")); err == nil {
		for _, e := range gens {
			if strings.HasSuffix(e.Name(), ".tla") {
				if b, err := os.ReadFile(filepath.Join(SpecDir(), "gen", e.Name())); err == nil {
					_ = os.WriteFile(filepath.Join(scratch, e.Name()), b, 0o644)
				}
			}
		}
	}
	for n, b := range o.ExtraFile {
		if err := os.WriteFile(filepath.Join(scratch, n), b, 0o644); err != nil {
			return nil, err
		}
	}
	if o.Workers == 0 {
		o.Workers = runtime.NumCPU()
	}
	if o.Timeout == 0 {
		o.Timeout = 10 * time.Minute
	}
	// TLC makes a tlc-<n> directory under java.io.tmpdir on every run and leaves it behind
	jtmp := filepath.Join(scratch, "jtmp")
	_ = os.MkdirAll(jtmp, 0o755)
	args := []string{"-XX:+UseParallelGC", "-Xss64m", "-Djava.io.tmpdir=" + jtmp}
	if o.DFS {
		args = append(args, "-Dtlc2.tool.queue.IStateQueue=StateDeque")
	}
	args = append(args, "-cp", "/opt/veriftools/tla/tla2tools.jar:/opt/veriftools/tla/CommunityModules-deps.jar",
		"tlc2.TLC", "-metadir", filepath.Join(scratch, "meta"), "-workers", strconv.Itoa(o.Workers), "-config", o.Cfg,
		"-maxSetSize", "40000000")
	if !o.Deadlock {
		args = append(args, "-deadlock")
	}
	if o.Coverage {
		args = append(args, "-coverage", "1")
	}
	if o.Simulate != "" {
		args = append(args, "-simulate", o.Simulate)
		if o.Depth > 0 {
			args = append(args, "-depth", strconv.Itoa(o.Depth))
		}
	}
	if o.Seed != 0 {
		args = append(args, "-seed", strconv.FormatInt(o.Seed, 10))
	}
	if o.DumpDot {
		args = append(args, "-dump", "dot,actionlabels", filepath.Join(scratch, "graph"))
	}
	args = append(args, o.Extra...)
	args = append(args, o.Spec)
	cmd := exec.Command("java", args...)
	cmd.Dir = scratch
	var out bytes.Buffer
	cmd.Stdout = &out
	cmd.Stderr = &out
	start := time.Now()
	if err := cmd.Start(); err != nil {
		return nil, err
	}
	done := make(chan error, 1)
	go func() { done <- cmd.Wait() }()
	res := &TLCResult{Spec: o.Spec, Cfg: o.Cfg, Cmd: "java " + strings.Join(args, " ")}
	select {
	case err = <-done:
	case <-time.After(o.Timeout):
		_ = cmd.Process.Kill()
		<-done
		res.TimedOut = true
	}
	res.WallS = time.Since(start).Seconds()
	if cmd.ProcessState != nil {
		res.ExitCode = cmd.ProcessState.ExitCode()
	}
	text := out.String()
	if o.KeepOut {
		res.Output = text
	}
	sc := bufio.NewScanner(strings.NewReader(text))
	sc.Buffer(make([]byte, 1<<20), 64<<20)
	var errBlock []string
	inErr := false
	for sc.Scan() {
		line := sc.Text()
		if m := reStates.FindStringSubmatch(line); m != nil {
			res.Generated, _ = strconv.ParseInt(m[1], 10, 64)
			res.Distinct, _ = strconv.ParseInt(m[2], 10, 64)
		}
		if m := reDepth.FindStringSubmatch(line); m != nil {
			res.Depth, _ = strconv.Atoi(m[1])
		}
		if m := reInv.FindStringSubmatch(line); m != nil && res.Violation == "" {
			res.Violation = m[1]
		}
		if m := reProp.FindStringSubmatch(line); m != nil && res.Violation == "" {
			res.Violation = "temporal"
			for _, g := range m[1:] {
				if g != "" {
					res.Violation = g
				}
			}
		}
		if rePostCnd.MatchString(line) && res.Violation == "" {
			res.Violation = "POSTCONDITION"
		}
		if strings.Contains(line, "Model checking completed. No error has been found") ||
			strings.Contains(line, "Finished computing initial states") && false {
			res.OK = true
		}
		if strings.HasPrefix(line, "Error:") {
			inErr = true
		}
		if inErr && len(errBlock) < 40 {
			errBlock = append(errBlock, line)
		}
		if o.Coverage {
			if m := reCov.FindStringSubmatch(line); m != nil {
				if res.ActionCount == nil {
					res.ActionCount = map[string]int{}
				}
				n, _ := strconv.Atoi(m[4])
				res.ActionCount[m[1]] += n
			}
		}
		// JSON case lines: TLC prints the PrintT argument as a TLA+ string: "...." with
		// embedded quotes escaped.
		if strings.HasPrefix(line, "\"{") || strings.HasPrefix(line, "\"[") {
			var s string
			if json.Unmarshal([]byte(line), &s) == nil {
				res.Cases = append(res.Cases, s)
			}
		} else if strings.HasPrefix(line, "{\"") || strings.HasPrefix(line, "[{") || strings.HasPrefix(line, "[[") || strings.HasPrefix(line, "[\"") {
			res.Cases = append(res.Cases, line)
		}
	}
	if o.Simulate != "" && res.Violation == "" && len(errBlock) == 0 && !res.TimedOut && res.ExitCode == 0 {
		res.OK = true
	}
	sort.Strings(res.Cases)
	res.ErrorText = strings.Join(errBlock, "\n")
	if o.DumpDot {
		if b, err := os.ReadFile(filepath.Join(scratch, "graph.dot")); err == nil {
			res.Dot = string(b)
		}
	}
	if !res.OK && res.Violation == "" && !res.TimedOut && !o.KeepOut {
		// keep the tail for diagnosis
		if len(text) > 6000 {
			text = text[len(text)-6000:]
		}
		res.Output = text
	}
	return res, nil
}

// MustTLC runs TLC and turns every outcome other than success into a machinery
// failure (exit 2) unless allowViolation names the invariant that may fail.
func MustTLC(o TLCOpts) *TLCResult {
	r, err := RunTLC(o)
	if err != nil {
		Fatalf("tlc %s/%s: %v", o.Spec, o.Cfg, err)
	}
	if r.TimedOut {
		Fatalf("tlc %s/%s timed out after %.0fs", o.Spec, o.Cfg, r.WallS)
	}
	if !r.OK {
		Fatalf("tlc %s/%s did not succeed (exit %d, violation %q):\n%s\n%s", o.Spec, o.Cfg, r.ExitCode, r.Violation, r.ErrorText, r.Output)
	}
	return r
}

// TLCStat is the summary of a TLC run recorded in evidence files.
type TLCStat struct {
	Spec        string  `json:"spec"`
	Cfg         string  `json:"cfg"`
	Generated   int64   `json:"states_generated"`
	Distinct    int64   `json:"distinct_states"`
	Depth       int     `json:"depth,omitempty"`
	WallS       float64 `json:"wall_s"`
	Cases       int     `json:"cases_exported,omitempty"`
	Mode        string  `json:"mode,omitempty"`
	ExpectViol  string  `json:"expected_violation,omitempty"`
	Description string  `json:"what,omitempty"`
}

func (r *TLCResult) Stat(what string) TLCStat {
	return TLCStat{Spec: r.Spec, Cfg: r.Cfg, Generated: r.Generated, Distinct: r.Distinct, Depth: r.Depth,
		WallS: round2(r.WallS), Cases: len(r.Cases), Description: what}
}

func round2(f float64) float64 { return float64(int64(f*100+0.5)) / 100 }

// Fatalf reports a failure of the machinery itself (never a verdict about the
// code under verification) and exits with status 2.
func Fatalf(format string, a ...any) {
	fmt.Fprintf(os.Stderr, "MACHINERY-ERROR: "+format+"\n", a...)
	Cleanup()
	os.Exit(2)
}

var atExit []string

// RemoveAtExit registers a scratch file that Finish and Fatalf delete before the process exits.
func RemoveAtExit(path string) { atExit = append(atExit, path) }

// Cleanup deletes the registered scratch files.
func Cleanup() {
	for _, p := range atExit {
		os.RemoveAll(p)
	}
	atExit = nil
}
