package core

import (
	"bufio"
	"bytes"
	"crypto/sha1"
	"encoding/hex"
	"encoding/json"
	"fmt"
	"os"
	"os/exec"
	"path/filepath"
	"sort"
	"strconv"
	"strings"
	"sync"
	"time"
)

// Finding is one line of KNOWN_FINDINGS.txt.
type Finding struct {
	Kind     string // "finding" or "fixed"
	Property string
	Sig      string
	Text     string
}

// LoadFindings parses /verif/KNOWN_FINDINGS.txt. Lines:
//
//	finding: property=C06 sig=<signature without spaces> :: free text
//	fixed: property=C04 <commit> free text
func LoadFindings() []Finding {
	f, err := os.Open(filepath.Join(VerifDir, "KNOWN_FINDINGS.txt"))
	if err != nil {
		return nil
	}
	defer f.Close()
	var out []Finding
	sc := bufio.NewScanner(f)
	sc.Buffer(make([]byte, 1<<20), 1<<24)
	for sc.Scan() {
		line := strings.TrimSpace(sc.Text())
		if line == "" || strings.HasPrefix(line, "#") {
			continue
		}
		var fd Finding
		switch {
		case strings.HasPrefix(line, "finding:"):
			fd.Kind = "finding"
			line = strings.TrimSpace(strings.TrimPrefix(line, "finding:"))
		case strings.HasPrefix(line, "fixed:"):
			fd.Kind = "fixed"
			line = strings.TrimSpace(strings.TrimPrefix(line, "fixed:"))
		default:
			continue
		}
		head, text, _ := strings.Cut(line, "::")
		fd.Text = strings.TrimSpace(text)
		for _, w := range strings.Fields(head) {
			if v, ok := strings.CutPrefix(w, "property="); ok {
				fd.Property = v
			} else if v, ok := strings.CutPrefix(w, "sig="); ok {
				fd.Sig = v
			}
		}
		if fd.Kind == "fixed" && fd.Text == "" {
			fd.Text = strings.TrimSpace(head)
		}
		out = append(out, fd)
	}
	return out
}

// Violation is one reproduced failure of a property on the real code.
type Violation struct {
	Sig     string `json:"signature"`
	Clause  string `json:"clause"`
	Case    any    `json:"case"`
	Observe any    `json:"observed,omitempty"`
	Expect  any    `json:"expected,omitempty"`
}

// Run accumulates what one check execution covered and decides the exit status.
type Run struct {
	Prop  string
	Tier  string
	Seed  int64
	Level string

	mu          sync.Mutex
	start       time.Time
	tlc         []TLCStat
	evals       int64
	nontrivial  map[string]struct{}
	samples     []any
	traces      int64
	newViol     []Violation
	newSigs     map[string]int
	knownHit    map[string]int
	known       map[string]Finding
	Rule        string
	Explanation string
	Assumptions []string
	CheckerCmd  string
	Exhaustive  bool
	Extra       map[string]any
}

func envInt(name string, def int64) int64 {
	if v := os.Getenv(name); v != "" {
		if n, err := strconv.ParseInt(v, 10, 64); err == nil {
			return n
		}
	}
	return def
}

// NewRun starts a check run for a property.
func NewRun(prop, tier, level string) *Run {
	r := &Run{Prop: prop, Tier: tier, Level: level, Seed: envInt("VERIF_SEED", 1), start: time.Now(),
		nontrivial: map[string]struct{}{}, newSigs: map[string]int{}, knownHit: map[string]int{},
		known: map[string]Finding{}, Extra: map[string]any{}}
	for _, f := range LoadFindings() {
		if f.Kind == "finding" && f.Property == prop {
			r.known[f.Sig] = f
		}
	}
	return r
}

func (r *Run) AddTLC(s TLCStat) { r.mu.Lock(); r.tlc = append(r.tlc, s); r.mu.Unlock() }

// Eval counts executed cases; key != "" registers a distinct non-trivial case.
func (r *Run) Eval(n int64) { r.mu.Lock(); r.evals += n; r.mu.Unlock() }

func (r *Run) Nontrivial(key string) {
	r.mu.Lock()
	if len(r.nontrivial) < 5_000_000 {
		h := sha1.Sum([]byte(key))
		r.nontrivial[hex.EncodeToString(h[:8])] = struct{}{}
	}
	r.mu.Unlock()
}

func (r *Run) Sample(s any) {
	r.mu.Lock()
	if len(r.samples) < 6 {
		r.samples = append(r.samples, s)
	}
	r.mu.Unlock()
}

func (r *Run) Traces(n int64) { r.mu.Lock(); r.traces += n; r.mu.Unlock() }

// Violate records a failure reproduced on the real code. It is attributed to a
// known finding only when its signature is listed for this property.
func (r *Run) Violate(v Violation) {
	r.mu.Lock()
	defer r.mu.Unlock()
	if _, ok := r.known[v.Sig]; ok {
		r.knownHit[v.Sig]++
		return
	}
	r.newSigs[v.Sig]++
	if r.newSigs[v.Sig] <= 2 && len(r.newViol) < 400 {
		r.newViol = append(r.newViol, v)
	}
}

// IsKnown reports whether a signature is listed as a known finding of this property.
func (r *Run) IsKnown(sig string) bool {
	r.mu.Lock()
	defer r.mu.Unlock()
	_, ok := r.known[sig]
	return ok
}

// NumNew returns the number of unlisted violations so far.
func (r *Run) NumNew() int {
	r.mu.Lock()
	defer r.mu.Unlock()
	n := 0
	for _, c := range r.newSigs {
		n += c
	}
	return n
}

// Finish writes the evidence file, prints verdict lines and exits.
func (r *Run) Finish() {
	r.mu.Lock()
	defer r.mu.Unlock()
	var states, trans int64
	for _, s := range r.tlc {
		states += s.Distinct
		trans += s.Generated
	}
	cov := map[string]any{
		"evaluations":                   r.evals,
		"distinct_nontrivial":           len(r.nontrivial),
		"rule":                          r.Rule,
		"samples":                       r.samples,
		"states":                        states,
		"transitions":                   trans,
		"traces_validated_against_impl": r.traces,
		"tlc":                           r.tlc,
		"exhaustive":                    r.Exhaustive,
	}
	if r.Explanation != "" {
		cov["explanation"] = r.Explanation
	}
	if r.CheckerCmd != "" {
		cov["checker_cmd"] = r.CheckerCmd
	}
	if len(r.knownHit) > 0 {
		cov["known_findings_absorbed"] = r.knownHit
	}
	if len(r.newSigs) > 0 {
		cov["new_violation_signatures"] = r.newSigs
	}
	for k, v := range r.Extra {
		cov[k] = v
	}
	nviol := 0
	for _, c := range r.newSigs {
		nviol += c
	}
	ev := map[string]any{
		"property_id": r.Prop,
		"tier":        r.Tier,
		"seed":        r.Seed,
		"level":       r.Level,
		"coverage":    cov,
		"assumptions": r.Assumptions,
		"wall_s":      round2(time.Since(r.start).Seconds()),
		"violations":  nviol,
	}
	if r.samples == nil {
		cov["samples"] = []any{}
	}
	if r.Assumptions == nil {
		ev["assumptions"] = []string{}
	}
	b, _ := json.MarshalIndent(ev, "", " ")
	evDir := "evidence"
	if strings.HasPrefix(r.Prop, "X") { // checks beyond the listed properties keep their records apart
		evDir = "evidence_extra"
	}
	_ = os.MkdirAll(filepath.Join(VerifDir, evDir), 0o755)
	if err := os.WriteFile(filepath.Join(VerifDir, evDir, r.Prop+".json"), append(b, '\n'), 0o644); err != nil {
		Fatalf("write evidence: %v", err)
	}
	// Known findings: one line each, for every listed finding that was reproduced.
	sigs := make([]string, 0, len(r.knownHit))
	for s := range r.knownHit {
		sigs = append(sigs, s)
	}
	sort.Strings(sigs)
	for _, s := range sigs {
		fmt.Printf("KNOWN-FINDING: property=%s %s :: %s (%d cases)\n", r.Prop, s, r.known[s].Text, r.knownHit[s])
	}
	if nviol == 0 {
		fmt.Printf("OK property=%s tier=%s evaluations=%d distinct_nontrivial=%d states=%d wall=%.1fs\n",
			r.Prop, r.Tier, r.evals, len(r.nontrivial), states, time.Since(r.start).Seconds())
		Cleanup()
		os.Exit(0)
	}
	dir := filepath.Join(VerifDir, "replays", r.Prop)
	_ = os.RemoveAll(dir) // replay files of earlier runs would only confuse
	_ = os.MkdirAll(dir, 0o755)
	seen := map[string]bool{}
	for _, v := range r.newViol {
		if seen[v.Sig] {
			continue
		}
		seen[v.Sig] = true
		rb, _ := json.MarshalIndent(map[string]any{"property": r.Prop, "tier": r.Tier, "seed": r.Seed, "violation": v}, "", " ")
		h := sha1.Sum(rb)
		p := filepath.Join(dir, hex.EncodeToString(h[:6])+".json")
		_ = os.WriteFile(p, rb, 0o644)
		fmt.Printf("VIOLATION property=%s replay=%s sig=%s clause=%s count=%d\n", r.Prop, p, v.Sig, v.Clause, r.newSigs[v.Sig])
	}
	Cleanup()
	os.Exit(1)
}

// JSON is a small helper for building sample values.
func JSON(v any) string {
	b, _ := json.Marshal(v)
	return string(b)
}

// ---------------------------------------------------------------------------
// child processes: work that can kill the process (fatal runtime errors, escaped panics, hangs) is run
// in a re-executed copy of the driver; the child exports what it covered and the parent merges it.

type exported struct {
	Evals      int64          `json:"evals"`
	Nontrivial []string       `json:"nontrivial"`
	Samples    []any          `json:"samples"`
	Traces     int64          `json:"traces"`
	NewViol    []Violation    `json:"new_viol"`
	NewSigs    map[string]int `json:"new_sigs"`
	KnownHit   map[string]int `json:"known_hit"`
	Extra      map[string]any `json:"extra"`
	TLC        []TLCStat      `json:"tlc"`
	Progress   string         `json:"progress"`
}

// Export writes the run's accumulated coverage to path (child side).
func (r *Run) Export(path string) {
	r.mu.Lock()
	defer r.mu.Unlock()
	e := exported{Evals: r.evals, Samples: r.samples, Traces: r.traces, NewViol: r.newViol, NewSigs: r.newSigs,
		KnownHit: r.knownHit, Extra: r.Extra, TLC: r.tlc}
	for k := range r.nontrivial {
		e.Nontrivial = append(e.Nontrivial, k)
	}
	b, _ := json.Marshal(e)
	if err := os.WriteFile(path, b, 0o644); err != nil {
		Fatalf("export: %v", err)
	}
}

// Merge adds a child's exported coverage (parent side).
func (r *Run) Merge(path string) bool {
	b, err := os.ReadFile(path)
	if err != nil {
		return false
	}
	var e exported
	if json.Unmarshal(b, &e) != nil {
		return false
	}
	r.mu.Lock()
	defer r.mu.Unlock()
	r.evals += e.Evals
	for _, k := range e.Nontrivial {
		r.nontrivial[k] = struct{}{}
	}
	for _, s := range e.Samples {
		if len(r.samples) < 6 {
			r.samples = append(r.samples, s)
		}
	}
	r.traces += e.Traces
	r.newViol = append(r.newViol, e.NewViol...)
	for k, v := range e.NewSigs {
		r.newSigs[k] += v
	}
	for k, v := range e.KnownHit {
		r.knownHit[k] += v
	}
	for k, v := range e.Extra {
		r.Extra[k] = v
	}
	r.tlc = append(r.tlc, e.TLC...)
	return true
}

// ChildResult describes how a re-executed driver ended.
type ChildResult struct {
	Merged   bool   // the child exported its coverage and it was merged
	Crashed  bool   // the child died with a Go runtime fatal error or an escaped panic
	TimedOut bool   // the child did not finish within the timeout
	Text     string // tail of the child's output
	Progress string // what the child was working on when it ended (contents of <out>.progress)
}

// RunChild re-executes the driver (VERIF_SELF) with args + [outfile], waits, merges the exported coverage.
func (r *Run) RunChild(args []string, outfile string, timeout time.Duration) ChildResult {
	self := os.Getenv("VERIF_SELF")
	if self == "" {
		self, _ = os.Executable()
	}
	cmd := exec.Command(self, append(args, outfile)...)
	var buf bytes.Buffer
	cmd.Stdout, cmd.Stderr = &buf, &buf
	if err := cmd.Start(); err != nil {
		Fatalf("start child: %v", err)
	}
	done := make(chan error, 1)
	go func() { done <- cmd.Wait() }()
	var res ChildResult
	var err error
	select {
	case err = <-done:
	case <-time.After(timeout):
		_ = cmd.Process.Kill()
		<-done
		res.TimedOut = true
	}
	res.Merged = r.Merge(outfile)
	os.Remove(outfile)
	if p, e := os.ReadFile(outfile + ".progress"); e == nil {
		res.Progress = string(p)
		os.Remove(outfile + ".progress")
	}
	text := buf.String()
	if len(text) > 4000 {
		text = text[:2000] + "\n...\n" + text[len(text)-2000:]
	}
	res.Text = text
	if err != nil && !res.TimedOut {
		full := buf.String()
		if strings.Contains(full, "fatal error:") || strings.Contains(full, "panic:") || strings.Contains(full, "goroutine ") {
			res.Crashed = true
		} else {
			Fatalf("child %v failed: %v\n%s", args, err, text)
		}
	}
	return res
}

// CrashLine extracts the "fatal error:" / "panic:" line of a Go crash report.
func CrashLine(s string) string {
	for _, l := range strings.Split(s, "\n") {
		if strings.HasPrefix(l, "fatal error:") || strings.HasPrefix(l, "panic:") {
			if len(l) > 90 {
				l = l[:90]
			}
			return strings.ReplaceAll(l, " ", "_")
		}
	}
	return "unknown"
}
