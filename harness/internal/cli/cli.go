// Package cli builds the gosqlx command-line binary from the working tree and runs it in scratch
// directories, optionally under strace (recording / fault injection) or a file-size limit.
package cli

import (
	"bufio"
	"bytes"
	"fmt"
	"os"
	"os/exec"
	"os/signal"
	"path/filepath"
	"regexp"
	"strconv"
	"strings"
	"syscall"
	"time"

	"verif/internal/core"
)

// Build compiles cmd/gosqlx of the repository under verification and returns the binary's path.
func Build(dir string) string {
	out := filepath.Join(dir, "gosqlx")
	cmd := exec.Command("go", "build", "-o", out, "./cmd/gosqlx")
	cmd.Dir = core.RepoDir
	cmd.Env = append(os.Environ(), "GOFLAGS=-mod=mod", "GOPROXY=off", "GOSUMDB=off", "GOTOOLCHAIN=local")
	if b, err := cmd.CombinedOutput(); err != nil {
		core.Fatalf("building cmd/gosqlx from %s failed: %v\n%s", core.RepoDir, err, b)
	}
	return out
}

// MaybeExecHelper implements `<self> --fsize-exec <bytes> <cmd> <args...>`: sets RLIMIT_FSIZE, makes
// SIGXFSZ ignored (so that the write fails with EFBIG after exactly <bytes> bytes instead of the
// process being killed) and execs the command. Call first thing in main.
func MaybeExecHelper() {
	if len(os.Args) > 3 && os.Args[1] == "--fsize-exec" {
		n, err := strconv.ParseUint(os.Args[2], 10, 64)
		if err != nil {
			os.Exit(97)
		}
		signal.Ignore(syscall.SIGXFSZ)
		lim := syscall.Rlimit{Cur: n, Max: n}
		if err := syscall.Setrlimit(syscall.RLIMIT_FSIZE, &lim); err != nil {
			fmt.Fprintln(os.Stderr, "setrlimit:", err)
			os.Exit(97)
		}
		err = syscall.Exec(os.Args[3], os.Args[3:], os.Environ())
		fmt.Fprintln(os.Stderr, "exec:", err)
		os.Exit(97)
	}
}

// Opts describes one run of the binary.
type Opts struct {
	Bin    string
	Dir    string
	Args   []string
	Stdin  string
	Fsize  int64  // >= 0: RLIMIT_FSIZE in bytes
	Strace bool   // record system calls
	Inject string // strace -e inject=... expression (implies Strace)
	Env    []string // further environment variables
}

// Syscall is one parsed strace line.
type Syscall struct {
	Name   string
	Args   string
	Ret    int64
	RetStr string
	Path   string // first quoted string argument
	Fd     int    // first integer argument, -1 if none
}

// Result of a run.
type Result struct {
	Exit   int
	Killed bool
	Stdout string
	Stderr string
	Calls  []Syscall
}

var useFsize = true

// Run executes the binary.
func Run(o Opts) Result {
	args := []string{}
	var tracefile string
	if o.Inject != "" {
		o.Strace = true
	}
	if o.Strace {
		f, err := os.CreateTemp("", "verif-strace-")
		if err != nil {
			core.Fatalf("temp: %v", err)
		}
		tracefile = f.Name()
		f.Close()
		defer os.Remove(tracefile)
		args = append(args, "strace", "-f", "-o", tracefile, "-s", "0",
			"-e", "trace=openat,open,creat,write,pwrite64,writev,close,rename,renameat,renameat2,ftruncate,truncate,unlink,unlinkat,fsync,fdatasync,fchmod,fchmodat,chmod,link,linkat")
		if o.Inject != "" {
			args = append(args, "-e", "inject="+o.Inject)
		}
	}
	if o.Fsize >= 0 && useFsize {
		self, _ := os.Executable()
		args = append(args, self, "--fsize-exec", strconv.FormatInt(o.Fsize, 10))
	}
	args = append(args, o.Bin)
	args = append(args, o.Args...)
	cmd := exec.Command(args[0], args[1:]...)
	cmd.Dir = o.Dir
	cmd.Stdin = strings.NewReader(o.Stdin)
	cmd.Env = append(append(os.Environ(), "NO_COLOR=1", "HOME="+o.Dir), o.Env...)
	var so, se bytes.Buffer
	cmd.Stdout, cmd.Stderr = &so, &se
	done := make(chan error, 1)
	if err := cmd.Start(); err != nil {
		core.Fatalf("start %v: %v", args, err)
	}
	go func() { done <- cmd.Wait() }()
	select {
	case <-done:
	case <-time.After(60 * time.Second):
		_ = cmd.Process.Kill()
		<-done
		core.Fatalf("command did not finish within 60 s: %v", args)
	}
	r := Result{Stdout: so.String(), Stderr: se.String()}
	if ws, ok := cmd.ProcessState.Sys().(syscall.WaitStatus); ok {
		if ws.Signaled() {
			r.Killed = true
			r.Exit = 128 + int(ws.Signal())
		} else {
			r.Exit = ws.ExitStatus()
		}
	}
	if r.Exit == 97 {
		core.Fatalf("exec helper failed: %s", r.Stderr)
	}
	if o.Strace {
		r.Calls = parseStrace(tracefile)
		for _, c := range r.Calls {
			if c.Name == "+++killed" {
				r.Killed = true
			}
		}
	}
	return r
}

var (
	reLine    = regexp.MustCompile(`^(\d+)\s+(\w+)\((.*)\)\s+=\s+(-?\d+|\?)(.*)$`)
	reResumed = regexp.MustCompile(`^(\d+)\s+<\.\.\. (\w+) resumed>(.*)\)\s+=\s+(-?\d+|\?)(.*)$`)
	reUnfin   = regexp.MustCompile(`^(\d+)\s+(\w+)\((.*) <unfinished \.\.\.>$`)
	reQuoted  = regexp.MustCompile(`"((?:[^"\\]|\\.)*)"`)
	reFirstFd = regexp.MustCompile(`^(\d+)[,)]?`)
)

func parseStrace(path string) []Syscall {
	f, err := os.Open(path)
	if err != nil {
		core.Fatalf("strace output: %v", err)
	}
	defer f.Close()
	var out []Syscall
	pending := map[string]string{} // pid -> args of unfinished call
	sc := bufio.NewScanner(f)
	sc.Buffer(make([]byte, 1<<20), 1<<26)
	mainPid := ""
	for sc.Scan() {
		line := sc.Text()
		if mainPid == "" {
			if i := strings.IndexByte(line, ' '); i > 0 {
				mainPid = line[:i]
			}
		}
		if strings.Contains(line, "+++ killed by") {
			out = append(out, Syscall{Name: "+++killed"})
			continue
		}
		if m := reUnfin.FindStringSubmatch(line); m != nil {
			pending[m[1]+m[2]] = m[3]
			continue
		}
		var name, args, ret, rest string
		if m := reResumed.FindStringSubmatch(line); m != nil {
			name, ret, rest = m[2], m[4], m[5]
			args = pending[m[1]+m[2]] + m[3]
			delete(pending, m[1]+m[2])
		} else if m := reLine.FindStringSubmatch(line); m != nil {
			name, args, ret, rest = m[2], m[3], m[4], m[5]
		} else {
			continue
		}
		c := Syscall{Name: name, Args: args, RetStr: ret + rest, Fd: -1}
		if ret == "?" {
			c.Ret = -2
		} else {
			c.Ret, _ = strconv.ParseInt(ret, 10, 64)
		}
		if q := reQuoted.FindStringSubmatch(args); q != nil {
			c.Path = q[1]
		}
		if m := reFirstFd.FindStringSubmatch(args); m != nil {
			c.Fd, _ = strconv.Atoi(m[1])
		}
		out = append(out, c)
	}
	return out
}

// FileEvents abstracts the system calls of a run that concern the target file (relative or absolute
// path `target` inside dir) or temporary files created in its directory into the events of
// CliWriteTrace.tla. newLen is the length of the expected new content.
func FileEvents(calls []Syscall, dir, target string) []map[string]any {
	var ev []map[string]any
	abs := func(p string) string {
		if p == "" {
			return ""
		}
		if !filepath.IsAbs(p) {
			p = filepath.Join(dir, p)
		}
		return filepath.Clean(p)
	}
	tpath := abs(target)
	tdir := filepath.Dir(tpath)
	fdKind := map[int]string{} // fd -> "target" | "tmp"
	tmpPath := map[string]bool{}
	// Temporary files have random names; one that is later renamed onto a different file of the same
	// directory belongs to that file's rewrite, not to this target's.
	foreign := map[string]bool{}
	for _, c := range calls {
		if c.Name == "rename" || c.Name == "renameat" || c.Name == "renameat2" {
			qs := reQuoted.FindAllStringSubmatch(c.Args, -1)
			if len(qs) >= 2 && abs(qs[len(qs)-1][1]) != tpath {
				foreign[abs(qs[0][1])] = true
			}
		}
	}
	for _, c := range calls {
		switch c.Name {
		case "openat", "open", "creat":
			p := abs(c.Path)
			write := strings.Contains(c.Args, "O_WRONLY") || strings.Contains(c.Args, "O_RDWR") || c.Name == "creat"
			if c.Ret < 0 && c.Ret != -2 {
				continue
			}
			if p == tpath {
				if write {
					fdKind[int(c.Ret)] = "target"
					if strings.Contains(c.Args, "O_TRUNC") || c.Name == "creat" {
						ev = append(ev, map[string]any{"ev": "open_trunc"})
					} else {
						ev = append(ev, map[string]any{"ev": "open_write"})
					}
				} else {
					delete(fdKind, int(c.Ret))
				}
			} else if write && filepath.Dir(p) == tdir && strings.Contains(c.Args, "O_CREAT") && !strings.HasSuffix(p, ".sql") && !foreign[p] {
				fdKind[int(c.Ret)] = "tmp"
				tmpPath[p] = true
				ev = append(ev, map[string]any{"ev": "create_tmp"})
			} else {
				delete(fdKind, int(c.Ret))
			}
		case "write", "pwrite64", "writev":
			if k, ok := fdKind[c.Fd]; ok {
				n := int64(-1)
				parts := strings.Split(c.Args, ",")
				if c.Name == "write" && len(parts) >= 3 {
					n, _ = strconv.ParseInt(strings.TrimSpace(parts[len(parts)-1]), 10, 64)
				} else if c.Name == "pwrite64" && len(parts) >= 4 {
					n, _ = strconv.ParseInt(strings.TrimSpace(parts[len(parts)-2]), 10, 64)
				}
				ev = append(ev, map[string]any{"ev": "write", "file": k, "n": n, "ret": c.Ret})
			}
		case "close":
			if k, ok := fdKind[c.Fd]; ok {
				ev = append(ev, map[string]any{"ev": "close", "file": k})
				delete(fdKind, c.Fd)
			}
		case "fsync", "fdatasync":
			if _, ok := fdKind[c.Fd]; ok {
				ev = append(ev, map[string]any{"ev": "sync"})
			}
		case "fchmod":
			if _, ok := fdKind[c.Fd]; ok {
				ev = append(ev, map[string]any{"ev": "chmod"})
			}
		case "chmod", "fchmodat":
			if p := abs(c.Path); tmpPath[p] {
				ev = append(ev, map[string]any{"ev": "chmod"})
			}
		case "ftruncate":
			if k, ok := fdKind[c.Fd]; ok && k == "target" {
				ev = append(ev, map[string]any{"ev": "open_trunc"})
			}
		case "truncate":
			if abs(c.Path) == tpath {
				ev = append(ev, map[string]any{"ev": "open_trunc"})
			}
		case "rename", "renameat", "renameat2":
			qs := reQuoted.FindAllStringSubmatch(c.Args, -1)
			if len(qs) >= 2 && abs(qs[len(qs)-1][1]) == tpath && c.Ret == 0 {
				if tmpPath[abs(qs[0][1])] {
					ev = append(ev, map[string]any{"ev": "rename"})
					delete(tmpPath, abs(qs[0][1]))
				} else {
					ev = append(ev, map[string]any{"ev": "rename_foreign"})
				}
			}
		case "unlink", "unlinkat":
			p := abs(c.Path)
			if tmpPath[p] && c.Ret == 0 {
				ev = append(ev, map[string]any{"ev": "unlink_tmp"})
				delete(tmpPath, p)
			} else if p == tpath && c.Ret == 0 {
				ev = append(ev, map[string]any{"ev": "unlink_target"})
			}
		}
	}
	return ev
}
