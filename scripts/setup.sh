#!/bin/sh
# Builds every driver once (warms the Go build cache); run in /verif after a fresh restore, offline.
export GOFLAGS=-mod=mod GOPROXY=off GOSUMDB=off GOTOOLCHAIN=local
cd "$(dirname "$0")/../harness" || exit 1
cp "${VERIF_REPO:-/repo}/go.sum" go.sum
mkdir -p ../bin ../evidence
for d in cmd/*/; do
  ls "$d"*.go >/dev/null 2>&1 || continue
  n=$(basename "$d")
  go build -tags verif -o "../bin/$n" "./cmd/$n" || exit 1
done
echo "setup ok"
