#!/usr/bin/env python3
"""Prints the prompt for an independent mutation-seeding sub-agent: property text only."""
import json, sys
pid, wt, out = sys.argv[1], sys.argv[2], sys.argv[3]
hint = sys.argv[4] if len(sys.argv) > 4 else ''
p = [json.loads(l) for l in open('/verif/properties.jsonl') if json.loads(l)['id'] == pid][0]
print(f"""You are helping to evaluate a verification effort for the Go library ajitpratap0/GoSQLX (a SQL tokenizer/parser/formatter/linter/LSP toolkit).
A git worktree of the repository is at {wt} (work ONLY there; never touch /repo or /verif, do not read anything under /verif).
Shell setup for every command: export GOFLAGS=-mod=mod GOPROXY=off GOSUMDB=off GOTOOLCHAIN=local   (no network is available).

Here is a semantic property the library is supposed to satisfy:

  Title: {p['title']}
  Statement: {p['statement']}
  Quantified over: {p['quantifier']['text']}

Your task: produce ONE realistic change to the library's non-test source code (the kind of slip a maintainer could make in a refactor, optimisation or feature commit - not sabotage that is obvious at a glance) that BREAKS this property, while
  (a) the repository still compiles (`go build ./...` and `go vet` not required, but `go build ./... && go build -tags verif ./...` must pass),
  (b) the existing test suite still passes: run `cd {wt} && go test -vet=off -count=1 ./... 2>&1 | tail -40` and confirm that the only failures, if any, are TestValidator_PermissionDenied and TestValidateInputFile_NoReadPermissions (those two fail in this sandbox regardless, because it runs as root),
  (c) the breakage needs something specific to manifest - a particular interleaving, a fault at a particular point, a multi-step sequence of operations, an unusual input shape, or two cooperating sites that each look fine alone - rather than being exposed by ordinary use at once.
{hint}
Never use `git stash` (the stash is shared between worktrees and other people work in sibling worktrees): to test the unmodified source use `git diff > /tmp/x.diff; git apply -R /tmp/x.diff; ...; git apply /tmp/x.diff`.
Do not edit or add *_test.go files in the change itself, and do not touch files whose name starts with verif_ or lines that call functions whose name starts with verif (they are instrumentation).

Deliverables, all written into the directory {out} (create it):
  1. patch.diff  - `git -C {wt} diff` of your change (only the library change, no demo files).
  2. a demonstration: either demo_test.go (a Go test file, state at the top in a comment which package directory it must be copied into) or demo/main.go (a small program using module path github.com/ajitpratap0/GoSQLX, runnable with `go run` from inside the worktree), which FAILS (non-zero exit / test failure) with your change applied and PASSES without it. Verify both directions yourself.
  3. notes.md - which part of the property it breaks, what exactly is needed for the breakage to manifest, and the commands you ran with their outcome.
When finished leave the worktree with your change applied and the demo files removed from it (they live in {out}). Report briefly what you changed.""")
