#!/bin/sh
# usage: scripts/run_all.sh [quick|thorough] [seed]   - runs every registered check in turn and prints one line per check
TIER="${1:-quick}"; SEED="${2:-1}"
cd "$(dirname "$0")/.."
for c in C01 C02 C03 C04 C05 C06 C07 C08 C09 C10 C11 C12 C13 C14 C15 C16 C17 C18 C19 C20; do
  START=$(date +%s)
  OUT=$(VERIF_SEED=$SEED ./check $c $TIER 2>&1); RC=$?
  END=$(date +%s)
  echo "$c rc=$RC $((END-START))s $(echo "$OUT" | grep -v '^KNOWN-FINDING' | tail -1 | cut -c1-160)"
done
