#!/bin/sh
# Checks beyond the listed properties (not registered in MANIFEST.json): same ./check interface, evidence in evidence_extra/.
# usage: scripts/extras.sh [quick|thorough]
cd "$(dirname "$0")/.."
TIER="${1:-quick}"
rc=0
for c in X01; do
  ./check $c $TIER || rc=$?
done
exit $rc
