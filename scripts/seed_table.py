#!/usr/bin/env python3
"""Rewrites the seeds table of DESIGN.md (between the SEEDS markers) from seeded/*/meta.json."""
import json, glob, re
rows = []
for d in sorted(glob.glob('/verif/seeded/*')):
    m = json.load(open(d + '/meta.json'))
    det = m['detected_by']
    how = 'strengthened' if 'after strengthening' in det else 'as built'
    chk = det.split(':')[0].replace('./check ', '').replace(' (as built)', '').replace(' after strengthening', '').strip()
    chk = re.sub(r'\s*\(.*', '', chk)
    s = m['summary'].replace('|', '/')
    rows.append('| %s | %s | %s | %s | %s |' % (m['id'], m['property'], s[:150] + ('…' if len(s) > 150 else ''), chk[:40], how))
table = '| seed | property | change (short) | caught by | how |\n|---|---|---|---|---|\n' + '\n'.join(rows) + '\n'
p = '/verif/DESIGN.md'
s = open(p).read()
a, b = '<!-- SEEDS-BEGIN -->\n', '<!-- SEEDS-END -->\n'
if a in s:
    i, j = s.index(a) + len(a), s.index(b)
    s = s[:i] + table + s[j:]
else:
    i = s.index('| seed | property | change (short) | caught by | how |')
    j = s.index('\nNot kept: c10a')
    s = s[:i] + a + table + b + s[j + 1:]
open(p, 'w').write(s)
print(len(rows), 'seeds')
