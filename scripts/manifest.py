#!/usr/bin/env python3
"""Generates MANIFEST.json from scripts/checks.json (one source of truth) and validates it."""
import json, os, subprocess, sys
here = os.path.dirname(os.path.abspath(__file__))
root = os.path.dirname(here)
spec = json.load(open(os.path.join(here, 'checks.json')))
props = [json.loads(l)['id'] for l in open(os.path.join(root, 'properties.jsonl'))]
checks = []
claimed = set()
for c in spec['checks']:
    pid = c['id']
    claimed.add(pid)
    checks.append({
        'property_id': pid,
        'quick_cmd': f'./check {pid} quick',
        'thorough_cmd': f'./check {pid} thorough',
        'evidence_file': f'/verif/evidence/{pid}.json',
        'replay_cmd_template': f'./check {pid} quick --replay {{path}}',
        'engine': 'tlc+go-conformance',
        'level_claimed': {'category': c['level'], 'text': c['text'], 'design_ref': c.get('design_ref', f'DESIGN.md §6 {pid}')},
        'level_note': c['note'],
        'technique': c['technique'],
    })
na = [{'property_id': p, 'reason': spec['not_applicable'].get(p, 'check not built yet in this round; no claim is made')} for p in props if p not in claimed]
hooks_commits = subprocess.run(['git', '-C', '/repo', 'log', '--format=%h %s', '--grep=^verif:'], capture_output=True, text=True).stdout.strip().splitlines()
m = {
    'version': 1,
    'setup_cmd': 'sh scripts/setup.sh',
    'hooks': {
        'guard': 'verif',
        'enable': 'go build -tags verif (the ./check wrapper builds every driver against /repo with -tags verif)',
        'baseline_off_cmd': 'sh scripts/baseline_off.sh',
        'source_commits': hooks_commits,
        'add_only': True,
    },
    'engines': [{'name': 'tlc+go-conformance', 'path': '/verif/harness', 'serves_properties': sorted(claimed),
                 'kind_free_text': 'explicit TLA+ specifications in /verif/spec checked by TLC; behaviours exported from TLC are replayed on the real code and traces of the real code are validated against the specifications'}],
    'checks': checks,
    'notes': spec.get('notes', ''),
    'not_applicable': na,
}
json.dump(m, open(os.path.join(root, 'MANIFEST.json'), 'w'), indent=1)
try:
    import jsonschema
    jsonschema.validate(m, json.load(open('/root/.vp/MANIFEST.schema.json')))
    print('MANIFEST.json valid;', len(checks), 'checks,', len(na), 'not_applicable')
except ImportError:
    print('MANIFEST.json written (jsonschema not importable here)')
