#!/bin/sh
# Re-applies every stored seeded change that still applies to the repository's HEAD and runs the quick check of its
# property against it: the check must report a violation (exit 1).  usage: scripts/seeds_recheck.sh [id ...]
# Works in scratch worktrees under /tmp, removed as soon as each seed is judged.
cd "$(dirname "$0")/.."
IDS="$*"; [ -n "$IDS" ] || IDS=$(ls seeded)
for id in $IDS; do
  [ -f seeded/$id/patch.diff ] || continue
  P=$(echo $id | cut -c1-3 | tr c C)
  WT=/tmp/wt_re_$id
  git -C /repo worktree add -q --detach $WT HEAD 2>/dev/null || { echo "$id worktree-failed"; continue; }
  if (cd $WT && git apply --check /verif/seeded/$id/patch.diff 2>/dev/null); then
    (cd $WT && git apply /verif/seeded/$id/patch.diff)
    OUT=$(VERIF_REPO=$WT ./check $P quick 2>&1); RC=$?
    echo "$id rc=$RC $(echo "$OUT" | grep -c '^VIOLATION') violations $(echo "$OUT" | grep '^VIOLATION' | head -1 | sed 's/.*sig=//' | cut -c1-90)"
  else
    echo "$id does-not-apply-to-HEAD"
  fi
  git -C /repo worktree remove --force $WT
done
