#!/bin/sh
# Runs the repository's pinned test suite with the verif build tag OFF and compares the set of
# passing tests with /root/.vp/BASELINE.json (stable_pass). Exit 0 iff every stable test passes.
export GOFLAGS=-mod=mod GOPROXY=off GOSUMDB=off GOTOOLCHAIN=local
REPO="${VERIF_REPO:-/repo}"
OUT="$(mktemp)"
trap 'rm -f "$OUT"' EXIT
(cd "$REPO" && go test -json -vet=off -count=1 -timeout 25m ./... > "$OUT" 2>/dev/null)
python3 - "$OUT" <<'PY'
import json, sys
base = json.load(open('/root/.vp/BASELINE.json'))
stable = set(base['stable_pass'])
passed = set()
failed = set()
for line in open(sys.argv[1], errors='replace'):
    try:
        e = json.loads(line)
    except Exception:
        continue
    if 'Test' not in e:
        continue
    k = e['Package'] + '::' + e['Test']
    if e.get('Action') == 'pass':
        passed.add(k)
    elif e.get('Action') == 'fail':
        failed.add(k)
missing = sorted(stable - passed)
print(f"baseline: stable={len(stable)} passed_now={len(passed)} failed_now={len(failed)} stable_missing={len(missing)}")
for m in missing[:40]:
    print("  MISSING", m)
for f in sorted(failed)[:20]:
    print("  FAILED" + (" (not in the stable set)" if f not in stable else ""), f)
sys.exit(1 if missing else 0)
PY
