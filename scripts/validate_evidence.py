#!/usr/bin/env python3
import json, sys, glob, jsonschema
s = json.load(open('/root/.vp/EVIDENCE.schema.json'))
bad = 0
for f in sorted(glob.glob('/verif/evidence/C*.json')):
    try:
        jsonschema.validate(json.load(open(f)), s); print('ok ', f)
    except Exception as e:
        bad += 1; print('BAD', f, str(e)[:300])
sys.exit(1 if bad else 0)
